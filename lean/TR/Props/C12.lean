import TR.Lemmas.Hedge
/-!
# C12 — hedge: bounded attempts, spaced starts, first success wins, all-failed only when all failed

Quantification of every theorem: every `max_hedged_attempts ≥ 1` (the builder clamps to ≥ 1),
every delay function `delay : Nat → Nat` in **microseconds** (fixed, zero, per-attempt, below one
millisecond or not; and, with `Cfg.never`, durations that cannot be added to an `Instant` at all —
`Duration::MAX` as a "never again" value — for any attempt: the timer armed with such a delay is never
due), every list of operations (any number of concurrent requests; every arrival,
poll, cancellation and time-advance order; every observed order of what simultaneously elapsed
timers set off — the theorems do not even need the order to be an allowed one), every per-attempt
script of latencies and outcomes (ok / error / panic / never), every readiness plan of the fresh
clones the hedges run on (ready at once, after a while, never).

`(c, cl) ∈ (run cfg ops).calls` reads "`cl` is the record of request `c` after `ops`";
`cl.attempts` are the attempts started so far (newest first) with their start instant (ms; the
instant the attempt's task was spawned), whether the task still waits for its clone to be ready
(`wait`), the instant their inner call is due, their scripted outcome and the instant their
completion was observed; `cl.result` is the instant and value of the result delivered to the caller.
-/
namespace TR.Props.C12
open TR TR.Hedge

/-- A hedged call starts at most `max_hedged_attempts` inner calls. -/
theorem starts_bounded (cfg : Cfg) (hmax : 1 ≤ cfg.max) (ops : List Op) (c : Nat) (cl : Call)
    (h : (c, cl) ∈ (run cfg ops).calls) : cl.attempts.length ≤ cfg.max := by
  have := (inv_reachable cfg hmax ops _ h).st.bound
  rwa [← length_eq_starts] at this

/-- Spacing, recursive form over the newest-first list of start instants (see `SpacedT`). -/
theorem starts_spaced (cfg : Cfg) (hmax : 1 ≤ cfg.max) (ops : List Op) (c : Nat) (cl : Call)
    (h : (c, cl) ∈ (run cfg ops).calls) : SpacedT cfg (starts cl) :=
  (inv_reachable cfg hmax ops _ h).st.spaced

/-- Spacing by attempt number (instants in ms, delays in µs): attempt `n + 1` is started no earlier
than `delay (n + 1)` after attempt `n` was started; only when `delay 1 = 0` — the duration itself is
zero, not merely shorter than the timer's resolution — (parallel mode, chosen once, as in the code)
all attempts are started at one instant. -/
theorem starts_spaced_indexed (cfg : Cfg) (hmax : 1 ≤ cfg.max) (ops : List Op) (c : Nat) (cl : Call)
    (h : (c, cl) ∈ (run cfg ops).calls) (n : Nat) (hn : n + 1 < cl.attempts.length) :
    if cfg.delay 1 = 0 then (startsAsc cl).getD (n + 1) 0 = (startsAsc cl).getD n 0
    else (startsAsc cl).getD n 0 * 1000 + cfg.delay (n + 1) ≤ (startsAsc cl).getD (n + 1) 0 * 1000 :=
  spaced_asc cfg (starts cl) (starts_spaced cfg hmax ops c cl h) n (by rwa [← length_eq_starts])

/-- A positive delay, however short (below the timer's resolution included), is a delay: outside
parallel mode (`delay 1 ≠ 0`) an attempt whose configured delay is positive is started strictly
later than its predecessor. -/
theorem positive_delay_separates (cfg : Cfg) (hmax : 1 ≤ cfg.max) (ops : List Op) (c : Nat) (cl : Call)
    (h : (c, cl) ∈ (run cfg ops).calls) (n : Nat) (hn : n + 1 < cl.attempts.length)
    (h1 : cfg.delay 1 ≠ 0) (hd : 0 < cfg.delay (n + 1)) :
    (startsAsc cl).getD n 0 < (startsAsc cl).getD (n + 1) 0 := by
  have := starts_spaced_indexed cfg hmax ops c cl h n hn
  rw [if_neg h1] at this
  omega

/-- A delay that cannot be added to an `Instant` (`Duration::MAX`, `Duration::from_secs(u64::MAX)`, …:
`cfg.never n`) is never due: outside parallel mode (`delay 1 ≠ 0`; in parallel mode the later delays are not
consulted at all) attempt number `n` is not started, nor any later one — the call never has more than the
attempts `0 … n-1`, whatever the operations and however far time advances. Nothing else changes for such a
call: every other theorem of this file quantifies over these configurations too — in particular
`first_success_at_once`/`success_is_queued`: while the timer for attempt `n` sleeps for ever, the call still
resolves with the first successful response of the attempts it has, at the next poll after it is available. -/
theorem never_due_not_started (cfg : Cfg) (hmax : 1 ≤ cfg.max) (ops : List Op) (c : Nat) (cl : Call)
    (h : (c, cl) ∈ (run cfg ops).calls) (h1 : cfg.delay 1 ≠ 0) (n : Nat) (hn : 1 ≤ n)
    (hv : cfg.never n = true) : cl.attempts.length ≤ n := by
  have hi := (inv_reachable cfg hmax ops _ h).st
  rw [length_eq_starts]
  by_cases hm : 1 < cfg.max
  · exact hi.nev hm h1 n hn hv
  · have hb : (starts cl).length ≤ cfg.max := hi.bound
    omega

/-- No attempt is started in the future, and every observed completion is at or after the instant
the inner call was due (`startAt + latency`) — the ghost instants mean what they say. -/
theorem instants_sound (cfg : Cfg) (hmax : 1 ≤ cfg.max) (ops : List Op) (c : Nat) (cl : Call)
    (h : (c, cl) ∈ (run cfg ops).calls) (a : Attempt) (ha : a ∈ cl.attempts) :
    a.startAt ≤ (run cfg ops).now ∧
    ∀ tf, a.fin = some tf → a.doneAt ≤ tf ∧ tf ≤ (run cfg ops).now ∧ a.out ≠ .never := by
  have hi := inv_reachable cfg hmax ops _ h
  exact ⟨hi.st.startLe _ (List.mem_map.mpr ⟨a, ha, rfl⟩), hi.ch.finOk a ha⟩

/-- A call that resolves with `ok:v` resolves with the response of one of **its own** attempts that
was scripted to succeed and had completed by then, and that attempt is the first successful one:
no other successful attempt of this call completed before it. -/
theorem first_success_wins (cfg : Cfg) (hmax : 1 ≤ cfg.max) (ops : List Op) (c : Nat) (cl : Call)
    (h : (c, cl) ∈ (run cfg ops).calls) (t v : Nat) (hr : cl.result = some (t, .ok v)) :
    ∃ a ∈ cl.attempts, a.k = v ∧ a.out = .ok ∧ ∃ tf, a.fin = some tf ∧ a.doneAt ≤ tf ∧ tf ≤ t ∧
      ∀ b ∈ cl.attempts, b.out = .ok → ∀ tb, b.fin = some tb → tf ≤ tb := by
  have hi := (inv_reachable cfg hmax ops _ h).rs
  have hp : cl.phase = .done := by
    apply Classical.byContradiction; intro hn
    rw [hi.noRes hn] at hr; cases hr
  obtain ⟨t', r', h1, _, _, h4⟩ := hi.res hp
  rw [hr] at h1; cases h1
  exact h4

/-- All-attempts-failed is reported only when every attempt the call can start
(`max_hedged_attempts` of them) has been started, every one of them has completed by then, and
none of them succeeded (each ended in an error or a panic). -/
theorem all_failed_only_when_all_failed (cfg : Cfg) (hmax : 1 ≤ cfg.max) (ops : List Op) (c : Nat)
    (cl : Call) (h : (c, cl) ∈ (run cfg ops).calls) (t x y : Nat)
    (hr : cl.result = some (t, .allFailed x y)) :
    cl.attempts.length = cfg.max ∧
    ∀ a ∈ cl.attempts, ∃ tf, a.fin = some tf ∧ tf ≤ t ∧ isFail a.out = true := by
  have hi := (inv_reachable cfg hmax ops _ h).rs
  have hp : cl.phase = .done := by
    apply Classical.byContradiction; intro hn
    rw [hi.noRes hn] at hr; cases hr
  obtain ⟨t', r', h1, _, _, h4⟩ := hi.res hp
  rw [hr] at h1; cases h1
  exact h4

/-- Nothing is started after the result: every attempt of a resolved call was started at or
before the instant of its result (and `no_start_when_finished` below: a finished call never
starts anything again, not even at that same instant). -/
theorem no_late_start (cfg : Cfg) (hmax : 1 ≤ cfg.max) (ops : List Op) (c : Nat) (cl : Call)
    (h : (c, cl) ∈ (run cfg ops).calls) (t : Nat) (r : Res) (hr : cl.result = some (t, r)) :
    ∀ a ∈ cl.attempts, a.startAt ≤ t := by
  have hi := (inv_reachable cfg hmax ops _ h).rs
  have hp : cl.phase = .done := by
    apply Classical.byContradiction; intro hn
    rw [hi.noRes hn] at hr; cases hr
  obtain ⟨t', r', h1, _, h3, _⟩ := hi.res hp
  rw [hr] at h1; cases h1
  intro a ha
  exact h3 _ (List.mem_map.mpr ⟨a, ha, rfl⟩)

/-- A finished call (resolved or dropped) never starts anything again: whatever the next
operation is, from **any** state, its start instants, phase and result are unchanged. Together
with `no_late_start` this is "nothing is started after the result (or the cancellation)". -/
theorem no_start_when_finished (cfg : Cfg) (s : State) (op : Op) (c : Nat) (cl : Call)
    (h : lookup s.calls c = some cl) (hf : cl.phase = .done ∨ cl.phase = .dropped) :
    ∃ cl', lookup (stepS cfg s op).calls c = some cl' ∧ cl'.phase = cl.phase ∧
      starts cl' = starts cl ∧ cl'.result = cl.result :=
  stepS_frozen cfg s op c cl h hf

/-- "As soon as it is available": if a call that is still waiting has a successful response in
its result channel, the very next poll of that call resolves it, with the **first** success in the
channel (errors queued before it are skipped, later successes ignored), at the current instant. -/
theorem first_success_at_once (cfg : Cfg) (hmax : 1 ≤ cfg.max) (ops : List Op) (c : Nat) (cl : Call)
    (h : lookup (run cfg ops).calls c = some cl) (hl : live cl.phase = true) (m : Attempt)
    (hm : cl.chan.find? (fun a => decide (a.out = .ok)) = some m) :
    (∃ cl', lookup (stepS cfg (run cfg ops) (.poll c)).calls c = some cl' ∧
        cl'.result = some ((run cfg ops).now, .ok m.k)) ∧
    (stepS cfg (run cfg ops) (.poll c)).log = (run cfg ops).log ++ [.result c (.ok m.k)] := by
  obtain ⟨c', hmem⟩ := lookup_mem h
  have hi := inv_reachable cfg hmax ops _ hmem
  obtain ⟨r1, r2⟩ := pollCall_first_ok (cfg := cfg) (now := (run cfg ops).now) c
    (w := { cl := cl, serial := (run cfg ops).serial }) hi hl m hm
  show (∃ cl', lookup (pollS cfg (run cfg ops) c).calls c = some cl' ∧ _) ∧
    (pollS cfg (run cfg ops) c).log = _
  unfold pollS
  rw [h]
  refine ⟨⟨_, ?_, r1⟩, ?_⟩
  · show lookup (setCall (run cfg ops).calls c _) c = _
    rw [lookup_setCall, h]; simp
  · show (run cfg ops).log ++ _ = _
    rw [r2]; rfl

/-- A completed successful attempt of a waiting call **is** in its channel (so "available" in
`first_success_at_once` means "completed"), the channel is in completion order, and before the
result no success has been received yet. -/
theorem success_is_queued (cfg : Cfg) (hmax : 1 ≤ cfg.max) (ops : List Op) (c : Nat) (cl : Call)
    (h : (c, cl) ∈ (run cfg ops).calls) (hl : live cl.phase = true) :
    (∀ a ∈ cl.attempts, a.out = .ok → a.fin.isSome = true → a ∈ cl.chan) ∧
    cl.chan.Pairwise (fun x y => finT x ≤ finT y) ∧
    (∀ m ∈ cl.recvd, isErr m.out = true) := by
  have hi := (inv_reachable cfg hmax ops _ h).ch
  exact ⟨hi.okIn hl, hi.sorted, hi.recvdErr hl⟩

/-- The ghost list of attempts is the event log: for every request id, the serials of its
`inner_call` events in the log are exactly the serials of its attempts that have called the inner
service (nothing else ever calls the inner service on its behalf). A permutation: a hedge whose
clone needs a while to become ready may call after a later hedge whose clone is ready at once. -/
theorem log_matches_attempts (cfg : Cfg) (ops : List Op) (c : Nat) :
    (callsOf c (run cfg ops).log).Perm (match lookup (run cfg ops).calls c with
      | some cl => serialsAsc cl
      | none => []) :=
  loginv_reachable cfg ops c

/-- Request ids are unique, so "`cl` is the record of request `c`" can be read either way. -/
theorem record_unique (cfg : Cfg) (ops : List Op) (c : Nat) (cl : Call) :
    (c, cl) ∈ (run cfg ops).calls ↔ lookup (run cfg ops).calls c = some cl :=
  mem_iff_lookup_of_nodup (keys_nodup_reachable cfg ops) c cl

/-- `starts_bounded` in the property's own observables: in the event log, at most
`max_hedged_attempts` `inner_call` events carry the id of any one request. -/
theorem starts_bounded_trace (cfg : Cfg) (hmax : 1 ≤ cfg.max) (ops : List Op) (c : Nat) :
    (callsOf c (run cfg ops).log).length ≤ cfg.max := by
  rw [(log_matches_attempts cfg ops c).length_eq]
  cases hl : lookup (run cfg ops).calls c with
  | none => exact Nat.zero_le _
  | some cl =>
    have := starts_bounded cfg hmax ops c cl ((record_unique cfg ops c cl).mpr hl)
    have hle : (cl.attempts.filter isCalled).length ≤ cl.attempts.length := List.length_filter_le _ _
    simp only [serialsAsc, List.length_reverse, List.length_map]
    omega

/-! ## non-vacuity: concrete histories -/

/-- fixed delay of `d` milliseconds -/
def fixed (mx d : Nat) : Cfg := { max := mx, delay := fun _ => d * 1000 }

/-- The witness of the defect that was repaired (delay 10 ms, 2 attempts, primary ok at 100 ms, the
hedge fails at once): the call stays pending after the hedge's error and resolves with the
primary's response at 100 ms. -/
example :
    let ops := [Op.arrive 1 [⟨100, .ok⟩, ⟨0, .err 1⟩], .poll 1, .adv 10 [], .poll 1, .poll 1]
    (lookup (run (fixed 2 10) ops).calls 1).map (fun cl => (cl.phase, cl.errors, cl.attempts.length))
      = some (.latency, 1, 2) ∧
    (lookup (run (fixed 2 10) (ops ++ [.adv 90 [0], .poll 1])).calls 1).map (·.result)
      = some (some (100, .ok 0)) := by decide

/-- Three attempts, all failing, hedges 10 ms apart although the primary fails at 2 ms:
all-attempts-failed (carrying the primary's error) only at 20 ms, after the third failure. -/
example :
    let ops := [Op.arrive 1 [⟨2, .err 1⟩, ⟨5, .err 2⟩, ⟨0, .err 3⟩], .poll 1, .adv 2 [0], .poll 1,
                .adv 8 [], .poll 1, .adv 5 [1], .poll 1, .adv 5 [], .poll 1, .poll 1]
    (lookup (run (fixed 3 10) ops).calls 1).map (fun cl => (cl.result, starts cl))
      = some (some (20, .allFailed 1 0), [20, 10, 0]) := by decide

/-- Parallel mode with a tie: three attempts at once, completing at one instant in the observed
order 1, 0, 2; the first delivered success (attempt 1) wins although attempt 2 also succeeded. -/
example :
    let ops := [Op.arrive 7 [⟨5, .err 1⟩, ⟨5, .ok⟩, ⟨5, .ok⟩], .poll 7, .adv 5 [1, 0, 2], .poll 7]
    (lookup (run (fixed 3 0) ops).calls 7).map (fun cl => (cl.result, starts cl))
      = some (some (5, .ok 1), [0, 0, 0]) := by decide

/-- `first_success_at_once` is not vacuous: an error and then a success are queued for a call in
latency mode (the third attempt not even started); the next poll skips the error and resolves
with the success. Also `log_matches_attempts` on the same history. -/
example :
    let ops := [Op.arrive 1 [⟨30, .ok⟩, ⟨5, .err 2⟩, ⟨20, .ok⟩], .poll 1, .adv 10 [], .poll 1, .adv 5 [1],
                .adv 15 [0]]
    (lookup (run (fixed 3 10) ops).calls 1).map
        (fun cl => (live cl.phase, cl.chan.map (·.k), (cl.chan.find? (fun a => decide (a.out = .ok))).map (·.k)))
      = some (true, [1, 0], some 0) ∧
    (lookup (run (fixed 3 10) (ops ++ [.poll 1])).calls 1).map (·.result) = some (some (30, .ok 0)) ∧
    callsOf 1 (run (fixed 3 10) ops).log = [0, 1] := by decide

/-- A first delay below one millisecond is a delay, not parallel mode: per-attempt delays 500 µs,
then 400 ms; the first hedge is started when the (millisecond) timer fires, at 1 ms, the second one
400 ms after it — not all three at once. -/
example :
    let cfg : Cfg := { max := 3, delay := fun n => if n = 1 then 500 else 400000 }
    let ops := [Op.arrive 1 [⟨700, .ok⟩, ⟨700, .ok⟩, ⟨700, .ok⟩], .poll 1, .poll 1, .adv 1 [], .poll 1,
                .adv 399 [], .poll 1, .adv 1 [], .poll 1]
    (lookup (run cfg ops).calls 1).map (fun cl => (cl.phase, starts cl)) = some (.latency, [401, 1, 0]) := by
  decide

/-- `first_success_at_once` with a hedge whose clone is not ready: delay 10 ms, the hedge's clone needs
50 ms, the primary succeeds at 30 ms. The hedge is started at 10 ms (it counts, it waits), the
primary's success is queued at 30 ms while the clone is still warming up, and the poll at 30 ms
resolves the call with it; the clone becomes ready at 60 ms and the detached task calls then. -/
example :
    let ops := [Op.arrive 1 [⟨30, .ok⟩, ⟨5, .ok⟩] [some 50], .poll 1, .adv 10 [], .poll 1, .adv 20 [0]]
    (lookup (run (fixed 2 10) ops).calls 1).map
        (fun cl => (live cl.phase, cl.attempts.map (fun a => (a.idx, a.startAt, a.wait)), cl.chan.map (·.k)))
      = some (true, [(1, 10, .till 60), (0, 0, .no)], [0]) ∧
    (lookup (run (fixed 2 10) (ops ++ [.poll 1])).calls 1).map (·.result) = some (some (30, .ok 0)) ∧
    callsOf 1 (run (fixed 2 10) (ops ++ [.poll 1, .adv 40 [.rdy 1 1]])).log = [0, 1] := by decide

/-- Calls need not come in attempt order (why `log_matches_attempts` is a permutation): hedge 1 waits
20 ms for its clone, hedge 2's clone is ready at once, so attempt 2 makes the second inner call
(serial 1, second script step) and attempt 1 the third. -/
example :
    let ops := [Op.arrive 1 [⟨100, .ok⟩, ⟨7, .err 1⟩, ⟨3, .ok⟩] [some 20, some 0], .poll 1, .adv 10 [], .poll 1,
                .adv 10 [], .poll 1, .adv 10 [.done 1, .rdy 1 1]]
    (lookup (run (fixed 3 10) ops).calls 1).map (fun cl => cl.attempts.map (fun a => (a.idx, a.k, a.startAt, a.out)))
      = some [(2, 1, 20, .err 1), (1, 2, 10, .ok), (0, 0, 0, .ok)] := by decide

/-- "Hedge once after 20 ms, then never again" (`delay_fn`: 20 ms, then `Duration::MAX`; 3 attempts allowed):
the hedge is started at 20 ms; the third attempt's timer is never due — it is not started at 40 ms, nor a year
later while the call is still being polled — and the call resolves with the primary's response as soon as it
is available (150 ms), at that poll. -/
example :
    let cfg : Cfg := { max := 3, delay := fun n => if n = 1 then 20000 else (2 ^ 64 - 1) * 1000000 + 999999,
                       never := fun n => n ≠ 1 }
    let ops := [Op.arrive 1 [⟨150, .ok⟩, ⟨150, .ok⟩, ⟨150, .ok⟩], .poll 1, .adv 20 [], .poll 1, .adv 20 [], .poll 1]
    (lookup (run cfg ops).calls 1).map (fun cl => (cl.phase, starts cl)) = some (.latency, [20, 0]) ∧
    (lookup (run cfg (ops ++ [.adv 31536000000 [0, 1], .poll 1])).calls 1).map (fun cl => starts cl) = some [20, 0] ∧
    (lookup (run cfg (ops ++ [.adv 110 [0], .poll 1])).calls 1).map (fun cl => (cl.result, starts cl))
      = some (some (150, .ok 0), [20, 0]) := by decide

/-- … while in parallel mode (first delay zero) the later delays are not consulted: `delay_fn` 0, then
`Duration::MAX`: all three attempts are started at once. -/
example :
    let cfg : Cfg := { max := 3, delay := fun n => if n = 1 then 0 else (2 ^ 64 - 1) * 1000000 + 999999,
                       never := fun n => n ≠ 1 }
    (lookup (run cfg [Op.arrive 1 [⟨5, .ok⟩], .poll 1]).calls 1).map (fun cl => starts cl) = some [0, 0, 0] := by decide

end TR.Props.C12
