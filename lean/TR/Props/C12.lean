import TR.Lemmas.HedgeLog
/-!
# C12 — hedge: bounded attempts, spaced starts, first success wins, all-failed only when all failed

Quantification of every theorem: every `max_hedged_attempts ≥ 1` (the builder clamps to ≥ 1),
every delay function `delay : Nat → Nat` in **microseconds** (fixed, zero, per-attempt, below one
millisecond or not; and, with `Cfg.never`, durations that cannot be added to an `Instant` at all —
`Duration::MAX` as a "never again" value — for any attempt: the timer armed with such a delay is never
due), every list of operations (any number of concurrent requests; every arrival,
poll, cancellation and time-advance order; every observed order of what simultaneously elapsed
timers set off — the theorems do not even need the order to be an allowed one), every per-attempt
script of latencies and outcomes (ok / error / panic / never), every readiness plan of the fresh
clones the hedges run on (ready at once, after a while, never).

`(c, cl) ∈ (run cfg ops).calls` reads "`cl` is the record of request `c` after `ops`";
`cl.attempts` are the attempts started so far (newest first) with their start instant (ms; the
instant the attempt's task was spawned), whether the task still waits for its clone to be ready
(`wait`), the instant their inner call is due, their scripted outcome and the instant their
completion was observed; `cl.result` is the instant and value of the result delivered to the caller.

These are ghost variables of the model. The section "the clauses over the timestamped event log" ties each of them to
its line of `trace cfg ops` — the event log with its instants, which is what the correspondence check compares with
the implementation's log (`result_line_iff_result`, `done_line_iff_completion`, `start_instant_is_in_the_log`,
`call_line_is_an_attempt`) — and restates the clauses of the property over that log alone (`calls_bounded_log`,
`starts_spaced_log` / `starts_spaced_marks`, `first_success_wins_log`, `all_failed_only_after_all_failed_log`,
`one_result_per_call` / `one_result_per_caller`); the section "a panicking attempt" says what the model — and, sampled,
the code — does with an outcome outside the property's quantifier.
-/
namespace TR.Props.C12
open TR TR.Hedge

/-- A hedged call starts at most `max_hedged_attempts` inner calls. -/
theorem starts_bounded (cfg : Cfg) (hmax : 1 ≤ cfg.max) (ops : List Op) (c : Nat) (cl : Call)
    (h : (c, cl) ∈ (run cfg ops).calls) : cl.attempts.length ≤ cfg.max := by
  have := (inv_reachable cfg hmax ops _ h).st.bound
  rwa [← length_eq_starts] at this

/-- Spacing, recursive form over the newest-first list of start instants (see `SpacedT`). -/
theorem starts_spaced (cfg : Cfg) (hmax : 1 ≤ cfg.max) (ops : List Op) (c : Nat) (cl : Call)
    (h : (c, cl) ∈ (run cfg ops).calls) : SpacedT cfg (starts cl) :=
  (inv_reachable cfg hmax ops _ h).st.spaced

/-- Spacing by attempt number (instants in ms, delays in µs): attempt `n + 1` is started no earlier
than `delay (n + 1)` after attempt `n` was started; only when `delay 1 = 0` — the duration itself is
zero, not merely shorter than the timer's resolution — (parallel mode, chosen once, as in the code)
all attempts are started at one instant. -/
theorem starts_spaced_indexed (cfg : Cfg) (hmax : 1 ≤ cfg.max) (ops : List Op) (c : Nat) (cl : Call)
    (h : (c, cl) ∈ (run cfg ops).calls) (n : Nat) (hn : n + 1 < cl.attempts.length) :
    if cfg.delay 1 = 0 then (startsAsc cl).getD (n + 1) 0 = (startsAsc cl).getD n 0
    else (startsAsc cl).getD n 0 * 1000 + cfg.delay (n + 1) ≤ (startsAsc cl).getD (n + 1) 0 * 1000 :=
  spaced_asc cfg (starts cl) (starts_spaced cfg hmax ops c cl h) n (by rwa [← length_eq_starts])

/-- A positive delay, however short (below the timer's resolution included), is a delay: outside
parallel mode (`delay 1 ≠ 0`) an attempt whose configured delay is positive is started strictly
later than its predecessor. -/
theorem positive_delay_separates (cfg : Cfg) (hmax : 1 ≤ cfg.max) (ops : List Op) (c : Nat) (cl : Call)
    (h : (c, cl) ∈ (run cfg ops).calls) (n : Nat) (hn : n + 1 < cl.attempts.length)
    (h1 : cfg.delay 1 ≠ 0) (hd : 0 < cfg.delay (n + 1)) :
    (startsAsc cl).getD n 0 < (startsAsc cl).getD (n + 1) 0 := by
  have := starts_spaced_indexed cfg hmax ops c cl h n hn
  rw [if_neg h1] at this
  omega

/-- A delay that cannot be added to an `Instant` (`Duration::MAX`, `Duration::from_secs(u64::MAX)`, …:
`cfg.never n`) is never due: outside parallel mode (`delay 1 ≠ 0`; in parallel mode the later delays are not
consulted at all) attempt number `n` is not started, nor any later one — the call never has more than the
attempts `0 … n-1`, whatever the operations and however far time advances. Nothing else changes for such a
call: every other theorem of this file quantifies over these configurations too — in particular
`first_success_at_once`/`success_is_queued`: while the timer for attempt `n` sleeps for ever, the call still
resolves with the first successful response of the attempts it has, at the next poll after it is available. -/
theorem never_due_not_started (cfg : Cfg) (hmax : 1 ≤ cfg.max) (ops : List Op) (c : Nat) (cl : Call)
    (h : (c, cl) ∈ (run cfg ops).calls) (h1 : cfg.delay 1 ≠ 0) (n : Nat) (hn : 1 ≤ n)
    (hv : cfg.never n = true) : cl.attempts.length ≤ n := by
  have hi := (inv_reachable cfg hmax ops _ h).st
  rw [length_eq_starts]
  by_cases hm : 1 < cfg.max
  · exact hi.nev hm h1 n hn hv
  · have hb : (starts cl).length ≤ cfg.max := hi.bound
    omega

/-- No attempt is started in the future, and every observed completion is at or after the instant
the inner call was due (`startAt + latency`) — the ghost instants mean what they say. -/
theorem instants_sound (cfg : Cfg) (hmax : 1 ≤ cfg.max) (ops : List Op) (c : Nat) (cl : Call)
    (h : (c, cl) ∈ (run cfg ops).calls) (a : Attempt) (ha : a ∈ cl.attempts) :
    a.startAt ≤ (run cfg ops).now ∧
    ∀ tf, a.fin = some tf → a.doneAt ≤ tf ∧ tf ≤ (run cfg ops).now ∧ a.out ≠ .never := by
  have hi := inv_reachable cfg hmax ops _ h
  exact ⟨hi.st.startLe _ (List.mem_map.mpr ⟨a, ha, rfl⟩), hi.ch.finOk a ha⟩

/-- A call that resolves with `ok:v` resolves with the response of one of **its own** attempts that
was scripted to succeed and had completed by then, and that attempt is the first successful one:
no other successful attempt of this call completed before it. -/
theorem first_success_wins (cfg : Cfg) (hmax : 1 ≤ cfg.max) (ops : List Op) (c : Nat) (cl : Call)
    (h : (c, cl) ∈ (run cfg ops).calls) (t v : Nat) (hr : cl.result = some (t, .ok v)) :
    ∃ a ∈ cl.attempts, a.k = v ∧ a.out = .ok ∧ ∃ tf, a.fin = some tf ∧ a.doneAt ≤ tf ∧ tf ≤ t ∧
      ∀ b ∈ cl.attempts, b.out = .ok → ∀ tb, b.fin = some tb → tf ≤ tb := by
  have hi := (inv_reachable cfg hmax ops _ h).rs
  have hp : cl.phase = .done := by
    apply Classical.byContradiction; intro hn
    rw [hi.noRes hn] at hr; cases hr
  obtain ⟨t', r', h1, _, _, h4⟩ := hi.res hp
  rw [hr] at h1; cases h1
  exact h4

/-- All-attempts-failed is reported only when every attempt the call can start
(`max_hedged_attempts` of them) has been started, every one of them has completed by then, and
none of them succeeded (each ended in an error or a panic). -/
theorem all_failed_only_when_all_failed (cfg : Cfg) (hmax : 1 ≤ cfg.max) (ops : List Op) (c : Nat)
    (cl : Call) (h : (c, cl) ∈ (run cfg ops).calls) (t x y : Nat)
    (hr : cl.result = some (t, .allFailed x y)) :
    cl.attempts.length = cfg.max ∧
    ∀ a ∈ cl.attempts, ∃ tf, a.fin = some tf ∧ tf ≤ t ∧ isFail a.out = true := by
  have hi := (inv_reachable cfg hmax ops _ h).rs
  have hp : cl.phase = .done := by
    apply Classical.byContradiction; intro hn
    rw [hi.noRes hn] at hr; cases hr
  obtain ⟨t', r', h1, _, _, h4⟩ := hi.res hp
  rw [hr] at h1; cases h1
  exact h4.1

/-- Nothing is started after the result: every attempt of a resolved call was started at or
before the instant of its result (and `no_start_when_finished` below: a finished call never
starts anything again, not even at that same instant). -/
theorem no_late_start (cfg : Cfg) (hmax : 1 ≤ cfg.max) (ops : List Op) (c : Nat) (cl : Call)
    (h : (c, cl) ∈ (run cfg ops).calls) (t : Nat) (r : Res) (hr : cl.result = some (t, r)) :
    ∀ a ∈ cl.attempts, a.startAt ≤ t := by
  have hi := (inv_reachable cfg hmax ops _ h).rs
  have hp : cl.phase = .done := by
    apply Classical.byContradiction; intro hn
    rw [hi.noRes hn] at hr; cases hr
  obtain ⟨t', r', h1, _, h3, _⟩ := hi.res hp
  rw [hr] at h1; cases h1
  intro a ha
  exact h3 _ (List.mem_map.mpr ⟨a, ha, rfl⟩)

/-- A finished call (resolved or dropped) never starts anything again: whatever the next
operation is, from **any** state, its start instants, phase and result are unchanged. Together
with `no_late_start` this is "nothing is started after the result (or the cancellation)". -/
theorem no_start_when_finished (cfg : Cfg) (s : State) (op : Op) (c : Nat) (cl : Call)
    (h : lookup s.calls c = some cl) (hf : cl.phase = .done ∨ cl.phase = .dropped) :
    ∃ cl', lookup (stepS cfg s op).calls c = some cl' ∧ cl'.phase = cl.phase ∧
      starts cl' = starts cl ∧ cl'.result = cl.result :=
  stepS_frozen cfg s op c cl h hf

/-- "As soon as it is available": if a call that is still waiting has a successful response in
its result channel, the very next poll of that call resolves it, with the **first** success in the
channel (errors queued before it are skipped, later successes ignored), at the current instant. -/
theorem first_success_at_once (cfg : Cfg) (hmax : 1 ≤ cfg.max) (ops : List Op) (c : Nat) (cl : Call)
    (h : lookup (run cfg ops).calls c = some cl) (hl : live cl.phase = true) (m : Attempt)
    (hm : cl.chan.find? (fun a => decide (a.out = .ok)) = some m) :
    (∃ cl', lookup (stepS cfg (run cfg ops) (.poll c)).calls c = some cl' ∧
        cl'.result = some ((run cfg ops).now, .ok m.k)) ∧
    (stepS cfg (run cfg ops) (.poll c)).log = (run cfg ops).log ++ [.result c (.ok m.k)] := by
  obtain ⟨c', hmem⟩ := lookup_mem h
  have hi := inv_reachable cfg hmax ops _ hmem
  obtain ⟨r1, r2⟩ := pollCall_first_ok (cfg := cfg) (now := (run cfg ops).now) c
    (w := { cl := cl, serial := (run cfg ops).serial }) hi hl m hm
  show (∃ cl', lookup (pollS cfg (run cfg ops) c).calls c = some cl' ∧ _) ∧
    (pollS cfg (run cfg ops) c).log = _
  unfold pollS
  rw [h]
  refine ⟨⟨_, ?_, r1⟩, ?_⟩
  · show lookup (setCall (run cfg ops).calls c _) c = _
    rw [lookup_setCall, h]; simp
  · show (run cfg ops).log ++ _ = _
    rw [r2]; rfl

/-- A completed successful attempt of a waiting call **is** in its channel (so "available" in
`first_success_at_once` means "completed"), the channel is in completion order, and before the
result no success has been received yet. -/
theorem success_is_queued (cfg : Cfg) (hmax : 1 ≤ cfg.max) (ops : List Op) (c : Nat) (cl : Call)
    (h : (c, cl) ∈ (run cfg ops).calls) (hl : live cl.phase = true) :
    (∀ a ∈ cl.attempts, a.out = .ok → a.fin.isSome = true → a ∈ cl.chan) ∧
    cl.chan.Pairwise (fun x y => finT x ≤ finT y) ∧
    (∀ m ∈ cl.recvd, isErr m.out = true) := by
  have hi := (inv_reachable cfg hmax ops _ h).ch
  exact ⟨hi.okIn hl, hi.sorted, hi.recvdErr hl⟩

/-- The ghost list of attempts is the event log: for every request id, the serials of its
`inner_call` events in the log are exactly the serials of its attempts that have called the inner
service (nothing else ever calls the inner service on its behalf). A permutation: a hedge whose
clone needs a while to become ready may call after a later hedge whose clone is ready at once. -/
theorem log_matches_attempts (cfg : Cfg) (ops : List Op) (c : Nat) :
    (callsOf c (run cfg ops).log).Perm (match lookup (run cfg ops).calls c with
      | some cl => serialsAsc cl
      | none => []) :=
  loginv_reachable cfg ops c

/-- Request ids are unique, so "`cl` is the record of request `c`" can be read either way. -/
theorem record_unique (cfg : Cfg) (ops : List Op) (c : Nat) (cl : Call) :
    (c, cl) ∈ (run cfg ops).calls ↔ lookup (run cfg ops).calls c = some cl :=
  mem_iff_lookup_of_nodup (keys_nodup_reachable cfg ops) c cl

/-- `starts_bounded` in the property's own observables: in the event log, at most
`max_hedged_attempts` `inner_call` events carry the id of any one request. -/
theorem starts_bounded_trace (cfg : Cfg) (hmax : 1 ≤ cfg.max) (ops : List Op) (c : Nat) :
    (callsOf c (run cfg ops).log).length ≤ cfg.max := by
  rw [(log_matches_attempts cfg ops c).length_eq]
  cases hl : lookup (run cfg ops).calls c with
  | none => exact Nat.zero_le _
  | some cl =>
    have := starts_bounded cfg hmax ops c cl ((record_unique cfg ops c cl).mpr hl)
    have hle : (cl.attempts.filter isCalled).length ≤ cl.attempts.length := List.length_filter_le _ _
    simp only [serialsAsc, List.length_reverse, List.length_map]
    omega

/-! ## construction paths, entry points, handles (every way the crate lets a caller get at a hedged call) -/

/-- Whatever the entry point — `HedgeLayer::builder()` / `HedgeConfigBuilder::default()` with any argument of
`max_hedged_attempts` (**0 included**: the documented clamp) or without calling it, `HedgeLayer::new(delay)`,
`Hedge::new(inner, HedgeConfig::default())` — the configuration the call runs with has `max_hedged_attempts ≥ 1`:
the hypothesis `1 ≤ cfg.max` of every theorem of this file is met by every configuration that can be built. -/
theorem configured_max_ge_one (kv : Kv) : 1 ≤ (cfgOf kv).max := by
  unfold cfgOf
  dsimp only
  split
  · exact Nat.le_succ 1
  · split
    · exact Nat.le_succ 1
    · exact Nat.le_max_right _ _

/-- `max_hedged_attempts(n)`: at least the original request; `0` means `1`; any `n ≥ 1` is taken as it is. -/
theorem clamp_spec (n : Nat) : 1 ≤ clampMax n ∧ clampMax 0 = 1 ∧ (1 ≤ n → clampMax n = n) :=
  ⟨Nat.le_max_right _ _, rfl, fun h => Nat.max_eq_left h⟩

/-- `max_hedged_attempts(0)` and `(1)` — no room for a hedge: the layer forwards the original request and nothing
else. The call has at most one attempt; a response it resolves with is that attempt's; all-attempts-failed means
that one attempt failed. -/
theorem original_request_only (cfg : Cfg) (hm : cfg.max = 1) (ops : List Op) (c : Nat) (cl : Call)
    (h : (c, cl) ∈ (run cfg ops).calls) :
    cl.attempts.length ≤ 1 ∧
    (∀ t v, cl.result = some (t, .ok v) → ∃ a, cl.attempts = [a] ∧ a.k = v ∧ a.out = .ok) ∧
    (∀ t x y, cl.result = some (t, .allFailed x y) → ∃ a, cl.attempts = [a] ∧ isFail a.out = true) := by
  have hmax : 1 ≤ cfg.max := by omega
  have hb := starts_bounded cfg hmax ops c cl h
  rw [hm] at hb
  have one : ∀ a ∈ cl.attempts, cl.attempts = [a] := by
    intro a ha
    match hl : cl.attempts, ha, hb with
    | [x], ha, _ => simp at ha; rw [ha]
    | _ :: _ :: _, _, hb => simp at hb
  refine ⟨hb, ?_, ?_⟩
  · intro t v hr
    obtain ⟨a, ha, hk, ho, _⟩ := first_success_wins cfg hmax ops c cl h t v hr
    exact ⟨a, one a ha, hk, ho⟩
  · intro t x y hr
    obtain ⟨hlen, hall⟩ := all_failed_only_when_all_failed cfg hmax ops c cl h t x y hr
    rw [hm] at hlen
    match hl : cl.attempts, hlen with
    | [a], _ =>
      obtain ⟨_, _, _, hf⟩ := hall a (by rw [hl]; simp)
      exact ⟨a, rfl, hf⟩

/-- `HedgeLayer::new(delay)` "will fire a single hedge request after the specified delay": at most two attempts; the
hedge no earlier than `delay` after the original request (at the same instant iff `delay` is zero); none at all when
`delay` is a duration no `Instant` can be moved by. -/
theorem new_fires_a_single_hedge (d : Nat) (nev : Bool) (ops : List Op) (c : Nat) (cl : Call)
    (h : (c, cl) ∈ (run (newCfg d nev) ops).calls) :
    cl.attempts.length ≤ 2 ∧
    (1 < cl.attempts.length →
      if d = 0 then (startsAsc cl).getD 1 0 = (startsAsc cl).getD 0 0
      else (startsAsc cl).getD 0 0 * 1000 + d ≤ (startsAsc cl).getD 1 0 * 1000) ∧
    (d ≠ 0 → nev = true → cl.attempts.length ≤ 1) :=
  ⟨starts_bounded (newCfg d nev) (Nat.le_succ 1) ops c cl h,
   fun hn => starts_spaced_indexed (newCfg d nev) (Nat.le_succ 1) ops c cl h 0 hn,
   fun hd hv => never_due_not_started (newCfg d nev) (Nat.le_succ 1) ops c cl h hd 1 (Nat.le_refl 1) hv⟩

/-- The default configuration (`HedgeLayer::builder().build()`, `HedgeConfigBuilder::default().build()`,
`Hedge::new(inner, HedgeConfig::default())`): the original request and at most one hedge, a full second later. -/
theorem default_config_one_hedge_after_a_second (ops : List Op) (c : Nat) (cl : Call)
    (h : (c, cl) ∈ (run defaultCfg ops).calls) :
    cl.attempts.length ≤ 2 ∧
    (1 < cl.attempts.length → (startsAsc cl).getD 0 0 * 1000 + 1000000 ≤ (startsAsc cl).getD 1 0 * 1000) :=
  ⟨starts_bounded defaultCfg (Nat.le_succ 1) ops c cl h,
   fun hn => starts_spaced_indexed defaultCfg (Nat.le_succ 1) ops c cl h 0 hn⟩

/-- A `Hedge` service keeps nothing between calls, so which service of the layer, which clone, which (re)used handle
a request is made on cannot matter — the model does not even record it — and requests do not influence each other:
an arrival, a poll or a cancellation of request `c`, or a request refused for a readiness error, leaves the record of
every **other** request exactly as it was (from any state, not only reachable ones). Time is the only thing
requests share. (Several services built from one layer value, a clone of the layer, a handle used call after call,
a clone taken after a call: all are instances of this.) -/
theorem requests_are_independent (cfg : Cfg) (s : State) (c c' : Nat) (hne : c' ≠ c) :
    lookup (stepS cfg s (.poll c)).calls c' = lookup s.calls c' ∧
    lookup (stepS cfg s (.drop c)).calls c' = lookup s.calls c' ∧
    (∀ k v, (stepS cfg s (.refused c k v)).calls = s.calls) ∧
    (∀ plan warm cl', lookup s.calls c' = some cl' → lookup (stepS cfg s (.arrive c plan warm)).calls c' = some cl') := by
  refine ⟨?_, ?_, fun _ _ => rfl, ?_⟩
  · show lookup (pollS cfg s c).calls c' = _
    unfold pollS
    split
    · rfl
    · show lookup (setCall s.calls c _) c' = _
      rw [lookup_setCall, if_neg hne]
  · show lookup (dropS s c).calls c' = _
    unfold dropS
    split
    · rfl
    · show lookup (setCall s.calls c _) c' = _
      rw [lookup_setCall, if_neg hne]
  · intro plan warm cl' hl
    show lookup (arriveS s c plan warm).calls c' = _
    unfold arriveS
    split
    · exact hl
    · exact lookup_append_some hl _

/-- In latency mode a poll starts **every** hedge whose delay has elapsed: when a polled call is still waiting
afterwards, either all `max_hedged_attempts` attempts exist, or the timer for the next one has not elapsed yet, or
it is one that never elapses. In particular a **zero** delay for a later hedge (`delay_fn` with a positive first
delay and `Duration::ZERO` further on) starts that hedge in the same poll as its predecessor — it does not end the
hedging, and the call cannot report all-attempts-failed short of `max_hedged_attempts` attempts
(`all_failed_only_when_all_failed`). From any state. -/
theorem due_hedges_are_started (cfg : Cfg) (s : State) (c : Nat) (cl cl' : Call)
    (h : lookup s.calls c = some cl) (hp : cl.phase = .latency)
    (h' : lookup (stepS cfg s (.poll c)).calls c = some cl') (hp' : cl'.phase = .latency) :
    cfg.max ≤ cl'.attempts.length ∨ s.now < cl'.nextHedgeAt ∨ cfg.never cl'.attempts.length = true := by
  have hcl' : cl' = (pollCall cfg s.now c { cl := cl, serial := s.serial }).cl := by
    have : lookup (pollS cfg s c).calls c = some cl' := h'
    unfold pollS at this
    rw [h] at this
    have h2 : lookup (setCall s.calls c (pollCall cfg s.now c { cl := cl, serial := s.serial }).cl) c = some cl' := this
    rw [lookup_setCall, if_pos rfl, h] at h2
    simpa using h2.symm
  have hnd := pollCall_no_due cfg s.now c { cl := cl, serial := s.serial } hp (by rw [← hcl']; exact hp')
  rw [← hcl'] at hnd
  unfold HedgeDue at hnd
  by_cases h1 : cl'.attempts.length < cfg.max
  · by_cases h2 : cl'.nextHedgeAt ≤ s.now
    · right; right
      cases hv : cfg.never cl'.attempts.length with
      | true => rfl
      | false => exact absurd ⟨h1, h2, hv⟩ hnd
    · right; left; omega
  · left; omega

/-- What a caller reads off an error through `HedgeError`'s accessors, for each result a request can get:
all-attempts-failed is `is_all_attempts_failed()` and not `is_inner()`, the answer to a failed readiness poll
(`HedgeError::Inner`) the other way round; `inner()` and `into_inner()` both give the error carried; a response and
a panic are no `HedgeError` at all. -/
theorem accessors_spec :
    (∀ k v, accessors (.allFailed k v) = some ⟨true, false, (k, v), (k, v)⟩) ∧
    (∀ k v, accessors (.inner k v) = some ⟨false, true, (k, v), (k, v)⟩) ∧
    (∀ v, accessors (.ok v) = none) ∧ accessors .panic = none ∧
    (∀ r a, accessors r = some a → a.into = a.ref ∧ a.allFailed = !a.isInner) := by
  refine ⟨fun _ _ => rfl, fun _ _ => rfl, fun _ => rfl, rfl, ?_⟩
  intro r a h
  cases r with
  | allFailed k v =>
    have h' : some (Acc.mk true false (k, v) (k, v)) = some a := h
    cases h'; exact ⟨rfl, rfl⟩
  | inner k v =>
    have h' : some (Acc.mk false true (k, v) (k, v)) = some a := h
    cases h'; exact ⟨rfl, rfl⟩
  | _ =>
    have h' : (none : Option Acc) = some a := h
    cases h'

/-- The accessors of the error a **call** resolves with: it is never `is_inner()` (`HedgeError::Inner` is only ever
the answer to a readiness poll — a call resolves with a response, all-attempts-failed, or the drain phase's panic),
and `is_all_attempts_failed()` is true only when every attempt the call can start has been started and has failed. -/
theorem is_all_attempts_failed_sound (cfg : Cfg) (hmax : 1 ≤ cfg.max) (ops : List Op) (c : Nat) (cl : Call)
    (h : (c, cl) ∈ (run cfg ops).calls) (t : Nat) (r : Res) (hr : cl.result = some (t, r)) :
    (∀ k v, r ≠ .inner k v) ∧
    ∀ a, accessors r = some a → a.isInner = false ∧ a.allFailed = true ∧
      cl.attempts.length = cfg.max ∧ ∀ b ∈ cl.attempts, ∃ tf, b.fin = some tf ∧ tf ≤ t ∧ isFail b.out = true := by
  have hi := (inv_reachable cfg hmax ops _ h).rs
  have hp : cl.phase = .done := by
    apply Classical.byContradiction; intro hn
    rw [hi.noRes hn] at hr; cases hr
  obtain ⟨t', r', h1, _, _, h4⟩ := hi.res hp
  rw [hr] at h1; cases h1
  cases r with
  | allFailed x y =>
    refine ⟨fun _ _ e => Res.noConfusion e, ?_⟩
    intro a ha
    have ha' : some (Acc.mk true false (x, y) (x, y)) = some a := ha
    cases ha'
    exact ⟨rfl, rfl, h4.1⟩
  | ok v =>
    refine ⟨fun _ _ e => Res.noConfusion e, fun a ha => ?_⟩
    have ha' : (none : Option Acc) = some a := ha
    cases ha'
  | panic =>
    refine ⟨fun _ _ e => Res.noConfusion e, fun a ha => ?_⟩
    have ha' : (none : Option Acc) = some a := ha
    cases ha'
  | _ => exact False.elim h4

/-- A request whose handle fails its readiness poll gets exactly that error, as `HedgeError::Inner`, and no call
exists for it: nothing is started on its behalf, every other request's record is untouched, time does not move. -/
theorem refused_is_inner_error (cfg : Cfg) (s : State) (c k v : Nat) :
    (stepS cfg s (.refused c k v)).log = s.log ++ [.result c (.inner k v)] ∧
    (stepS cfg s (.refused c k v)).calls = s.calls ∧ (stepS cfg s (.refused c k v)).now = s.now ∧
    (stepS cfg s (.refused c k v)).serial = s.serial :=
  ⟨rfl, rfl, rfl, rfl⟩

/-! ## the clauses over the timestamped event log

`trace cfg ops` is the event log with the instant of every line, as the driver prints it and as the correspondence
check compares it with the implementation's. The theorems above speak about the ghost record of a request
(`cl.result`, `a.fin`, `a.startAt`); the ones below tie every ghost to its line of the log and restate the clauses of
the property over the log alone. A *call result* is a `result c r` line whose `r` is not `HedgeError::Inner`
(`nonInner r`): `Inner` answers a refused readiness poll (`Op.refused`), never a call. -/

/-- The timestamped log is the log: forgetting the instants gives `State.log`. -/
theorem trace_is_the_log (cfg : Cfg) (ops : List Op) : (trace cfg ops).map (·.2) = (run cfg ops).log :=
  trace_log cfg ops

/-- The instants of the log never decrease, and no line is stamped in the future. -/
theorem trace_instants_nondecreasing (cfg : Cfg) (ops : List Op) :
    (trace cfg ops).Pairwise (fun x y => x.1 ≤ y.1) ∧ ∀ x ∈ trace cfg ops, x.1 ≤ (run cfg ops).now :=
  trace_sorted cfg ops

/-- `cl.result` **is** the result line: the log has the line `t: result c r` (for a call result `r`) iff the record
of request `c` holds `result = some (t, r)`. -/
theorem result_line_iff_result (cfg : Cfg) (hmax : 1 ≤ cfg.max) (ops : List Op) (c t : Nat) (r : Res)
    (hr : nonInner r = true) :
    (t, Ev.result c r) ∈ trace cfg ops ↔
      ∃ cl, lookup (run cfg ops).calls c = some cl ∧ cl.result = some (t, r) := by
  cases hl : lookup (run cfg ops).calls c with
  | none =>
    constructor
    · intro hx
      have := (quiet_of cfg hmax ops c hl _ hx).2
      simp [isRO, hr] at this
    · rintro ⟨cl, h, _⟩; cases h
  | some cl =>
    have hres := (bridge_of cfg hmax ops c cl hl).2.res
    have hm := mem_callResults (c := c) (t := t) (r := r) (tr := trace cfg ops)
    rw [hres] at hm
    constructor
    · intro hx
      refine ⟨cl, rfl, ?_⟩
      have := hm.mpr ⟨hx, hr⟩
      cases hq : cl.result with
      | none => rw [hq] at this; cases this
      | some p => rw [hq] at this; simp at this; rw [this]
    · rintro ⟨cl', h, hq⟩
      cases h
      exact (hm.mp (by rw [hq]; simp)).1

/-- The witness of the repaired defect, as a timestamped log: the hedge's error at 10 ms, the primary's success at
100 ms, then the one result line — `result_line_iff_result`, `one_result_per_call`, `first_success_wins_log` and
`done_line_iff_completion` all have their hypotheses met by it. -/
example :
    let cfg : Cfg := { max := 2, delay := fun _ => 10000 }
    let ops := [Op.arrive 1 [⟨100, .ok⟩, ⟨0, .err 1⟩], .poll 1, .adv 10 [], .poll 1, .poll 1, .adv 90 [0], .poll 1]
    trace cfg ops = [(0, .innerCall 1 0), (10, .innerCall 1 1), (10, .innerDone 1 1 (.err 1)),
                     (100, .innerDone 1 0 .ok), (100, .result 1 (.ok 0))] ∧
    callResults 1 (trace cfg ops) = [(100, .ok 0)] ∧
    (lookup (run cfg ops).calls 1).map (·.result) = some (some (100, .ok 0)) := by decide

/-- **At most one result per call**: the log never holds two call results for one request. -/
theorem one_result_per_call (cfg : Cfg) (hmax : 1 ≤ cfg.max) (ops : List Op) (c : Nat) :
    (callResults c (trace cfg ops)).length ≤ 1 := by
  cases hl : lookup (run cfg ops).calls c with
  | none =>
    rw [callResults_nil_of (fun x hx => (quiet_of cfg hmax ops c hl x hx).2)]; exact Nat.zero_le _
  | some cl =>
    rw [(bridge_of cfg hmax ops c cl hl).2.res]
    cases cl.result <;> simp

/-- A `HedgeError::Inner` result line is the answer to a request the operation list refused (`arrive … rdy=err`);
no call ever produces one. -/
theorem inner_error_only_for_refused (cfg : Cfg) (hmax : 1 ≤ cfg.max) (ops : List Op) (t c k v : Nat)
    (h : (t, Ev.result c (.inner k v)) ∈ trace cfg ops) : Op.refused c k v ∈ ops :=
  inner_result_origin cfg hmax ops t c k v h

/-- **At most one result per caller**: a caller that was given a call future (never refused) has at most one
`result` line in the log, whatever it carries. (The driver and the harness make every id arrive exactly once, as a
request or as a refusal.) -/
theorem one_result_per_caller (cfg : Cfg) (hmax : 1 ≤ cfg.max) (ops : List Op) (c : Nat)
    (hnr : ∀ k v, Op.refused c k v ∉ ops) : (resultLines c (trace cfg ops)).length ≤ 1 := by
  rw [resultLines_length (fun t k v hx => hnr k v (inner_result_origin cfg hmax ops t c k v hx))]
  exact one_result_per_call cfg hmax ops c

/-- A refused request next to a call: caller 3 is answered `HedgeError::Inner` (its only line), caller 1 — never
refused — has its one result line. -/
example :
    let cfg : Cfg := { max := 2, delay := fun _ => 10000 }
    let ops := [Op.arrive 1 [⟨0, .ok⟩], .refused 3 9 0, .poll 1, .poll 1]
    trace cfg ops = [(0, .result 3 (.inner 9 0)), (0, .innerCall 1 0), (0, .innerDone 1 0 .ok), (0, .result 1 (.ok 0))] ∧
    (resultLines 1 (trace cfg ops)).length = 1 ∧ (resultLines 3 (trace cfg ops)).length = 1 ∧
    callResults 3 (trace cfg ops) = [] := by decide

/-- `a.fin` **is** the `inner_done` line: the log has `t: inner_done c k o` iff request `c` has an attempt that has
called the inner service with serial `k`, scripted outcome `o`, whose completion was observed at `t`. -/
theorem done_line_iff_completion (cfg : Cfg) (hmax : 1 ≤ cfg.max) (ops : List Op) (c t k : Nat) (o : Out) :
    (t, Ev.innerDone c k o) ∈ trace cfg ops ↔
      ∃ cl a, lookup (run cfg ops).calls c = some cl ∧ a ∈ cl.attempts ∧ a.wait = .no ∧ a.k = k ∧ a.out = o ∧
        a.fin = some t := by
  constructor
  · intro hx
    cases hl : lookup (run cfg ops).calls c with
    | none => have := (quiet_of cfg hmax ops c hl _ hx).1; simp [isCD] at this
    | some cl =>
      obtain ⟨a, ha, h1, h2, h3, h4⟩ := (bridge_of cfg hmax ops c cl hl).1.logDone t k o hx
      exact ⟨cl, a, rfl, ha, h1, h2, h3, h4⟩
  · rintro ⟨cl, a, hl, ha, h1, rfl, rfl, h4⟩
    exact (bridge_of cfg hmax ops c cl hl).1.doneLog a ha h1 t h4

/-- `a.startAt` **is** the instant of the line that marks the attempt's start: every attempt has, at `startAt`, its
`inner_call` line when its clone needs no readiness poll (the primary, or no readiness plan entry — then it has
called), and its `inner_warm c i w` line (first readiness poll of the fresh clone) otherwise. -/
theorem start_instant_is_in_the_log (cfg : Cfg) (hmax : 1 ≤ cfg.max) (ops : List Op) (c : Nat) (cl : Call)
    (hl : lookup (run cfg ops).calls c = some cl) (a : Attempt) (ha : a ∈ cl.attempts) :
    (warmAt cl.warm a.idx = none → a.wait = .no ∧ (a.startAt, Ev.innerCall c a.k) ∈ trace cfg ops) ∧
    (∀ wv, warmAt cl.warm a.idx = some wv → (a.startAt, warmEv c a.idx wv) ∈ trace cfg ops) := by
  have hm := (bridge_of cfg hmax ops c cl hl).1.mark a ha
  unfold Mark at hm
  split at hm
  · rename_i he
    refine ⟨fun _ => hm, fun wv hq => ?_⟩
    rw [he] at hq; cases hq
  · rename_i wv he
    refine ⟨fun hq => ?_, fun wv' hq => ?_⟩
    · rw [he] at hq; cases hq
    · rw [he] at hq; cases hq; exact hm.1

/-- Every `inner_call c k` line belongs to an attempt of request `c`, and stands at or after that attempt's start:
exactly at it when the attempt's clone needs no readiness poll, at least the clone's warm-up later otherwise; the
inner call is due (`doneAt`) at that instant plus its latency. -/
theorem call_line_is_an_attempt (cfg : Cfg) (hmax : 1 ≤ cfg.max) (ops : List Op) (c t k : Nat)
    (hx : (t, Ev.innerCall c k) ∈ trace cfg ops) :
    ∃ cl a, lookup (run cfg ops).calls c = some cl ∧ a ∈ cl.attempts ∧ a.wait = .no ∧ a.k = k ∧
      a.startAt ≤ t ∧ t ≤ a.doneAt ∧ (warmAt cl.warm a.idx = none → t = a.startAt) ∧
      ∀ d, warmAt cl.warm a.idx = some (.after d) → a.startAt + d ≤ t := by
  cases hl : lookup (run cfg ops).calls c with
  | none => have := (quiet_of cfg hmax ops c hl _ hx).1; simp [isCD] at this
  | some cl =>
    obtain ⟨a, ha, hr⟩ := (bridge_of cfg hmax ops c cl hl).1.logCall t k hx
    exact ⟨cl, a, rfl, ha, hr⟩

/-- A hedge whose fresh clone needs 50 ms: started at 10 ms (its `inner_warm` line), its `inner_call` line stands at
70 ms — the first instant the clock visits after the clone became ready at 60 ms; the primary's lines are at its start
(0 ms) and its completion (30 ms). -/
example :
    let cfg : Cfg := { max := 2, delay := fun _ => 10000 }
    let ops := [Op.arrive 1 [⟨30, .ok⟩, ⟨5, .ok⟩] [.after 50], .poll 1, .adv 10 [], .poll 1, .adv 20 [0], .poll 1,
                .adv 40 [.rdy 1 1]]
    trace cfg ops = [(0, .innerCall 1 0), (10, warmEv 1 1 (.after 50)), (30, .innerDone 1 0 .ok),
                     (30, .result 1 (.ok 0)), (70, .innerCall 1 1)] ∧
    (lookup (run cfg ops).calls 1).map (fun cl => cl.attempts.map (fun a => (a.idx, a.startAt, a.wait, a.fin)))
      = some [(1, 10, .no, none), (0, 0, .no, some 30)] := by decide

/-- **At most `max_hedged_attempts` inner calls**, over the timestamped log. -/
theorem calls_bounded_log (cfg : Cfg) (hmax : 1 ≤ cfg.max) (ops : List Op) (c : Nat) :
    (callPairs c (trace cfg ops)).length ≤ cfg.max := by
  have := congrArg List.length (callPairs_serials c (trace cfg ops))
  rw [List.length_map, trace_log] at this
  rw [this]; exact starts_bounded_trace cfg hmax ops c

/-- For a request without a readiness plan (the property's own setting: fresh clones are ready at once), the instants
of its `inner_call` lines, in log order, **are** the start instants of its attempts, by attempt number. -/
theorem call_instants_are_the_starts (cfg : Cfg) (hmax : 1 ≤ cfg.max) (ops : List Op) (c : Nat) (cl : Call)
    (hl : lookup (run cfg ops).calls c = some cl) (hw : cl.warm = []) :
    (callPairs c (trace cfg ops)).map (·.1) = startsAsc cl := by
  rw [((bridge_of cfg hmax ops c cl hl).1.nowarm hw).2]
  simp [startsAsc, starts, Function.comp_def]

/-- **Consecutive starts are at least the configured delay apart**, read off the log: for a request without a
readiness plan, the `(n+1)`-th `inner_call` line stands no earlier than `delay (n + 1)` (µs; instants in ms) after
the `n`-th; in parallel mode (`delay 1 = 0`) all stand at one instant. -/
theorem starts_spaced_log (cfg : Cfg) (hmax : 1 ≤ cfg.max) (ops : List Op) (c : Nat) (cl : Call)
    (hl : lookup (run cfg ops).calls c = some cl) (hw : cl.warm = []) (n : Nat)
    (hn : n + 1 < (callPairs c (trace cfg ops)).length) :
    if cfg.delay 1 = 0 then
      ((callPairs c (trace cfg ops)).map (·.1)).getD (n + 1) 0 = ((callPairs c (trace cfg ops)).map (·.1)).getD n 0
    else ((callPairs c (trace cfg ops)).map (·.1)).getD n 0 * 1000 + cfg.delay (n + 1)
      ≤ ((callPairs c (trace cfg ops)).map (·.1)).getD (n + 1) 0 * 1000 := by
  have hlen : (callPairs c (trace cfg ops)).length = cl.attempts.length := by
    rw [((bridge_of cfg hmax ops c cl hl).1.nowarm hw).2]; simp
  rw [call_instants_are_the_starts cfg hmax ops c cl hl hw]
  exact starts_spaced_indexed cfg hmax ops c cl ((record_unique cfg ops c cl).mpr hl) n (by rw [← hlen]; exact hn)

/-- Spacing for **any** request, readiness plans included, over the lines that mark the starts: attempts number `n`
and `n + 1` are records `a`, `b` of the request (`idx` = attempt number) whose start instants are at least
`delay (n + 1)` apart (equal in parallel mode), and each has its start mark in the log at that instant — its
`inner_warm c n w` line if the readiness plan lists its clone, its `inner_call` line otherwise. -/
theorem starts_spaced_marks (cfg : Cfg) (hmax : 1 ≤ cfg.max) (ops : List Op) (c : Nat) (cl : Call)
    (hl : lookup (run cfg ops).calls c = some cl) (n : Nat) (hn : n + 1 < cl.attempts.length) :
    ∃ a ∈ cl.attempts, ∃ b ∈ cl.attempts, a.idx = n ∧ b.idx = n + 1 ∧
      (if cfg.delay 1 = 0 then b.startAt = a.startAt else a.startAt * 1000 + cfg.delay (n + 1) ≤ b.startAt * 1000) ∧
      (∀ x ∈ [a, b],
        (warmAt cl.warm x.idx = none → (x.startAt, Ev.innerCall c x.k) ∈ trace cfg ops) ∧
        (∀ wv, warmAt cl.warm x.idx = some wv → (x.startAt, warmEv c x.idx wv) ∈ trace cfg ops)) := by
  have hb := (bridge_of cfg hmax ops c cl hl).1
  obtain ⟨a, ha, ha1, ha2⟩ := attempt_of_number hb n (by omega)
  obtain ⟨b, hbm, hb1, hb2⟩ := attempt_of_number hb (n + 1) hn
  refine ⟨a, ha, b, hbm, ha1, hb1, ?_, ?_⟩
  · rw [ha2, hb2]
    exact starts_spaced_indexed cfg hmax ops c cl ((record_unique cfg ops c cl).mpr hl) n hn
  · intro x hx
    have hxm : x ∈ cl.attempts := by
      rcases List.mem_cons.mp hx with q | q
      · rw [q]; exact ha
      · simp at q; rw [q]; exact hbm
    obtain ⟨m1, m2⟩ := start_instant_is_in_the_log cfg hmax ops c cl hl x hxm
    exact ⟨fun hq => (m1 hq).2, m2⟩

/-- With readiness plans: three attempts 10 ms apart, hedge 1 on a clone that needs 20 ms, hedge 2 on one that is
ready at once — the start marks stand at 0 (`inner_call`), 10 and 20 ms (`inner_warm`), although hedge 2 calls the
inner service (at 20 ms) before hedge 1 does (at 30 ms). -/
example :
    let cfg : Cfg := { max := 3, delay := fun _ => 10000 }
    let ops := [Op.arrive 1 [⟨100, .ok⟩, ⟨7, .err 1⟩, ⟨3, .ok⟩] [.after 20, .after 0], .poll 1, .adv 10 [], .poll 1,
                .adv 10 [], .poll 1, .adv 10 [.done 1, .rdy 1 1]]
    trace cfg ops = [(0, .innerCall 1 0), (10, warmEv 1 1 (.after 20)), (20, warmEv 1 2 (.after 0)),
                     (20, .innerCall 1 1), (30, .innerDone 1 1 (.err 1)), (30, .innerCall 1 2)] ∧
    (lookup (run cfg ops).calls 1).map (fun cl => cl.attempts.map (fun a => (a.idx, a.startAt, a.k)))
      = some [(2, 20, 1), (1, 10, 2), (0, 0, 0)] := by decide

/-- **The caller's result is the first successful attempt's response, in log order**: a line `t: result c ok:v`
stands after a line `tf: inner_done c v ok` (`tf ≤ t`), and no `inner_done c _ ok` line of the log stands before
that one. -/
theorem first_success_wins_log (cfg : Cfg) (hmax : 1 ≤ cfg.max) (ops : List Op) (c t v : Nat)
    (hx : (t, Ev.result c (.ok v)) ∈ trace cfg ops) :
    ∃ p1 tf p2 post, trace cfg ops = p1 ++ (tf, Ev.innerDone c v .ok) :: p2 ++ (t, Ev.result c (.ok v)) :: post ∧
      (∀ x ∈ p1, ∀ k, x.2 ≠ Ev.innerDone c k .ok) ∧ tf ≤ t := by
  obtain ⟨cl, hl, hr⟩ := (result_line_iff_result cfg hmax ops c t (.ok v) rfl).mp hx
  obtain ⟨pre, post, e, hh⟩ := (bridge_of cfg hmax ops c cl hl).2.okRes t v hr
  obtain ⟨p1, x, p2, e2, hxv, hp1⟩ := filterMap_head (okOf c) v pre hh
  obtain ⟨tf, ev⟩ := x
  have hev : ev = Ev.innerDone c v .ok := okOf_some hxv
  subst hev
  refine ⟨p1, tf, p2, post, by rw [e, e2], fun y hy => okOf_none (hp1 y hy), ?_⟩
  exact sorted_before (y := (tf, Ev.innerDone c v .ok)) (trace_sorted cfg ops).1 e (by rw [e2]; simp)

/-- **All-attempts-failed only after every startable attempt has failed**, in log order: a line
`t: result c err:all_failed` stands after the failure line of **every** one of the `max_hedged_attempts` attempts
of the request — for an attempt that called the inner service its `inner_done c k err…/panic` line, for a hedge whose
fresh clone failed its readiness poll (it never called) its `inner_warm c i fail` line. -/
theorem all_failed_only_after_all_failed_log (cfg : Cfg) (hmax : 1 ≤ cfg.max) (ops : List Op) (c t x y : Nat)
    (hx : (t, Ev.result c (.allFailed x y)) ∈ trace cfg ops) :
    ∃ pre post cl, trace cfg ops = pre ++ (t, Ev.result c (.allFailed x y)) :: post ∧
      lookup (run cfg ops).calls c = some cl ∧ cl.attempts.length = cfg.max ∧
      ∀ a ∈ cl.attempts, isFail a.out = true ∧
        ((a.wait = .no ∧ ∃ tf, tf ≤ t ∧ (tf, Ev.innerDone c a.k a.out) ∈ pre) ∨
         (a.wait ≠ .no ∧ a.startAt ≤ t ∧ (a.startAt, warmEv c a.idx .fail) ∈ pre)) := by
  obtain ⟨cl, hl, hr⟩ := (result_line_iff_result cfg hmax ops c t (.allFailed x y) rfl).mp hx
  obtain ⟨pre, post, e, hf⟩ := (bridge_of cfg hmax ops c cl hl).1.failRes t _ hr (fun v h => nomatch h)
  obtain ⟨hlen, hall⟩ := (result_spec cfg hmax ops c cl hl t _ hr).1.1
  refine ⟨pre, post, cl, e, hl, hlen, ?_⟩
  intro a ha
  obtain ⟨_, _, _, hfail⟩ := hall a ha
  refine ⟨hfail, ?_⟩
  rcases (hf a ha).2 with ⟨hw, tf, _, hline⟩ | ⟨hw, hline⟩
  · exact Or.inl ⟨hw, tf, sorted_before (trace_sorted cfg ops).1 e hline, hline⟩
  · exact Or.inr ⟨hw, sorted_before (trace_sorted cfg ops).1 e hline, hline⟩

/-- Three attempts 10 ms apart although the primary fails at 2 ms: the `inner_call` lines stand at 0, 10, 20 ms, and
`result … err:all_failed` stands after the `inner_done … err` line of all three. -/
example :
    let cfg : Cfg := { max := 3, delay := fun _ => 10000 }
    let ops := [Op.arrive 1 [⟨2, .err 1⟩, ⟨5, .err 2⟩, ⟨0, .err 3⟩], .poll 1, .adv 2 [0], .poll 1,
                .adv 8 [], .poll 1, .adv 5 [1], .poll 1, .adv 5 [], .poll 1, .poll 1]
    trace cfg ops = [(0, .innerCall 1 0), (2, .innerDone 1 0 (.err 1)), (10, .innerCall 1 1),
                     (15, .innerDone 1 1 (.err 2)), (20, .innerCall 1 2), (20, .innerDone 1 2 (.err 3)),
                     (20, .result 1 (.allFailed 1 0))] ∧
    (callPairs 1 (trace cfg ops)).map (·.1) = [0, 10, 20] ∧
    (lookup (run cfg ops).calls 1).map (·.warm) = some [] := by decide

/-- … and with a hedge whose clone fails its readiness poll the failure line of that attempt is its `inner_warm … fail`. -/
example :
    let cfg : Cfg := { max := 2, delay := fun _ => 10000 }
    let ops := [Op.arrive 1 [⟨30, .err 2⟩, ⟨5, .ok⟩] [.fail], .poll 1, .adv 10 [], .poll 1, .adv 20 [0], .poll 1]
    trace cfg ops = [(0, .innerCall 1 0), (10, warmEv 1 1 .fail), (30, .innerDone 1 0 (.err 2)),
                     (30, .result 1 (.allFailed 2 0))] := by decide

/-! ## a panicking attempt -/

/-- **The drain phase's panic** (`expect` on a closed channel with no error received): the call of a request ends in a
panic only in parallel / single-attempt mode (never in latency mode), only when all `max_hedged_attempts` attempts
were started, and only when **every** one of them panicked, each before that instant. -/
theorem panic_only_when_all_panicked (cfg : Cfg) (hmax : 1 ≤ cfg.max) (ops : List Op) (c : Nat) (cl : Call)
    (h : (c, cl) ∈ (run cfg ops).calls) (t : Nat) (hr : cl.result = some (t, .panic)) :
    ¬ (1 < cfg.max ∧ cfg.delay 1 ≠ 0) ∧ cl.attempts.length = cfg.max ∧
    ∀ a ∈ cl.attempts, a.out = .panic ∧ ∃ tf, a.fin = some tf ∧ tf ≤ t :=
  (result_spec cfg hmax ops c cl ((record_unique cfg ops c cl).mp h) t _ hr).1

/-- … over the log: a line `t: result c panic` stands after an `inner_done c k panic` line of every one of the
request's `max_hedged_attempts` attempts. -/
theorem panic_only_after_all_panicked_log (cfg : Cfg) (hmax : 1 ≤ cfg.max) (ops : List Op) (c t : Nat)
    (hx : (t, Ev.result c .panic) ∈ trace cfg ops) :
    ¬ (1 < cfg.max ∧ cfg.delay 1 ≠ 0) ∧
    ∃ pre post cl, trace cfg ops = pre ++ (t, Ev.result c .panic) :: post ∧
      lookup (run cfg ops).calls c = some cl ∧ cl.attempts.length = cfg.max ∧
      ∀ a ∈ cl.attempts, a.out = .panic ∧
        ((a.wait = .no ∧ ∃ tf, tf ≤ t ∧ (tf, Ev.innerDone c a.k .panic) ∈ pre) ∨
         (a.wait ≠ .no ∧ (a.startAt, warmEv c a.idx .fail) ∈ pre)) := by
  obtain ⟨cl, hl, hr⟩ := (result_line_iff_result cfg hmax ops c t .panic rfl).mp hx
  obtain ⟨pre, post, e, hf⟩ := (bridge_of cfg hmax ops c cl hl).1.failRes t _ hr (fun v h => nomatch h)
  obtain ⟨hmode, hlen, hall⟩ := (result_spec cfg hmax ops c cl hl t _ hr).1
  refine ⟨hmode, pre, post, cl, e, hl, hlen, ?_⟩
  intro a ha
  obtain ⟨hp, _⟩ := hall a ha
  refine ⟨hp, ?_⟩
  rcases (hf a ha).2 with ⟨hw, tf, _, hline⟩ | ⟨hw, hline⟩
  · exact Or.inl ⟨hw, tf, sorted_before (trace_sorted cfg ops).1 e hline, by rw [← hp]; exact hline⟩
  · exact Or.inr ⟨hw, hline⟩

/-- Parallel mode, both attempts panic: the call ends in a panic, after both `inner_done … panic` lines. With one
error among them the call reports all-attempts-failed with that error instead (second history). -/
example :
    let cfg : Cfg := { max := 2, delay := fun _ => 0 }
    trace cfg [Op.arrive 1 [⟨5, .panic⟩, ⟨7, .panic⟩], .poll 1, .adv 5 [0], .poll 1, .adv 2 [1], .poll 1]
      = [(0, .innerCall 1 0), (0, .innerCall 1 1), (5, .innerDone 1 0 .panic), (7, .innerDone 1 1 .panic),
         (7, .result 1 .panic)] ∧
    trace cfg [Op.arrive 1 [⟨5, .panic⟩, ⟨7, .err 4⟩], .poll 1, .adv 5 [0], .poll 1, .adv 2 [1], .poll 1]
      = [(0, .innerCall 1 0), (0, .innerCall 1 1), (5, .innerDone 1 0 .panic), (7, .innerDone 1 1 (.err 4)),
         (7, .result 1 (.allFailed 4 1))] := by decide

/-- **Latency mode counts errors received, and a panicking attempt sends nothing**: in latency mode
(`max_hedged_attempts > 1`, first delay not zero) a call never ends in a panic, and all-attempts-failed means that
every attempt ended with an **error** — not one of them panicked. -/
theorem latency_mode_failure_is_errors_only (cfg : Cfg) (hmax : 1 < cfg.max) (hd : cfg.delay 1 ≠ 0) (ops : List Op)
    (c : Nat) (cl : Call) (h : (c, cl) ∈ (run cfg ops).calls) (t : Nat) (r : Res) (hr : cl.result = some (t, r)) :
    r ≠ .panic ∧ ∀ x y, r = .allFailed x y → ∀ a ∈ cl.attempts, isErr a.out = true := by
  have hs := (result_spec cfg (Nat.le_of_lt hmax) ops c cl ((record_unique cfg ops c cl).mp h) t r hr).1
  constructor
  · intro e; subst e; exact hs.1 ⟨hmax, hd⟩
  · intro x y e; subst e; exact hs.2 hmax hd

/-- **A panicking attempt wedges a latency-mode hedge** (the behaviour DESIGN §0 notes): once the log of a
latency-mode call holds an `inner_done c k panic` line, the only call result the request can ever get is a response
`ok:v` of an attempt that succeeded (`inner_done c v ok` in the log) — never all-attempts-failed, never a panic,
whatever the operations and however far time advances. -/
theorem panicked_attempt_only_success_resolves (cfg : Cfg) (hmax : 1 < cfg.max) (hd : cfg.delay 1 ≠ 0) (ops : List Op)
    (c tp k : Nat) (hp : (tp, Ev.innerDone c k .panic) ∈ trace cfg ops) (t : Nat) (r : Res) (hni : nonInner r = true)
    (hx : (t, Ev.result c r) ∈ trace cfg ops) :
    ∃ v tf, r = .ok v ∧ (tf, Ev.innerDone c v .ok) ∈ trace cfg ops ∧ tf ≤ t := by
  have h1 : 1 ≤ cfg.max := Nat.le_of_lt hmax
  obtain ⟨cl, hl, hr⟩ := (result_line_iff_result cfg h1 ops c t r hni).mp hx
  obtain ⟨cl', a, hl', ha, _, _, ho, _⟩ := (done_line_iff_completion cfg h1 ops c tp k .panic).mp hp
  rw [hl] at hl'; cases hl'
  have hs := (result_spec cfg h1 ops c cl hl t r hr).1
  cases r with
  | ok v =>
    obtain ⟨p1, tf, p2, post, e, _, hle⟩ := first_success_wins_log cfg h1 ops c t v hx
    exact ⟨v, tf, rfl, by rw [e]; simp, hle⟩
  | allFailed x y =>
    have := hs.2 hmax hd a ha
    rw [ho] at this; cases this
  | panic => exact absurd ⟨hmax, hd⟩ hs.1
  | inner k v => cases hni
  | _ => exact False.elim hs

/-- … so if, besides, no attempt of the request ever succeeds, the request **never gets a result**: the call hangs,
although every attempt it could start may have been started and have failed. (All-attempts-failed is still reported
*only when* all have failed — the property's clause — but not *whenever*: see `notes/proofs-hedge.md`.) -/
theorem panicked_attempt_wedges_latency_hedge (cfg : Cfg) (hmax : 1 < cfg.max) (hd : cfg.delay 1 ≠ 0) (ops : List Op)
    (c tp k : Nat) (hp : (tp, Ev.innerDone c k .panic) ∈ trace cfg ops)
    (hno : ∀ tf v, (tf, Ev.innerDone c v .ok) ∉ trace cfg ops) :
    callResults c (trace cfg ops) = [] := by
  cases hq : callResults c (trace cfg ops) with
  | nil => rfl
  | cons p tl =>
    obtain ⟨t, r⟩ := p
    have hm : (t, r) ∈ callResults c (trace cfg ops) := by rw [hq]; simp
    obtain ⟨hx, hni⟩ := mem_callResults.mp hm
    obtain ⟨v, tf, _, hline, _⟩ := panicked_attempt_only_success_resolves cfg hmax hd ops c tp k hp t r hni hx
    exact absurd hline (hno tf v)

/-- The same two outcomes in latency mode (delay 10 ms): the primary panics at 5 ms, the hedge fails at 15 ms —
every attempt the call can start has been started and has failed, and the call is still waiting a million
milliseconds later (no result line, phase `latency`, one error counted of two). Had the hedge succeeded, the call
would have resolved with its response (second history). -/
example :
    let cfg : Cfg := { max := 2, delay := fun _ => 10000 }
    let ops := [Op.arrive 1 [⟨5, .panic⟩, ⟨5, .err 1⟩], .poll 1, .adv 5 [0], .poll 1, .adv 5 [], .poll 1, .adv 5 [1],
                .poll 1, .adv 1000000 [], .poll 1]
    trace cfg ops = [(0, .innerCall 1 0), (5, .innerDone 1 0 .panic), (10, .innerCall 1 1),
                     (15, .innerDone 1 1 (.err 1))] ∧
    callResults 1 (trace cfg ops) = [] ∧
    (lookup (run cfg ops).calls 1).map (fun cl => (cl.phase, cl.errors, cl.attempts.length)) = some (.latency, 1, 2) ∧
    trace cfg [Op.arrive 1 [⟨5, .panic⟩, ⟨5, .ok⟩], .poll 1, .adv 5 [0], .poll 1, .adv 5 [], .poll 1, .adv 5 [1], .poll 1]
      = [(0, .innerCall 1 0), (5, .innerDone 1 0 .panic), (10, .innerCall 1 1), (15, .innerDone 1 1 .ok),
         (15, .result 1 (.ok 1))] := by decide

/-! ## non-vacuity: concrete histories -/

/-- fixed delay of `d` milliseconds -/
def fixed (mx d : Nat) : Cfg := { max := mx, delay := fun _ => d * 1000 }

/-- The witness of the defect that was repaired (delay 10 ms, 2 attempts, primary ok at 100 ms, the
hedge fails at once): the call stays pending after the hedge's error and resolves with the
primary's response at 100 ms. -/
example :
    let ops := [Op.arrive 1 [⟨100, .ok⟩, ⟨0, .err 1⟩], .poll 1, .adv 10 [], .poll 1, .poll 1]
    (lookup (run (fixed 2 10) ops).calls 1).map (fun cl => (cl.phase, cl.errors, cl.attempts.length))
      = some (.latency, 1, 2) ∧
    (lookup (run (fixed 2 10) (ops ++ [.adv 90 [0], .poll 1])).calls 1).map (·.result)
      = some (some (100, .ok 0)) := by decide

/-- Three attempts, all failing, hedges 10 ms apart although the primary fails at 2 ms:
all-attempts-failed (carrying the primary's error) only at 20 ms, after the third failure. -/
example :
    let ops := [Op.arrive 1 [⟨2, .err 1⟩, ⟨5, .err 2⟩, ⟨0, .err 3⟩], .poll 1, .adv 2 [0], .poll 1,
                .adv 8 [], .poll 1, .adv 5 [1], .poll 1, .adv 5 [], .poll 1, .poll 1]
    (lookup (run (fixed 3 10) ops).calls 1).map (fun cl => (cl.result, starts cl))
      = some (some (20, .allFailed 1 0), [20, 10, 0]) := by decide

/-- Parallel mode with a tie: three attempts at once, completing at one instant in the observed
order 1, 0, 2; the first delivered success (attempt 1) wins although attempt 2 also succeeded. -/
example :
    let ops := [Op.arrive 7 [⟨5, .err 1⟩, ⟨5, .ok⟩, ⟨5, .ok⟩], .poll 7, .adv 5 [1, 0, 2], .poll 7]
    (lookup (run (fixed 3 0) ops).calls 7).map (fun cl => (cl.result, starts cl))
      = some (some (5, .ok 1), [0, 0, 0]) := by decide

/-- `first_success_at_once` is not vacuous: an error and then a success are queued for a call in
latency mode (the third attempt not even started); the next poll skips the error and resolves
with the success. Also `log_matches_attempts` on the same history. -/
example :
    let ops := [Op.arrive 1 [⟨30, .ok⟩, ⟨5, .err 2⟩, ⟨20, .ok⟩], .poll 1, .adv 10 [], .poll 1, .adv 5 [1],
                .adv 15 [0]]
    (lookup (run (fixed 3 10) ops).calls 1).map
        (fun cl => (live cl.phase, cl.chan.map (·.k), (cl.chan.find? (fun a => decide (a.out = .ok))).map (·.k)))
      = some (true, [1, 0], some 0) ∧
    (lookup (run (fixed 3 10) (ops ++ [.poll 1])).calls 1).map (·.result) = some (some (30, .ok 0)) ∧
    callsOf 1 (run (fixed 3 10) ops).log = [0, 1] := by decide

/-- A first delay below one millisecond is a delay, not parallel mode: per-attempt delays 500 µs,
then 400 ms; the first hedge is started when the (millisecond) timer fires, at 1 ms, the second one
400 ms after it — not all three at once. -/
example :
    let cfg : Cfg := { max := 3, delay := fun n => if n = 1 then 500 else 400000 }
    let ops := [Op.arrive 1 [⟨700, .ok⟩, ⟨700, .ok⟩, ⟨700, .ok⟩], .poll 1, .poll 1, .adv 1 [], .poll 1,
                .adv 399 [], .poll 1, .adv 1 [], .poll 1]
    (lookup (run cfg ops).calls 1).map (fun cl => (cl.phase, starts cl)) = some (.latency, [401, 1, 0]) := by
  decide

/-- `first_success_at_once` with a hedge whose clone is not ready: delay 10 ms, the hedge's clone needs
50 ms, the primary succeeds at 30 ms. The hedge is started at 10 ms (it counts, it waits), the
primary's success is queued at 30 ms while the clone is still warming up, and the poll at 30 ms
resolves the call with it; the clone becomes ready at 60 ms and the detached task calls then. -/
example :
    let ops := [Op.arrive 1 [⟨30, .ok⟩, ⟨5, .ok⟩] [.after 50], .poll 1, .adv 10 [], .poll 1, .adv 20 [0]]
    (lookup (run (fixed 2 10) ops).calls 1).map
        (fun cl => (live cl.phase, cl.attempts.map (fun a => (a.idx, a.startAt, a.wait)), cl.chan.map (·.k)))
      = some (true, [(1, 10, .till 60), (0, 0, .no)], [0]) ∧
    (lookup (run (fixed 2 10) (ops ++ [.poll 1])).calls 1).map (·.result) = some (some (30, .ok 0)) ∧
    callsOf 1 (run (fixed 2 10) (ops ++ [.poll 1, .adv 40 [.rdy 1 1]])).log = [0, 1] := by decide

/-- Calls need not come in attempt order (why `log_matches_attempts` is a permutation): hedge 1 waits
20 ms for its clone, hedge 2's clone is ready at once, so attempt 2 makes the second inner call
(serial 1, second script step) and attempt 1 the third. -/
example :
    let ops := [Op.arrive 1 [⟨100, .ok⟩, ⟨7, .err 1⟩, ⟨3, .ok⟩] [.after 20, .after 0], .poll 1, .adv 10 [], .poll 1,
                .adv 10 [], .poll 1, .adv 10 [.done 1, .rdy 1 1]]
    (lookup (run (fixed 3 10) ops).calls 1).map (fun cl => cl.attempts.map (fun a => (a.idx, a.k, a.startAt, a.out)))
      = some [(2, 1, 20, .err 1), (1, 2, 10, .ok), (0, 0, 0, .ok)] := by decide

/-- "Hedge once after 20 ms, then never again" (`delay_fn`: 20 ms, then `Duration::MAX`; 3 attempts allowed):
the hedge is started at 20 ms; the third attempt's timer is never due — it is not started at 40 ms, nor a year
later while the call is still being polled — and the call resolves with the primary's response as soon as it
is available (150 ms), at that poll. -/
example :
    let cfg : Cfg := { max := 3, delay := fun n => if n = 1 then 20000 else (2 ^ 64 - 1) * 1000000 + 999999,
                       never := fun n => n ≠ 1 }
    let ops := [Op.arrive 1 [⟨150, .ok⟩, ⟨150, .ok⟩, ⟨150, .ok⟩], .poll 1, .adv 20 [], .poll 1, .adv 20 [], .poll 1]
    (lookup (run cfg ops).calls 1).map (fun cl => (cl.phase, starts cl)) = some (.latency, [20, 0]) ∧
    (lookup (run cfg (ops ++ [.adv 31536000000 [0, 1], .poll 1])).calls 1).map (fun cl => starts cl) = some [20, 0] ∧
    (lookup (run cfg (ops ++ [.adv 110 [0], .poll 1])).calls 1).map (fun cl => (cl.result, starts cl))
      = some (some (150, .ok 0), [20, 0]) := by decide

/-- … while in parallel mode (first delay zero) the later delays are not consulted: `delay_fn` 0, then
`Duration::MAX`: all three attempts are started at once. -/
example :
    let cfg : Cfg := { max := 3, delay := fun n => if n = 1 then 0 else (2 ^ 64 - 1) * 1000000 + 999999,
                       never := fun n => n ≠ 1 }
    (lookup (run cfg [Op.arrive 1 [⟨5, .ok⟩], .poll 1]).calls 1).map (fun cl => starts cl) = some [0, 0, 0] := by decide

/-- `max_hedged_attempts(0)`: the header value 0 is clamped — one attempt, the original request, whose response is
the call's; `HedgeLayer::new(20 ms)`: two attempts 20 ms apart; the default configuration: the hedge a second later. -/
example :
    clampMax 0 = 1 ∧
    (lookup (run { max := clampMax 0, delay := fun _ => 10000 } [Op.arrive 1 [⟨30, .ok⟩], .poll 1, .adv 30 [0], .poll 1]).calls 1).map
        (fun cl => (cl.result, starts cl)) = some (some (30, .ok 0), [0]) ∧
    (lookup (run (newCfg 20000) [Op.arrive 1 [⟨30, .ok⟩, ⟨5, .ok⟩], .poll 1, .adv 20 [], .poll 1, .adv 5 [1], .poll 1]).calls 1).map
        (fun cl => (cl.result, starts cl)) = some (some (25, .ok 1), [20, 0]) ∧
    (lookup (run defaultCfg [Op.arrive 1 [⟨3000, .ok⟩], .poll 1, .adv 999 [], .poll 1, .adv 1 [], .poll 1]).calls 1).map
        (fun cl => starts cl) = some [1000, 0] := by decide

/-- Parallel mode with mixed outcomes (two attempts at once, one fails at once, the other succeeds at 50 ms): the call
keeps waiting after the failure and resolves with the success — all-attempts-failed needs every attempt to have failed. -/
example :
    let ops := [Op.arrive 1 [⟨0, .err 1⟩, ⟨50, .ok⟩], .poll 1, .poll 1]
    (lookup (run (fixed 2 0) ops).calls 1).map (fun cl => (cl.phase, cl.result)) = some (.drain, none) ∧
    (lookup (run (fixed 2 0) (ops ++ [.adv 50 [1], .poll 1])).calls 1).map (·.result) = some (some (50, .ok 1)) := by
  decide

/-- A zero delay for a later hedge after a positive first one (`delay_fn`: 10 ms, then zero; 3 attempts, all failing):
the poll at 10 ms starts attempts 1 **and** 2, and all-attempts-failed comes only after the third failure. -/
example :
    let cfg : Cfg := { max := 3, delay := fun n => if n = 1 then 10000 else 0 }
    let ops := [Op.arrive 1 [⟨5, .err 1⟩, ⟨5, .err 2⟩, ⟨30, .err 3⟩], .poll 1, .adv 5 [0], .poll 1, .adv 5 [], .poll 1]
    (lookup (run cfg ops).calls 1).map (fun cl => (cl.phase, starts cl)) = some (.latency, [10, 10, 0]) ∧
    (lookup (run cfg (ops ++ [.adv 5 [1], .poll 1])).calls 1).map (·.result) = some none ∧
    (lookup (run cfg (ops ++ [.adv 5 [1], .poll 1, .adv 25 [2], .poll 1])).calls 1).map (·.result)
      = some (some (40, .allFailed 1 0)) := by decide

/-- everything of a request's record a step can change -/
def view (cl : Call) := ((cl.phase, cl.attempts, cl.chan), (cl.errors, cl.nextHedgeAt), cl.result)

set_option synthInstance.maxSize 1024 in
/-- Two requests (on whatever handles): polling and cancelling one leaves the other's record as it was; a request
refused for a readiness error has no record at all and reads as `is_inner()`. -/
example :
    let ops := [Op.arrive 1 [⟨30, .ok⟩, ⟨5, .ok⟩], .arrive 2 [⟨7, .err 1⟩, ⟨7, .err 2⟩], .poll 1, .poll 2]
    (lookup (run (fixed 2 10) (ops ++ [.poll 2, .drop 2, .refused 3 9 0])).calls 1).map view
      = (lookup (run (fixed 2 10) ops).calls 1).map view ∧
    (lookup (run (fixed 2 10) (ops ++ [.refused 3 9 0])).calls 3).map view = none ∧
    (accessors (.inner 9 0)).map (fun a => (a.allFailed, a.isInner, a.ref, a.into)) = some (false, true, (9, 0), (9, 0)) := by
  decide

set_option synthInstance.maxSize 1024 in
/-- A hedge whose fresh clone fails its readiness poll is an attempt that was started and has failed, without an
inner call: delay 10 ms, 2 attempts, the hedge's clone answers `Err` at 10 ms, the primary is still running — the call
keeps waiting (one error of two) and resolves with the primary's response at 30 ms; had the primary failed too,
all-attempts-failed (carrying the primary's error) would have come at that instant and not before. The log has one
`inner_call` only. -/
example :
    let ops := [Op.arrive 1 [⟨30, .ok⟩, ⟨5, .ok⟩] [.fail], .poll 1, .adv 10 [], .poll 1, .poll 1]
    let ops' := [Op.arrive 1 [⟨30, .err 2⟩, ⟨5, .ok⟩] [.fail], .poll 1, .adv 10 [], .poll 1, .poll 1]
    (lookup (run (fixed 2 10) ops).calls 1).map (fun cl => (cl.phase, cl.errors, starts cl, cl.result))
      = some (.latency, 1, [10, 0], none) ∧
    (lookup (run (fixed 2 10) (ops ++ [.adv 20 [0], .poll 1])).calls 1).map (·.result) = some (some (30, .ok 0)) ∧
    (lookup (run (fixed 2 10) ops').calls 1).map (·.result) = some none ∧
    (lookup (run (fixed 2 10) (ops' ++ [.adv 20 [0], .poll 1])).calls 1).map (·.result)
      = some (some (30, .allFailed 2 0)) ∧
    callsOf 1 (run (fixed 2 10) (ops ++ [.adv 20 [0], .poll 1])).log = [0] := by decide

end TR.Props.C12
