import TR.Lemmas.Chaos
import TR.Lemmas.ChaosStress
import TR.Lemmas.ChaosHandles
/-!
# C19 — chaos injection is reproducible and bounded; injected errors skip the inner call

Quantification. "All seeds" = every generator `G : Gen γ` (any state space, any algorithm)
started in any state `g`, assuming only the contracts of `rand` (`Lawful`: a roll is `< 1`, a
range draw lies in the range). "All rates in [0,1]" = all thresholds `eT, lT` (a rate `p` is the
threshold `⌈p·2⁵³⌉`; `0 ⟺ p = 0`, `P53 = 2⁵³ ⟺ p = 1`; nothing below assumes `eT, lT ≤ 2⁵³`
except where `= P53` is the hypothesis). "All ranges" = all `minMs, maxMs : Nat`, including
`min = max` and `min > max`. "All request counts / orders" = all operation lists of the
poll-level machine: any number of requests, every order of arrivals, polls, cancellations and
clock advances, every scripted inner latency/outcome — and the caller dropping every handle of the
service (`Op.dropsvc` / `ROp.dropsvc`) at any point of the list: every theorem below that quantifies over
operation lists holds for lists containing it.
-/
namespace TR.Props.C19
open TR TR.Chaos

/-! ## reproducible -/

/-- **Deterministic function of the seed and the order of requests.** Drive the machine with
any operation list, the generator threaded through it (each first poll sees the generator's next
draws and advances it by what the decision consumed): the list of decisions (inject / delay by
`ms` / pass, in the order of the first polls) is the first `n` entries of `streamG G cfg g`, which
depends on nothing but the configuration and the seed — not on the instants, the payloads, the
inner outcomes, the cancellations, or how polls of different requests interleave. -/
theorem decisions_are_seed_stream {γ : Type} (G : Gen γ) (cfg : Cfg) (g : γ) (ops : List ROp) :
    (runR G cfg g ops).1.decs = streamG G cfg g (runR G cfg g ops).1.decs.length ∧
    (runR G cfg g ops).2 = genAfter G cfg g (runR G cfg g ops).1.decs.length :=
  runR_synced G cfg g ops

/-- Two equally seeded instances that have decided the same number of requests have taken the
same decisions and injected the same latencies, whatever else differs between the two runs. -/
theorem deterministic {γ : Type} (G : Gen γ) (cfg : Cfg) (g : γ) (ops₁ ops₂ : List ROp)
    (h : (runR G cfg g ops₁).1.decs.length = (runR G cfg g ops₂).1.decs.length) :
    (runR G cfg g ops₁).1.decs = (runR G cfg g ops₂).1.decs ∧ (runR G cfg g ops₁).2 = (runR G cfg g ops₂).2 := by
  have h1 := runR_synced G cfg g ops₁
  have h2 := runR_synced G cfg g ops₂
  exact ⟨by rw [h1.1, h2.1, h], by rw [h1.2, h2.2, h]⟩

/-- …and the instance that has seen fewer requests has taken a prefix of the other's decisions. -/
theorem deterministic_prefix {γ : Type} (G : Gen γ) (cfg : Cfg) (g : γ) (ops : List ROp) (n : Nat)
    (h : (runR G cfg g ops).1.decs.length = n) : (runR G cfg g ops).1.decs = streamG G cfg g n := by
  rw [← h]; exact (runR_synced G cfg g ops).1

/-- The draws handed to the model by the harness decide exactly like the generator itself. -/
theorem draws_agree_with_generator {γ : Type} (G : Gen γ) (cfg : Cfg) (g : γ) :
    (decideDraws cfg (view G cfg g)).1 = (decideG G cfg g).1 :=
  decideG_view G cfg g

/-! ## injected errors skip the inner call -/

/-- In every run: a request for which the layer decided to inject an error never reaches the
wrapped service — there is no `inner_call` for it anywhere in the log. -/
theorem error_skips_inner (cfg : Cfg) (ops : List Op) (c k : Nat)
    (h : lookup (run cfg ops).decOf c = some .error) : Ev.innerCall c k ∉ (run cfg ops).log :=
  error_no_inner_call cfg ops c k h

/-- Conversely every inner call belongs to a request whose recorded decision is "pass" or
"delay". -/
theorem inner_call_only_without_error (cfg : Cfg) (ops : List Op) (c k : Nat)
    (h : Ev.innerCall c k ∈ (run cfg ops).log) :
    ∃ dec, lookup (run cfg ops).decOf c = some dec ∧ dec ≠ .error :=
  inner_call_decision cfg ops c k h

/-- The first poll of a request whose decision is "inject": the configured error is the
result of that very poll, no serial is consumed (no inner call), no timer is started. -/
theorem error_result_immediate (cfg : Cfg) (s : State) (c tag : Nat) (st : Step) (d : Draws)
    (hph : lookup s.phase c = some (.fresh tag st)) (ha : allowed cfg d = true)
    (hd : (decideDraws cfg d).1 = .error) :
    (stepS cfg s (.poll c (some d))).log = s.log ++ [.result c (injected tag)] ∧
    (stepS cfg s (.poll c (some d))).serial = s.serial ∧
    lookup (stepS cfg s (.poll c (some d))).phase c = some .done := by
  simp [stepS, hph, pollFresh, hd, enact, checked, ha, record, emit, setPhase, lookup]

/-! ## transparent at rate 0 -/

/-- With both rates 0 the decision is "pass" and **no draw is consumed**: the generator is
left in the state it was in. -/
theorem transparent_at_zero {γ : Type} (G : Gen γ) (cfg : Cfg) (g : γ) (he : cfg.eT = 0) (hl : cfg.lT = 0) :
    decideG G cfg g = (.pass, g) :=
  decideG_zero G cfg g he hl

/-- The same for draws as inputs: "pass", 0 draws, whatever the draws are. -/
theorem transparent_at_zero_draws (cfg : Cfg) (d : Draws) (he : cfg.eT = 0) (hl : cfg.lT = 0) :
    decideDraws cfg d = (.pass, 0) := by
  rw [decideDraws_eq]; simp [he, hl]

/-- …and the layer is transparent: the first poll calls the wrapped service in that very step
(the first new event is the inner call), and the step is the one a bare inner call makes. -/
theorem transparent_first_poll (cfg : Cfg) (s : State) (c tag : Nat) (st : Step) (d : Draws)
    (he : cfg.eT = 0) (hl : cfg.lT = 0) (hph : lookup s.phase c = some (.fresh tag st))
    (ha : allowed cfg d = true) :
    stepS cfg s (.poll c (some d)) = startInner (record s c .pass 0) c st ∧
    ∃ rest, (stepS cfg s (.poll c (some d))).log = s.log ++ Ev.innerCall c s.serial :: rest := by
  have hd := transparent_at_zero_draws cfg d he hl
  have h1 : stepS cfg s (.poll c (some d)) = startInner (record s c .pass 0) c st := by
    simp [stepS, hph, pollFresh, hd, enact, checked, ha]
  refine ⟨h1, ?_⟩
  rw [h1]
  exact startInner_log (record s c .pass 0) c st

/-- In every run with both rates 0 every recorded decision is "pass". -/
theorem transparent_run (cfg : Cfg) (ops : List Op) (c : Nat) (dec : Decision)
    (he : cfg.eT = 0) (hl : cfg.lT = 0) (h : lookup (run cfg ops).decOf c = some dec) : dec = .pass := by
  obtain ⟨d, _, hd⟩ := decision_from_draws cfg ops c dec h
  rw [hd, transparent_at_zero_draws cfg d he hl]

/-! ## always fails at rate 1 -/

/-- With error rate 1 every decision is "inject an error" (one draw: the error roll). -/
theorem always_fails_at_one {γ : Type} (G : Gen γ) (cfg : Cfg) (g : γ) (hL : Lawful cfg G) (he : cfg.eT = P53) :
    decideG G cfg g = (.error, (G.nextF g).2) :=
  decideG_one G cfg g hL he

theorem always_fails_at_one_draws (cfg : Cfg) (d : Draws) (ha : allowed cfg d = true) (he : cfg.eT = P53) :
    decideDraws cfg d = (.error, 1) := by
  rw [decideDraws_eq]
  have h1 : d.r1 < P53 := by
    unfold allowed at ha
    simp only [Bool.and_eq_true, decide_eq_true_eq] at ha
    exact ha.1.1
  have h0 : 0 < P53 := by decide
  simp [he, h1, h0]

/-- In every run with error rate 1 (draws within the contract): the wrapped service is never
called — the log contains no `inner_call` at all. -/
theorem always_fails_run (cfg : Cfg) (ops : List Op) (he : cfg.eT = P53)
    (hall : ∀ c d, Op.poll c (some d) ∈ ops → allowed cfg d = true) (c k : Nat) :
    Ev.innerCall c k ∉ (run cfg ops).log := by
  intro hmem
  obtain ⟨dec, h1, h2⟩ := inner_call_decision cfg ops c k hmem
  obtain ⟨d, hin, hd⟩ := decision_from_draws cfg ops c dec h1
  rw [always_fails_at_one_draws cfg d (hall c d hin) he] at hd
  exact h2 hd

/-! ## injected latency is bounded -/

/-- An injected latency lies within `[min, max]` when that interval is non-empty (including
`min = max`); when `min > max` (empty interval) the code uses `min`, and so does the model. -/
theorem latency_in_range {γ : Type} (G : Gen γ) (cfg : Cfg) (g : γ) (ms : Nat) (hL : Lawful cfg G)
    (h : (decideG G cfg g).1 = .latency ms) :
    (cfg.minMs ≤ cfg.maxMs → cfg.minMs ≤ ms ∧ ms ≤ cfg.maxMs) ∧ (cfg.maxMs ≤ cfg.minMs → ms = cfg.minMs) :=
  decideG_latency_range G cfg g ms hL h

theorem latency_in_range_draws (cfg : Cfg) (d : Draws) (ms : Nat) (ha : allowed cfg d = true)
    (h : (decideDraws cfg d).1 = .latency ms) :
    (cfg.minMs ≤ cfg.maxMs → cfg.minMs ≤ ms ∧ ms ≤ cfg.maxMs) ∧ (cfg.maxMs ≤ cfg.minMs → ms = cfg.minMs) := by
  rw [decideDraws_eq] at h
  unfold allowed inRange at ha
  simp only [Bool.and_eq_true, Bool.or_eq_true, Bool.not_eq_true', decide_eq_true_eq, decide_eq_false_iff_not] at ha
  by_cases h1 : cfg.eT > 0 ∧ d.r1 < cfg.eT
  · simp [h1] at h
  · by_cases h2 : cfg.lT > 0
    · by_cases h3 : (if cfg.eT > 0 then d.r2 else d.r1) < cfg.lT
      · by_cases hm : cfg.maxMs > cfg.minMs
        · simp only [h1, h2, h3, hm, ↓reduceIte] at h
          have hg := ha.2.resolve_left (by omega)
          have h' : Decision.latency (if cfg.eT > 0 then d.g2 else d.g1) = Decision.latency ms := h
          injection h' with h'
          split at h' <;> (subst h'; omega)
        · simp only [h1, h2, h3, hm, ↓reduceIte] at h
          have h' : Decision.latency cfg.minMs = Decision.latency ms := h
          injection h' with h'
          subst h'; omega
      · simp [h1, h2, h3] at h
    · simp [h1, h2] at h

/-- In every run (draws within the contract) every recorded latency is within the bounds. -/
theorem latency_in_range_run (cfg : Cfg) (ops : List Op) (c ms : Nat)
    (hall : ∀ c d, Op.poll c (some d) ∈ ops → allowed cfg d = true)
    (h : lookup (run cfg ops).decOf c = some (.latency ms)) :
    (cfg.minMs ≤ cfg.maxMs → cfg.minMs ≤ ms ∧ ms ≤ cfg.maxMs) ∧ (cfg.maxMs ≤ cfg.minMs → ms = cfg.minMs) := by
  obtain ⟨d, hin, hd⟩ := decision_from_draws cfg ops c _ h
  exact latency_in_range_draws cfg d ms (hall c d hin) hd.symm

/-- The latency is real virtual time: while asleep a poll before the wake-up instant
(first poll + latency) does nothing at all; the first poll at or after it calls the inner
service (the same step a bare call makes). -/
theorem latency_exact (cfg : Cfg) (s : State) (c u : Nat) (st : Step) (d : Option Draws)
    (hph : lookup s.phase c = some (.sleeping u st)) :
    (s.now < u → stepS cfg s (.poll c d) = s) ∧
    (u ≤ s.now → stepS cfg s (.poll c d) = startInner s c st) := by
  constructor
  · intro h
    have : ¬ s.now ≥ u := by omega
    simp [stepS, hph, pollSleeping, this]
  · intro h
    have : s.now ≥ u := h
    simp [stepS, hph, pollSleeping, this]

/-- A first poll that decides "delay by `ms > 0`" makes no inner call and sleeps until exactly
first-poll instant + `ms`. -/
theorem latency_sleep_set (cfg : Cfg) (s : State) (c tag ms : Nat) (st : Step) (d : Draws)
    (hph : lookup s.phase c = some (.fresh tag st)) (ha : allowed cfg d = true)
    (hd : (decideDraws cfg d).1 = .latency ms) (hpos : ms > 0) :
    (stepS cfg s (.poll c (some d))).log = s.log ∧
    lookup (stepS cfg s (.poll c (some d))).phase c = some (.sleeping (s.now + ms) st) := by
  have : ¬ (s.now ≥ s.now + ms) := by omega
  simp [stepS, hph, pollFresh, hd, enact, checked, ha, record, pollSleeping, setPhase, lookup, this]

/-! ## no latency on an injected error -/

/-- When an error is injected, exactly one draw (the error roll) has been consumed: no latency
roll, no range draw — the generator is in the state after one `f64`. -/
theorem no_latency_on_error {γ : Type} (G : Gen γ) (cfg : Cfg) (g : γ) (h : (decideG G cfg g).1 = .error) :
    (decideG G cfg g).2 = (G.nextF g).2 ∧ cfg.eT > 0 ∧ (G.nextF g).1 < cfg.eT :=
  ⟨decideG_error_state G cfg g h, (decideG_error_iff G cfg g).mp h⟩

theorem no_latency_on_error_draws (cfg : Cfg) (d : Draws) (h : (decideDraws cfg d).1 = .error) :
    decideDraws cfg d = (.error, 1) := by
  rw [decideDraws_eq] at h ⊢
  by_cases h1 : cfg.eT > 0 ∧ d.r1 < cfg.eT
  · simp [h1]
  · exfalso
    simp only [h1, ↓reduceIte] at h
    by_cases h2 : cfg.lT > 0
    · by_cases h3 : (if cfg.eT > 0 then d.r2 else d.r1) < cfg.lT
      · by_cases hm : cfg.maxMs > cfg.minMs <;> simp [h2, h3, hm] at h
      · simp [h2, h3] at h
    · simp [h2] at h

/-- An error is injected exactly when the error rate is positive and the roll is below it. -/
theorem error_iff {γ : Type} (G : Gen γ) (cfg : Cfg) (g : γ) :
    (decideG G cfg g).1 = .error ↔ cfg.eT > 0 ∧ (G.nextF g).1 < cfg.eT :=
  decideG_error_iff G cfg g

/-! ## the handles may go away while calls are pending

`let f = svc.call(r); drop(svc); f.await`, `svc.oneshot(r)`: every handle of the service (and the layer) is
dropped while requests have arrived and have not been polled yet, or are asleep, or are in the inner call.
The decision of a request belongs to its first poll and to the seed's stream, not to the lifetime of a
handle. (`decisions_are_seed_stream`, `deterministic`, `always_fails_run`, `error_skips_inner`,
`latency_in_range_run` … already quantify over operation lists that contain `dropsvc`.) -/

/-- **Dropping every handle changes nothing for the requests made before.** A run in which every handle
is dropped at some point is, up to the flag `gone`, the run without that operation and without the
arrivals after it (those have no handle to be made on): same log, same decisions in the same order, same
draws consumed — whether the requests pending at that point had been polled or not. -/
theorem handles_dropped_no_effect (cfg : Cfg) (ops₁ ops₂ : List Op) :
    run cfg (ops₁ ++ .dropsvc :: ops₂) = noHandles (run cfg (ops₁ ++ ops₂.filter survives)) :=
  run_dropsvc cfg ops₁ ops₂

theorem handles_dropped_same_behaviour (cfg : Cfg) (ops₁ ops₂ : List Op) :
    (run cfg (ops₁ ++ .dropsvc :: ops₂)).log = (run cfg (ops₁ ++ ops₂.filter survives)).log ∧
    (run cfg (ops₁ ++ .dropsvc :: ops₂)).decs = (run cfg (ops₁ ++ ops₂.filter survives)).decs ∧
    (run cfg (ops₁ ++ .dropsvc :: ops₂)).decOf = (run cfg (ops₁ ++ ops₂.filter survives)).decOf ∧
    (run cfg (ops₁ ++ .dropsvc :: ops₂)).used = (run cfg (ops₁ ++ ops₂.filter survives)).used ∧
    (run cfg (ops₁ ++ .dropsvc :: ops₂)).phase = (run cfg (ops₁ ++ ops₂.filter survives)).phase := by
  rw [run_dropsvc]; exact ⟨rfl, rfl, rfl, rfl, rfl⟩

/-- The handles dropped between `call()` and the first poll: that first poll takes the same decision from
the same draws, consumes the same number of draws and has the same effect (injected error at once / sleep /
inner call) as with the handles alive. -/
theorem first_poll_after_handles_dropped (cfg : Cfg) (s : State) (c : Nat) (d : Option Draws) :
    stepS cfg (stepS cfg s .dropsvc) (.poll c d) = noHandles (stepS cfg s (.poll c d)) :=
  stepS_noHandles cfg s (.poll c d) rfl

/-- Error rate 1, the handles dropped before the first poll: the request still fails in that poll with the
error built from it, nothing is called, nothing sleeps. -/
theorem always_fails_after_handles_dropped (cfg : Cfg) (s : State) (c tag : Nat) (st : Step) (d : Draws)
    (he : cfg.eT = P53) (hph : lookup s.phase c = some (.fresh tag st)) (ha : allowed cfg d = true) :
    (stepS cfg (stepS cfg s .dropsvc) (.poll c (some d))).log = s.log ++ [.result c (injected tag)] ∧
    (stepS cfg (stepS cfg s .dropsvc) (.poll c (some d))).serial = s.serial := by
  rw [first_poll_after_handles_dropped]
  have hd := always_fails_at_one_draws cfg d ha he
  have h := error_result_immediate cfg s c tag st d hph ha (by rw [hd])
  exact ⟨h.1, h.2.1⟩

/-- Once every handle is gone no further request can be made. -/
theorem no_request_without_handle (cfg : Cfg) (s : State) (c tag : Nat) (st : Step) :
    stepS cfg (stepS cfg s .dropsvc) (.arrive c tag st) = stepS cfg s .dropsvc :=
  stepS_noHandles_other cfg s (.arrive c tag st) rfl

/-! ## bounds of a second and more -/

/-- The bounds are compared in whole milliseconds of the WHOLE duration (`Duration::as_millis`): a bound
of `secs` seconds and `us < 10⁶` further microseconds is `1000·secs + ⌊us/1000⌋` ms — the whole seconds
are part of it (this is how `machine.init` reads `min_us` / `max_us`). -/
theorem bound_in_ms (secs us : Nat) : (secs * 1000000 + us) / 1000 = secs * 1000 + us / 1000 :=
  ms_of_us secs us

/-- An injected latency is never below `min_latency` — for `min ≤ max`, `min = max` and `min > max` alike;
in particular with `min_latency ≥ secs` seconds every injected latency is at least `1000·secs` ms. -/
theorem latency_at_least_min {γ : Type} (G : Gen γ) (cfg : Cfg) (g : γ) (ms secs : Nat) (hL : Lawful cfg G)
    (h : (decideG G cfg g).1 = .latency ms) (hs : secs * 1000 ≤ cfg.minMs) :
    cfg.minMs ≤ ms ∧ secs * 1000 ≤ ms := by
  have := decideG_latency_ge_min G cfg g ms hL h
  exact ⟨this, by omega⟩

/-- `min_latency = max_latency = 1 s` at latency rate 1 (no error injector): every request is delayed by
exactly 1000 ms, for every seed; `[1200, 2800]` ms: by at least 1200 and at most 2800 ms. -/
theorem one_second_is_one_second {γ : Type} (G : Gen γ) (g : γ) (lo hi : Nat) (hle : lo ≤ hi)
    (hL : Lawful { eT := 0, lT := P53, minMs := lo, maxMs := hi } G) :
    ∃ ms, (decideG G { eT := 0, lT := P53, minMs := lo, maxMs := hi } g).1 = .latency ms ∧ lo ≤ ms ∧ ms ≤ hi := by
  have hroll := hL.roll g
  by_cases hm : hi > lo
  · refine ⟨(G.nextR lo hi (G.nextF g).2).1, ?_, hL.range hle _⟩
    simp only [P53] at hroll
    simp [decideG, P53, hm, hroll]
  · refine ⟨lo, ?_, Nat.le_refl _, hle⟩
    simp only [P53] at hroll
    simp [decideG, P53, hm, hroll]

/-! ## caller modes: which handle is readied and called

`arrive c … via=clone|readyclone|swap|template`. The machine's `arrive` carries no mode, so every theorem of this file
about `run` / `stepS` (in particular `transparent_first_poll`, `transparent_run`, `always_fails_run`,
`error_skips_inner`, `latency_in_range_run`) holds whichever mode each request is made in. What depends on the mode —
how many `poll_ready` calls reach the wrapped service before the request is made — is stated here, for every mode. -/

theorem gateN_admits_iff (n : Nat) (sc : List Rdy) :
    (gateN n sc).1 = true ↔ ∀ a ∈ sc.take n, a = Rdy.ready := by
  induction n generalizing sc with
  | zero => simp [gateN]
  | succ n ih =>
    cases sc with
    | nil => simp [gateN]
    | cons a sc => cases a <;> simp [gateN, ih]

theorem gateN_ready (n : Nat) (sc : List Rdy) (h : ∀ a ∈ sc, a = Rdy.ready) : gateN n sc = (true, sc.drop n) := by
  induction n generalizing sc with
  | zero => simp [gateN]
  | succ n ih =>
    cases sc with
    | nil => simp [gateN]
    | cons a sc =>
      have ha : a = Rdy.ready := h a (by simp)
      subst ha
      simp only [gateN, List.drop_succ_cons]
      exact ih sc (fun b hb => h b (by simp [hb]))

/-- **Readiness is forwarded, in every caller mode**: the request is made iff every `poll_ready` call of the mode
(one; two for `readyclone`) was answered "ready" by the wrapped service itself. -/
theorem readiness_forwarded (v : Via) (sc : List Rdy) :
    (gate v sc).1 = true ↔ ∀ a ∈ sc.take v.polls, a = Rdy.ready :=
  gateN_admits_iff v.polls sc

/-- A wrapped service that is ready whenever asked: every request is made, in every mode, and exactly one answer
per `poll_ready` call of the mode is used. -/
theorem ready_service_admits (v : Via) (sc : List Rdy) (h : ∀ a ∈ sc, a = Rdy.ready) :
    gate v sc = (true, sc.drop v.polls) :=
  gateN_ready v.polls sc h

/-- A request the wrapped service refused (pending / error) is not made: the machine is untouched, the caller sees
`notready` — in every mode. -/
theorem refused_request_is_not_made (cfg : Cfg) (p : Proto) (s : State) (v : Via) (c tag : Nat) (st : Step)
    (h : (gate v p.script).1 = false) :
    (arriveVia cfg p s v c tag st).2 = (s, [Ev.result c .notReady]) := by
  simp [arriveVia, h]

/-- **The caller mode is irrelevant to the layer**: an admitted request is the machine's `arrive`, whichever of the
four modes it was made in (and whatever the readiness script was). -/
theorem caller_mode_irrelevant (cfg : Cfg) (p : Proto) (s : State) (v : Via) (c tag : Nat) (st : Step)
    (h : (gate v p.script).1 = true) :
    (arriveVia cfg p s v c tag st).2.1 = stepS cfg s (.arrive c tag st) := by
  simp [arriveVia, h]

/-- **Transparent at rates 0/0 in every caller mode**: a request made in ANY mode `v`, over a wrapped service with
ANY readiness script, once admitted, reaches the wrapped service in its first poll — the step is the bare inner call,
no draw is consumed — and the strict wrapped service sees a call on an instance that reported ready (`ready=1`). -/
theorem transparent_any_caller_mode (cfg : Cfg) (p : Proto) (s : State) (v : Via) (c tag : Nat) (st : Step) (d : Draws)
    (he : cfg.eT = 0) (hl : cfg.lT = 0) (hg : s.gone = false) (hk : known s c = false) (ha : allowed cfg d = true)
    (h : (gate v p.script).1 = true) :
    let r := arriveVia cfg p s v c tag st
    (∃ rest, (stepS cfg r.2.1 (.poll c (some d))).log = s.log ++ Ev.innerCall c s.serial :: rest) ∧
    (r.1.strict = true → r.1.toEv (Ev.innerCall c s.serial) = Ev.innerCallX c s.serial tag true) := by
  have h1 : (arriveVia cfg p s v c tag st).2.1 = setPhase s c (.fresh tag st) := by
    rw [caller_mode_irrelevant cfg p s v c tag st h]; simp [stepS, hg, hk]
  have hph : lookup (setPhase s c (.fresh tag st)).phase c = some (.fresh tag st) := by simp [setPhase, lookup]
  refine ⟨?_, ?_⟩
  · show ∃ rest, (stepS cfg (arriveVia cfg p s v c tag st).2.1 (.poll c (some d))).log = _
    rw [h1]
    exact (transparent_first_poll cfg (setPhase s c (.fresh tag st)) c tag st d he hl hph ha).2
  · intro hs
    simp [arriveVia, h, Proto.toEv, lookup] at hs ⊢
    simp [hs]

/-! ## many threads on clones of one service

Assumption (not proved here, it is a property of `std::sync::Mutex`): the rolls of one request are
drawn atomically — the decision block runs under the mutex of the generator all clones share. Then a
parallel execution decides like the sequential run in which the first polls are ordered by lock
acquisition, i.e. like SOME operation list of the machine, and the theorems above apply to it. The
theorems below are the oracles of the harness's real-thread stress search (`manual stress`), which
looks for executions that are not of this kind; that search is sampling, not proof. -/

/-- **Whatever the interleaving, the same multiset of decisions.** For every schedule (every order in
which requests of whichever thread arrive, are first polled, polled again, dropped) each decision
occurs among the decisions taken exactly as often as among the first `n` entries of the seed's
stream, `n` the number of requests decided. -/
theorem interleaving_multiset {γ : Type} (G : Gen γ) (cfg : Cfg) (g : γ) (ops : List ROp) (d : Decision) :
    (runR G cfg g ops).1.decs.count d = (streamG G cfg g (runR G cfg g ops).1.decs.length).count d :=
  congrArg (List.count d) (runR_synced G cfg g ops).1

/-- …so two schedules of the same `n` requests (say the threads' requests interleaved in two different
ways) take the same decisions up to order — in fact in the same order of first polls. -/
theorem interleavings_agree {γ : Type} (G : Gen γ) (cfg : Cfg) (g : γ) (ops₁ ops₂ : List ROp)
    (h : (runR G cfg g ops₁).1.decs.length = (runR G cfg g ops₂).1.decs.length) :
    (runR G cfg g ops₁).1.decs.Perm (runR G cfg g ops₂).1.decs := by
  rw [(deterministic G cfg g ops₁ ops₂ h).1]

/-- **Error rate 1: every call fails**, however many calls there are: the seed's stream is "inject"
throughout (so is the decision list of every schedule, by `decisions_are_seed_stream`). -/
theorem always_fails_stream {γ : Type} (G : Gen γ) (cfg : Cfg) (g : γ) (hL : Lawful cfg G) (he : cfg.eT = P53)
    (n : Nat) : streamG G cfg g n = List.replicate n .error :=
  streamG_all_error G cfg g hL he n

/-- Both rates 0: every call passes, however many calls there are. -/
theorem transparent_stream {γ : Type} (G : Gen γ) (cfg : Cfg) (g : γ) (he : cfg.eT = 0) (hl : cfg.lT = 0)
    (n : Nat) : streamG G cfg g n = List.replicate n .pass :=
  streamG_all_pass G cfg g he hl n

/-- The check the model applies to the tallies of a stress run (`stressAllowed`: one decision per call;
error rate 1 ⇒ all fail; error rate 0 ⇒ none fails; latency rate 0 ⇒ none delayed; latency rate 1 ⇒
none passes undelayed) holds for the decisions of every schedule, for every seed: the model never
rejects an execution that respects the atomicity assumption. -/
theorem stress_oracle_sound {γ : Type} (G : Gen γ) (cfg : Cfg) (g : γ) (hL : Lawful cfg G) (ops : List ROp) :
    stressAllowed cfg (runR G cfg g ops).1.decs.length (tally (runR G cfg g ops).1.decs) = true := by
  have h := (runR_synced G cfg g ops).1
  have t := stress_tally_allowed G cfg g hL (runR G cfg g ops).1.decs.length
  rw [← h] at t
  exact t

/-- Every decision list is tallied completely: errors + delays + passes = number of calls. -/
theorem tally_complete (l : List Decision) : (tally l).ne + (tally l).nl + (tally l).np = l.length :=
  tally_total l

/-! ## non-vacuity -/

/-- The stress check accepts the tallies of a lawful stream and rejects what a request that skips its
rolls produces (error rate 1, 5 calls, one of them passed through). -/
example :
    let cfg : Cfg := { eT := P53, lT := 0, minMs := 0, maxMs := 0 }
    stressAllowed cfg 5 (tally (streamG counterGen cfg 0 5)) = true ∧
    stressAllowed cfg 5 ⟨4, 0, 1⟩ = false ∧
    stressAllowed { eT := P53 / 2, lT := P53 / 2, minMs := 1, maxMs := 5 } 7 ⟨3, 2, 2⟩ = true ∧
    stressAllowed { eT := P53 / 2, lT := P53 / 2, minMs := 1, maxMs := 5 } 7 ⟨3, 2, 1⟩ = false := by
  decide

/-- A generator within the contract exists (so the `Lawful` hypotheses are satisfiable), and on
it all three decisions occur: rate ½ for both, range [2,5]. -/
example :
    let cfg : Cfg := { eT := P53 / 2, lT := P53 / 2, minMs := 2, maxMs := 5 }
    (decideDraws cfg ⟨1, 0, 2, 2⟩ = (.error, 1)) ∧
    (decideDraws cfg ⟨P53 - 1, 7, 3, 4⟩ = (.latency 4, 3)) ∧
    (decideDraws cfg ⟨P53 / 2, P53 / 2, 3, 4⟩ = (.pass, 2)) ∧
    allowed cfg ⟨P53 - 1, 7, 3, 4⟩ = true := by
  decide

/-- `min > max`: the latency is `min`; `min = max`: no range draw is consumed. -/
example :
    decideDraws { eT := 0, lT := P53, minMs := 7, maxMs := 3 } ⟨5, 6, 1, 2⟩ = (.latency 7, 1) ∧
    decideDraws { eT := 0, lT := P53, minMs := 4, maxMs := 4 } ⟨5, 6, 1, 2⟩ = (.latency 4, 1) := by
  decide

/-- A concrete run: request 1 gets an injected error (no inner call), request 2 is delayed by
3 ms (polled at 2 ms: nothing; at 3 ms: the inner call), request 3 passes. -/
example :
    let cfg : Cfg := { eT := P53 / 2, lT := P53 / 2, minMs := 2, maxMs := 5 }
    let ops := [Op.arrive 1 11 ⟨0, .ok⟩, .arrive 2 12 ⟨0, .ok⟩, .arrive 3 13 ⟨0, .err 1⟩,
                .poll 1 (some ⟨1, 0, 2, 2⟩), .poll 2 (some ⟨P53 - 1, 7, 2, 3⟩), .poll 3 (some ⟨P53 / 2, P53 / 2, 3, 4⟩),
                .adv 2, .poll 2 none, .adv 1, .poll 2 none]
    (run cfg ops).log =
      [.result 1 (.inner 99 11), .innerCall 3 0, .innerDone 3 0 (.err 1), .result 3 (.inner 1 0),
       .innerCall 2 1, .innerDone 2 1 .ok, .result 2 (.ok 1)] ∧
    (run cfg ops).decs = [.error, .latency 3, .pass] ∧ (run cfg ops).now = 3 := by
  decide

/-- Every handle dropped between the arrivals and the first polls (`let f = svc.call(r); drop(svc); f.await`):
request 1 still gets its injected error, request 2 its delay of 1500 ms out of [1200, 2800] (polled at 1499 ms:
nothing; at 1500 ms: the inner call); request 3 arrives when there is no handle left and is never made. -/
example :
    let cfg : Cfg := { eT := P53 / 2, lT := P53, minMs := 1200, maxMs := 2800 }
    let ops := [Op.arrive 1 11 ⟨0, .ok⟩, .arrive 2 12 ⟨0, .ok⟩, .dropsvc, .arrive 3 13 ⟨0, .ok⟩,
                .poll 1 (some ⟨1, 0, 1300, 1400⟩), .poll 2 (some ⟨P53 - 1, 7, 1300, 1500⟩), .poll 3 none,
                .adv 1499, .poll 2 none, .adv 1, .poll 2 none]
    (run cfg ops).log = [.result 1 (.inner 99 11), .innerCall 2 0, .innerDone 2 0 .ok, .result 2 (.ok 0)] ∧
    (run cfg ops).decs = [.error, .latency 1500] ∧ (run cfg ops).now = 1500 ∧ (run cfg ops).gone = true := by
  decide

/-- A generator within the contract exists (`counterGen`: a counter; rolls alternate between 0 and
1 − 2⁻⁵³, range draws return the lower bound), so the `Lawful` hypotheses are satisfiable. -/
example (cfg : Cfg) : Lawful cfg counterGen :=
  ⟨fun g => by show (if g % 2 = 0 then 0 else P53 - 1) < P53; split <;> decide,
   fun h g => ⟨Nat.le_refl _, h⟩⟩

example :
    let cfg : Cfg := { eT := P53 / 2, lT := P53, minMs := 2, maxMs := 5 }
    (runR counterGen cfg 0 [.arrive 1 1 ⟨0, .ok⟩, .arrive 2 2 ⟨0, .ok⟩, .poll 2, .adv 1, .poll 1, .poll 2]).1.decs
      = [.error, .latency 2] := by
  decide

end TR.Props.C19
