import TR.Lemmas.Chaos
import TR.Lemmas.ChaosStress
import TR.Lemmas.ChaosHandles
/-!
# C19 — chaos injection is reproducible and bounded; injected errors skip the inner call

Quantification. The property says the decisions are "a deterministic function of the seed and the order of
requests" — not WHICH function. "All seeds" (and all admissible decision functions, all generator algorithms)
= every family of decision streams `σ : service → index → Decision`: `σ k i` is what the seed stands for as
the decision of the `i`-th request to be first polled on service `k` of the layer. The boundary clauses are
hypotheses on the stream, not on how it is produced: `allowedDec cfg (σ k i)` (error rate 0 ⇒ never an error,
error rate 1 ⇒ always; latency rate 0 ⇒ never a delay, latency rate 1 ⇒ every request not failed is delayed;
a delay lies within the bounds). Today's code (`decideG`: error roll, latency roll, range draw over `StdRng`) is
one instance: `todays_function_is_admissible`, for every generator `G : Gen γ` within the contracts of `rand`
(`Lawful`). A refactor that changes the draw scheme and stays deterministic is another instance of the same
theorems. "All rates in [0,1]" = all thresholds `eT, lT` (a rate `p` is the threshold `⌈p·2⁵³⌉`; `0 ⟺ p = 0`,
`P53 = 2⁵³ ⟺ p = 1`). "All ranges" = all `minMs, maxMs : Nat`, including `min = max` and `min > max`. "All request
counts / orders" = all operation lists of the poll-level machine: any number of requests on any number of services
built from the one layer value, every order of arrivals, polls, cancellations and clock advances, every scripted
inner latency/outcome — and the caller dropping every handle of the services (`dropsvc`) at any point.

The machine (`stepS`, `run`) CONSUMES the decision reported with a first poll (`Op.poll c (some d)`): it does not
predict it. `runD σ` is the machine fed from the streams `σ`.
-/
namespace TR.Props.C19
open TR TR.Chaos

/-! ## reproducible -/

/-- **Deterministic function of the seed and the order of requests.** Feed the machine from ANY family of
decision streams `σ` (one per service built from the layer value) and drive it with ANY operation list: the
decisions taken on service `k` (inject / delay by `ms` / pass, in the order of the first polls on `k`) are the
first `n` entries of `σ k` — they depend on nothing but the stream of that service and the rank of the request
among the first polls on that service: not on the instants, the payloads, the inner outcomes, the cancellations,
how polls of different requests interleave, or how much traffic the OTHER services of the layer have served. -/
theorem decisions_are_stream (σ : Nat → Nat → Decision) (cfg : Cfg) (ops : List ROp) (k : Nat) :
    decsOn (runD σ cfg ops) k = (List.range (decsOn (runD σ cfg ops) k).length).map (σ k) :=
  runD_fed σ cfg ops k

/-- Two runs of the same service `k` under the same streams (say two equally seeded instances, driven at different
instants, with different payloads, polled in different interleavings, next to different traffic on the other
services) that have decided the same number of requests on `k` have taken the same decisions and injected the
same latencies on `k`. -/
theorem deterministic (σ : Nat → Nat → Decision) (cfg : Cfg) (ops₁ ops₂ : List ROp) (k : Nat)
    (h : (decsOn (runD σ cfg ops₁) k).length = (decsOn (runD σ cfg ops₂) k).length) :
    decsOn (runD σ cfg ops₁) k = decsOn (runD σ cfg ops₂) k := by
  rw [runD_fed σ cfg ops₁ k, runD_fed σ cfg ops₂ k, h]

/-- …and the instance that has seen fewer requests has taken a prefix of the other's decisions. -/
theorem deterministic_prefix (σ : Nat → Nat → Decision) (cfg : Cfg) (ops : List ROp) (k n : Nat)
    (h : (decsOn (runD σ cfg ops) k).length = n) : decsOn (runD σ cfg ops) k = (List.range n).map (σ k) := by
  rw [← h]; exact runD_fed σ cfg ops k

/-- **Equally seeded services agree request by request** — in particular two services obtained from ONE layer
value (`layer.layer(a)`, `layer.layer(b)`: the same configuration and seed, hence the same stream): whenever they
have decided the same number of requests they have taken the same decisions, within one run or across two runs,
however the traffic of the two (and of any further service) was interleaved. -/
theorem equally_seeded_services_agree (σ : Nat → Nat → Decision) (cfg : Cfg) (ops₁ ops₂ : List ROp) (j k : Nat)
    (hσ : σ j = σ k) (h : (decsOn (runD σ cfg ops₁) j).length = (decsOn (runD σ cfg ops₂) k).length) :
    decsOn (runD σ cfg ops₁) j = decsOn (runD σ cfg ops₂) k := by
  rw [runD_fed σ cfg ops₁ j, runD_fed σ cfg ops₂ k, h, hσ]

/-- A fresh service of a seeded layer replays the seeded sequence from its start, regardless of the requests a
sibling has served: the `i`-th decision on service `k` is `σ k i`. -/
theorem service_decision_is_stream_entry (σ : Nat → Nat → Decision) (cfg : Cfg) (ops : List ROp) (k i : Nat)
    (h : i < (decsOn (runD σ cfg ops) k).length) : (decsOn (runD σ cfg ops) k)[i]? = some (σ k i) := by
  rw [runD_fed σ cfg ops k]
  simp [h]

/-- **The services of one layer value are independent.** A poll of a request made on one service leaves the
decisions of every other service as they were (whatever decision is reported with it), and leaves every other
request — of whichever service — alone: its phase, its decision, and the events about it. -/
theorem services_independent (cfg : Cfg) (s : State) (c : Nat) (d : Option Decision) (j : Nat)
    (h : svcOfFresh s c ≠ j) :
    decsOn (stepS cfg s (.poll c d)) j = decsOn s j ∧
    (∀ c', c ≠ c' → lookup (stepS cfg s (.poll c d)).phase c' = lookup s.phase c' ∧
                     lookup (stepS cfg s (.poll c d)).decOf c' = lookup s.decOf c') ∧
    (∃ evs, (stepS cfg s (.poll c d)).log = s.log ++ evs ∧ ∀ e ∈ evs, ∀ x, about e = some x → x = c) :=
  have t := touches_poll cfg s c d
  ⟨step_other_service cfg s c d j h, fun c' hne => ⟨t.phase c' hne, t.dec c' hne⟩, t.log⟩

/-- A run fed from streams is a run of the machine on the operations annotated with the streams' entries: every
theorem below about `run` applies to it. -/
theorem fed_run_is_a_run (σ : Nat → Nat → Decision) (cfg : Cfg) (ops : List ROp) :
    runD σ cfg ops = run cfg (annotated σ cfg init ops) ∧
    ∀ c d, Op.poll c (some d) ∈ annotated σ cfg init ops → ∃ k i, d = σ k i :=
  ⟨runD_eq_run σ cfg ops, fun c d h => annotated_from_stream σ cfg ops init c d h⟩

/-! ## injected errors skip the inner call -/

/-- In every run: a request for which the layer decided to inject an error never reaches the
wrapped service — there is no `inner_call` for it anywhere in the log. -/
theorem error_skips_inner (cfg : Cfg) (ops : List Op) (c k : Nat)
    (h : lookup (run cfg ops).decOf c = some .error) : Ev.innerCall c k ∉ (run cfg ops).log :=
  error_no_inner_call cfg ops c k h

/-- Conversely every inner call belongs to a request whose recorded decision is "pass" or
"delay". -/
theorem inner_call_only_without_error (cfg : Cfg) (ops : List Op) (c k : Nat)
    (h : Ev.innerCall c k ∈ (run cfg ops).log) :
    ∃ dec, lookup (run cfg ops).decOf c = some dec ∧ dec ≠ .error :=
  inner_call_decision cfg ops c k h

/-- The first poll of a request whose decision is "inject": the configured error is the
result of that very poll, no serial is consumed (no inner call), no timer is started. -/
theorem error_result_immediate (cfg : Cfg) (s : State) (c k tag : Nat) (st : Step)
    (hph : lookup s.phase c = some (.fresh k tag st)) (ha : allowedDec cfg .error = true) :
    (stepS cfg s (.poll c (some .error))).log = s.log ++ [.result c (injected tag)] ∧
    (stepS cfg s (.poll c (some .error))).serial = s.serial ∧
    lookup (stepS cfg s (.poll c (some .error))).phase c = some .done := by
  simp [stepS, hph, pollFresh, enact, checked, ha, record, emit, setPhase, lookup]

/-- The same for the machine fed from streams: no request decided "inject" has an inner call. -/
theorem error_skips_inner_stream (σ : Nat → Nat → Decision) (cfg : Cfg) (ops : List ROp) (c k : Nat)
    (h : lookup (runD σ cfg ops).decOf c = some .error) : Ev.innerCall c k ∉ (runD σ cfg ops).log := by
  rw [runD_eq_run] at h ⊢
  exact error_no_inner_call cfg _ c k h

/-! ## transparent at rate 0 -/

/-- With both rates 0 the only decision the property allows is "pass" — whatever the decision function. -/
theorem transparent_at_zero (cfg : Cfg) (d : Decision) (he : cfg.eT = 0) (hl : cfg.lT = 0)
    (ha : allowedDec cfg d = true) : d = .pass := by
  cases d with
  | error => simp [allowedDec, he] at ha
  | latency ms => simp [allowedDec, hl] at ha
  | pass => rfl

/-- …and the layer is transparent: the first poll calls the wrapped service in that very step
(the first new event is the inner call), and the step is the one a bare inner call makes. -/
theorem transparent_first_poll (cfg : Cfg) (s : State) (c k tag : Nat) (st : Step) (d : Decision)
    (he : cfg.eT = 0) (hl : cfg.lT = 0) (hph : lookup s.phase c = some (.fresh k tag st))
    (ha : allowedDec cfg d = true) :
    stepS cfg s (.poll c (some d)) = startInner (record s c k .pass) c st ∧
    ∃ rest, (stepS cfg s (.poll c (some d))).log = s.log ++ Ev.innerCall c s.serial :: rest := by
  have hd := transparent_at_zero cfg d he hl ha
  subst hd
  have h1 : stepS cfg s (.poll c (some .pass)) = startInner (record s c k .pass) c st := by
    simp [stepS, hph, pollFresh, enact, checked, ha]
  refine ⟨h1, ?_⟩
  rw [h1]
  exact startInner_log (record s c k .pass) c st

/-- In every run with both rates 0 (reported decisions within the boundary clauses) every recorded decision is
"pass". -/
theorem transparent_run (cfg : Cfg) (ops : List Op) (c : Nat) (dec : Decision)
    (he : cfg.eT = 0) (hl : cfg.lT = 0)
    (hall : ∀ c d, Op.poll c (some d) ∈ ops → allowedDec cfg d = true)
    (h : lookup (run cfg ops).decOf c = some dec) : dec = .pass :=
  transparent_at_zero cfg dec he hl (hall c dec (decision_from_obs cfg ops c dec h))

/-! ## always fails at rate 1 -/

/-- With error rate 1 the only decision the property allows is "inject an error". -/
theorem always_fails_at_one (cfg : Cfg) (d : Decision) (he : cfg.eT = P53) (ha : allowedDec cfg d = true) :
    d = .error := by
  cases d with
  | error => rfl
  | latency ms => simp [allowedDec, he] at ha
  | pass => simp [allowedDec, he] at ha

/-- In every run with error rate 1 (reported decisions within the boundary clauses): the wrapped service is never
called — the log contains no `inner_call` at all. -/
theorem always_fails_run (cfg : Cfg) (ops : List Op) (he : cfg.eT = P53)
    (hall : ∀ c d, Op.poll c (some d) ∈ ops → allowedDec cfg d = true) (c k : Nat) :
    Ev.innerCall c k ∉ (run cfg ops).log := by
  intro hmem
  obtain ⟨dec, h1, h2⟩ := inner_call_decision cfg ops c k hmem
  exact h2 (always_fails_at_one cfg dec he (hall c dec (decision_from_obs cfg ops c dec h1)))

/-- …for every admissible family of streams (every seed, every decision function): fed from it, no run of any
number of services ever calls a wrapped service. -/
theorem always_fails_fed (σ : Nat → Nat → Decision) (cfg : Cfg) (ops : List ROp) (he : cfg.eT = P53)
    (hσ : ∀ k i, allowedDec cfg (σ k i) = true) (c k : Nat) : Ev.innerCall c k ∉ (runD σ cfg ops).log := by
  rw [runD_eq_run]
  apply always_fails_run cfg _ he
  intro c d hin
  obtain ⟨k, i, rfl⟩ := annotated_from_stream σ cfg ops init c d hin
  exact hσ k i

/-! ## injected latency is bounded -/

/-- An injected latency the property allows lies within `[min, max]` when that interval is non-empty (including
`min = max`); when `min > max` (empty interval) the code uses `min`, and so does the model. -/
theorem latency_in_range (cfg : Cfg) (ms : Nat) (ha : allowedDec cfg (.latency ms) = true) :
    (cfg.minMs ≤ cfg.maxMs → cfg.minMs ≤ ms ∧ ms ≤ cfg.maxMs) ∧ (cfg.maxMs ≤ cfg.minMs → ms = cfg.minMs) := by
  unfold allowedDec inBounds at ha
  simp only [Bool.and_eq_true, decide_eq_true_eq] at ha
  by_cases hm : cfg.maxMs > cfg.minMs
  · simp only [hm, if_true, Bool.and_eq_true, decide_eq_true_eq] at ha
    exact ⟨fun _ => ha.2, fun hle => by omega⟩
  · simp only [hm, if_false, decide_eq_true_eq] at ha
    exact ⟨fun hle => by omega, fun _ => ha.2⟩

/-- In every run (reported decisions within the boundary clauses) every recorded latency is within the bounds. -/
theorem latency_in_range_run (cfg : Cfg) (ops : List Op) (c ms : Nat)
    (hall : ∀ c d, Op.poll c (some d) ∈ ops → allowedDec cfg d = true)
    (h : lookup (run cfg ops).decOf c = some (.latency ms)) :
    (cfg.minMs ≤ cfg.maxMs → cfg.minMs ≤ ms ∧ ms ≤ cfg.maxMs) ∧ (cfg.maxMs ≤ cfg.minMs → ms = cfg.minMs) :=
  latency_in_range cfg ms (hall c _ (decision_from_obs cfg ops c _ h))

/-- The latency is real virtual time: while asleep a poll before the wake-up instant
(first poll + latency) does nothing at all; the first poll at or after it calls the inner
service (the same step a bare call makes). -/
theorem latency_exact (cfg : Cfg) (s : State) (c u : Nat) (st : Step) (d : Option Decision)
    (hph : lookup s.phase c = some (.sleeping u st)) :
    (s.now < u → stepS cfg s (.poll c d) = s) ∧
    (u ≤ s.now → stepS cfg s (.poll c d) = startInner s c st) := by
  constructor
  · intro h
    have : ¬ s.now ≥ u := by omega
    simp [stepS, hph, pollSleeping, this]
  · intro h
    have : s.now ≥ u := h
    simp [stepS, hph, pollSleeping, this]

/-- A first poll that decides "delay by `ms > 0`" makes no inner call and sleeps until exactly
first-poll instant + `ms`. -/
theorem latency_sleep_set (cfg : Cfg) (s : State) (c k tag ms : Nat) (st : Step)
    (hph : lookup s.phase c = some (.fresh k tag st)) (ha : allowedDec cfg (.latency ms) = true) (hpos : ms > 0) :
    (stepS cfg s (.poll c (some (.latency ms)))).log = s.log ∧
    lookup (stepS cfg s (.poll c (some (.latency ms)))).phase c = some (.sleeping (s.now + ms) st) := by
  have : ¬ (s.now ≥ s.now + ms) := by omega
  simp [stepS, hph, pollFresh, enact, checked, ha, record, pollSleeping, setPhase, lookup, this]

/-- Latency rate 1 without an error injector: every request is delayed, by a value within the bounds. -/
theorem always_delayed_at_one (cfg : Cfg) (d : Decision) (he : cfg.eT = 0) (hl : cfg.lT = P53)
    (ha : allowedDec cfg d = true) : ∃ ms, d = .latency ms ∧ inBounds cfg ms = true := by
  cases d with
  | error => simp [allowedDec, he] at ha
  | pass => simp [allowedDec, hl] at ha
  | latency ms =>
      refine ⟨ms, rfl, ?_⟩
      unfold allowedDec at ha
      simp only [Bool.and_eq_true] at ha
      exact ha.2

/-! ## today's decision function (`decideG`, service.rs:64-91) is one admissible function

Nothing above depends on it. These theorems show that the hypotheses on the streams are satisfiable by the code as
it is today, for every generator within the contracts of `rand`, and record what that function does with its
draws (no draw at rates 0/0, one draw on an injected error). -/

/-- **Every decision today's code takes is within the boundary clauses**, for every generator within the
contracts of `rand` in every state — so the stream `genStream G cfg g` of every seed is admissible. -/
theorem todays_function_is_admissible {γ : Type} (G : Gen γ) (cfg : Cfg) (g : γ) (hL : Lawful cfg G) :
    allowedDec cfg (decideG G cfg g).1 = true ∧ ∀ i, allowedDec cfg (genStream G cfg g i) = true :=
  ⟨decideG_allowed G cfg g hL, genStream_allowed G cfg g hL⟩

/-- The machine fed with today's function over equally seeded generators (one per service, all started in state
`g`): the decisions on every service are the first `n` entries of the seed's stream `streamG G cfg g`. -/
theorem decisions_are_seed_stream {γ : Type} (G : Gen γ) (cfg : Cfg) (g : γ) (ops : List ROp) (k : Nat) :
    decsOn (runD (fun _ => genStream G cfg g) cfg ops) k =
      streamG G cfg g (decsOn (runD (fun _ => genStream G cfg g) cfg ops) k).length := by
  rw [streamG_eq_map]
  exact runD_fed (fun _ => genStream G cfg g) cfg ops k

/-- today's function at rates 0/0: "pass", and **no draw is consumed** (the generator is left as it was) -/
theorem todays_transparent_at_zero {γ : Type} (G : Gen γ) (cfg : Cfg) (g : γ) (he : cfg.eT = 0) (hl : cfg.lT = 0) :
    decideG G cfg g = (.pass, g) :=
  decideG_zero G cfg g he hl

/-- today's function at error rate 1: "inject an error", one draw (the error roll) -/
theorem todays_always_fails_at_one {γ : Type} (G : Gen γ) (cfg : Cfg) (g : γ) (hL : Lawful cfg G) (he : cfg.eT = P53) :
    decideG G cfg g = (.error, (G.nextF g).2) :=
  decideG_one G cfg g hL he

/-- today's function: a latency is within the bounds -/
theorem todays_latency_in_range {γ : Type} (G : Gen γ) (cfg : Cfg) (g : γ) (ms : Nat) (hL : Lawful cfg G)
    (h : (decideG G cfg g).1 = .latency ms) :
    (cfg.minMs ≤ cfg.maxMs → cfg.minMs ≤ ms ∧ ms ≤ cfg.maxMs) ∧ (cfg.maxMs ≤ cfg.minMs → ms = cfg.minMs) :=
  decideG_latency_range G cfg g ms hL h

/-- today's function: when an error is injected, exactly one draw (the error roll) has been consumed: no latency
roll, no range draw -/
theorem todays_no_latency_on_error {γ : Type} (G : Gen γ) (cfg : Cfg) (g : γ) (h : (decideG G cfg g).1 = .error) :
    (decideG G cfg g).2 = (G.nextF g).2 ∧ cfg.eT > 0 ∧ (G.nextF g).1 < cfg.eT :=
  ⟨decideG_error_state G cfg g h, (decideG_error_iff G cfg g).mp h⟩

/-- today's function: an error is injected exactly when the error rate is positive and the roll is below it -/
theorem todays_error_iff {γ : Type} (G : Gen γ) (cfg : Cfg) (g : γ) :
    (decideG G cfg g).1 = .error ↔ cfg.eT > 0 ∧ (G.nextF g).1 < cfg.eT :=
  decideG_error_iff G cfg g

/-! ## the handles may go away while calls are pending

`let f = svc.call(r); drop(svc); f.await`, `svc.oneshot(r)`: every handle of the service (and the layer) is
dropped while requests have arrived and have not been polled yet, or are asleep, or are in the inner call.
The decision of a request belongs to its first poll and to the seed's stream, not to the lifetime of a
handle. (`decisions_are_stream`, `deterministic`, `always_fails_run`, `error_skips_inner`,
`latency_in_range_run` … already quantify over operation lists that contain `dropsvc`.) -/

/-- **Dropping every handle changes nothing for the requests made before.** A run in which every handle
is dropped at some point is, up to the flag `gone`, the run without that operation and without the
arrivals after it (those have no handle to be made on): same log, same decisions in the same order on every
service — whether the requests pending at that point had been polled or not. -/
theorem handles_dropped_no_effect (cfg : Cfg) (ops₁ ops₂ : List Op) :
    run cfg (ops₁ ++ .dropsvc :: ops₂) = noHandles (run cfg (ops₁ ++ ops₂.filter survives)) :=
  run_dropsvc cfg ops₁ ops₂

theorem handles_dropped_same_behaviour (cfg : Cfg) (ops₁ ops₂ : List Op) :
    (run cfg (ops₁ ++ .dropsvc :: ops₂)).log = (run cfg (ops₁ ++ ops₂.filter survives)).log ∧
    (run cfg (ops₁ ++ .dropsvc :: ops₂)).decs = (run cfg (ops₁ ++ ops₂.filter survives)).decs ∧
    (run cfg (ops₁ ++ .dropsvc :: ops₂)).decOf = (run cfg (ops₁ ++ ops₂.filter survives)).decOf ∧
    (run cfg (ops₁ ++ .dropsvc :: ops₂)).phase = (run cfg (ops₁ ++ ops₂.filter survives)).phase := by
  rw [run_dropsvc]; exact ⟨rfl, rfl, rfl, rfl⟩

/-- The handles dropped between `call()` and the first poll: that first poll records the same decision and has
the same effect (injected error at once / sleep / inner call) as with the handles alive. -/
theorem first_poll_after_handles_dropped (cfg : Cfg) (s : State) (c : Nat) (d : Option Decision) :
    stepS cfg (stepS cfg s .dropsvc) (.poll c d) = noHandles (stepS cfg s (.poll c d)) :=
  stepS_noHandles cfg s (.poll c d) rfl

/-- Error rate 1, the handles dropped before the first poll: the request still fails in that poll with the
error built from it, nothing is called, nothing sleeps. -/
theorem always_fails_after_handles_dropped (cfg : Cfg) (s : State) (c k tag : Nat) (st : Step) (d : Decision)
    (he : cfg.eT = P53) (hph : lookup s.phase c = some (.fresh k tag st)) (ha : allowedDec cfg d = true) :
    (stepS cfg (stepS cfg s .dropsvc) (.poll c (some d))).log = s.log ++ [.result c (injected tag)] ∧
    (stepS cfg (stepS cfg s .dropsvc) (.poll c (some d))).serial = s.serial := by
  rw [first_poll_after_handles_dropped]
  have hd := always_fails_at_one cfg d he ha
  subst hd
  have h := error_result_immediate cfg s c k tag st hph ha
  exact ⟨h.1, h.2.1⟩

/-- Once every handle is gone no further request can be made. -/
theorem no_request_without_handle (cfg : Cfg) (s : State) (c k tag : Nat) (st : Step) :
    stepS cfg (stepS cfg s .dropsvc) (.arrive c k tag st) = stepS cfg s .dropsvc :=
  stepS_noHandles_other cfg s (.arrive c k tag st) rfl

/-! ## bounds of a second and more -/

/-- The bounds are compared in whole milliseconds of the WHOLE duration (`Duration::as_millis`): a bound
of `secs` seconds and `us < 10⁶` further microseconds is `1000·secs + ⌊us/1000⌋` ms — the whole seconds
are part of it (this is how `machine.init` reads `min_us` / `max_us`). -/
theorem bound_in_ms (secs us : Nat) : (secs * 1000000 + us) / 1000 = secs * 1000 + us / 1000 :=
  ms_of_us secs us

/-- An injected latency the property allows is never below `min_latency` — for `min ≤ max`, `min = max` and
`min > max` alike; in particular with `min_latency ≥ secs` seconds every injected latency is at least `1000·secs` ms. -/
theorem latency_at_least_min (cfg : Cfg) (ms secs : Nat) (ha : allowedDec cfg (.latency ms) = true)
    (hs : secs * 1000 ≤ cfg.minMs) : cfg.minMs ≤ ms ∧ secs * 1000 ≤ ms := by
  have hr := latency_in_range cfg ms ha
  have : cfg.minMs ≤ ms := by
    by_cases hle : cfg.minMs ≤ cfg.maxMs
    · exact (hr.1 hle).1
    · have := hr.2 (by omega); omega
  exact ⟨this, by omega⟩

/-- `min_latency = max_latency = 1 s` at latency rate 1 (no error injector): every request is delayed by
exactly 1000 ms, whatever the seed and the decision function; `[1200, 2800]` ms: by at least 1200 and at most
2800 ms. -/
theorem one_second_is_one_second (d : Decision) (lo hi : Nat) (hle : lo ≤ hi)
    (ha : allowedDec { eT := 0, lT := P53, minMs := lo, maxMs := hi } d = true) :
    ∃ ms, d = .latency ms ∧ lo ≤ ms ∧ ms ≤ hi := by
  obtain ⟨ms, rfl, _⟩ := always_delayed_at_one _ d rfl rfl ha
  exact ⟨ms, rfl, (latency_in_range _ ms ha).1 hle⟩

/-- …and today's function over any lawful generator is such a decision. -/
theorem todays_one_second_is_one_second {γ : Type} (G : Gen γ) (g : γ) (lo hi : Nat) (hle : lo ≤ hi)
    (hL : Lawful { eT := 0, lT := P53, minMs := lo, maxMs := hi } G) :
    ∃ ms, (decideG G { eT := 0, lT := P53, minMs := lo, maxMs := hi } g).1 = .latency ms ∧ lo ≤ ms ∧ ms ≤ hi :=
  one_second_is_one_second _ lo hi hle (decideG_allowed G _ g hL)

/-! ## caller modes: which handle is readied and called

`arrive c … via=clone|readyclone|swap|template`. The machine's `arrive` carries no mode, so every theorem of this file
about `run` / `stepS` (in particular `transparent_first_poll`, `transparent_run`, `always_fails_run`,
`error_skips_inner`, `latency_in_range_run`) holds whichever mode each request is made in. What depends on the mode —
how many `poll_ready` calls reach the wrapped service before the request is made — is stated here, for every mode. -/

theorem gateN_admits_iff (n : Nat) (sc : List Rdy) :
    (gateN n sc).1 = true ↔ ∀ a ∈ sc.take n, a = Rdy.ready := by
  induction n generalizing sc with
  | zero => simp [gateN]
  | succ n ih =>
    cases sc with
    | nil => simp [gateN]
    | cons a sc => cases a <;> simp [gateN, ih]

theorem gateN_ready (n : Nat) (sc : List Rdy) (h : ∀ a ∈ sc, a = Rdy.ready) : gateN n sc = (true, sc.drop n) := by
  induction n generalizing sc with
  | zero => simp [gateN]
  | succ n ih =>
    cases sc with
    | nil => simp [gateN]
    | cons a sc =>
      have ha : a = Rdy.ready := h a (by simp)
      subst ha
      simp only [gateN, List.drop_succ_cons]
      exact ih sc (fun b hb => h b (by simp [hb]))

/-- **Readiness is forwarded, in every caller mode**: the request is made iff every `poll_ready` call of the mode
(one; two for `readyclone`) was answered "ready" by the wrapped service itself. -/
theorem readiness_forwarded (v : Via) (sc : List Rdy) :
    (gate v sc).1 = true ↔ ∀ a ∈ sc.take v.polls, a = Rdy.ready :=
  gateN_admits_iff v.polls sc

/-- A wrapped service that is ready whenever asked: every request is made, in every mode, and exactly one answer
per `poll_ready` call of the mode is used. -/
theorem ready_service_admits (v : Via) (sc : List Rdy) (h : ∀ a ∈ sc, a = Rdy.ready) :
    gate v sc = (true, sc.drop v.polls) :=
  gateN_ready v.polls sc h

/-- A request the wrapped service refused (pending / error) is not made: the machine is untouched, the caller sees
`notready` — in every mode. -/
theorem refused_request_is_not_made (cfg : Cfg) (p : Proto) (s : State) (v : Via) (c k tag : Nat) (st : Step)
    (h : (gate v p.script).1 = false) :
    (arriveVia cfg p s v c k tag st).2 = (s, [Ev.result c .notReady]) := by
  simp [arriveVia, h]

/-- **The caller mode is irrelevant to the layer**: an admitted request is the machine's `arrive`, whichever of the
four modes it was made in (and whatever the readiness script was). -/
theorem caller_mode_irrelevant (cfg : Cfg) (p : Proto) (s : State) (v : Via) (c k tag : Nat) (st : Step)
    (h : (gate v p.script).1 = true) :
    (arriveVia cfg p s v c k tag st).2.1 = stepS cfg s (.arrive c k tag st) := by
  simp [arriveVia, h]

/-- **Transparent at rates 0/0 in every caller mode**: a request made in ANY mode `v`, over a wrapped service with
ANY readiness script, once admitted, reaches the wrapped service in its first poll — the step is the bare inner call,
no draw is consumed — and the strict wrapped service sees a call on an instance that reported ready (`ready=1`). -/
theorem transparent_any_caller_mode (cfg : Cfg) (p : Proto) (s : State) (v : Via) (c k tag : Nat) (st : Step) (d : Decision)
    (he : cfg.eT = 0) (hl : cfg.lT = 0) (hg : s.gone = false) (hk : known s c = false) (ha : allowedDec cfg d = true)
    (h : (gate v p.script).1 = true) :
    let r := arriveVia cfg p s v c k tag st
    (∃ rest, (stepS cfg r.2.1 (.poll c (some d))).log = s.log ++ Ev.innerCall c s.serial :: rest) ∧
    (r.1.strict = true → r.1.toEv (Ev.innerCall c s.serial) = Ev.innerCallX c s.serial tag true) := by
  have h1 : (arriveVia cfg p s v c k tag st).2.1 = setPhase s c (.fresh k tag st) := by
    rw [caller_mode_irrelevant cfg p s v c k tag st h]; simp [stepS, hg, hk]
  have hph : lookup (setPhase s c (.fresh k tag st)).phase c = some (.fresh k tag st) := by simp [setPhase, lookup]
  refine ⟨?_, ?_⟩
  · show ∃ rest, (stepS cfg (arriveVia cfg p s v c k tag st).2.1 (.poll c (some d))).log = _
    rw [h1]
    exact (transparent_first_poll cfg (setPhase s c (.fresh k tag st)) c k tag st d he hl hph ha).2
  · intro hs
    simp [arriveVia, h, Proto.toEv, lookup] at hs ⊢
    simp [hs]

/-! ## many threads on clones of one service

Assumption (not proved here, it is a property of `std::sync::Mutex`): the decision of one request is taken
atomically — the decision block runs under the mutex of the generator all clones share. Then a
parallel execution decides like the sequential run in which the first polls are ordered by lock
acquisition, i.e. like SOME operation list of the machine fed from the service's stream, and the theorems
above apply to it. The theorems below are the oracles of the harness's real-thread stress search
(`manual stress`), which looks for executions that are not of this kind; that search is sampling, not proof. -/

/-- **Whatever the interleaving, the same multiset of decisions.** For every schedule (every order in
which requests of whichever thread arrive, are first polled, polled again, dropped) each decision
occurs among the decisions taken on the service exactly as often as among the first `n` entries of its
stream, `n` the number of requests decided — whatever the stream is. -/
theorem interleaving_multiset (σ : Nat → Nat → Decision) (cfg : Cfg) (ops : List ROp) (k : Nat) (d : Decision) :
    (decsOn (runD σ cfg ops) k).count d =
      ((List.range (decsOn (runD σ cfg ops) k).length).map (σ k)).count d :=
  congrArg (List.count d) (runD_fed σ cfg ops k)

/-- …so two schedules of the same `n` requests (say the threads' requests interleaved in two different
ways, or the `n` requests made by one thread one after the other) take the same decisions up to order — in
fact in the same order of first polls. This is the oracle of the stress search: the multiset of the decisions
of the parallel run is that of a sequential run of an equally seeded service. -/
theorem interleavings_agree (σ : Nat → Nat → Decision) (cfg : Cfg) (ops₁ ops₂ : List ROp) (k : Nat)
    (h : (decsOn (runD σ cfg ops₁) k).length = (decsOn (runD σ cfg ops₂) k).length) :
    (decsOn (runD σ cfg ops₁) k).Perm (decsOn (runD σ cfg ops₂) k) := by
  rw [deterministic σ cfg ops₁ ops₂ k h]

/-- **Error rate 1: every call fails**, however many calls there are: every admissible stream is "inject"
throughout (so is the decision list of every schedule, by `decisions_are_stream`). -/
theorem always_fails_stream (σ : Nat → Nat → Decision) (cfg : Cfg) (he : cfg.eT = P53)
    (hσ : ∀ k i, allowedDec cfg (σ k i) = true) (k n : Nat) :
    (List.range n).map (σ k) = List.replicate n .error := by
  apply List.ext_getElem (by simp)
  intro i h1 h2
  simp [always_fails_at_one cfg (σ k i) he (hσ k i)]

/-- Both rates 0: every call passes, however many calls there are. -/
theorem transparent_stream (σ : Nat → Nat → Decision) (cfg : Cfg) (he : cfg.eT = 0) (hl : cfg.lT = 0)
    (hσ : ∀ k i, allowedDec cfg (σ k i) = true) (k n : Nat) :
    (List.range n).map (σ k) = List.replicate n .pass := by
  apply List.ext_getElem (by simp)
  intro i h1 h2
  simp [transparent_at_zero cfg (σ k i) he hl (hσ k i)]

/-- The check the model applies to the tallies of a stress run (`stressAllowed`: one decision per call;
error rate 1 ⇒ all fail; error rate 0 ⇒ none fails; latency rate 0 ⇒ none delayed; latency rate 1 ⇒
none passes undelayed) holds for the decisions of every schedule, for every admissible stream: the model never
rejects an execution that respects the atomicity assumption. -/
theorem stress_oracle_sound (σ : Nat → Nat → Decision) (cfg : Cfg) (hσ : ∀ k i, allowedDec cfg (σ k i) = true)
    (ops : List ROp) (k : Nat) :
    stressAllowed cfg (decsOn (runD σ cfg ops) k).length (tally (decsOn (runD σ cfg ops) k)) = true := by
  apply allowed_tally
  intro d hd
  rw [runD_fed σ cfg ops k] at hd
  simp only [List.mem_map, List.mem_range] at hd
  obtain ⟨i, _, rfl⟩ := hd
  exact hσ k i

/-- …in particular for today's decision function over every lawful generator. -/
theorem stress_oracle_sound_today {γ : Type} (G : Gen γ) (cfg : Cfg) (g : γ) (hL : Lawful cfg G) (n : Nat) :
    stressAllowed cfg n (tally (streamG G cfg g n)) = true :=
  stress_tally_allowed G cfg g hL n

/-- Every decision list is tallied completely: errors + delays + passes = number of calls. -/
theorem tally_complete (l : List Decision) : (tally l).ne + (tally l).nl + (tally l).np = l.length :=
  tally_total l

/-! ## non-vacuity -/

/-- The stress check accepts the tallies of a lawful stream and rejects what a request that skips its
rolls produces (error rate 1, 5 calls, one of them passed through). -/
example :
    let cfg : Cfg := { eT := P53, lT := 0, minMs := 0, maxMs := 0 }
    stressAllowed cfg 5 (tally (streamG counterGen cfg 0 5)) = true ∧
    stressAllowed cfg 5 ⟨4, 0, 1⟩ = false ∧
    stressAllowed { eT := P53 / 2, lT := P53 / 2, minMs := 1, maxMs := 5 } 7 ⟨3, 2, 2⟩ = true ∧
    stressAllowed { eT := P53 / 2, lT := P53 / 2, minMs := 1, maxMs := 5 } 7 ⟨3, 2, 1⟩ = false := by
  decide

/-- The boundary clauses: at mid rates and range [2,5] all three decisions are allowed, a delay of 6 ms is
not; at error rate 1 only "inject"; at rates 0/0 only "pass"; at latency rate 1 no undelayed pass;
`min > max`: the latency is `min`. -/
example :
    let cfg : Cfg := { eT := P53 / 2, lT := P53 / 2, minMs := 2, maxMs := 5 }
    allowedDec cfg .error = true ∧ allowedDec cfg (.latency 4) = true ∧ allowedDec cfg .pass = true ∧
    allowedDec cfg (.latency 6) = false ∧ allowedDec cfg (.latency 1) = false ∧
    allowedDec { cfg with eT := P53 } .pass = false ∧ allowedDec { cfg with eT := P53 } (.latency 3) = false ∧
    allowedDec { cfg with eT := 0, lT := 0 } .error = false ∧ allowedDec { cfg with eT := 0, lT := 0 } (.latency 3) = false ∧
    allowedDec { cfg with eT := 0, lT := P53 } .pass = false ∧
    allowedDec { eT := 0, lT := P53, minMs := 7, maxMs := 3 } (.latency 7) = true ∧
    allowedDec { eT := 0, lT := P53, minMs := 7, maxMs := 3 } (.latency 5) = false := by
  decide

/-- A concrete run on one service: request 1 gets an injected error (no inner call), request 2 is delayed by
3 ms (polled at 2 ms: nothing; at 3 ms: the inner call), request 3 passes. -/
example :
    let cfg : Cfg := { eT := P53 / 2, lT := P53 / 2, minMs := 2, maxMs := 5 }
    let ops := [Op.arrive 1 0 11 ⟨0, .ok⟩, .arrive 2 0 12 ⟨0, .ok⟩, .arrive 3 0 13 ⟨0, .err 1⟩,
                .poll 1 (some .error), .poll 2 (some (.latency 3)), .poll 3 (some .pass),
                .adv 2, .poll 2 none, .adv 1, .poll 2 none]
    (run cfg ops).log =
      [.result 1 (.inner 99 11), .innerCall 3 0, .innerDone 3 0 (.err 1), .result 3 (.inner 1 0),
       .innerCall 2 1, .innerDone 2 1 .ok, .result 2 (.ok 1)] ∧
    decsOn (run cfg ops) 0 = [.error, .latency 3, .pass] ∧ (run cfg ops).now = 3 := by
  decide

/-- A reported decision outside the boundary clauses is flagged (`choice-not-allowed`): error rate 1 and the
layer reports "passed through". -/
example :
    let cfg : Cfg := { eT := P53, lT := 0, minMs := 0, maxMs := 0 }
    (run cfg [Op.arrive 1 0 11 ⟨0, .ok⟩, .poll 1 (some .pass)]).log =
      [.raw "choice-not-allowed", .innerCall 1 0, .innerDone 1 0 .ok, .result 1 (.ok 0)] := by
  decide

/-- Every handle dropped between the arrivals and the first polls (`let f = svc.call(r); drop(svc); f.await`):
request 1 still gets its injected error, request 2 its delay of 1500 ms out of [1200, 2800] (polled at 1499 ms:
nothing; at 1500 ms: the inner call); request 3 arrives when there is no handle left and is never made. -/
example :
    let cfg : Cfg := { eT := P53 / 2, lT := P53, minMs := 1200, maxMs := 2800 }
    let ops := [Op.arrive 1 0 11 ⟨0, .ok⟩, .arrive 2 0 12 ⟨0, .ok⟩, .dropsvc, .arrive 3 0 13 ⟨0, .ok⟩,
                .poll 1 (some .error), .poll 2 (some (.latency 1500)), .poll 3 none,
                .adv 1499, .poll 2 none, .adv 1, .poll 2 none]
    (run cfg ops).log = [.result 1 (.inner 99 11), .innerCall 2 0, .innerDone 2 0 .ok, .result 2 (.ok 0)] ∧
    decsOn (run cfg ops) 0 = [.error, .latency 1500] ∧ (run cfg ops).now = 1500 ∧ (run cfg ops).gone = true := by
  decide

/-- A generator within the contract exists (`counterGen`: a counter; rolls alternate between 0 and
1 − 2⁻⁵³, range draws return the lower bound), so the `Lawful` hypotheses are satisfiable. -/
example (cfg : Cfg) : Lawful cfg counterGen :=
  ⟨fun g => by show (if g % 2 = 0 then 0 else P53 - 1) < P53; split <;> decide,
   fun h g => ⟨Nat.le_refl _, h⟩⟩

/-- Two services of one layer value, equally seeded (today's function over `counterGen` started at 0 for both),
traffic interleaved — service 1 serves its first request after service 0 has served two: each service replays the
seed's stream from its start (`[error, delay 2, …]`), whatever the sibling has served. -/
example :
    let cfg : Cfg := { eT := P53 / 2, lT := P53, minMs := 2, maxMs := 5 }
    let σ : Nat → Nat → Decision := fun _ => genStream counterGen cfg 0
    let ops := [ROp.arrive 1 0 1 ⟨0, .ok⟩, .arrive 2 1 2 ⟨0, .ok⟩, .arrive 3 0 3 ⟨0, .ok⟩, .arrive 4 1 4 ⟨0, .ok⟩,
                .poll 3, .poll 1, .adv 1, .poll 4, .poll 2, .poll 3]
    decsOn (runD σ cfg ops) 0 = [.error, .latency 2] ∧ decsOn (runD σ cfg ops) 1 = [.error, .latency 2] ∧
    lookup (runD σ cfg ops).decOf 3 = some .error ∧ lookup (runD σ cfg ops).decOf 4 = some .error := by
  decide

end TR.Props.C19
