import TR.Lemmas.Chaos
import TR.Lemmas.ChaosStress
import TR.Lemmas.ChaosHandles
import TR.Lemmas.ChaosTrace
import TR.Lemmas.ChaosInjector
/-!
# C19 — chaos injection is reproducible and bounded; injected errors skip the inner call

Quantification. The property says the decisions are "a deterministic function of the seed and the order of
requests" — not WHICH function. "All seeds" (and all admissible decision functions, all generator algorithms)
= every family of decision streams `σ : service → index → Decision`: `σ k i` is what the seed stands for as
the decision of the `i`-th request to be first polled on service `k` of the layer. The boundary clauses are
hypotheses on the stream, not on how it is produced: `allowedDec cfg (σ k i)` (error rate 0 ⇒ never an error,
error rate 1 ⇒ always; latency rate 0 ⇒ never a delay, latency rate 1 ⇒ every request not failed is delayed;
a delay lies within the bounds). Today's code (`decideG`: error roll, latency roll, range draw over `StdRng`) is
one instance: `todays_function_is_admissible`, for every generator `G : Gen γ` within the contracts of `rand`
(`Lawful`). A refactor that changes the draw scheme and stays deterministic is another instance of the same
theorems. "All rates in [0,1]" = all thresholds `eT, lT` (a rate `p` is the threshold `⌈p·2⁵³⌉`; `0 ⟺ p = 0`,
`P53 = 2⁵³ ⟺ p = 1`). "All ranges" = all `minMs, maxMs : Nat`, including `min = max` and `min > max`. "All request
counts / orders" = all operation lists of the poll-level machine: any number of requests on any number of services
built from the one layer value, every order of arrivals, polls, cancellations and clock advances, every scripted
inner latency/outcome — and the caller dropping every handle of the services (`dropsvc`) at any point.

The machine (`stepS`, `run`) CONSUMES the decision reported with a first poll (`Op.poll c (some d)`): it does not
predict it. `runD σ` is the machine fed from the streams `σ`.
-/
namespace TR.Props.C19
open TR TR.Chaos

/-! ## reproducible -/

/-- **Deterministic function of the seed and the order of requests.** Feed the machine from ANY family of
decision streams `σ` (one per service built from the layer value) and drive it with ANY operation list: the
decisions taken on service `k` (inject / delay by `ms` / pass, in the order of the first polls on `k`) are the
first `n` entries of `σ k` — they depend on nothing but the stream of that service and the rank of the request
among the first polls on that service: not on the instants, the payloads, the inner outcomes, the cancellations,
how polls of different requests interleave, or how much traffic the OTHER services of the layer have served. -/
theorem decisions_are_stream (σ : Nat → Nat → Decision) (cfg : Cfg) (ops : List ROp) (k : Nat) :
    decsOn (runD σ cfg ops) k = (List.range (decsOn (runD σ cfg ops) k).length).map (σ k) :=
  runD_fed σ cfg ops k

/-- Two runs of the same service `k` under the same streams (say two equally seeded instances, driven at different
instants, with different payloads, polled in different interleavings, next to different traffic on the other
services) that have decided the same number of requests on `k` have taken the same decisions and injected the
same latencies on `k`. -/
theorem deterministic (σ : Nat → Nat → Decision) (cfg : Cfg) (ops₁ ops₂ : List ROp) (k : Nat)
    (h : (decsOn (runD σ cfg ops₁) k).length = (decsOn (runD σ cfg ops₂) k).length) :
    decsOn (runD σ cfg ops₁) k = decsOn (runD σ cfg ops₂) k := by
  rw [runD_fed σ cfg ops₁ k, runD_fed σ cfg ops₂ k, h]

/-- …and the instance that has seen fewer requests has taken a prefix of the other's decisions. -/
theorem deterministic_prefix (σ : Nat → Nat → Decision) (cfg : Cfg) (ops : List ROp) (k n : Nat)
    (h : (decsOn (runD σ cfg ops) k).length = n) : decsOn (runD σ cfg ops) k = (List.range n).map (σ k) := by
  rw [← h]; exact runD_fed σ cfg ops k

/-- **Equally seeded services agree request by request** — in particular two services obtained from ONE layer
value (`layer.layer(a)`, `layer.layer(b)`: the same configuration and seed, hence the same stream): whenever they
have decided the same number of requests they have taken the same decisions, within one run or across two runs,
however the traffic of the two (and of any further service) was interleaved. -/
theorem equally_seeded_services_agree (σ : Nat → Nat → Decision) (cfg : Cfg) (ops₁ ops₂ : List ROp) (j k : Nat)
    (hσ : σ j = σ k) (h : (decsOn (runD σ cfg ops₁) j).length = (decsOn (runD σ cfg ops₂) k).length) :
    decsOn (runD σ cfg ops₁) j = decsOn (runD σ cfg ops₂) k := by
  rw [runD_fed σ cfg ops₁ j, runD_fed σ cfg ops₂ k, h, hσ]

/-- A fresh service of a seeded layer replays the seeded sequence from its start, regardless of the requests a
sibling has served: the `i`-th decision on service `k` is `σ k i`. -/
theorem service_decision_is_stream_entry (σ : Nat → Nat → Decision) (cfg : Cfg) (ops : List ROp) (k i : Nat)
    (h : i < (decsOn (runD σ cfg ops) k).length) : (decsOn (runD σ cfg ops) k)[i]? = some (σ k i) := by
  rw [runD_fed σ cfg ops k]
  simp [h]

/-- **The services of one layer value are independent.** A poll of a request made on one service leaves the
decisions of every other service as they were (whatever decision is reported with it), and leaves every other
request — of whichever service — alone: its phase, its decision, and the events about it. -/
theorem services_independent (cfg : Cfg) (s : State) (c : Nat) (d : Option Decision) (j : Nat)
    (h : svcOfFresh s c ≠ j) :
    decsOn (stepS cfg s (.poll c d)) j = decsOn s j ∧
    (∀ c', c ≠ c' → lookup (stepS cfg s (.poll c d)).phase c' = lookup s.phase c' ∧
                     lookup (stepS cfg s (.poll c d)).decOf c' = lookup s.decOf c') ∧
    (∃ evs, (stepS cfg s (.poll c d)).log = s.log ++ evs ∧ ∀ e ∈ evs, ∀ x, about e = some x → x = c) :=
  have t := touches_poll cfg s c d
  ⟨step_other_service cfg s c d j h, fun c' hne => ⟨t.phase c' hne, t.dec c' hne⟩, t.log⟩

/-- A run fed from streams is a run of the machine on the operations annotated with the streams' entries: every
theorem below about `run` applies to it. -/
theorem fed_run_is_a_run (σ : Nat → Nat → Decision) (cfg : Cfg) (ops : List ROp) :
    runD σ cfg ops = run cfg (annotated σ cfg init ops) ∧
    ∀ c d, Op.poll c (some d) ∈ annotated σ cfg init ops → ∃ k i, d = σ k i :=
  ⟨runD_eq_run σ cfg ops, fun c d h => annotated_from_stream σ cfg ops init c d h⟩

/-! ## injected errors skip the inner call -/

/-- In every run: a request for which the layer decided to inject an error never reaches the
wrapped service — there is no `inner_call` for it anywhere in the log. -/
theorem error_skips_inner (cfg : Cfg) (ops : List Op) (c k : Nat)
    (h : lookup (run cfg ops).decOf c = some .error) : Ev.innerCall c k ∉ (run cfg ops).log :=
  error_no_inner_call cfg ops c k h

/-- Conversely every inner call belongs to a request whose recorded decision is "pass" or
"delay". -/
theorem inner_call_only_without_error (cfg : Cfg) (ops : List Op) (c k : Nat)
    (h : Ev.innerCall c k ∈ (run cfg ops).log) :
    ∃ dec, lookup (run cfg ops).decOf c = some dec ∧ dec ≠ .error :=
  inner_call_decision cfg ops c k h

/-- The first poll of a request whose decision is "inject": the configured error is the
result of that very poll (the only line after the harness's `first_poll` line, at the same instant), no serial is
consumed (no inner call), no timer is started. -/
theorem error_result_immediate (cfg : Cfg) (s : State) (c k tag : Nat) (st : Step)
    (hph : lookup s.phase c = some (.fresh k tag st)) (ha : allowedDec cfg .error = true) :
    (stepS cfg s (.poll c (some .error))).log = s.log ++ [(TEv.firstPoll c k).toEv, .result c (injected tag)] ∧
    (stepS cfg s (.poll c (some .error))).tlog =
      s.tlog ++ [(s.now, .firstPoll c k), (s.now, .ev (.result c (injected tag)))] ∧
    (stepS cfg s (.poll c (some .error))).serial = s.serial ∧
    lookup (stepS cfg s (.poll c (some .error))).phase c = some .done := by
  simp [stepS, hph, pollFresh, enact, checked, ha, record, emit, mark, setPhase, lookup]

/-- The same for the machine fed from streams: no request decided "inject" has an inner call. -/
theorem error_skips_inner_stream (σ : Nat → Nat → Decision) (cfg : Cfg) (ops : List ROp) (c k : Nat)
    (h : lookup (runD σ cfg ops).decOf c = some .error) : Ev.innerCall c k ∉ (runD σ cfg ops).log := by
  rw [runD_eq_run] at h ⊢
  exact error_no_inner_call cfg _ c k h

/-! ## transparent at rate 0 -/

/-- With both rates 0 the only decision the property allows is "pass" — whatever the decision function. -/
theorem transparent_at_zero (cfg : Cfg) (d : Decision) (he : cfg.eT = 0) (hl : cfg.lT = 0)
    (ha : allowedDec cfg d = true) : d = .pass := by
  cases d with
  | error => simp [allowedDec, he] at ha
  | latency ms => simp [allowedDec, hl] at ha
  | pass => rfl

/-- …and the layer is transparent: the first poll calls the wrapped service in that very step
(the first new event is the inner call), and the step is the one a bare inner call makes. -/
theorem transparent_first_poll (cfg : Cfg) (s : State) (c k tag : Nat) (st : Step) (d : Decision)
    (he : cfg.eT = 0) (hl : cfg.lT = 0) (hph : lookup s.phase c = some (.fresh k tag st))
    (ha : allowedDec cfg d = true) :
    stepS cfg s (.poll c (some d)) = startInner (record (mark s c k) c k .pass) c st ∧
    ∃ rest, (stepS cfg s (.poll c (some d))).log =
      s.log ++ (TEv.firstPoll c k).toEv :: Ev.innerCall c s.serial :: rest := by
  have hd := transparent_at_zero cfg d he hl ha
  subst hd
  have h1 : stepS cfg s (.poll c (some .pass)) = startInner (record (mark s c k) c k .pass) c st := by
    simp [stepS, hph, pollFresh, enact, checked, ha]
  refine ⟨h1, ?_⟩
  rw [h1]
  obtain ⟨rest, h⟩ := startInner_log (record (mark s c k) c k .pass) c st
  exact ⟨rest, by rw [h]; simp [record, mark]⟩

/-- In every run with both rates 0 (reported decisions within the boundary clauses) every recorded decision is
"pass". -/
theorem transparent_run (cfg : Cfg) (ops : List Op) (c : Nat) (dec : Decision)
    (he : cfg.eT = 0) (hl : cfg.lT = 0)
    (hall : ∀ c d, Op.poll c (some d) ∈ ops → allowedDec cfg d = true)
    (h : lookup (run cfg ops).decOf c = some dec) : dec = .pass :=
  transparent_at_zero cfg dec he hl (hall c dec (decision_from_obs cfg ops c dec h))

/-! ## always fails at rate 1 -/

/-- With error rate 1 the only decision the property allows is "inject an error". -/
theorem always_fails_at_one (cfg : Cfg) (d : Decision) (he : cfg.eT = P53) (ha : allowedDec cfg d = true) :
    d = .error := by
  cases d with
  | error => rfl
  | latency ms => simp [allowedDec, he] at ha
  | pass => simp [allowedDec, he] at ha

/-- In every run with error rate 1 (reported decisions within the boundary clauses): the wrapped service is never
called — the log contains no `inner_call` at all. -/
theorem always_fails_run (cfg : Cfg) (ops : List Op) (he : cfg.eT = P53)
    (hall : ∀ c d, Op.poll c (some d) ∈ ops → allowedDec cfg d = true) (c k : Nat) :
    Ev.innerCall c k ∉ (run cfg ops).log := by
  intro hmem
  obtain ⟨dec, h1, h2⟩ := inner_call_decision cfg ops c k hmem
  exact h2 (always_fails_at_one cfg dec he (hall c dec (decision_from_obs cfg ops c dec h1)))

/-- …for every admissible family of streams (every seed, every decision function): fed from it, no run of any
number of services ever calls a wrapped service. -/
theorem always_fails_fed (σ : Nat → Nat → Decision) (cfg : Cfg) (ops : List ROp) (he : cfg.eT = P53)
    (hσ : ∀ k i, allowedDec cfg (σ k i) = true) (c k : Nat) : Ev.innerCall c k ∉ (runD σ cfg ops).log := by
  rw [runD_eq_run]
  apply always_fails_run cfg _ he
  intro c d hin
  obtain ⟨k, i, rfl⟩ := annotated_from_stream σ cfg ops init c d hin
  exact hσ k i

/-! ## injected latency is bounded -/

/-- An injected latency the property allows lies within `[min, max]` when that interval is non-empty (including
`min = max`); when `min > max` (empty interval) the code uses `min`, and so does the model. -/
theorem latency_in_range (cfg : Cfg) (ms : Nat) (ha : allowedDec cfg (.latency ms) = true) :
    (cfg.minMs ≤ cfg.maxMs → cfg.minMs ≤ ms ∧ ms ≤ cfg.maxMs) ∧ (cfg.maxMs ≤ cfg.minMs → ms = cfg.minMs) := by
  unfold allowedDec inBounds at ha
  simp only [Bool.and_eq_true, decide_eq_true_eq] at ha
  by_cases hm : cfg.maxMs > cfg.minMs
  · simp only [hm, if_true, Bool.and_eq_true, decide_eq_true_eq] at ha
    exact ⟨fun _ => ha.2, fun hle => by omega⟩
  · simp only [hm, if_false, decide_eq_true_eq] at ha
    exact ⟨fun hle => by omega, fun _ => ha.2⟩

/-- In every run (reported decisions within the boundary clauses) every recorded latency is within the bounds. -/
theorem latency_in_range_run (cfg : Cfg) (ops : List Op) (c ms : Nat)
    (hall : ∀ c d, Op.poll c (some d) ∈ ops → allowedDec cfg d = true)
    (h : lookup (run cfg ops).decOf c = some (.latency ms)) :
    (cfg.minMs ≤ cfg.maxMs → cfg.minMs ≤ ms ∧ ms ≤ cfg.maxMs) ∧ (cfg.maxMs ≤ cfg.minMs → ms = cfg.minMs) :=
  latency_in_range cfg ms (hall c _ (decision_from_obs cfg ops c _ h))

/-- The latency is real virtual time: while asleep a poll before the wake-up instant
(first poll + latency) does nothing at all; the first poll at or after it calls the inner
service (the same step a bare call makes). -/
theorem latency_exact (cfg : Cfg) (s : State) (c u : Nat) (st : Step) (d : Option Decision)
    (hph : lookup s.phase c = some (.sleeping u st)) :
    (s.now < u → stepS cfg s (.poll c d) = s) ∧
    (u ≤ s.now → stepS cfg s (.poll c d) = startInner s c st) := by
  constructor
  · intro h
    have : ¬ s.now ≥ u := by omega
    simp [stepS, hph, pollSleeping, this]
  · intro h
    have : s.now ≥ u := h
    simp [stepS, hph, pollSleeping, this]

/-- A first poll that decides "delay by `ms > 0`" makes no inner call and sleeps until exactly
first-poll instant + `ms`. -/
theorem latency_sleep_set (cfg : Cfg) (s : State) (c k tag ms : Nat) (st : Step)
    (hph : lookup s.phase c = some (.fresh k tag st)) (ha : allowedDec cfg (.latency ms) = true) (hpos : ms > 0) :
    (stepS cfg s (.poll c (some (.latency ms)))).log = s.log ++ [(TEv.firstPoll c k).toEv] ∧
    (stepS cfg s (.poll c (some (.latency ms)))).tlog = s.tlog ++ [(s.now, .firstPoll c k)] ∧
    lookup (stepS cfg s (.poll c (some (.latency ms)))).phase c = some (.sleeping (s.now + ms) st) := by
  have : ¬ (s.now + ms ≤ s.now) := by omega
  simp [stepS, hph, pollFresh, enact, checked, ha, record, pollSleeping, setPhase, mark, lookup, this]

/-- Latency rate 1 without an error injector: every request is delayed, by a value within the bounds. -/
theorem always_delayed_at_one (cfg : Cfg) (d : Decision) (he : cfg.eT = 0) (hl : cfg.lT = P53)
    (ha : allowedDec cfg d = true) : ∃ ms, d = .latency ms ∧ inBounds cfg ms = true := by
  cases d with
  | error => simp [allowedDec, he] at ha
  | pass => simp [allowedDec, hl] at ha
  | latency ms =>
      refine ⟨ms, rfl, ?_⟩
      unfold allowedDec at ha
      simp only [Bool.and_eq_true] at ha
      exact ha.2

/-! ## today's decision function (`decideG`, service.rs:64-91) is one admissible function

Nothing above depends on it. These theorems show that the hypotheses on the streams are satisfiable by the code as
it is today, for every generator within the contracts of `rand`, and record what that function does with its
draws (no draw at rates 0/0, one draw on an injected error). -/

/-- **Every decision today's code takes is within the boundary clauses**, for every generator within the
contracts of `rand` in every state — so the stream `genStream G cfg g` of every seed is admissible. -/
theorem todays_function_is_admissible {γ : Type} (G : Gen γ) (cfg : Cfg) (g : γ) (hL : Lawful cfg G) :
    allowedDec cfg (decideG G cfg g).1 = true ∧ ∀ i, allowedDec cfg (genStream G cfg g i) = true :=
  ⟨decideG_allowed G cfg g hL, genStream_allowed G cfg g hL⟩

/-- The machine fed with today's function over equally seeded generators (one per service, all started in state
`g`): the decisions on every service are the first `n` entries of the seed's stream `streamG G cfg g`. -/
theorem decisions_are_seed_stream {γ : Type} (G : Gen γ) (cfg : Cfg) (g : γ) (ops : List ROp) (k : Nat) :
    decsOn (runD (fun _ => genStream G cfg g) cfg ops) k =
      streamG G cfg g (decsOn (runD (fun _ => genStream G cfg g) cfg ops) k).length := by
  rw [streamG_eq_map]
  exact runD_fed (fun _ => genStream G cfg g) cfg ops k

/-- today's function at rates 0/0: "pass", and **no draw is consumed** (the generator is left as it was) -/
theorem todays_transparent_at_zero {γ : Type} (G : Gen γ) (cfg : Cfg) (g : γ) (he : cfg.eT = 0) (hl : cfg.lT = 0) :
    decideG G cfg g = (.pass, g) :=
  decideG_zero G cfg g he hl

/-- today's function at error rate 1: "inject an error", one draw (the error roll) -/
theorem todays_always_fails_at_one {γ : Type} (G : Gen γ) (cfg : Cfg) (g : γ) (hL : Lawful cfg G) (he : cfg.eT = P53) :
    decideG G cfg g = (.error, (G.nextF g).2) :=
  decideG_one G cfg g hL he

/-- today's function: a latency is within the bounds -/
theorem todays_latency_in_range {γ : Type} (G : Gen γ) (cfg : Cfg) (g : γ) (ms : Nat) (hL : Lawful cfg G)
    (h : (decideG G cfg g).1 = .latency ms) :
    (cfg.minMs ≤ cfg.maxMs → cfg.minMs ≤ ms ∧ ms ≤ cfg.maxMs) ∧ (cfg.maxMs ≤ cfg.minMs → ms = cfg.minMs) :=
  decideG_latency_range G cfg g ms hL h

/-- today's function: when an error is injected, exactly one draw (the error roll) has been consumed: no latency
roll, no range draw -/
theorem todays_no_latency_on_error {γ : Type} (G : Gen γ) (cfg : Cfg) (g : γ) (h : (decideG G cfg g).1 = .error) :
    (decideG G cfg g).2 = (G.nextF g).2 ∧ cfg.eT > 0 ∧ (G.nextF g).1 < cfg.eT :=
  ⟨decideG_error_state G cfg g h, (decideG_error_iff G cfg g).mp h⟩

/-- today's function: an error is injected exactly when the error rate is positive and the roll is below it -/
theorem todays_error_iff {γ : Type} (G : Gen γ) (cfg : Cfg) (g : γ) :
    (decideG G cfg g).1 = .error ↔ cfg.eT > 0 ∧ (G.nextF g).1 < cfg.eT :=
  decideG_error_iff G cfg g

/-! ## the handles may go away while calls are pending

`let f = svc.call(r); drop(svc); f.await`, `svc.oneshot(r)`: every handle of the service (and the layer) is
dropped while requests have arrived and have not been polled yet, or are asleep, or are in the inner call.
The decision of a request belongs to its first poll and to the seed's stream, not to the lifetime of a
handle. (`decisions_are_stream`, `deterministic`, `always_fails_run`, `error_skips_inner`,
`latency_in_range_run` … already quantify over operation lists that contain `dropsvc`.) -/

/-- **Dropping every handle changes nothing for the requests made before.** A run in which every handle
is dropped at some point is, up to the flag `gone`, the run without that operation and without the
arrivals after it (those have no handle to be made on): same log, same decisions in the same order on every
service — whether the requests pending at that point had been polled or not. -/
theorem handles_dropped_no_effect (cfg : Cfg) (ops₁ ops₂ : List Op) :
    run cfg (ops₁ ++ .dropsvc :: ops₂) = noHandles (run cfg (ops₁ ++ ops₂.filter survives)) :=
  run_dropsvc cfg ops₁ ops₂

theorem handles_dropped_same_behaviour (cfg : Cfg) (ops₁ ops₂ : List Op) :
    (run cfg (ops₁ ++ .dropsvc :: ops₂)).log = (run cfg (ops₁ ++ ops₂.filter survives)).log ∧
    (run cfg (ops₁ ++ .dropsvc :: ops₂)).decs = (run cfg (ops₁ ++ ops₂.filter survives)).decs ∧
    (run cfg (ops₁ ++ .dropsvc :: ops₂)).decOf = (run cfg (ops₁ ++ ops₂.filter survives)).decOf ∧
    (run cfg (ops₁ ++ .dropsvc :: ops₂)).phase = (run cfg (ops₁ ++ ops₂.filter survives)).phase := by
  rw [run_dropsvc]; exact ⟨rfl, rfl, rfl, rfl⟩

/-- The handles dropped between `call()` and the first poll: that first poll records the same decision and has
the same effect (injected error at once / sleep / inner call) as with the handles alive. -/
theorem first_poll_after_handles_dropped (cfg : Cfg) (s : State) (c : Nat) (d : Option Decision) :
    stepS cfg (stepS cfg s .dropsvc) (.poll c d) = noHandles (stepS cfg s (.poll c d)) :=
  stepS_noHandles cfg s (.poll c d) rfl

/-- Error rate 1, the handles dropped before the first poll: the request still fails in that poll with the
error built from it, nothing is called, nothing sleeps. -/
theorem always_fails_after_handles_dropped (cfg : Cfg) (s : State) (c k tag : Nat) (st : Step) (d : Decision)
    (he : cfg.eT = P53) (hph : lookup s.phase c = some (.fresh k tag st)) (ha : allowedDec cfg d = true) :
    (stepS cfg (stepS cfg s .dropsvc) (.poll c (some d))).log =
      s.log ++ [(TEv.firstPoll c k).toEv, .result c (injected tag)] ∧
    (stepS cfg (stepS cfg s .dropsvc) (.poll c (some d))).serial = s.serial := by
  rw [first_poll_after_handles_dropped]
  have hd := always_fails_at_one cfg d he ha
  subst hd
  have h := error_result_immediate cfg s c k tag st hph ha
  exact ⟨h.1, h.2.2.1⟩

/-- Once every handle is gone no further request can be made. -/
theorem no_request_without_handle (cfg : Cfg) (s : State) (c k tag : Nat) (st : Step) :
    stepS cfg (stepS cfg s .dropsvc) (.arrive c k tag st) = stepS cfg s .dropsvc :=
  stepS_noHandles_other cfg s (.arrive c k tag st) rfl

/-! ## bounds of a second and more -/

/-- The bounds are compared in whole milliseconds of the WHOLE duration (`Duration::as_millis`): a bound
of `secs` seconds and `us < 10⁶` further microseconds is `1000·secs + ⌊us/1000⌋` ms — the whole seconds
are part of it (this is how `machine.init` reads `min_us` / `max_us`). -/
theorem bound_in_ms (secs us : Nat) : (secs * 1000000 + us) / 1000 = secs * 1000 + us / 1000 :=
  ms_of_us secs us

/-- An injected latency the property allows is never below `min_latency` — for `min ≤ max`, `min = max` and
`min > max` alike; in particular with `min_latency ≥ secs` seconds every injected latency is at least `1000·secs` ms. -/
theorem latency_at_least_min (cfg : Cfg) (ms secs : Nat) (ha : allowedDec cfg (.latency ms) = true)
    (hs : secs * 1000 ≤ cfg.minMs) : cfg.minMs ≤ ms ∧ secs * 1000 ≤ ms := by
  have hr := latency_in_range cfg ms ha
  have : cfg.minMs ≤ ms := by
    by_cases hle : cfg.minMs ≤ cfg.maxMs
    · exact (hr.1 hle).1
    · have := hr.2 (by omega); omega
  exact ⟨this, by omega⟩

/-- `min_latency = max_latency = 1 s` at latency rate 1 (no error injector): every request is delayed by
exactly 1000 ms, whatever the seed and the decision function; `[1200, 2800]` ms: by at least 1200 and at most
2800 ms. -/
theorem one_second_is_one_second (d : Decision) (lo hi : Nat) (hle : lo ≤ hi)
    (ha : allowedDec { eT := 0, lT := P53, minMs := lo, maxMs := hi } d = true) :
    ∃ ms, d = .latency ms ∧ lo ≤ ms ∧ ms ≤ hi := by
  obtain ⟨ms, rfl, _⟩ := always_delayed_at_one _ d rfl rfl ha
  exact ⟨ms, rfl, (latency_in_range _ ms ha).1 hle⟩

/-- …and today's function over any lawful generator is such a decision. -/
theorem todays_one_second_is_one_second {γ : Type} (G : Gen γ) (g : γ) (lo hi : Nat) (hle : lo ≤ hi)
    (hL : Lawful { eT := 0, lT := P53, minMs := lo, maxMs := hi } G) :
    ∃ ms, (decideG G { eT := 0, lT := P53, minMs := lo, maxMs := hi } g).1 = .latency ms ∧ lo ≤ ms ∧ ms ≤ hi :=
  one_second_is_one_second _ lo hi hle (decideG_allowed G _ g hL)

/-! ## caller modes: which handle is readied and called

`arrive c … via=clone|readyclone|swap|template`. The machine's `arrive` carries no mode, so every theorem of this file
about `run` / `stepS` (in particular `transparent_first_poll`, `transparent_run`, `always_fails_run`,
`error_skips_inner`, `latency_in_range_run`) holds whichever mode each request is made in. What depends on the mode —
how many `poll_ready` calls reach the wrapped service before the request is made — is stated here, for every mode. -/

theorem gateN_admits_iff (n : Nat) (sc : List Rdy) :
    (gateN n sc).1 = true ↔ ∀ a ∈ sc.take n, a = Rdy.ready := by
  induction n generalizing sc with
  | zero => simp [gateN]
  | succ n ih =>
    cases sc with
    | nil => simp [gateN]
    | cons a sc => cases a <;> simp [gateN, ih]

theorem gateN_ready (n : Nat) (sc : List Rdy) (h : ∀ a ∈ sc, a = Rdy.ready) : gateN n sc = (true, sc.drop n) := by
  induction n generalizing sc with
  | zero => simp [gateN]
  | succ n ih =>
    cases sc with
    | nil => simp [gateN]
    | cons a sc =>
      have ha : a = Rdy.ready := h a (by simp)
      subst ha
      simp only [gateN, List.drop_succ_cons]
      exact ih sc (fun b hb => h b (by simp [hb]))

/-- **Readiness is forwarded, in every caller mode**: the request is made iff every `poll_ready` call of the mode
(one; two for `readyclone`) was answered "ready" by the wrapped service itself. -/
theorem readiness_forwarded (v : Via) (sc : List Rdy) :
    (gate v sc).1 = true ↔ ∀ a ∈ sc.take v.polls, a = Rdy.ready :=
  gateN_admits_iff v.polls sc

/-- A wrapped service that is ready whenever asked: every request is made, in every mode, and exactly one answer
per `poll_ready` call of the mode is used. -/
theorem ready_service_admits (v : Via) (sc : List Rdy) (h : ∀ a ∈ sc, a = Rdy.ready) :
    gate v sc = (true, sc.drop v.polls) :=
  gateN_ready v.polls sc h

/-- A request the wrapped service refused (pending / error) is not made: the machine is untouched, the caller sees
`notready` — in every mode. -/
theorem refused_request_is_not_made (cfg : Cfg) (p : Proto) (s : State) (v : Via) (c k tag : Nat) (st : Step)
    (h : (gate v p.script).1 = false) :
    (arriveVia cfg p s v c k tag st).2 = (s, [Ev.result c .notReady]) := by
  simp [arriveVia, h]

/-- **The caller mode is irrelevant to the layer**: an admitted request is the machine's `arrive`, whichever of the
four modes it was made in (and whatever the readiness script was). -/
theorem caller_mode_irrelevant (cfg : Cfg) (p : Proto) (s : State) (v : Via) (c k tag : Nat) (st : Step)
    (h : (gate v p.script).1 = true) :
    (arriveVia cfg p s v c k tag st).2.1 = stepS cfg s (.arrive c k tag st) := by
  simp [arriveVia, h]

/-- **Transparent at rates 0/0 in every caller mode**: a request made in ANY mode `v`, over a wrapped service with
ANY readiness script, once admitted, reaches the wrapped service in its first poll — the step is the bare inner call,
no draw is consumed — and the strict wrapped service sees a call on an instance that reported ready (`ready=1`). -/
theorem transparent_any_caller_mode (cfg : Cfg) (p : Proto) (s : State) (v : Via) (c k tag : Nat) (st : Step) (d : Decision)
    (he : cfg.eT = 0) (hl : cfg.lT = 0) (hg : s.gone = false) (hk : known s c = false) (ha : allowedDec cfg d = true)
    (h : (gate v p.script).1 = true) :
    let r := arriveVia cfg p s v c k tag st
    (∃ rest, (stepS cfg r.2.1 (.poll c (some d))).log =
      s.log ++ (TEv.firstPoll c k).toEv :: Ev.innerCall c s.serial :: rest) ∧
    (r.1.strict = true → r.1.toEv (Ev.innerCall c s.serial) = Ev.innerCallX c s.serial tag true) := by
  have h1 : (arriveVia cfg p s v c k tag st).2.1 = setPhase s c (.fresh k tag st) := by
    rw [caller_mode_irrelevant cfg p s v c k tag st h]; simp [stepS, hg, hk]
  have hph : lookup (setPhase s c (.fresh k tag st)).phase c = some (.fresh k tag st) := by simp [setPhase, lookup]
  refine ⟨?_, ?_⟩
  · show ∃ rest, (stepS cfg (arriveVia cfg p s v c k tag st).2.1 (.poll c (some d))).log =
      s.log ++ (TEv.firstPoll c k).toEv :: Ev.innerCall c s.serial :: rest
    rw [h1]
    exact (transparent_first_poll cfg (setPhase s c (.fresh k tag st)) c k tag st d he hl hph ha).2
  · intro hs
    simp [arriveVia, h, Proto.toEv, lookup] at hs ⊢
    simp [hs]

/-! ## many threads on clones of one service

Assumption (not proved here, it is a property of `std::sync::Mutex`): the decision of one request is taken
atomically — the decision block runs under the mutex of the generator all clones share. Then a
parallel execution decides like the sequential run in which the first polls are ordered by lock
acquisition, i.e. like SOME operation list of the machine fed from the service's stream, and the theorems
above apply to it. The theorems below are the oracles of the harness's real-thread stress search
(`manual stress`), which looks for executions that are not of this kind; that search is sampling, not proof. -/

/-- **Whatever the interleaving, the same multiset of decisions.** For every schedule (every order in
which requests of whichever thread arrive, are first polled, polled again, dropped) each decision
occurs among the decisions taken on the service exactly as often as among the first `n` entries of its
stream, `n` the number of requests decided — whatever the stream is. -/
theorem interleaving_multiset (σ : Nat → Nat → Decision) (cfg : Cfg) (ops : List ROp) (k : Nat) (d : Decision) :
    (decsOn (runD σ cfg ops) k).count d =
      ((List.range (decsOn (runD σ cfg ops) k).length).map (σ k)).count d :=
  congrArg (List.count d) (runD_fed σ cfg ops k)

/-- …so two schedules of the same `n` requests (say the threads' requests interleaved in two different
ways, or the `n` requests made by one thread one after the other) take the same decisions up to order — in
fact in the same order of first polls. This is the oracle of the stress search: the multiset of the decisions
of the parallel run is that of a sequential run of an equally seeded service. -/
theorem interleavings_agree (σ : Nat → Nat → Decision) (cfg : Cfg) (ops₁ ops₂ : List ROp) (k : Nat)
    (h : (decsOn (runD σ cfg ops₁) k).length = (decsOn (runD σ cfg ops₂) k).length) :
    (decsOn (runD σ cfg ops₁) k).Perm (decsOn (runD σ cfg ops₂) k) := by
  rw [deterministic σ cfg ops₁ ops₂ k h]

/-- **Error rate 1: every call fails**, however many calls there are: every admissible stream is "inject"
throughout (so is the decision list of every schedule, by `decisions_are_stream`). -/
theorem always_fails_stream (σ : Nat → Nat → Decision) (cfg : Cfg) (he : cfg.eT = P53)
    (hσ : ∀ k i, allowedDec cfg (σ k i) = true) (k n : Nat) :
    (List.range n).map (σ k) = List.replicate n .error := by
  apply List.ext_getElem (by simp)
  intro i h1 h2
  simp [always_fails_at_one cfg (σ k i) he (hσ k i)]

/-- Both rates 0: every call passes, however many calls there are. -/
theorem transparent_stream (σ : Nat → Nat → Decision) (cfg : Cfg) (he : cfg.eT = 0) (hl : cfg.lT = 0)
    (hσ : ∀ k i, allowedDec cfg (σ k i) = true) (k n : Nat) :
    (List.range n).map (σ k) = List.replicate n .pass := by
  apply List.ext_getElem (by simp)
  intro i h1 h2
  simp [transparent_at_zero cfg (σ k i) he hl (hσ k i)]

/-- The check the model applies to the tallies of a stress run (`stressAllowed`: one decision per call;
error rate 1 ⇒ all fail; error rate 0 ⇒ none fails; latency rate 0 ⇒ none delayed; latency rate 1 ⇒
none passes undelayed) holds for the decisions of every schedule, for every admissible stream: the model never
rejects an execution that respects the atomicity assumption. -/
theorem stress_oracle_sound (σ : Nat → Nat → Decision) (cfg : Cfg) (hσ : ∀ k i, allowedDec cfg (σ k i) = true)
    (ops : List ROp) (k : Nat) :
    stressAllowed cfg (decsOn (runD σ cfg ops) k).length (tally (decsOn (runD σ cfg ops) k)) = true := by
  apply allowed_tally
  intro d hd
  rw [runD_fed σ cfg ops k] at hd
  simp only [List.mem_map, List.mem_range] at hd
  obtain ⟨i, _, rfl⟩ := hd
  exact hσ k i

/-- …in particular for today's decision function over every lawful generator. -/
theorem stress_oracle_sound_today {γ : Type} (G : Gen γ) (cfg : Cfg) (g : γ) (hL : Lawful cfg G) (n : Nat) :
    stressAllowed cfg n (tally (streamG G cfg g n)) = true :=
  stress_tally_allowed G cfg g hL n

/-- Every decision list is tallied completely: errors + delays + passes = number of calls. -/
theorem tally_complete (l : List Decision) : (tally l).ne + (tally l).nl + (tally l).np = l.length :=
  tally_total l

/-! ## the timestamped event log: decisions and latencies as the log shows them

Everything above is about the ghost fields `decs` / `decOf`. This section ties them to the event log the
correspondence check compares with the implementation's, line by line and instant by instant: `trace cfg ops` /
`traceD σ cfg ops` (`State.tlog`) is that log, typed — the events of the common vocabulary and the line
`first_poll <c> svc=<k>` the harness prints when it polls the call future of a request for the first time.
Vocabulary: `mine c tr` — the lines of request `c`, with their instants, in log order; `markersOn k tr` — the requests
with a `first_poll` line on service `k`, in log order (= the order of requests on `k`); `injectedIn tr c` — the log
shows an injected error for `c`: a `result` line and NO `inner_call` line; `forwardedIn tr c` — an `inner_call` line;
`Lines x c dec m` — `m` is what decision `dec` dictates for the lines of request `c`:
`[first_poll@t0, result(injected)@t0]` for "inject"; `first_poll@t0 :: inner_call@t0 :: …` for "pass";
`[first_poll@t0]` or `first_poll@t0 :: inner_call@t1 :: …` with `t0 + ms ≤ t1` (`= t0 + ms` for `x = true`) for "delay
by `ms`"; `…` = nothing / `inner_drop` / `inner_done, result` with the inner call's own answer (`Rest`).
`Timely cfg ops` — the runtime's side of a sleep: no `adv` jumps over the wake-up instant of a request that is asleep
(the timer fires AT that instant and the woken caller is polled before the clock moves on); `timely_means`. -/

/-- **The typed, timestamped log IS the log**: without the instants it is `State.log`, line for line (the `first_poll`
line rendered as the harness prints it), and the lines an operation appends are stamped with the instant of the state
it leads to — the `t=` the driver prints (`Driver.applyStep`) and the correspondence check compares. -/
theorem trace_is_the_log (cfg : Cfg) (ops : List Op) :
    (trace cfg ops).map (fun p => p.2.toEv) = (run cfg ops).log ∧
    ∀ (s : State) (op : Op), ∃ tl : List (Nat × TEv), (stepS cfg s op).tlog = s.tlog ++ tl ∧
      (stepS cfg s op).log = s.log ++ tl.map (fun p => p.2.toEv) ∧ ∀ p ∈ tl, p.1 = (stepS cfg s op).now :=
  ⟨synced_reachable cfg ops, step_stamps cfg⟩

/-- the discipline, said without recursion -/
theorem timely_means (cfg : Cfg) (ops : List Op) :
    Timely cfg ops ↔ ∀ pre ms post, ops = pre ++ .adv ms :: post → ∀ c u st,
      lookup (run cfg pre).phase c = some (.sleeping u st) → (run cfg pre).now + ms ≤ u ∨ ms = 0 :=
  timely_iff cfg ops

/-- **The invariant linking decisions to the log** (every run, whatever decisions are reported): the lines of a
request — with their instants — are exactly what its recorded decision dictates, in every reachable state (`x = true`:
under the poll discipline, with the inner call of a delayed request exactly at first poll + latency). -/
theorem request_lines (x : Bool) (cfg : Cfg) (ops : List Op) (ht : x = true → Timely cfg ops) (c : Nat) :
    Lines x c (lookup (run cfg ops).decOf c) (mine c (trace cfg ops)) :=
  lines_of_tstage (tinv_reachable x cfg ops ht c)

/-- **The ghost decisions are readable off the log.** In every run: the recorded decision of a request is "inject"
iff the log shows an injected error for it — a `result` line and NO `inner_call` line (equivalently: its lines are
its `first_poll` line and, at the same instant, the error built by the configured function, nothing else); an
`inner_call` line means a recorded decision other than "inject"; and the ghost list of decisions is the list of the
`first_poll` lines, in log order: its entry for `first_poll c svc=k` is (`k`, the decision of `c`). -/
theorem decision_observable (cfg : Cfg) (ops : List Op) (c : Nat) :
    (lookup (run cfg ops).decOf c = some .error ↔ injectedIn (trace cfg ops) c = true) ∧
    (lookup (run cfg ops).decOf c = some .error ↔
      ∃ t0 k tag, mine c (trace cfg ops) = [(t0, .firstPoll c k), (t0, .ev (.result c (injected tag)))]) ∧
    (forwardedIn (trace cfg ops) c = true → ∃ dec, lookup (run cfg ops).decOf c = some dec ∧ dec ≠ .error) ∧
    (run cfg ops).decs = (markers (trace cfg ops)).map (fun p => (p.2, dOf (run cfg ops).decOf p.1)) := by
  have hinv := tinv_reachable false cfg ops (by intro h; cases h)
  refine ⟨(injectedIn_iff hinv c).symm, ?_, forwardedIn_dec hinv c, aligned_reachable cfg ops⟩
  have hl := lines_of_tstage (hinv c)
  constructor
  · intro hd
    rw [hd] at hl
    show ∃ t0 k tag, mine c (run cfg ops).tlog = _
    generalize mine c (run cfg ops).tlog = m at hl
    cases hl with
    | failed t0 k tag => exact ⟨t0, k, tag, rfl⟩
    | called _ _ _ _ _ _ hs _ => exact absurd hs (by simp [Sched])
  · rintro ⟨t0, k, tag, hm⟩
    have hm' : mine c (run cfg ops).tlog = [(t0, .firstPoll c k), (t0, .ev (.result c (injected tag)))] := hm
    rw [hm'] at hl
    generalize hdm : lookup (run cfg ops).decOf c = dm at hl
    cases hl with
    | failed _ _ _ => rfl

/-- **The sequence of decisions visible in the log is the decision stream, in request order.** Feed the machine from
ANY family of streams `σ`, drive it with ANY operations. Let `c` be the `i`-th request with a `first_poll` line on
service `k`. Then the lines of `c` are what `σ k i` dictates (`Lines`): "inject" — the injected error at the instant of
the first poll and no inner call; "pass" — the inner call in the first poll; "delay by `ms`" — nothing before
`t0 + ms`. In particular the log shows an injected error for `c` (a `result` and NO `inner_call`) iff `σ k i` is
"inject", an `inner_call` whenever `σ k i` is "pass", and an `inner_call` only if `σ k i` is not "inject". -/
theorem log_decisions_are_stream (σ : Nat → Nat → Decision) (cfg : Cfg) (ops : List ROp) (k i c : Nat)
    (h : (markersOn k (traceD σ cfg ops))[i]? = some c) :
    Lines false c (some (σ k i)) (mine c (traceD σ cfg ops)) ∧
    injectedIn (traceD σ cfg ops) c = (σ k i == .error) ∧
    (σ k i = .pass → forwardedIn (traceD σ cfg ops) c = true) ∧
    (forwardedIn (traceD σ cfg ops) c = true → σ k i ≠ .error) := by
  have hl := (fed_request_lines false σ cfg ops (by intro h; cases h) k i c h).2
  have hv := lines_visible hl
  exact ⟨hl, hv.1, hv.2.2.1, hv.2.1⟩

/-- …as one equation between sequences: per service, the inject / not-inject verdicts the log shows for the requests
in the order of their `first_poll` lines ARE the first `n` entries of the service's stream; `n`, the number of
`first_poll` lines on the service, is the number of decisions taken on it. -/
theorem log_inject_sequence_is_stream (σ : Nat → Nat → Decision) (cfg : Cfg) (ops : List ROp) (k : Nat) :
    (markersOn k (traceD σ cfg ops)).map (injectedIn (traceD σ cfg ops)) =
      (List.range (markersOn k (traceD σ cfg ops)).length).map (fun i => σ k i == .error) ∧
    (markersOn k (traceD σ cfg ops)).length = (decsOn (runD σ cfg ops) k).length := by
  constructor
  · apply List.ext_getElem (by simp)
    intro i h1 h2
    simp only [List.getElem_map, List.getElem_range]
    have hi : i < (markersOn k (traceD σ cfg ops)).length := by simpa using h1
    exact (log_decisions_are_stream σ cfg ops k i _ (List.getElem?_eq_getElem hi)).2.1
  · have hal : Aligned (runD σ cfg ops) := by rw [runD_eq_run]; exact aligned_reachable cfg _
    rw [decsOn_markers hal k, List.length_map]; rfl

/-- **Determinism, over the log.** Two runs under the same streams (two equally seeded instances, driven at different
instants, with different payloads, polled in different interleavings) with the same number of `first_poll` lines on
service `k` show the same sequence of injected / not injected requests on `k`. -/
theorem log_deterministic (σ : Nat → Nat → Decision) (cfg : Cfg) (ops₁ ops₂ : List ROp) (k : Nat)
    (h : (markersOn k (traceD σ cfg ops₁)).length = (markersOn k (traceD σ cfg ops₂)).length) :
    (markersOn k (traceD σ cfg ops₁)).map (injectedIn (traceD σ cfg ops₁)) =
      (markersOn k (traceD σ cfg ops₂)).map (injectedIn (traceD σ cfg ops₂)) := by
  rw [(log_inject_sequence_is_stream σ cfg ops₁ k).1, (log_inject_sequence_is_stream σ cfg ops₂ k).1, h]

/-! ## injected latency, observed -/

/-- **The observable of an injected latency**: instant of the `inner_call` line − instant of the `first_poll` line.
For the `i`-th request first polled on service `k`: if `σ k i` is "pass" the inner call is at the instant of the first
poll; if it is "delay by `ms`" the inner call is not earlier than `ms` after the first poll — for every schedule of
polls and clock advances; and there is no inner call at all if it is "inject". -/
theorem observed_latency_at_least (σ : Nat → Nat → Decision) (cfg : Cfg) (ops : List ROp) (k i c t0 k' t1 j : Nat)
    (hi : (markersOn k (traceD σ cfg ops))[i]? = some c)
    (h0 : (t0, TEv.firstPoll c k') ∈ traceD σ cfg ops) (h1 : (t1, TEv.ev (.innerCall c j)) ∈ traceD σ cfg ops) :
    σ k i ≠ .error ∧ (σ k i = .pass → t1 = t0) ∧ (∀ ms, σ k i = .latency ms → t0 + ms ≤ t1) := by
  have hl := (fed_request_lines false σ cfg ops (by intro h; cases h) k i c hi).2
  have hs := (lines_call hl (mem_trace_mine h0 rfl) (mem_trace_mine h1 rfl)).1
  cases hd : σ k i with
  | error => rw [hd] at hs; exact absurd hs (by simp [Sched])
  | pass => rw [hd] at hs; exact ⟨by simp, fun _ => hs, (by intro ms h; cases h)⟩
  | latency ms' =>
      rw [hd] at hs
      exact ⟨by simp, (by intro h; cases h), (by intro ms h; injection h with h; subst h; exact hs.1)⟩

/-- **…and it IS the stream's latency**: when the runtime does its part (`Timely`: the timer fires at the wake-up
instant and the woken caller is polled before the clock moves on), the inner call of a request delayed by `ms` is at
exactly first poll + `ms`. -/
theorem observed_latency_exact (σ : Nat → Nat → Decision) (cfg : Cfg) (ops : List ROp)
    (ht : Timely cfg (annotated σ cfg init ops)) (k i c t0 k' t1 j ms : Nat)
    (hi : (markersOn k (traceD σ cfg ops))[i]? = some c)
    (h0 : (t0, TEv.firstPoll c k') ∈ traceD σ cfg ops) (h1 : (t1, TEv.ev (.innerCall c j)) ∈ traceD σ cfg ops)
    (hd : σ k i = .latency ms) : t1 = t0 + ms ∧ t1 - t0 = ms := by
  have hl := (fed_request_lines true σ cfg ops (fun _ => ht) k i c hi).2
  have hs := (lines_call hl (mem_trace_mine h0 rfl) (mem_trace_mine h1 rfl)).1
  rw [hd] at hs
  have := hs.2 rfl
  exact ⟨this, by omega⟩

/-- **Injected latency always lies within `[min_latency, max_latency]`, as observed in the log**: for every admissible
family of streams (every seed, every decision function within the boundary clauses) and every timely schedule, the
distance from the `first_poll` line to the `inner_call` line of a delayed request lies in `[min, max]` ms when
`min ≤ max` — including `min = max`, where it is exactly `min` — and is exactly `min` when `min > max` (the interval
of the property is empty then; `if max_ms > min_ms { random_range(min_ms..=max_ms) } else { min_ms }`,
service.rs:80-84). -/
theorem observed_latency_in_bounds (σ : Nat → Nat → Decision) (cfg : Cfg) (ops : List ROp)
    (hσ : ∀ k i, allowedDec cfg (σ k i) = true) (ht : Timely cfg (annotated σ cfg init ops))
    (k i c t0 k' t1 j ms : Nat) (hi : (markersOn k (traceD σ cfg ops))[i]? = some c)
    (h0 : (t0, TEv.firstPoll c k') ∈ traceD σ cfg ops) (h1 : (t1, TEv.ev (.innerCall c j)) ∈ traceD σ cfg ops)
    (hd : σ k i = .latency ms) :
    (cfg.minMs ≤ cfg.maxMs → cfg.minMs ≤ t1 - t0 ∧ t1 - t0 ≤ cfg.maxMs) ∧ (cfg.maxMs ≤ cfg.minMs → t1 - t0 = cfg.minMs) := by
  have he := (observed_latency_exact σ cfg ops ht k i c t0 k' t1 j ms hi h0 h1 hd).2
  rw [he]
  exact latency_in_range cfg ms (by rw [← hd]; exact hσ k i)

/-- Without any assumption on the schedule the observed latency is never below `min_latency` (a caller that is polled
late sees the inner call late: the upper bound is the runtime's part). -/
theorem observed_latency_at_least_min (σ : Nat → Nat → Decision) (cfg : Cfg) (ops : List ROp)
    (hσ : ∀ k i, allowedDec cfg (σ k i) = true)
    (k i c t0 k' t1 j ms : Nat) (hi : (markersOn k (traceD σ cfg ops))[i]? = some c)
    (h0 : (t0, TEv.firstPoll c k') ∈ traceD σ cfg ops) (h1 : (t1, TEv.ev (.innerCall c j)) ∈ traceD σ cfg ops)
    (hd : σ k i = .latency ms) : cfg.minMs ≤ t1 - t0 := by
  have h := (observed_latency_at_least σ cfg ops k i c t0 k' t1 j hi h0 h1).2.2 ms hd
  have ha : allowedDec cfg (.latency ms) = true := by rw [← hd]; exact hσ k i
  have hr := latency_in_range cfg ms ha
  have hm : cfg.minMs ≤ ms := by
    by_cases hle : cfg.minMs ≤ cfg.maxMs
    · exact (hr.1 hle).1
    · have := hr.2 (by omega); omega
  omega

/-- **Injected latencies are reproducible, as observed**: the `i`-th requests first polled on service `k` in two timely
runs under the same streams that both reached the wrapped service did so after the same delay. -/
theorem log_latencies_deterministic (σ : Nat → Nat → Decision) (cfg : Cfg) (ops₁ ops₂ : List ROp)
    (ht₁ : Timely cfg (annotated σ cfg init ops₁)) (ht₂ : Timely cfg (annotated σ cfg init ops₂))
    (k i c₁ c₂ a₀ a₁ b₀ b₁ k₁ k₂ j₁ j₂ : Nat)
    (h₁ : (markersOn k (traceD σ cfg ops₁))[i]? = some c₁) (h₂ : (markersOn k (traceD σ cfg ops₂))[i]? = some c₂)
    (ha₀ : (a₀, TEv.firstPoll c₁ k₁) ∈ traceD σ cfg ops₁) (ha₁ : (a₁, TEv.ev (.innerCall c₁ j₁)) ∈ traceD σ cfg ops₁)
    (hb₀ : (b₀, TEv.firstPoll c₂ k₂) ∈ traceD σ cfg ops₂) (hb₁ : (b₁, TEv.ev (.innerCall c₂ j₂)) ∈ traceD σ cfg ops₂) :
    a₁ - a₀ = b₁ - b₀ := by
  have ha := observed_latency_at_least σ cfg ops₁ k i c₁ a₀ k₁ a₁ j₁ h₁ ha₀ ha₁
  have hb := observed_latency_at_least σ cfg ops₂ k i c₂ b₀ k₂ b₁ j₂ h₂ hb₀ hb₁
  cases hd : σ k i with
  | error => exact absurd hd ha.1
  | pass => rw [ha.2.1 hd, hb.2.1 hd]; omega
  | latency ms =>
      rw [(observed_latency_exact σ cfg ops₁ ht₁ k i c₁ a₀ k₁ a₁ j₁ ms h₁ ha₀ ha₁ hd).2,
        (observed_latency_exact σ cfg ops₂ ht₂ k i c₂ b₀ k₂ b₁ j₂ ms h₂ hb₀ hb₁ hd).2]

/-- The run-level form (reported decisions, ghost `decOf`): the lemma behind the three theorems above. -/
theorem observed_latency_run (x : Bool) (cfg : Cfg) (ops : List Op) (ht : x = true → Timely cfg ops) (c t0 k t1 j : Nat)
    (h0 : (t0, TEv.firstPoll c k) ∈ trace cfg ops) (h1 : (t1, TEv.ev (.innerCall c j)) ∈ trace cfg ops) :
    ∃ dec, lookup (run cfg ops).decOf c = some dec ∧ Sched x dec t0 t1 := by
  obtain ⟨dec, hd, hl, _⟩ := marked_lines (tinv_reachable x cfg ops ht) h0
  exact ⟨dec, hd, (lines_call hl (mem_trace_mine h0 rfl) (mem_trace_mine h1 rfl)).1⟩

/-! ## the extremes, for whole runs -/

/-- **Error rate 1: EVERY call fails, and none reaches the wrapped service** — composed to runs: for every admissible
family of streams and every operation list, every request that is polled at all (has a `first_poll` line) has exactly
two lines: that one and, at the same instant, the injected error; and the log holds no `inner_call` line whatever. -/
theorem always_fails_every_call (σ : Nat → Nat → Decision) (cfg : Cfg) (ops : List ROp) (he : cfg.eT = P53)
    (hσ : ∀ k i, allowedDec cfg (σ k i) = true) :
    (∀ t0 c k, (t0, TEv.firstPoll c k) ∈ traceD σ cfg ops →
      ∃ tag, mine c (traceD σ cfg ops) = [(t0, .firstPoll c k), (t0, .ev (.result c (injected tag)))]) ∧
    (∀ t c j, (t, TEv.ev (.innerCall c j)) ∉ traceD σ cfg ops) := by
  have hall := hall_of_stream σ cfg ops hσ
  unfold traceD
  rw [runD_eq_run]
  constructor
  · intro t0 c k hm
    obtain ⟨dec, hd, hl, tl, htl⟩ := marked_lines (tinv_reachable false cfg _ (by intro h; cases h)) hm
    have : dec = .error := always_fails_at_one cfg dec he (allowed_of_hall hall hd)
    subst this
    exact lines_failed hl htl
  · intro t c j hm
    exact always_fails_run cfg _ he hall c j (mem_log_of_mem_tlog (synced_reachable cfg _) hm)

/-- **Both rates 0: the layer is transparent for the whole life of every request.** For every admissible family of
streams and every operation list, every request that is polled at all is forwarded EXACTLY ONCE, AT ITS FIRST POLL
(the `inner_call` line directly follows the `first_poll` line, at the same instant; there is exactly one `inner_call`
line for it in the whole log), and what follows is the fate of that one call and nothing else (`Rest`: still running /
dropped with the caller / completed): every `result` line of the request is THE ANSWER OF THAT CALL, unchanged
(`answer j out`: `ok:j`, the inner error with its own kind, the panic). -/
theorem transparent_whole_request (σ : Nat → Nat → Decision) (cfg : Cfg) (ops : List ROp) (he : cfg.eT = 0) (hl : cfg.lT = 0)
    (hσ : ∀ k i, allowedDec cfg (σ k i) = true) (t0 c k : Nat) (h : (t0, TEv.firstPoll c k) ∈ traceD σ cfg ops) :
    ∃ j rest, mine c (traceD σ cfg ops) = (t0, .firstPoll c k) :: (t0, .ev (.innerCall c j)) :: rest ∧ Rest c j rest ∧
      ((traceD σ cfg ops).filter (isCallOf c)).length = 1 ∧
      ∀ t r, (t, TEv.ev (.result c r)) ∈ traceD σ cfg ops →
        ∃ out, (t, TEv.ev (.innerDone c j out)) ∈ traceD σ cfg ops ∧ answer j out = some r := by
  have hall := hall_of_stream σ cfg ops hσ
  unfold traceD at *
  rw [runD_eq_run] at *
  obtain ⟨dec, hd, hlines, tl, htl⟩ := marked_lines (tinv_reachable false cfg _ (by intro h; cases h)) h
  have : dec = .pass := transparent_at_zero cfg dec he hl (allowed_of_hall hall hd)
  subst this
  obtain ⟨j, rest, hm, hr⟩ := lines_passed hlines htl
  refine ⟨j, rest, hm, hr, ?_, ?_⟩
  · rw [filter_mine (fun p => isCallOf_owner) _, hm]
    have h1 : isCallOf c (t0, TEv.firstPoll c k) = false := rfl
    have h2 : isCallOf c (t0, TEv.ev (Ev.innerCall c j)) = true := by simp [isCallOf]
    simp only [List.filter_cons, h1, h2, rest_no_call hr c]
    simp
  · intro t r hres
    have hin : (t, TEv.ev (Ev.result c r)) ∈ mine c (run cfg (annotated σ cfg init ops)).tlog :=
      mem_trace_mine hres rfl
    rw [hm] at hin
    simp only [List.mem_cons, Prod.mk.injEq, reduceCtorEq, and_false, false_or, TEv.ev.injEq] at hin
    obtain ⟨out, hdone, hans⟩ := rest_result hr hin
    refine ⟨out, ?_, hans⟩
    have : (t, TEv.ev (Ev.innerDone c j out)) ∈ mine c (run cfg (annotated σ cfg init ops)).tlog := by
      rw [hm]; simp [hdone]
    exact (mem_mine.mp this).1

/-! ## an arbitrary `ErrorInjector`

`ErrorInjector` is a public trait; the crate installs only its own two implementations (`TR.Lemmas.ChaosInjector`).
Every theorem of this file about `run` / `runD` that has no `allowedDec` hypothesis — `decisions_are_stream`,
`deterministic`, `services_independent`, `error_skips_inner`, `request_lines`, `decision_observable`,
`log_decisions_are_stream`, `log_inject_sequence_is_stream`, `observed_latency_at_least`, `observed_latency_exact`,
`latency_exact` — is about the decision TAKEN and holds whatever injector (and whatever decision function) produced
it. The decision block itself, over an arbitrary injector `inj : payload → roll → Bool` reporting rate `cfg.eT`: -/

/-- the two shipped injectors are today's block -/
theorem shipped_injectors {γ : Type} (G : Gen γ) (cfg : Cfg) (tag : Nat) (g : γ) :
    decideI G (fun _ r => decide (r < cfg.eT)) cfg tag g = decideG G cfg g ∧
    (cfg.eT = 0 → decideI G (fun _ _ => false) cfg tag g = decideG G cfg g) :=
  ⟨decideI_shipped G cfg tag g, decideI_no_injection G cfg tag g⟩

/-- **What survives for EVERY injector**: an injected latency lies within the bounds and needs a positive latency
rate; "inject" is decided exactly when the injector returns `Some` for the roll it is handed (a fresh roll if it
reports a positive rate, the default 1.0 otherwise). -/
theorem any_injector {γ : Type} (G : Gen γ) (inj : Nat → Nat → Bool) (cfg : Cfg) (tag : Nat) (g : γ) (hL : Lawful cfg G) :
    (∀ ms, (decideI G inj cfg tag g).1 = .latency ms → cfg.lT > 0 ∧
      (cfg.minMs ≤ cfg.maxMs → cfg.minMs ≤ ms ∧ ms ≤ cfg.maxMs) ∧ (cfg.maxMs ≤ cfg.minMs → ms = cfg.minMs)) ∧
    ((decideI G inj cfg tag g).1 = .error ↔ inj tag (errorRoll G cfg g) = true) :=
  ⟨fun ms h => ⟨decideI_latency_pos G inj cfg tag g ms h, decideI_latency_range G inj cfg tag g ms hL h⟩,
   decideI_error_iff G inj cfg tag g⟩

/-- **What each extreme needs of the injector**: "rate 0 ⇒ never an error, both rates 0 ⇒ transparent without a draw"
— that it declines the default roll 1.0; "rate 1 ⇒ every call fails" — that it accepts every roll below 1; all boundary
clauses — that it injects exactly below the rate it reports. -/
theorem injector_extremes {γ : Type} (G : Gen γ) (inj : Nat → Nat → Bool) (cfg : Cfg) (tag : Nat) (g : γ) (hL : Lawful cfg G) :
    (cfg.eT = 0 → inj tag P53 = false →
      (decideI G inj cfg tag g).1 ≠ .error ∧ (cfg.lT = 0 → decideI G inj cfg tag g = (.pass, g))) ∧
    (cfg.eT = P53 → (∀ r, r < P53 → inj tag r = true) → (decideI G inj cfg tag g).1 = .error) ∧
    ((∀ r, inj tag r = decide (r < cfg.eT)) → allowedDec cfg (decideI G inj cfg tag g).1 = true) :=
  ⟨fun he hd => decideI_never_at_zero G inj cfg tag g he hd,
   fun he ha => decideI_always_at_one G inj cfg tag g hL he ha,
   fun hx => decideI_allowed G inj cfg tag g hL hx⟩

/-- **"A function of the seed and the order of requests" needs an injector that does not read the request**: then the
decisions of any two payload sequences of the same length agree (for the shipped injector they are today's stream);
an injector that reads the request gives, for the same seed and position, different decisions for different payloads. -/
theorem injector_and_determinism {γ : Type} (G : Gen γ) (cfg : Cfg) (g : γ) :
    (∀ inj : Nat → Nat → Bool, (∀ t t' r, inj t r = inj t' r) → ∀ tags tags' : List Nat, tags.length = tags'.length →
      streamI G inj cfg g tags = streamI G inj cfg g tags') ∧
    (∀ tags, streamI G (fun _ r => decide (r < cfg.eT)) cfg g tags = streamG G cfg g tags.length) ∧
    (cfg.lT = 0 → (decideI G (fun tag _ => tag % 2 == 1) cfg 1 g).1 ≠ (decideI G (fun tag _ => tag % 2 == 1) cfg 2 g).1) := by
  refine ⟨fun inj hind tags tags' hlen => streamI_payload_independent G inj cfg hind g tags tags' hlen,
    fun tags => streamI_shipped G cfg g tags, fun hl => ?_⟩
  have := injector_reading_the_request G cfg g hl
  rw [this.1, this.2]; simp

/-- Legal injectors that break a clause: one that ignores the roll fails every call at "rate 0" (no transparency); one
that reports rate 1 and never injects fails nothing — and delays nothing, at any latency rate. -/
theorem injectors_breaking_the_extremes {γ : Type} (G : Gen γ) (cfg : Cfg) (tag : Nat) (g : γ) (hL : Lawful cfg G) :
    (cfg.eT = 0 → cfg.lT = 0 → decideI G (fun _ _ => true) cfg tag g = (.error, g)) ∧
    (cfg.eT = P53 → decideI G (fun _ _ => false) cfg tag g = (.pass, (G.nextF g).2)) :=
  ⟨fun he hl => injector_ignoring_the_roll G cfg tag g he hl,
   fun he => injector_reporting_a_rate_it_ignores G cfg tag g hL he⟩

/-! ## non-vacuity -/

/-- The stress check accepts the tallies of a lawful stream and rejects what a request that skips its
rolls produces (error rate 1, 5 calls, one of them passed through). -/
example :
    let cfg : Cfg := { eT := P53, lT := 0, minMs := 0, maxMs := 0 }
    stressAllowed cfg 5 (tally (streamG counterGen cfg 0 5)) = true ∧
    stressAllowed cfg 5 ⟨4, 0, 1⟩ = false ∧
    stressAllowed { eT := P53 / 2, lT := P53 / 2, minMs := 1, maxMs := 5 } 7 ⟨3, 2, 2⟩ = true ∧
    stressAllowed { eT := P53 / 2, lT := P53 / 2, minMs := 1, maxMs := 5 } 7 ⟨3, 2, 1⟩ = false := by
  decide

/-- The boundary clauses: at mid rates and range [2,5] all three decisions are allowed, a delay of 6 ms is
not; at error rate 1 only "inject"; at rates 0/0 only "pass"; at latency rate 1 no undelayed pass;
`min > max`: the latency is `min`. -/
example :
    let cfg : Cfg := { eT := P53 / 2, lT := P53 / 2, minMs := 2, maxMs := 5 }
    allowedDec cfg .error = true ∧ allowedDec cfg (.latency 4) = true ∧ allowedDec cfg .pass = true ∧
    allowedDec cfg (.latency 6) = false ∧ allowedDec cfg (.latency 1) = false ∧
    allowedDec { cfg with eT := P53 } .pass = false ∧ allowedDec { cfg with eT := P53 } (.latency 3) = false ∧
    allowedDec { cfg with eT := 0, lT := 0 } .error = false ∧ allowedDec { cfg with eT := 0, lT := 0 } (.latency 3) = false ∧
    allowedDec { cfg with eT := 0, lT := P53 } .pass = false ∧
    allowedDec { eT := 0, lT := P53, minMs := 7, maxMs := 3 } (.latency 7) = true ∧
    allowedDec { eT := 0, lT := P53, minMs := 7, maxMs := 3 } (.latency 5) = false := by
  decide

/-- A concrete run on one service: request 1 gets an injected error (no inner call), request 2 is delayed by
3 ms (polled at 2 ms: nothing; at 3 ms: the inner call), request 3 passes. -/
example :
    let cfg : Cfg := { eT := P53 / 2, lT := P53 / 2, minMs := 2, maxMs := 5 }
    let ops := [Op.arrive 1 0 11 ⟨0, .ok⟩, .arrive 2 0 12 ⟨0, .ok⟩, .arrive 3 0 13 ⟨0, .err 1⟩,
                .poll 1 (some .error), .poll 2 (some (.latency 3)), .poll 3 (some .pass),
                .adv 2, .poll 2 none, .adv 1, .poll 2 none]
    (run cfg ops).tlog =
      [(0, .firstPoll 1 0), (0, .ev (.result 1 (.inner 99 11))),
       (0, .firstPoll 2 0),
       (0, .firstPoll 3 0), (0, .ev (.innerCall 3 0)), (0, .ev (.innerDone 3 0 (.err 1))), (0, .ev (.result 3 (.inner 1 0))),
       (3, .ev (.innerCall 2 1)), (3, .ev (.innerDone 2 1 .ok)), (3, .ev (.result 2 (.ok 1)))] ∧
    (run cfg ops).log =
      [.raw "first_poll 1 svc=0", .result 1 (.inner 99 11), .raw "first_poll 2 svc=0", .raw "first_poll 3 svc=0",
       .innerCall 3 0, .innerDone 3 0 (.err 1), .result 3 (.inner 1 0),
       .innerCall 2 1, .innerDone 2 1 .ok, .result 2 (.ok 1)] ∧
    decsOn (run cfg ops) 0 = [.error, .latency 3, .pass] ∧ (run cfg ops).now = 3 := by
  decide

/-- A reported decision outside the boundary clauses is flagged (`choice-not-allowed`): error rate 1 and the
layer reports "passed through". -/
example :
    let cfg : Cfg := { eT := P53, lT := 0, minMs := 0, maxMs := 0 }
    (run cfg [Op.arrive 1 0 11 ⟨0, .ok⟩, .poll 1 (some .pass)]).log =
      [.raw "first_poll 1 svc=0", .raw "choice-not-allowed", .innerCall 1 0, .innerDone 1 0 .ok, .result 1 (.ok 0)] := by
  decide

/-- Every handle dropped between the arrivals and the first polls (`let f = svc.call(r); drop(svc); f.await`):
request 1 still gets its injected error, request 2 its delay of 1500 ms out of [1200, 2800] (polled at 1499 ms:
nothing; at 1500 ms: the inner call); request 3 arrives when there is no handle left and is never made. -/
example :
    let cfg : Cfg := { eT := P53 / 2, lT := P53, minMs := 1200, maxMs := 2800 }
    let ops := [Op.arrive 1 0 11 ⟨0, .ok⟩, .arrive 2 0 12 ⟨0, .ok⟩, .dropsvc, .arrive 3 0 13 ⟨0, .ok⟩,
                .poll 1 (some .error), .poll 2 (some (.latency 1500)), .poll 3 none,
                .adv 1499, .poll 2 none, .adv 1, .poll 2 none]
    (run cfg ops).tlog =
      [(0, .firstPoll 1 0), (0, .ev (.result 1 (.inner 99 11))), (0, .firstPoll 2 0),
       (1500, .ev (.innerCall 2 0)), (1500, .ev (.innerDone 2 0 .ok)), (1500, .ev (.result 2 (.ok 0)))] ∧
    decsOn (run cfg ops) 0 = [.error, .latency 1500] ∧ (run cfg ops).now = 1500 ∧ (run cfg ops).gone = true := by
  decide

/-- A generator within the contract exists (`counterGen`: a counter; rolls alternate between 0 and
1 − 2⁻⁵³, range draws return the lower bound), so the `Lawful` hypotheses are satisfiable. -/
example (cfg : Cfg) : Lawful cfg counterGen :=
  ⟨fun g => by show (if g % 2 = 0 then 0 else P53 - 1) < P53; split <;> decide,
   fun h g => ⟨Nat.le_refl _, h⟩⟩

/-- Two services of one layer value, equally seeded (today's function over `counterGen` started at 0 for both),
traffic interleaved — service 1 serves its first request after service 0 has served two: each service replays the
seed's stream from its start (`[error, delay 2, …]`), whatever the sibling has served. -/
example :
    let cfg : Cfg := { eT := P53 / 2, lT := P53, minMs := 2, maxMs := 5 }
    let σ : Nat → Nat → Decision := fun _ => genStream counterGen cfg 0
    let ops := [ROp.arrive 1 0 1 ⟨0, .ok⟩, .arrive 2 1 2 ⟨0, .ok⟩, .arrive 3 0 3 ⟨0, .ok⟩, .arrive 4 1 4 ⟨0, .ok⟩,
                .poll 3, .poll 1, .adv 1, .poll 4, .poll 2, .poll 3]
    decsOn (runD σ cfg ops) 0 = [.error, .latency 2] ∧ decsOn (runD σ cfg ops) 1 = [.error, .latency 2] ∧
    lookup (runD σ cfg ops).decOf 3 = some .error ∧ lookup (runD σ cfg ops).decOf 4 = some .error := by
  decide

/-- A run fed from a stream, under the poll discipline, with its timestamped log: service 0 decides
`[delay 3, inject, pass, delay 2]` for the requests in the order of their `first_poll` lines (1, 2, 3, 4). Request 1:
first polled at 0, inner call at 3 = 0 + 3; request 2: the injected error at the instant of its first poll and no inner
call; request 3: inner call in its first poll, its result is the inner error, unchanged; request 4: first polled at 1,
inner call at 3 = 1 + 2. (Hypotheses of `log_decisions_are_stream`, `observed_latency_exact`,
`observed_latency_in_bounds`, `log_inject_sequence_is_stream`.) -/
example :
    let cfg : Cfg := { eT := P53 / 2, lT := P53 / 2, minMs := 2, maxMs := 5 }
    let σ : Nat → Nat → Decision := fun _ i => [Decision.latency 3, .error, .pass, .latency 2].getD i .pass
    let ops := [ROp.arrive 1 0 11 ⟨1, .ok⟩, .arrive 2 0 12 ⟨0, .ok⟩, .arrive 3 0 13 ⟨0, .err 7⟩, .arrive 4 0 14 ⟨0, .ok⟩,
                .poll 1, .adv 1, .poll 2, .poll 3, .poll 4, .adv 2, .poll 1, .poll 4, .adv 1, .poll 1]
    Timely cfg (annotated σ cfg init ops) ∧ (∀ k i, allowedDec cfg (σ k i) = true) ∧
    traceD σ cfg ops =
      [(0, .firstPoll 1 0),
       (1, .firstPoll 2 0), (1, .ev (.result 2 (.inner 99 12))),
       (1, .firstPoll 3 0), (1, .ev (.innerCall 3 0)), (1, .ev (.innerDone 3 0 (.err 7))), (1, .ev (.result 3 (.inner 7 0))),
       (1, .firstPoll 4 0),
       (3, .ev (.innerCall 1 1)),
       (3, .ev (.innerCall 4 2)), (3, .ev (.innerDone 4 2 .ok)), (3, .ev (.result 4 (.ok 2))),
       (4, .ev (.innerDone 1 1 .ok)), (4, .ev (.result 1 (.ok 1)))] ∧
    markersOn 0 (traceD σ cfg ops) = [1, 2, 3, 4] ∧
    (markersOn 0 (traceD σ cfg ops)).map (injectedIn (traceD σ cfg ops)) = [false, true, false, false] ∧
    mine 1 (traceD σ cfg ops) =
      [(0, .firstPoll 1 0), (3, .ev (.innerCall 1 1)), (4, .ev (.innerDone 1 1 .ok)), (4, .ev (.result 1 (.ok 1)))] := by
  refine ⟨timelyB_sound _ _ _ (by decide), ?_, by decide, by decide, by decide, by decide⟩
  intro _ i
  match i with
  | 0 => show allowedDec _ (Decision.latency 3) = true; decide
  | 1 => show allowedDec _ Decision.error = true; decide
  | 2 => show allowedDec _ Decision.pass = true; decide
  | 3 => show allowedDec _ (Decision.latency 2) = true; decide
  | _ + 4 => show allowedDec _ Decision.pass = true; decide

/-- The poll discipline is needed for the upper bound: a caller that is polled 10 ms after a first poll that decided
"delay by 3" sees the inner call 10 ms after its first poll. (And `observed_latency_at_least` still holds: 10 ≥ 3.) -/
example :
    let cfg : Cfg := { eT := 0, lT := P53, minMs := 2, maxMs := 5 }
    let ops := [Op.arrive 1 0 11 ⟨0, .ok⟩, .poll 1 (some (.latency 3)), .adv 10, .poll 1 none]
    ¬ Timely cfg ops ∧
    trace cfg ops = [(0, .firstPoll 1 0), (10, .ev (.innerCall 1 0)), (10, .ev (.innerDone 1 0 .ok)), (10, .ev (.result 1 (.ok 0)))] := by
  refine ⟨?_, by decide⟩
  intro h
  have := h.2.2.1 10 rfl 1 3 ⟨0, .ok⟩ (by decide)
  exact absurd this (by decide)

/-- `min = max` and `min > max`: the observed latency is exactly `min` (7 ms with bounds [7, 7] and with bounds
"[7, 3]"); any other reported latency is flagged. -/
example :
    let ops := [Op.arrive 1 0 11 ⟨0, .ok⟩, .poll 1 (some (.latency 7)), .adv 7, .poll 1 none]
    let lines := [(0, TEv.firstPoll 1 0), (7, .ev (.innerCall 1 0)), (7, .ev (.innerDone 1 0 .ok)), (7, .ev (.result 1 (.ok 0)))]
    trace { eT := 0, lT := P53, minMs := 7, maxMs := 7 } ops = lines ∧
    trace { eT := 0, lT := P53, minMs := 7, maxMs := 3 } ops = lines ∧
    timelyB { eT := 0, lT := P53, minMs := 7, maxMs := 3 } init ops = true ∧
    (trace { eT := 0, lT := P53, minMs := 7, maxMs := 3 }
      [Op.arrive 1 0 11 ⟨0, .ok⟩, .poll 1 (some (.latency 3))]) = [(0, .firstPoll 1 0), (0, .ev (.raw "choice-not-allowed"))] := by
  decide

/-- Error rate 1, a whole run on two services (hypotheses of `always_fails_every_call`, `always_fails_run`,
`always_fails_after_handles_dropped`): every polled request has its `first_poll` line and the injected error at the
same instant, nothing else; request 3 is never polled and has no line. -/
example :
    let cfg : Cfg := { eT := P53, lT := P53 / 2, minMs := 1, maxMs := 4 }
    let σ : Nat → Nat → Decision := fun _ _ => .error
    let ops := [ROp.arrive 1 0 11 ⟨0, .ok⟩, .arrive 2 1 12 ⟨3, .ok⟩, .arrive 3 0 13 ⟨0, .ok⟩, .poll 2, .adv 5, .dropsvc, .poll 1,
                .poll 2, .drop 3]
    (∀ k i, allowedDec cfg (σ k i) = true) ∧
    traceD σ cfg ops = [(0, .firstPoll 2 1), (0, .ev (.result 2 (.inner 99 12))),
                        (5, .firstPoll 1 0), (5, .ev (.result 1 (.inner 99 11)))] := by
  refine ⟨fun _ _ => (by show allowedDec _ Decision.error = true; decide), by decide⟩

/-- Both rates 0, a whole run (hypotheses of `transparent_whole_request`, `transparent_run`): every polled request is
forwarded once, in its first poll; its result is the answer of that call (`ok:0`, the inner error 4 of call 1, nothing
for the call that was dropped). -/
example :
    let cfg : Cfg := { eT := 0, lT := 0, minMs := 1, maxMs := 4 }
    let σ : Nat → Nat → Decision := fun _ _ => .pass
    let ops := [ROp.arrive 1 0 11 ⟨2, .ok⟩, .arrive 2 0 12 ⟨0, .err 4⟩, .arrive 3 1 13 ⟨9, .ok⟩, .poll 1, .adv 1, .poll 2, .poll 3,
                .adv 1, .poll 1, .drop 3]
    (∀ k i, allowedDec cfg (σ k i) = true) ∧
    traceD σ cfg ops =
      [(0, .firstPoll 1 0), (0, .ev (.innerCall 1 0)),
       (1, .firstPoll 2 0), (1, .ev (.innerCall 2 1)), (1, .ev (.innerDone 2 1 (.err 4))), (1, .ev (.result 2 (.inner 4 1))),
       (1, .firstPoll 3 1), (1, .ev (.innerCall 3 2)),
       (2, .ev (.innerDone 1 0 .ok)), (2, .ev (.result 1 (.ok 0))),
       (2, .ev (.innerDrop 3 2))] ∧
    answer 1 (.err 4) = some (.inner 4 1) := by
  refine ⟨fun _ _ => (by show allowedDec _ Decision.pass = true; decide), by decide, by decide⟩

/-- Caller modes (hypotheses of `transparent_any_caller_mode`, `caller_mode_irrelevant`, `refused_request_is_not_made`):
`readyclone` over a strict wrapped service that answers ready twice is admitted, uses two answers, and the machine's
`arrive` is made; with the second answer "pending" the request is refused and the machine is untouched. -/
example :
    let cfg : Cfg := { eT := 0, lT := 0, minMs := 0, maxMs := 0 }
    let p : Proto := { strict := true, script := [.ready, .ready, .error], dflt := .clone }
    let q : Proto := { strict := true, script := [.ready, .pending], dflt := .clone }
    (gate .readyclone p.script).1 = true ∧ known init 1 = false ∧ init.gone = false ∧ allowedDec cfg .pass = true ∧
    (arriveVia cfg p init .readyclone 1 0 11 ⟨0, .ok⟩).1.script = [.error] ∧
    (arriveVia cfg p init .readyclone 1 0 11 ⟨0, .ok⟩).2.1.phase = [(1, .fresh 0 11 ⟨0, .ok⟩)] ∧
    (gate .readyclone q.script).1 = false ∧
    (arriveVia cfg q init .readyclone 1 0 11 ⟨0, .ok⟩).2.2 = [.result 1 .notReady] ∧
    (arriveVia cfg q init .readyclone 1 0 11 ⟨0, .ok⟩).2.1.phase = [] := by
  decide

/-- Injectors: the shipped one satisfies the hypothesis of `injector_extremes` (3rd part) by definition; an injector
below rate 1/2 declines the default roll; one that ignores the roll fails a request at rates 0/0; one that reads the
request decides differently for payloads 1 and 2 in the same generator state. -/
example :
    let cfg : Cfg := { eT := 0, lT := 0, minMs := 1, maxMs := 4 }
    (∀ r, (fun (_ : Nat) r => decide (r < cfg.eT)) 7 r = decide (r < cfg.eT)) ∧
    (fun (_ : Nat) r => decide (r < P53 / 2)) 7 P53 = false ∧
    decideI counterGen (fun _ _ => true) cfg 7 0 = (.error, 0) ∧
    (decideI counterGen (fun tag _ => tag % 2 == 1) cfg 1 0).1 = .error ∧
    (decideI counterGen (fun tag _ => tag % 2 == 1) cfg 2 0).1 = .pass ∧
    streamI counterGen (fun tag _ => tag % 2 == 1) cfg 0 [1, 2, 3] = [.error, .pass, .error] ∧
    streamI counterGen (fun tag _ => tag % 2 == 1) cfg 0 [2, 4, 6] = [.pass, .pass, .pass] := by
  refine ⟨fun _ => rfl, by decide, by decide, by decide, by decide, by decide, by decide⟩

/-! ## the builder: the order of the setters (`chain=` in the case header)

The configuration is a function of WHAT was set, not of the order in which it was set: the last setter of each kind
wins, a kind never set keeps the builder's default, and a setter touches no field but its own — in particular
`.max_latency(x)` stores `x` whatever the minimum is at that moment (the default 10 ms, or an earlier
`.min_latency(..)`), so `.max_latency(5ms).min_latency(1ms)` and `.min_latency(1ms).max_latency(5ms)` both demand
injected latencies in `[1, 5]` ms. -/

theorem foldl_set_minUs (chain : List Setter) (b : Built) :
    (chain.foldl Built.set b).minUs = lastMin b.minUs chain := by
  induction chain generalizing b with
  | nil => rfl
  | cons s r ih => cases s <;> simp [List.foldl, Built.set, lastMin, ih]

theorem foldl_set_maxUs (chain : List Setter) (b : Built) :
    (chain.foldl Built.set b).maxUs = lastMax b.maxUs chain := by
  induction chain generalizing b with
  | nil => rfl
  | cons s r ih => cases s <;> simp [List.foldl, Built.set, lastMax, ih]

theorem lastMin_append (d : Nat) (a b : List Setter) : lastMin d (a ++ b) = lastMin (lastMin d a) b := by
  induction a generalizing d with
  | nil => rfl
  | cons s r ih => cases s <;> simp [lastMin, ih]

theorem lastMax_append (d : Nat) (a b : List Setter) : lastMax d (a ++ b) = lastMax (lastMax d a) b := by
  induction a generalizing d with
  | nil => rfl
  | cons s r ih => cases s <;> simp [lastMax, ih]

theorem lastMin_none (d : Nat) (l : List Setter) (h : ∀ x, Setter.minLat x ∉ l) : lastMin d l = d := by
  induction l generalizing d with
  | nil => rfl
  | cons s r ih =>
      have hr : ∀ x, Setter.minLat x ∉ r := fun x hx => h x (List.mem_cons_of_mem _ hx)
      cases s <;> simp [lastMin, ih _ hr]
      case minLat us => exact absurd (List.mem_cons_self) (h us)

theorem lastMax_none (d : Nat) (l : List Setter) (h : ∀ x, Setter.maxLat x ∉ l) : lastMax d l = d := by
  induction l generalizing d with
  | nil => rfl
  | cons s r ih =>
      have hr : ∀ x, Setter.maxLat x ∉ r := fun x hx => h x (List.mem_cons_of_mem _ hx)
      cases s <;> simp [lastMax, ih _ hr]
      case maxLat us => exact absurd (List.mem_cons_self) (h us)

/-- The bounds of the built configuration are the last `.min_latency(..)` and the last `.max_latency(..)` of the chain
(10 ms / 100 ms when there is none) — each a function of the setters of ITS kind alone. -/
theorem built_bounds (chain : List Setter) :
    (buildChain chain).minUs = lastMin 10000 chain ∧ (buildChain chain).maxUs = lastMax 100000 chain :=
  ⟨foldl_set_minUs chain {}, foldl_set_maxUs chain {}⟩

/-- **The last setter of each kind wins** — whatever was called before it (`pre`, which may set the other bound to
anything, or the same bound to something else) and whatever is called after it (`post`), as long as `post` does not set
the same bound again; a bound never set keeps the builder's default. -/
theorem builder_last_wins (pre post : List Setter) (us : Nat) :
    ((∀ x, Setter.minLat x ∉ post) → (buildChain (pre ++ .minLat us :: post)).minUs = us) ∧
    ((∀ x, Setter.maxLat x ∉ post) → (buildChain (pre ++ .maxLat us :: post)).maxUs = us) ∧
    ((∀ x, Setter.minLat x ∉ post) → (buildChain post).minUs = 10000) ∧
    ((∀ x, Setter.maxLat x ∉ post) → (buildChain post).maxUs = 100000) := by
  refine ⟨fun h => ?_, fun h => ?_, fun h => ?_, fun h => ?_⟩
  · rw [(built_bounds _).1, lastMin_append]; simp [lastMin, lastMin_none _ _ h]
  · rw [(built_bounds _).2, lastMax_append]; simp [lastMax, lastMax_none _ _ h]
  · rw [(built_bounds _).1, lastMin_none _ _ h]
  · rw [(built_bounds _).2, lastMax_none _ _ h]

/-- **The setters are independent.** A setter that is not `.min_latency(..)` — `.max_latency(..)` above all — called
anywhere in the chain leaves the configured minimum what it is without that call, and likewise for the maximum; two
neighbouring setters of different bounds can be swapped without changing the built configuration at all. -/
theorem latency_setters_independent (a b : List Setter) (s : Setter) :
    ((∀ x, s ≠ .minLat x) → (buildChain (a ++ s :: b)).minUs = (buildChain (a ++ b)).minUs) ∧
    ((∀ x, s ≠ .maxLat x) → (buildChain (a ++ s :: b)).maxUs = (buildChain (a ++ b)).maxUs) ∧
    (∀ x y, buildChain (a ++ .minLat x :: .maxLat y :: b) = buildChain (a ++ .maxLat y :: .minLat x :: b)) := by
  refine ⟨fun h => ?_, fun h => ?_, fun x y => ?_⟩
  · rw [(built_bounds _).1, (built_bounds _).1, lastMin_append, lastMin_append]
    cases s <;> simp [lastMin]
    case minLat us => exact absurd rfl (h us)
  · rw [(built_bounds _).2, (built_bounds _).2, lastMax_append, lastMax_append]
    cases s <;> simp [lastMax]
    case maxLat us => exact absurd rfl (h us)
  · simp [buildChain, List.foldl_append, List.foldl, Built.set]

/-- **Injected latency lies within the CONFIGURED range, however the builder setters are ordered**: under the
configuration a chain builds, a delay the property allows lies between the last configured minimum and the last
configured maximum (whole milliseconds), and equals the minimum when the two coincide or are inverted. -/
theorem latency_in_configured_range (chain : List Setter) (eT lT ms : Nat)
    (ha : allowedDec { eT := eT, lT := lT, minMs := (buildChain chain).bounds.1, maxMs := (buildChain chain).bounds.2 }
            (.latency ms) = true) :
    (lastMin 10000 chain / 1000 ≤ lastMax 100000 chain / 1000 →
      lastMin 10000 chain / 1000 ≤ ms ∧ ms ≤ lastMax 100000 chain / 1000) ∧
    (lastMax 100000 chain / 1000 ≤ lastMin 10000 chain / 1000 → ms = lastMin 10000 chain / 1000) := by
  have h := latency_in_range _ ms ha
  simpa [Built.bounds, (built_bounds chain).1, (built_bounds chain).2] using h

/-- `.latency_rate(1).max_latency(5ms).min_latency(1ms)` demands `[1, 5]` ms — the same as min first; a delay of 8 ms
is outside the boundary clauses. The builder's defaults, a bound set twice, a seed / a name / the error function in between. -/
example :
    (buildChain [.latRate "T1", .maxLat 5000, .minLat 1000, .seed 0]).bounds = (1, 5) ∧
    (buildChain [.latRate "T1", .minLat 1000, .maxLat 5000, .seed 0]).bounds = (1, 5) ∧
    allowedDec { eT := 0, lT := P53, minMs := 1, maxMs := 5 } (.latency 8) = false ∧
    (buildChain [.seed 3]).bounds = (10, 100) ∧
    (buildChain [.maxLat 5000]).bounds = (10, 5) ∧
    (buildChain [.minLat 200000, .errRate "T5", .maxLat 7000, .name "a", .errFn, .minLat 2999, .hooks, .maxLat 3000]).bounds = (2, 3) := by
  decide

end TR.Props.C19
