import TR.Model.Circuit
namespace TR.Props.C04
theorem placeholder : 1 = 1 := rfl
end TR.Props.C04
