import TR.Lemmas.CircuitEmbed
import TR.Lemmas.CircuitTrace
/-!
# C04 — the breaker trips and recovers exactly as its documented state machine

`TR.Spec.Breaker` is the documented machine (40 lines: a view over the recorded outcomes).
`TR.Circuit.Circuit` transcribes the code (incremental counters, an evicting deque, pruned
time records, half-open bookkeeping, the lock-free mirror). The theorems say that the
transcription refines the documented machine — per critical section for *every* reachable
state (also under concurrency), and for whole sequential histories over
{success, failure, slow success, slow failure, wait, force_open, force_closed, reset}.
-/
namespace TR.Props.C04
open TR TR.Circuit TR.Spec

/-- **Refinement, whole sequential histories — over the sequential driver `seqRun`** (`try_acquire`, then `record`, directly on
the transcribed circuit). Kept as the lemma behind `refines_run`, which is the same statement about `run` / `stepS`, the model
the correspondence check validates. -/
theorem refines (cfg : Cfg) (acts : List Act) :
    (abs (seqRun cfg acts).1, (seqRun cfg acts).2) = specRun cfg acts :=
  seq_refines_from cfg acts _ (seq_init cfg)

/-- **Sequential histories live inside the full model.** Write a history as the operations a sequential client performs — per
`call fail dur`: `arrive c inner=dur:<ok|err1>`, `poll c`, `adv dur`, `poll c` (`opsOf`; this is what `gen/circuit.py: gen_seq`
generates), per `wait`: `adv`, per override: the `manual` operation. Then the full model (`run`: callers arriving, first polls,
admission and inner call in one step, completion and recording in another, the caller's own `ep` / `own` bookkeeping) ends
with exactly the circuit and at exactly the instant the sequential driver computes. `seqRunP` is `seqRun` for this *patient*
client: a rejected call is followed by the `dur` ticks it would have taken (the generated histories advance the clock whatever
the answer). `hm`: one tick per millisecond (scripted latencies are tokio timers; in `tick=us` cases they end on millisecond
boundaries, `C03.scripted_latency_on_ms_grid`). -/
theorem seq_embeds (cfg : Cfg) (hm : cfg.msTicks = 1) (acts : List Act) :
    ((run cfg (opsOf 0 acts)).circ, (run cfg (opsOf 0 acts)).now) = seqRunP cfg acts :=
  embeds_from cfg hm acts init 0 ⟨rfl, rfl, rfl, rfl, by simp [init]⟩

/-- **Refinement, whole sequential histories — over `run`.** For every configuration (both window types, all sizes / durations,
thresholds, minimum calls, permitted half-open calls, slow-call detection on / off; the classifier only decides the `fail` bit,
`classify_outOf`) and every sequential history, the abstraction of the circuit the FULL model reaches on the history's
operations equals the documented machine run on the same history (`specRunP`: the documented machine with the same patient
client). -/
theorem refines_run (cfg : Cfg) (hm : cfg.msTicks = 1) (acts : List Act) :
    (abs (run cfg (opsOf 0 acts)).circ, (run cfg (opsOf 0 acts)).now) = specRunP cfg acts := by
  have h := seq_embeds cfg hm acts
  have h1 : (run cfg (opsOf 0 acts)).circ = (seqRunP cfg acts).1 := congrArg Prod.fst h
  have h2 : (run cfg (opsOf 0 acts)).now = (seqRunP cfg acts).2 := congrArg Prod.snd h
  rw [h1, h2]
  exact seqP_refines_from cfg acts _ (seq_init cfg)

/-- The patient client differs from the impatient one of `refines` only after a rejection: a history in which every rejected
call has `dur = 0` (in particular every history of instantaneous calls) is run identically by both. -/
theorem patient_is_seq_when_instant (cfg : Cfg) (p : Circuit × Nat) (fail : Bool) :
    seqStepP cfg p (.call fail 0) = seqStep cfg p (.call fail 0) := by
  simp only [seqStepP, seqStep]
  split <;> rfl

/-- **Refinement of `try_acquire`** in every reachable state of the full model: the admission changes the abstract state exactly
as the documented arrival of a call does, and outside half-open the admission bit is the documented one (inside half-open it is
`half_open_admitted < permitted`: how many trials — C09). -/
theorem tryAcquire_refines_reachable (cfg : Cfg) (ops : List Op) (now : Nat) :
    abs (tryAcquire cfg (run cfg ops).circ now).1 = ((abs (run cfg ops).circ).arrive cfg now).1 ∧
    ((run cfg ops).circ.st ≠ .halfOpen →
      (tryAcquire cfg (run cfg ops).circ now).2.1 = ((abs (run cfg ops).circ).arrive cfg now).2) ∧
    ((run cfg ops).circ.st = .halfOpen →
      (tryAcquire cfg (run cfg ops).circ now).2.1 = decide ((run cfg ops).circ.hoAdmitted < cfg.permitted)) :=
  tryAcquire_refines cfg now _

/-- **Refinement of `record_success` / `record_failure`** in every reachable state of the full
model (any number of concurrent callers, cancellations, …): recording an outcome changes the
abstract state exactly as the documented `record` does. -/
theorem record_refines_reachable (cfg : Cfg) (ops : List Op) (fail : Bool) (dur : Nat) (own : Bool) :
    abs (record cfg (run cfg ops).circ fail dur (run cfg ops).now own).1
      = (abs (run cfg ops).circ).record cfg fail (isSlow cfg dur) (run cfg ops).now :=
  record_refines cfg _ _ fail dur own (sinv_reachable cfg ops).circ (winv_reachable cfg ops)

/-- The incrementally maintained aggregates (what `metrics()` reports and `evaluate_window`
uses) always equal the counts over the count-based window. -/
theorem counters_match_window (cfg : Cfg) (ops : List Op) :
    let c := (run cfg ops).circ
    c.failN = countFail c.cwin ∧ c.slowN = countSlow c.cwin ∧ c.totalN = c.cwin.length ∧
    c.succN + countFail c.cwin = c.cwin.length :=
  let h := (sinv_reachable cfg ops).circ
  ⟨h.failN, h.slowN, h.totalN, h.succN⟩

/-- Count-based: the window is exactly the last `sliding_window_size` outcomes recorded since it
was last emptied — it *slides* (the pinned tree accumulated every call since the last transition). -/
theorem count_window_is_last_size (cfg : Cfg) (ops : List Op) (h : cfg.countBased = true) :
    (run cfg ops).circ.cwin = Circuit.lastN (max cfg.size 1) (run cfg ops).circ.hist :=
  (winv_reachable cfg ops).count h

/-- Time-based: after the pruning every record/evaluation starts with, the window is exactly
the recorded outcomes no older than `sliding_window_duration`. -/
theorem time_window_is_young (cfg : Cfg) (ops : List Op) (h : cfg.countBased = false) :
    (cleanup cfg (run cfg ops).circ (run cfg ops).now).recs
      = (run cfg ops).circ.hist.filter (fun r => decide ((run cfg ops).now - r.t ≤ cfg.windowMs)) :=
  cleanup_eq_filter cfg _ _ h (winv_reachable cfg ops)

/-- closed → open **exactly when** the documented condition holds over the documented window
(at least `minimum_number_of_calls`, a full window if count-based, failure rate or enabled
slow-call rate at its threshold); otherwise the outcome is just added to the window. -/
theorem opens_exactly_when (cfg : Cfg) (b : Breaker) (fail slow : Bool) (now : Nat) (h : b.st = .closed) :
    ((b.record cfg fail slow now).st = .opened ↔ (b.push ⟨now, fail, slow⟩).tripped cfg now = true) ∧
    ((b.push ⟨now, fail, slow⟩).tripped cfg now = false → b.record cfg fail slow now = b.push ⟨now, fail, slow⟩) := by
  have hne : ¬ (b.push ⟨now, fail, slow⟩).st = .halfOpen := by simp [Breaker.push, h]
  have hc : (b.push ⟨now, fail, slow⟩).st = .closed := by simp [Breaker.push, h]
  unfold Breaker.record
  simp only [if_neg hne]
  constructor
  · constructor
    · intro hst
      by_cases ht : (b.push ⟨now, fail, slow⟩).tripped cfg now = true
      · exact ht
      · rw [if_neg ht, hc] at hst; cases hst
    · intro ht
      rw [if_pos ht]; simp [Breaker.goto, hc]
  · intro ht; simp [ht]

/-- What "reaches" means: the comparison is exact — `f/n ≥ num/den` as rationals, i.e. `num·n ≤ f·den`. (The
code evaluates `f as f64 / n as f64 >= θ` with `θ` the double nearest to `num/den`; both sides are correctly rounded
values of the two rationals, so for `n, den ≤ 2^20` the answers coincide — `gen/circuit.py: f64_agrees` checks this
on every threshold and total a generated case can evaluate.) -/
theorem reached_iff (f n num den : Nat) : reached f n num den = true ↔ n > 0 ∧ num * n ≤ f * den := by
  simp [reached]

/-- **A rate EQUAL to the threshold trips.** Closed breaker, the window after this outcome holds at least
`minimum_number_of_calls` (≥ 1) outcomes and is full if count-based: if the failures are exactly
`threshold × calls` (`k·den = num·n`, e.g. 7 of 25 at 0.28, 7 of 50 at 0.14), or slow-call detection is
enabled and the slow calls are exactly `slow threshold × calls` (14 of 25 at 0.56), the breaker opens on
this very outcome, not one failure later. -/
theorem rate_equal_to_threshold_trips (cfg : Cfg) (b : Breaker) (fail slow : Bool) (now : Nat) (h : b.st = .closed)
    (hpos : ((b.push ⟨now, fail, slow⟩).window cfg now).length > 0)
    (hmin : ((b.push ⟨now, fail, slow⟩).window cfg now).length ≥ cfg.minCalls)
    (hfull : cfg.countBased = true → ((b.push ⟨now, fail, slow⟩).window cfg now).length ≥ cfg.size)
    (heq : countFail ((b.push ⟨now, fail, slow⟩).window cfg now) * cfg.frDen
              = cfg.frNum * ((b.push ⟨now, fail, slow⟩).window cfg now).length ∨
           (cfg.slowMs.isSome = true ∧
            countSlow ((b.push ⟨now, fail, slow⟩).window cfg now) * cfg.srDen
              = cfg.srNum * ((b.push ⟨now, fail, slow⟩).window cfg now).length)) :
    (b.record cfg fail slow now).st = .opened := by
  rw [(opens_exactly_when cfg b fail slow now h).1]
  unfold Breaker.tripped shouldOpen
  simp only [Bool.and_eq_true, Bool.or_eq_true, decide_eq_true_eq, Bool.not_eq_true', reached_iff]
  refine ⟨⟨hmin, ?_⟩, ?_⟩
  · cases hcb : cfg.countBased with
    | false => left; rfl
    | true => right; exact hfull hcb
  · rcases heq with he | ⟨hs, he⟩
    · left; exact ⟨hpos, by omega⟩
    · right; exact ⟨hs, hpos, by omega⟩

/-- **One below the boundary stays closed**: if the failures are fewer than `threshold × calls` and (when
slow-call detection is enabled) the slow calls fewer than `slow threshold × calls`, the outcome is just added. -/
theorem below_threshold_stays_closed (cfg : Cfg) (b : Breaker) (fail slow : Bool) (now : Nat) (h : b.st = .closed)
    (hf : countFail ((b.push ⟨now, fail, slow⟩).window cfg now) * cfg.frDen
            < cfg.frNum * ((b.push ⟨now, fail, slow⟩).window cfg now).length)
    (hs : cfg.slowMs.isSome = true →
          countSlow ((b.push ⟨now, fail, slow⟩).window cfg now) * cfg.srDen
            < cfg.srNum * ((b.push ⟨now, fail, slow⟩).window cfg now).length) :
    b.record cfg fail slow now = b.push ⟨now, fail, slow⟩ := by
  apply (opens_exactly_when cfg b fail slow now h).2
  unfold Breaker.tripped shouldOpen
  have hnf : reached (countFail ((b.push ⟨now, fail, slow⟩).window cfg now))
      ((b.push ⟨now, fail, slow⟩).window cfg now).length cfg.frNum cfg.frDen = false := by
    rw [Bool.eq_false_iff]; intro hr; rw [reached_iff] at hr; omega
  have hns : (cfg.slowMs.isSome && reached (countSlow ((b.push ⟨now, fail, slow⟩).window cfg now))
      ((b.push ⟨now, fail, slow⟩).window cfg now).length cfg.srNum cfg.srDen) = false := by
    cases hso : cfg.slowMs.isSome with
    | false => rfl
    | true =>
      have := hs hso
      rw [Bool.true_and, Bool.eq_false_iff]; intro hr; rw [reached_iff] at hr; omega
  simp only [hnf, hns, Bool.or_self, Bool.and_false]

/-- open → half-open on the first call at or after `wait_duration_in_open`; before that every
call is refused and nothing changes. -/
theorem half_open_after_wait (cfg : Cfg) (b : Breaker) (now : Nat) (h : b.st = .opened) :
    (now - b.since ≥ cfg.waitMs → (b.arrive cfg now).2 = true ∧ (b.arrive cfg now).1.st = .halfOpen ∧
        (b.arrive cfg now).1.since = now) ∧
    (now - b.since < cfg.waitMs → b.arrive cfg now = (b, false)) := by
  unfold Breaker.arrive
  simp only [h]
  constructor
  · intro hw; simp [hw, Breaker.goto, h]
  · intro hw; have : ¬ now - b.since ≥ cfg.waitMs := by omega
    simp [this]

/-- half-open → closed on the success that completes `permitted_calls_in_half_open` successes … -/
theorem closes_after_permitted (cfg : Cfg) (b : Breaker) (slow : Bool) (now : Nat) (h : b.st = .halfOpen) :
    (b.succ + 1 ≥ cfg.permitted → (b.record cfg false slow now).st = .closed ∧ (b.record cfg false slow now).hist = []) ∧
    (b.succ + 1 < cfg.permitted → (b.record cfg false slow now).st = .halfOpen ∧ (b.record cfg false slow now).succ = b.succ + 1) := by
  have hh : (b.push ⟨now, false, slow⟩).st = .halfOpen := by simp [Breaker.push, h]
  unfold Breaker.record
  simp only [if_pos hh, Breaker.recordHalf, Bool.false_eq_true, if_false]
  constructor
  · intro hge
    have : cfg.permitted ≤ b.succ + 1 := hge
    simp [this, Breaker.goto, Breaker.push, h]
  · intro hlt
    have : ¬ cfg.permitted ≤ b.succ + 1 := by omega
    simp [this, Breaker.push, h]

/-- … and back to open on any failure. -/
theorem reopens_on_failure (cfg : Cfg) (b : Breaker) (slow : Bool) (now : Nat) (h : b.st = .halfOpen) :
    (b.record cfg true slow now).st = .opened ∧ (b.record cfg true slow now).since = now := by
  have hh : (b.push ⟨now, true, slow⟩).st = .halfOpen := by simp [Breaker.push, h]
  unfold Breaker.record
  simp [if_pos hh, Breaker.recordHalf, Breaker.goto, Breaker.push, h]

/-- `reset` returns the breaker to closed with an empty window, whatever state it was in
(the pinned tree kept the counts when it was already closed). -/
theorem reset_empties_window (cfg : Cfg) (ops : List Op) :
    let c := (reset (run cfg ops).circ (run cfg ops).now).1
    c.st = .closed ∧ c.cwin = [] ∧ c.recs = [] ∧ c.hist = [] ∧ stats cfg c = (0, 0, 0, 0) := by
  simp only [reset]
  refine ⟨transitionTo_st .., rfl, rfl, rfl, ?_⟩
  simp [stats, clearWindow, countFail, countSlow]

/-- The lock-free view (`state_sync`, `is_open`), the async view (`state`) and the metrics
snapshot are the same function of the circuit: the mirror always equals the state — in every reachable state, i.e. whenever
nobody is inside a critical section of the breaker (for what a listener sees INSIDE one: `listener_view_lags`). -/
theorem views_agree (cfg : Cfg) (ops : List Op) : (run cfg ops).circ.mirror = (run cfg ops).circ.st :=
  (sinv_reachable cfg ops).circ.mirror

/-- **The one place where the views lag.** `transition_to` emits the `StateTransition` event before it assigns the state and
stores the lock-free view. A listener that reads `state_sync()` / `is_open()` / `http_status()` inside its callback therefore
reads the state the breaker is LEAVING (`m = a`), not the `to_state` it is being told about (`a ≠ b`) — for every transition
event of every reachable log. (`state()` / `metrics()` cannot be called there: the listener runs under the breaker's mutex.) The
correspondence check exercises it: `listen=2` / `lis:trs` cases log `transition a b sync=<what the listener read>`. -/
theorem listener_view_lags (cfg : Cfg) (ops : List Op) (n t : Nat) (a b m : St)
    (hp : (run cfg ops).log[n]? = some (t, .transition a b m)) : m = a ∧ a ≠ b := by
  have := evOK_transition cfg _ t a b m (tr_ok_at cfg _ n _ hp (tinv_reachable cfg ops).ok)
  exact ⟨this.2.2.1, this.2.1⟩

/-- **What the metrics snapshot counts, count-based window**: `(total_calls, failure_count, success_count, slow_call_count)` are
the counts over the documented window — the last `sliding_window_size` outcomes recorded since the window was last emptied. -/
theorem metrics_match_window (cfg : Cfg) (ops : List Op) (h : cfg.countBased = true) :
    stats cfg (run cfg ops).circ = counts ((abs (run cfg ops).circ).window cfg (run cfg ops).now) := by
  rw [stats_count_window cfg _ _ h (sinv_reachable cfg ops).circ (winv_reachable cfg ops)]
  simp [Breaker.window, h, abs, lastN_eq]

/-- **… time-based window**: `metrics()` does NOT prune (`time_based_stats()` over `call_records` as they are; only `record_*` and
`evaluate_window` call `cleanup_old_records`). The records kept are the documented window (outcomes no older than
`sliding_window_duration`) preceded by `stale` records that have expired since the last recording; the snapshot counts all of
them. So between recordings the reported totals can exceed the documented window — they never miss an outcome of it. -/
theorem metrics_time_window (cfg : Cfg) (ops : List Op) (h : cfg.countBased = false) :
    ∃ stale, (run cfg ops).circ.recs = stale ++ (abs (run cfg ops).circ).window cfg (run cfg ops).now ∧
      (∀ r ∈ stale, (run cfg ops).now - r.t > cfg.windowMs) ∧
      stats cfg (run cfg ops).circ = counts (stale ++ (abs (run cfg ops).circ).window cfg (run cfg ops).now) := by
  obtain ⟨stale, h1, h2, h3⟩ := stats_time_window cfg _ _ h (winv_reachable cfg ops)
  have hw : (abs (run cfg ops).circ).window cfg (run cfg ops).now
      = (run cfg ops).circ.hist.filter (fun r => decide ((run cfg ops).now - r.t ≤ cfg.windowMs)) := by
    simp [Breaker.window, h, abs]
  exact ⟨stale, by rw [hw]; exact h1, h2, by rw [hw, ← h1]; exact h3⟩

/-- … and it is exactly the documented window whenever no kept record has expired — in particular at the instant an outcome
has just been recorded (`record_*` prunes first): the snapshot taken right after a recording, in any reachable state and for
either window type, is the counts over the documented window. -/
theorem metrics_exact_after_record (cfg : Cfg) (ops : List Op) (fail : Bool) (dur : Nat) (own : Bool) :
    stats cfg (record cfg (run cfg ops).circ fail dur (run cfg ops).now own).1
      = counts ((abs (record cfg (run cfg ops).circ fail dur (run cfg ops).now own).1).window cfg (run cfg ops).now) := by
  have hc := (sinv_reachable cfg ops).circ
  have hw := winv_reachable cfg ops
  have hc' := record_inv cfg _ fail dur (run cfg ops).now own hc
  have hw' := record_winv cfg _ _ fail dur own hc.bounded hw
  cases hcb : cfg.countBased with
  | true =>
    rw [stats_count_window cfg _ _ hcb hc' hw']
    simp [Breaker.window, hcb, abs, lastN_eq]
  | false =>
    rw [stats_time_fresh cfg _ _ hcb hw' (recs_young_after_record cfg _ _ fail dur own hcb hw)]
    simp [Breaker.window, hcb, abs]

/-- Non-vacuity / the pinned-tree defect as a kernel-checked fact about the documented
machine: window 4, four successes then two failures opens at the sixth call (the pinned tree
opened only at the eighth), and the transcribed circuit agrees. -/
example :
    let cfg : Cfg := { size := 4, minCalls := 4, frNum := 1, frDen := 2 }
    let h := [Act.call false 0, .call false 0, .call false 0, .call false 0, .call true 0]
    (specRun cfg h).1.st = .closed ∧ (specRun cfg (h ++ [.call true 0])).1.st = .opened ∧
    (seqRun cfg (h ++ [.call true 0])).1.st = .opened := by decide

set_option maxRecDepth 100000 in
/-- Non-vacuity at a float-sensitive boundary (0.28 × 25 = 7, where `0.28 * 25.0` rounds above 7): count-based
window 25 — and time-based with `minimum_number_of_calls = 25` —, 18 successes and 7 failures: the documented
machine and the transcribed circuit open on the 25th call; with 6 failures they stay closed. -/
example :
    let cfg : Cfg := { size := 25, minCalls := 25, frNum := 28, frDen := 100 }
    let cfgT : Cfg := { countBased := false, size := 100, windowMs := 5000, minCalls := 25, frNum := 28, frDen := 100 }
    let ok18 := List.replicate 18 (Act.call false 0)
    (specRun cfg (ok18 ++ List.replicate 7 (Act.call true 0))).1.st = .opened ∧
    (seqRun cfg (ok18 ++ List.replicate 7 (Act.call true 0))).1.st = .opened ∧
    (specRun cfg (ok18 ++ List.replicate 6 (Act.call true 0))).1.st = .closed ∧
    (specRun cfg (Act.call false 0 :: ok18 ++ List.replicate 6 (Act.call true 0))).1.st = .closed ∧
    (specRun cfgT (ok18 ++ List.replicate 7 (Act.call true 0))).1.st = .opened ∧
    (seqRun cfgT (ok18 ++ List.replicate 7 (Act.call true 0))).1.st = .opened ∧
    (specRun cfgT (ok18 ++ List.replicate 6 (Act.call true 0))).1.st = .closed := by decide

/-! ## The duration of a call

A request that has arrived but has not been polled (`Fresh`) carries no instant at all: the model cannot count the time a
response future sits un-polled. The inner call is started by the first poll, and that is where the call's duration begins. -/

/-- The first poll of an admitted caller starts the inner call: the running call it creates has `start` = the instant of that
poll (however long ago the request arrived) and its scripted latency counts from there. -/
theorem duration_starts_at_first_poll (cfg : Cfg) (s : State) (f : Fresh)
    (hok : (tryAcquire cfg s.circ s.now).2.1 = true) :
    ∃ r : Caller, (admitStep cfg s f).1.running = s.running ++ [r] ∧ r.c = f.c ∧ r.start = s.now ∧
      r.doneAt = due cfg s.now f.sc.lat := by
  rw [admitStep_ok cfg s f hok]
  exact ⟨_, rfl, rfl, rfl, rfl⟩

/-- … and the duration recorded for it (compared with `slow_call_duration_threshold`) is the time from that poll to the poll
that finds the inner call finished — for every outcome that is recorded at all: successes AND failures (slow failures included);
only a panic of the inner call is not recorded (it unwinds through the call future). -/
theorem recorded_duration (cfg : Cfg) (s : State) (r : Caller) (h : r.out ≠ .panic) :
    (complete cfg s r).circ =
      (record cfg s.circ (classify cfg r.out r.tag) (s.now - r.start) s.now
        (decide (r.ep = some s.circ.episode ∧ s.circ.st = .halfOpen))).1 := by
  unfold complete
  split
  · rename_i hp; exact absurd hp h
  · rfl

/-- Non-vacuity (slow-call threshold 10, slow-call rate 1/1, window 1): a fast success whose future is first polled 50 ticks
after `call()` is NOT a slow call (closed, slow count 0); a call whose inner service takes 10 ticks from its late first poll is
(the breaker opens); one that takes 9 is not. -/
example :
    let cfg : Cfg := { size := 1, minCalls := 1, slowMs := some 10, srNum := 1, srDen := 1, frNum := 1, frDen := 1 }
    let held := [Op.arrive 1 ⟨0, .ok⟩ 0, .adv 50, .poll 1]
    let slow := [Op.arrive 1 ⟨10, .ok⟩ 0, .adv 50, .poll 1, .adv 10, .poll 1]
    (run cfg held).circ.st = .closed ∧ (run cfg held).circ.slowN = 0 ∧ (run cfg held).circ.totalN = 1 ∧
    (run cfg slow).circ.st = .opened ∧
    (run cfg (slow.take 3 ++ [.adv 9, .poll 1])).circ.st = .closed := by
  decide

/-- Non-vacuity, a SLOW FAILURE: threshold 10, the call fails after 10 ticks: recorded as a failure and as slow (window 2,
failure rate 1/1 not reached by one failure of two, slow rate 1/2 reached: the breaker opens on the slow-call rate). -/
example :
    let cfg : Cfg := { size := 2, minCalls := 2, slowMs := some 10, srNum := 1, srDen := 2, frNum := 1, frDen := 1 }
    let ops := [Op.arrive 1 ⟨0, .ok⟩ 0, .poll 1, .arrive 2 ⟨10, .err 1⟩ 0, .poll 2, .adv 10, .poll 2]
    (run cfg (ops.take 5)).circ.st = .closed ∧ (run cfg ops).circ.st = .opened ∧
    (run cfg (ops.take 5 ++ [.views])).log.getLast? = some (10,
      .views "views state=closed sync=closed is_open=0 mstate=closed total=1 fail=0 succ=1 slow=0 http=200 health=healthy") := by
  decide

/-- Non-vacuity, TIME-BASED EXPIRY (window duration 100, minimum 2, threshold 1/2): two failures at t = 0 and t = 60 open the
breaker … unless the first has aged out: with the second failure at t = 101 the window holds one outcome only and the breaker
stays closed (`time_window_is_young`: pruning removed the record). In between — t = 101, before anything is recorded — the
metrics snapshot still counts the expired record (`metrics_time_window`: `stale` = that record, the documented window is
empty); right after the recording it is exact (`metrics_exact_after_record`). -/
example :
    let cfg : Cfg := { countBased := false, windowMs := 100, minCalls := 2, frNum := 1, frDen := 2 }
    let f (c : Nat) := [Op.arrive c ⟨0, .err 1⟩ 0, .poll c]
    (run cfg (f 1 ++ [.adv 60] ++ f 2)).circ.st = .opened ∧
    (run cfg (f 1 ++ [.adv 101] ++ f 2)).circ.st = .closed ∧
    (run cfg (f 1 ++ [.adv 101] ++ f 2)).circ.recs.length = 1 ∧ (run cfg (f 1 ++ [.adv 101] ++ f 2)).circ.hist.length = 2 ∧
    stats cfg (run cfg (f 1 ++ [.adv 101])).circ = (1, 1, 0, 0) ∧
    (abs (run cfg (f 1 ++ [.adv 101])).circ).window cfg 101 = [] ∧
    stats cfg (run cfg (f 1 ++ [.adv 101] ++ f 2)).circ = (1, 1, 0, 0) ∧
    (specRun cfg [.call true 0, .wait 60, .call true 0]).1.st = .opened ∧
    (specRun cfg [.call true 0, .wait 101, .call true 0]).1.st = .closed := by
  decide

/-- **Expiry decides the next recording** (time-based window, any reachable closed state, ANY outcome — success or failure, fast or
slow): recording a call first prunes the records older than `sliding_window_duration`, and the breaker opens exactly when the
documented condition holds over the PRUNED window plus the new outcome. Nothing else enters the verdict: not whether the window
was already "evaluable" before the call, not whether the new outcome itself adds to a rate. So a rate that rose only because
successes aged out is acted upon at the very next recording, also when that recording is a fast success. -/
theorem expiry_decides_next_recording (cfg : Cfg) (ops : List Op) (hcb : cfg.countBased = false)
    (hst : (run cfg ops).circ.st = .closed) (fail : Bool) (dur : Nat) (own : Bool) :
    let w := (run cfg ops).circ.hist.filter (fun r => decide ((run cfg ops).now - r.t ≤ cfg.windowMs))
               ++ [({ t := (run cfg ops).now, fail := fail, slow := isSlow cfg dur } : Rec)]
    ((record cfg (run cfg ops).circ fail dur (run cfg ops).now own).1.st = .opened ↔
      shouldOpen cfg w.length (countFail w) (countSlow w) = true) := by
  intro w
  have hr := record_refines_reachable cfg ops fail dur own
  have hst' : (record cfg (run cfg ops).circ fail dur (run cfg ops).now own).1.st
      = (abs (record cfg (run cfg ops).circ fail dur (run cfg ops).now own).1).st := rfl
  rw [hst', hr]
  have ho := (opens_exactly_when cfg (abs (run cfg ops).circ) fail (isSlow cfg dur) (run cfg ops).now hst).1
  have hw : ((abs (run cfg ops).circ).push ⟨(run cfg ops).now, fail, isSlow cfg dur⟩).window cfg (run cfg ops).now = w := by
    simp [Breaker.window, Breaker.push, hcb, abs, List.filter_append, w]
  rw [ho]
  unfold Breaker.tripped
  simp only [hw]

/-- **Expiry alone can raise the rate, and a SUCCESS trips on it**: let `young` be the recorded outcomes no older than the window
duration at the instant of the recording. If, counting the success being recorded, the minimum number of calls is there and the
failures among `young` reach the failure-rate threshold over `young.length + 1` calls, the breaker opens on that success —
however low the rate was while the records that have aged out were still in the window. -/
theorem success_trips_on_expired_window (cfg : Cfg) (ops : List Op) (hcb : cfg.countBased = false)
    (hst : (run cfg ops).circ.st = .closed) (dur : Nat) (own : Bool)
    (hmin : ((run cfg ops).circ.hist.filter (fun r => decide ((run cfg ops).now - r.t ≤ cfg.windowMs))).length + 1 ≥ cfg.minCalls)
    (hrate : cfg.frNum * (((run cfg ops).circ.hist.filter (fun r => decide ((run cfg ops).now - r.t ≤ cfg.windowMs))).length + 1)
      ≤ countFail ((run cfg ops).circ.hist.filter (fun r => decide ((run cfg ops).now - r.t ≤ cfg.windowMs))) * cfg.frDen) :
    (record cfg (run cfg ops).circ false dur (run cfg ops).now own).1.st = .opened := by
  have h := expiry_decides_next_recording cfg ops hcb hst false dur own
  dsimp only at h
  rw [h]
  generalize (run cfg ops).circ.hist.filter (fun r => decide ((run cfg ops).now - r.t ≤ cfg.windowMs)) = young at hmin hrate ⊢
  simp only [shouldOpen, reached, hcb, countFail, List.length_append, List.length_singleton, List.countP_append,
    List.countP_singleton]
  simp
  refine ⟨hmin, Or.inl ?_⟩
  simpa [countFail, Nat.mul_comm] using hrate

/-- **A time window longer than the whole history forgets nothing** (`sliding_window_duration(Duration::MAX)`, "never forget a
call", header `wdur=max`; or any duration the clock has not reached yet): as long as the clock reading does not exceed the window
duration, the pruning every record / evaluation starts with removes NOTHING — the window is every outcome recorded since the
breaker last changed state. In particular a window duration that cannot be subtracted from the clock is not an empty window. -/
theorem unbounded_time_window_keeps_everything (cfg : Cfg) (ops : List Op) (hcb : cfg.countBased = false)
    (hw : (run cfg ops).now ≤ cfg.windowMs) :
    (cleanup cfg (run cfg ops).circ (run cfg ops).now).recs = (run cfg ops).circ.hist := by
  rw [time_window_is_young cfg ops hcb]
  apply List.filter_eq_self.mpr
  intro r _
  simp only [decide_eq_true_eq]
  omega

/-- … so with such a window the next recording opens the breaker exactly when the documented condition holds over ALL the outcomes
recorded since the last state change plus the new one, however far apart in time they were recorded. -/
theorem unbounded_time_window_counts_every_call (cfg : Cfg) (ops : List Op) (hcb : cfg.countBased = false)
    (hw : (run cfg ops).now ≤ cfg.windowMs)
    (hst : (run cfg ops).circ.st = .closed) (fail : Bool) (dur : Nat) (own : Bool) :
    let w := (run cfg ops).circ.hist ++ [({ t := (run cfg ops).now, fail := fail, slow := isSlow cfg dur } : Rec)]
    ((record cfg (run cfg ops).circ fail dur (run cfg ops).now own).1.st = .opened ↔
      shouldOpen cfg w.length (countFail w) (countSlow w) = true) := by
  have h := expiry_decides_next_recording cfg ops hcb hst fail dur own
  have hf : (run cfg ops).circ.hist.filter (fun r => decide ((run cfg ops).now - r.t ≤ cfg.windowMs)) = (run cfg ops).circ.hist := by
    apply List.filter_eq_self.mpr
    intro r _
    simp only [decide_eq_true_eq]
    omega
  rw [hf] at h
  exact h

/-- Non-vacuity, THE WINDOW THAT NEVER FORGETS (`wdur=max` is parsed to 10^30 ticks; minimum 3, threshold 1/2): three failures, each
recorded long after the one before (a million ticks apart): the third opens the breaker and the next call is rejected without an
inner call; the snapshot before it counts both earlier failures. With an ordinary window of 100 ticks the same history stays closed
(each record has aged out when the next arrives). The documented machine says the same. -/
example :
    let cfg : Cfg := { countBased := false, windowMs := wdurOf "max" 0, minCalls := 3, frNum := 1, frDen := 2, waitMs := 10 ^ 30 }
    let cfgS : Cfg := { cfg with windowMs := 100 }
    let ko (c : Nat) := [Op.arrive c ⟨0, .err 1⟩ 0, .poll c]
    let h := ko 1 ++ [.adv 1000000] ++ ko 2 ++ [.adv 1000000]
    (run cfg h).circ.st = .closed ∧ stats cfg (run cfg h).circ = (2, 2, 0, 0) ∧
    (cleanup cfg (run cfg h).circ (run cfg h).now).recs.length = 2 ∧
    (run cfg (h ++ ko 3)).circ.st = .opened ∧
    (run cfg (h ++ ko 3 ++ [.adv 1000000] ++ ko 4)).log.getLast? = some (3000000, .result 4 .openCircuit) ∧
    (run cfgS (h ++ ko 3)).circ.st = .closed ∧
    (specRun cfg [.call true 0, .wait 1000000, .call true 0, .wait 1000000, .call true 0]).1.st = .opened ∧
    (specRun cfgS [.call true 0, .wait 1000000, .call true 0, .wait 1000000, .call true 0]).1.st = .closed := by
  decide

/-- Non-vacuity, THE THRESHOLD REACHED BY EXPIRY ON A SUCCESS (window 100 ticks, minimum 3, threshold 1/2): S S S at t = 0, F F at
t = 60: closed, the snapshot says 2 failures of 5. At t = 110 the three successes have aged out (110 > 100), the failures have not
(50): the window of the next recording is F F + the new outcome. A SUCCESS recorded then opens the breaker (2/3 ≥ 1/2) — and so
does a failure (3/3); the call after it is rejected without an inner call. At t = 100 nothing has expired yet (age 100 is still
inside): the success leaves it closed with 2 failures of 6. The documented machine says the same. -/
example :
    let cfg : Cfg := { countBased := false, windowMs := 100, minCalls := 3, frNum := 1, frDen := 2, waitMs := 36000 }
    let ok (c : Nat) := [Op.arrive c ⟨0, .ok⟩ 0, .poll c]
    let ko (c : Nat) := [Op.arrive c ⟨0, .err 1⟩ 0, .poll c]
    let pre := ok 1 ++ ok 2 ++ ok 3 ++ [.adv 60] ++ ko 4 ++ ko 5
    (run cfg pre).circ.st = .closed ∧ stats cfg (run cfg pre).circ = (5, 2, 3, 0) ∧
    (run cfg (pre ++ [.adv 50] ++ ok 6)).circ.st = .opened ∧
    (run cfg (pre ++ [.adv 50] ++ ko 6)).circ.st = .opened ∧
    (run cfg (pre ++ [.adv 50] ++ ok 6 ++ ok 7)).log.getLast? = some (110, .result 7 .openCircuit) ∧
    (run cfg (pre ++ [.adv 40] ++ ok 6)).circ.st = .closed ∧ stats cfg (run cfg (pre ++ [.adv 40] ++ ok 6)).circ = (6, 2, 4, 0) ∧
    (abs (run cfg (pre ++ [.adv 50])).circ).window cfg 110 = [⟨60, true, false⟩, ⟨60, true, false⟩] ∧
    (specRun cfg [.call false 0, .call false 0, .call false 0, .wait 60, .call true 0, .call true 0, .wait 50, .call false 0]).1.st = .opened ∧
    (specRun cfg [.call false 0, .call false 0, .call false 0, .wait 60, .call true 0, .call true 0, .wait 40, .call false 0]).1.st = .closed := by
  decide

/-- Non-vacuity, HALF-OPEN WITH `permitted = 2` (both conjuncts of `closes_after_permitted`, and `reopens_on_failure`): forced
open, the wait passes; the first success leaves the breaker half-open with one success counted, the second closes it; a
failure instead of the second success re-opens it. The documented machine and the full model agree step by step. -/
example :
    let cfg : Cfg := { size := 4, minCalls := 4, waitMs := 10, permitted := 2 }
    let ok (c : Nat) := [Op.arrive c ⟨0, .ok⟩ 0, .poll c]
    let pre := [Op.forceOpen, .adv 10] ++ ok 1
    (run cfg pre).circ.st = .halfOpen ∧ (run cfg pre).circ.hoSuccesses = 1 ∧
    (run cfg (pre ++ ok 2)).circ.st = .closed ∧
    (run cfg (pre ++ [.arrive 2 ⟨0, .err 1⟩ 0, .poll 2])).circ.st = .opened ∧
    (specRun cfg [.forceOpen, .wait 10, .call false 0]).1.st = .halfOpen ∧
    (specRun cfg [.forceOpen, .wait 10, .call false 0]).1.succ = 1 ∧
    (specRun cfg [.forceOpen, .wait 10, .call false 0, .call false 0]).1.st = .closed ∧
    (specRun cfg [.forceOpen, .wait 10, .call false 0, .call true 0]).1.st = .opened := by
  decide

set_option maxRecDepth 100000 in
/-- Non-vacuity of the slow-rate disjunct of `rate_equal_to_threshold_trips` (14 of 25 at 0.56, failure threshold 1/1 out of
reach): the documented machine, the sequential driver and the full model on the same history open on the 25th call; with 13
slow calls they stay closed. -/
example :
    let cfg : Cfg := { size := 25, minCalls := 25, frNum := 1, frDen := 1, slowMs := some 5, srNum := 56, srDen := 100 }
    let h (k : Nat) := List.replicate k (Act.call false 5) ++ List.replicate (25 - k) (Act.call false 0)
    (specRun cfg (h 14)).1.st = .opened ∧ (seqRun cfg (h 14)).1.st = .opened ∧
    (run cfg (opsOf 0 (h 14))).circ.st = .opened ∧
    (specRun cfg (h 13)).1.st = .closed ∧ (run cfg (opsOf 0 (h 13))).circ.st = .closed := by
  decide

/-- Non-vacuity of `seq_embeds` / `refines_run` on a history with everything in it: failures that open the breaker, a call
rejected while open at t = 3 (the patient client still lets its 7 ticks pass: its trial call at t = 24 is admitted, while the
impatient client of `seqRun` is at t = 17 and rejected again), a slow trial call, overrides. -/
example :
    let cfg : Cfg := { size := 2, minCalls := 2, waitMs := 20, permitted := 1, slowMs := some 5 }
    let acts := [Act.call true 0, .call true 3, .call false 7, .wait 14, .call false 6, .forceOpen, .reset, .call true 0]
    abs (run cfg (opsOf 0 acts)).circ = abs (seqRunP cfg acts).1 ∧ (run cfg (opsOf 0 acts)).now = (seqRunP cfg acts).2 ∧
    (run cfg (opsOf 0 acts)).circ.cwin = (seqRunP cfg acts).1.cwin ∧
    (seqRunP cfg acts).2 = 30 ∧ (seqRun cfg acts).2 = 17 ∧
    (abs (run cfg (opsOf 0 acts)).circ) = (specRunP cfg acts).1 ∧
    (run cfg (opsOf 0 (acts.take 3))).circ.st = .opened ∧ (run cfg (opsOf 0 (acts.take 5))).circ.st = .closed := by
  decide

/-! ## The builder: which configuration a chain of setters produces

The property quantifies over all configurations; a configuration reaches the breaker through the builder. `build` is the
builder (`TR.Circuit.applySetter`, `BState.toCfg`): each setter overwrites its own field, the classifier setters re-type the
builder (and must carry every other field over unchanged), `build()` resolves an unset `minimum_number_of_calls` to the
FINAL `sliding_window_size`. -/

theorem foldl_keeps_min (chain : List Setter) (b : BState) (h : ∀ s ∈ chain, s.isMin = false) :
    (chain.foldl applySetter b).minCalls = b.minCalls := by
  induction chain generalizing b with
  | nil => rfl
  | cons s tl ih =>
    rw [List.foldl_cons, ih _ (fun x hx => h x (by simp [hx]))]
    have := h s (by simp)
    cases s <;> first | rfl | simp [Setter.isMin] at this

theorem foldl_keeps_size (chain : List Setter) (b : BState) (h : ∀ s ∈ chain, s.isSize = false) :
    (chain.foldl applySetter b).size = b.size := by
  induction chain generalizing b with
  | nil => rfl
  | cons s tl ih =>
    rw [List.foldl_cons, ih _ (fun x hx => h x (by simp [hx]))]
    have := h s (by simp)
    cases s <;> first | rfl | simp [Setter.isSize] at this

/-- **"Default: same as sliding_window_size".** A chain that never calls `minimum_number_of_calls` — wherever it sets the
window size, wherever it installs a classifier (`failure_classifier`, `classify_response`), from whichever preset it starts
(a preset is a chain prefix) — builds a breaker whose minimum is the window size it ENDS UP with:
`builder().failure_classifier(f).sliding_window_size(4).build()` evaluates after 4 calls, not after 100. -/
theorem builder_minimum_defaults_to_final_window (msTicks : Nat) (fb : Bool) (chain : List Setter)
    (h : ∀ s ∈ chain, s.isMin = false) :
    (build msTicks fb chain).minCalls = (build msTicks fb chain).size := by
  unfold build BState.toCfg
  simp only [foldl_keeps_min chain _ h]
  rfl

/-- An explicit minimum is the one given last, whatever follows it. -/
theorem builder_minimum_last_wins (msTicks : Nat) (fb : Bool) (pre post : List Setter) (n : Nat)
    (h : ∀ s ∈ post, s.isMin = false) :
    (build msTicks fb (pre ++ .minCalls n :: post)).minCalls = n := by
  unfold build BState.toCfg
  simp only [List.foldl_append, List.foldl_cons, foldl_keeps_min post _ h]
  rfl

/-- The window size is the one given last, whatever follows it (classifier setters included). -/
theorem builder_window_size_last_wins (msTicks : Nat) (fb : Bool) (pre post : List Setter) (n : Nat)
    (h : ∀ s ∈ post, s.isSize = false) :
    (build msTicks fb (pre ++ .size n :: post)).size = n := by
  unfold build BState.toCfg
  simp only [List.foldl_append, List.foldl_cons, foldl_keeps_size post _ h]
  rfl

theorem foldl_cls_comm (post : List Setter) (b : BState) (c : Setter) (hc : c.isCls = true)
    (h : ∀ s ∈ post, s.isCls = false) :
    post.foldl applySetter (applySetter b c) = applySetter (post.foldl applySetter b) c := by
  induction post generalizing b with
  | nil => rfl
  | cons s tl ih =>
    have hs := h s (by simp)
    have hcomm : applySetter (applySetter b c) s = applySetter (applySetter b s) c := by
      cases c <;> simp [Setter.isCls] at hc <;> cases s <;> simp [Setter.isCls] at hs <;> rfl
    rw [List.foldl_cons, List.foldl_cons, hcomm]
    exact ih _ (fun x hx => h x (by simp [hx]))

/-- **The position of the classifier setter in the chain does not matter**: installing the classifier early
(`builder().failure_classifier(f).sliding_window_size(n)…`) builds exactly the configuration that installing it last does —
every other setting, set before or after, arrives unchanged. -/
theorem classifier_setter_commutes (msTicks : Nat) (fb : Bool) (pre post : List Setter) (c : Setter)
    (hc : c.isCls = true) (h : ∀ s ∈ post, s.isCls = false) :
    build msTicks fb (pre ++ c :: post) = build msTicks fb (pre ++ post ++ [c]) := by
  unfold build
  simp only [List.foldl_append, List.foldl_cons, List.foldl_nil]
  rw [foldl_cls_comm post _ c hc h]

/-- The presets, as documented (layer.rs): `standard` 50 % / window 100 / 30 s / 3 trial calls, `fast_fail` 25 % / 20 / 10 s / 1,
`tolerant` 75 % / 200 / 60 s / 5 — each with the minimum equal to its window; customising a preset's window afterwards
moves the minimum with it. All of them permit at least one trial call (the hypothesis of the C09 bounds). -/
example :
    let std := build 1 false (presetChain 1 "standard")
    let ff := build 1 false (presetChain 1 "fast_fail")
    let tol := build 1 false (presetChain 1 "tolerant")
    [std.frNum, std.frDen, std.size, std.minCalls, std.waitMs, std.permitted] = [1, 2, 100, 100, 30000, 3] ∧ std.countBased = true ∧
    [ff.frNum, ff.frDen, ff.size, ff.minCalls, ff.waitMs, ff.permitted] = [1, 4, 20, 20, 10000, 1] ∧ ff.countBased = true ∧
    [tol.frNum, tol.frDen, tol.size, tol.minCalls, tol.waitMs, tol.permitted] = [3, 4, 200, 200, 60000, 5] ∧ tol.countBased = true ∧
    (build 1 false (presetChain 1 "fast_fail" ++ [.cls 1, .size 4])).minCalls = 4 ∧
    (build 1 false [.clsr 2, .size 3, .wait 50]).minCalls = 3 ∧ (build 1 false [.clsr 2, .size 3, .wait 50]).respCls = true := by
  decide

set_option maxRecDepth 100000 in
/-- Non-vacuity of the builder order: `failure_classifier` (only error kind 1 fails) installed BEFORE `sliding_window_size(4)`:
the fourth failure opens the breaker (the documented machine and the full model), three do not. -/
example :
    let cfg := build 1 false [.cls 1, .size 4, .fr 1 1, .wait 1000]
    let fail (c : Nat) := [Op.arrive c ⟨0, .err 1⟩ 0, .poll c]
    cfg.minCalls = 4 ∧
    (run cfg (fail 1 ++ fail 2 ++ fail 3)).circ.st = .closed ∧
    (run cfg (fail 1 ++ fail 2 ++ fail 3 ++ fail 4)).circ.st = .opened ∧
    (specRun cfg (List.replicate 4 (Act.call true 0))).1.st = .opened := by
  decide

end TR.Props.C04
