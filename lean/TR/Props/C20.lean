import TR.Lemmas.Stack
import TR.Model.Listeners
import TR.Lemmas.TimeLimiter
import TR.Lemmas.Coalesce
/-!
# C20 — layers are transparent, honour Tower readiness; listeners only observe

`TR.Stack.LSt.step` is the bookkeeping all thirteen layers share, as a guarded transition over
the events at a layer's two boundaries (see `TR/Model/Stack.lean`). The correspondence check
replays the events the real layers produce at every boundary of every stack through it: a
layer that does something the idiom cannot do (the pinned `self.inner.clone()` followed by a
call of the never-polled clone; a retry without a readiness poll) is rejected.

**What is proved and what is established by the correspondence.** `LSt` (clone / poll / call), `YSt` (the same plus
"a readiness error is handed up") and `RSt` (answers, per configuration of the layer) are ACCEPTORS of observed
boundary events, not executable models of the thirteen layers. The theorems below are of the form "if every layer's part of
the log is accepted and the caller at boundary 0 behaves, then …" (`Accepted`, `AcceptedFrom`, `(LSt.run {} l).isSome`):
they show that the acceptors are sound for the property — whatever passes them has the readiness contract at every
boundary, forwards at most once, answers with the inner answer under the pass-through variants, surfaces readiness
errors. THAT the real layers' traces are accepted is not a theorem: it is what the correspondence check establishes, case
by case, by replaying the events the real layers produce (`harness/src/mw_stack.rs`, a `Tap` at every boundary) through
the acceptors; a rejected event is a reported disagreement. `TR.Stack.denote` (what a stack of configured layers makes
of one request) is tied to the code in the same way: the driver prints the answer it predicts for every request and the
check compares it with the answer the real stack gave.
-/
namespace TR.Props.C20
open TR TR.Stack

/-- **Readiness contract, one layer.** Any sequence of events — outer ones from a caller that
honours the contract, inner ones the layer's idiom allows, in any interleaving, with any
number of instances, retries, hedged attempts — makes every inner call on an instance that
has observed readiness since its previous call. (Conditional on `hacc`: the layer did only what the
idiom allows — for the real layers that is what the correspondence check establishes.) -/
theorem layer_contract (l : List LIn) (hacc : (LSt.run {} l).isSome) (hout : Respects (outers l)) :
    Respects (inners l) :=
  Stack.layer_contract l hacc hout

/-- **Readiness contract, every stack.** For any number of layers `n` and any global log in
which each layer only does what the idiom allows: if the caller at boundary 0 honours the
contract, so does every boundary, down to the wrapped service at boundary `n`. By induction
over the boundaries, so for *every* stack, not only the documented ones. (Conditional on `hacc : Accepted n g` —
soundness of the acceptor; that the real layers' logs are accepted is established by the correspondence check.) -/
theorem stack_contract (n : Nat) (g : List GEv) (hacc : Accepted n g) (h0 : Respects (proj 0 g)) :
    ∀ j, j ≤ n → Respects (proj j g) :=
  Stack.stack_contract n g hacc h0

/-- **Requests are forwarded unchanged.** Every `call` a layer makes on its inner service carries
the tag of a `call` it received before (so a stack never invents or swaps requests). -/
theorem forwards_received (l : List LIn) (s' : LSt) (hs : LSt.run {} l = some s') :
    ∀ t ∈ callTags (inners l), t ∈ callTags (outers l) := by
  intro t ht
  have := Stack.forwards_received l {} s' [] ⟨by intro i w h; simp at h, by intro o t h; simp at h, by intro o t h; simp at h⟩ hs t ht
  simpa using this

/-- The pinned idiom (`let mut inner = self.inner.clone(); … inner.call(req)`) cannot be performed
by the model, and the trace it produces at the inner boundary breaks the contract on the very
first request. -/
theorem fresh_clone_rejected :
    LSt.run {} [.inner (.poll 0 .ready), .outer (.poll 0 .ready), .outer (.call 0 7),
                .inner (.clone 0 1), .inner (.call 1 7)] = none ∧
    ¬ Respects [.poll 0 .ready, .clone 0 1, .call 1 7] := by
  constructor
  · rfl
  · decide

/-- A retry (or hedged attempt) without a new readiness poll is rejected as well. -/
theorem recall_without_poll_rejected :
    (LSt.run {} [.inner (.poll 0 .ready), .outer (.poll 0 .ready), .outer (.call 0 7), .inner (.clone 0 1),
                 .inner (.call 0 7), .inner (.call 0 7)]).isNone ∧
    (LSt.run {} [.inner (.poll 0 .ready), .outer (.poll 0 .ready), .outer (.call 0 7), .inner (.clone 0 1),
                 .inner (.call 0 7), .inner (.poll 0 .ready), .inner (.call 0 7)]).isSome := by
  constructor <;> rfl

/-- **Only `Ready(Ok)` licenses a call** — for any state of a boundary, any instance that has not observed
readiness since its last call, and any number of further `poll_ready` answers that are `Pending` (an inner
service that needs longer than the retry back-off to recover) or errors: the call that follows breaks the
contract. Waiting for something else in the meantime (a back-off timer) changes nothing. -/
theorem not_ready_polls_never_license (m : Mon) (i tag : Nat) (rs : List PollRes) (hrs : ∀ r ∈ rs, r ≠ .ready)
    (hi : m.ready i = false) : m.run (rs.map (fun r => Ev.poll i r) ++ [Ev.call i tag]) = none :=
  Mon.not_ready_polls_then_call m i tag rs hrs hi

/-- The layer automaton cannot perform it either: a retry that polled its instance and was told `Pending`
(twice, while its back-off ran) and then calls it is rejected; after a `ready` answer it is accepted. -/
theorem retry_after_pending_poll_rejected :
    (LSt.run {} [.inner (.poll 0 .ready), .outer (.poll 0 .ready), .outer (.call 0 7), .inner (.clone 0 1),
                 .inner (.call 0 7), .inner (.poll 0 .pending), .inner (.poll 0 .pending), .inner (.call 0 7)]).isNone ∧
    (LSt.run {} [.inner (.poll 0 .ready), .outer (.poll 0 .ready), .outer (.call 0 7), .inner (.clone 0 1),
                 .inner (.call 0 7), .inner (.poll 0 .pending), .inner (.poll 0 .ready), .inner (.call 0 7)]).isSome ∧
    ¬ Respects [.poll 0 .ready, .clone 0 1, .call 0 7, .poll 0 .pending, .poll 0 .pending, .call 0 7] := by
  refine ⟨rfl, rfl, ?_⟩
  decide

/-- **`poll_ready` answers `Ready` only on the strength of its inner service's answer** — in every state of every layer:
a ready answer at the outer boundary for instance `o` needs the inner instance that `o` holds to have *just* answered
ready. What the layer believes about its own protective state (a rate limiter whose window looks used up: "the call
will be rejected anyway") is no substitute — the decision that counts is taken later, in `call`. -/
theorem ready_answer_needs_inner_ready (s s' : LSt) (o : Nat) (h : outerPoll s o .ready = some s') :
    ∃ i, s.cur o = some i ∧ s.lastReady = some i := by
  unfold outerPoll at h
  split at h
  · split at h
    · rename_i i hi
      split at h
      · rename_i hr
        exact ⟨i, hi, hr rfl⟩
      · simp at h
    · simp at h
  · simp at h

/-- … and that answer is used up by whatever the layer's caller does next: after ANY event at the outer boundary (a call
that the layer answered itself — a rejection —, another poll, a clone), in any state, a ready answer without a new poll
of the inner service is something the layers' idiom cannot do. -/
theorem no_ready_answer_without_inner_poll (s s' : LSt) (ev : Stack.Ev) (o : Nat) (h : s.step (.outer ev) = some s') :
    outerPoll s' o .ready = none := by
  have hl : s'.lastReady = none := by
    cases ev with
    | clone a b =>
      simp only [LSt.step, outerClone] at h
      split at h
      · simp only [Option.some.injEq] at h; subst h; rfl
      · simp at h
    | poll a r =>
      simp only [LSt.step, outerPoll] at h
      split at h
      · split at h
        · split at h
          · simp only [Option.some.injEq] at h; subst h; rfl
          · simp at h
        · simp at h
      · simp at h
    | call a t =>
      simp only [LSt.step, outerCall] at h
      split at h
      · simp only [Option.some.injEq] at h; subst h; rfl
      · simp at h
  cases hr : outerPoll s' o .ready with
  | none => rfl
  | some s'' =>
    obtain ⟨i, _, hi⟩ := ready_answer_needs_inner_ready s' s'' o hr
    rw [hl] at hi
    cases hi

/-- The seeded "fail-fast limiter with a used-up window answers `poll_ready` itself": request 7 is forwarded, request 8 is
rejected by the limiter (no inner call), and for request 9 the limiter answers ready without polling the fresh clone it
holds; the window has rolled over meanwhile, so `call` forwards request 9 to that never-polled instance. The layer
automaton cannot perform the trace, the repaired trace (the clone is polled first) it can, and the trace at the inner
boundary breaks the contract. -/
theorem ready_without_inner_poll_rejected :
    (LSt.run {} [.inner (.poll 0 .ready), .outer (.poll 0 .ready), .outer (.call 0 7), .inner (.clone 0 1), .inner (.call 0 7),
                 .inner (.poll 1 .ready), .outer (.poll 0 .ready), .outer (.call 0 8), .inner (.clone 1 2),
                 .outer (.poll 0 .ready), .outer (.call 0 9), .inner (.clone 2 3), .inner (.call 2 9)]).isNone ∧
    (LSt.run {} [.inner (.poll 0 .ready), .outer (.poll 0 .ready), .outer (.call 0 7), .inner (.clone 0 1), .inner (.call 0 7),
                 .inner (.poll 1 .ready), .outer (.poll 0 .ready), .outer (.call 0 8), .inner (.clone 1 2),
                 .inner (.poll 2 .ready), .outer (.poll 0 .ready), .outer (.call 0 9), .inner (.clone 2 3), .inner (.call 2 9)]).isSome ∧
    ¬ Respects [.poll 0 .ready, .clone 0 1, .call 0 7, .poll 1 .ready, .clone 1 2, .clone 2 3, .call 2 9] := by
  refine ⟨rfl, rfl, ?_⟩
  decide

/-- Non-vacuity: the events two repaired layers (retry over circuit breaker) produced in the
harness for a request that is retried once — accepted, and the caller respects the contract. -/
example :
    let g : List GEv := [(0, .clone 0 1), (1, .clone 0 1), (2, .clone 0 1), (2, .poll 1 .ready), (1, .poll 1 .ready),
      (0, .poll 1 .ready), (0, .call 1 7), (1, .clone 1 2), (2, .clone 1 2), (1, .call 1 7), (2, .clone 1 3),
      (2, .call 1 7), (2, .poll 3 .ready), (1, .poll 1 .ready), (1, .call 1 7), (2, .clone 3 4), (2, .call 3 7)]
    (LSt.run {} (view 0 g)).isSome ∧ (LSt.run {} (view 1 g)).isSome ∧ Respects (proj 0 g) ∧ Respects (proj 2 g) := by
  refine ⟨rfl, rfl, ?_, ?_⟩ <;> decide

/-! ## listeners only observe -/

open TR.Listeners

theorem emitFrom_ran {Event : Type} (i : Nat) (ls : List (Listener Event)) (e : Event) :
    (emitFrom i ls e).ran = (List.range ls.length).map (· + i) ∧ (emitFrom i ls e).escaped = false := by
  induction ls generalizing i with
  | nil => simp [emitFrom]
  | cons l tl ih =>
    obtain ⟨h1, h2⟩ := ih (i + 1)
    refine ⟨?_, by simp [emitFrom, h2]⟩
    simp only [emitFrom, h1, List.length_cons, List.range_succ_eq_map, List.map_cons, List.map_map]
    simp only [Nat.zero_add, List.cons.injEq, true_and]
    apply List.map_congr_left
    intro a _; simp; omega

/-- Whatever the listeners do — any subset of them panicking — `emit` invokes every listener
exactly once, in registration order, and no panic escapes. -/
theorem every_listener_runs {Event : Type} (ls : List (Listener Event)) (e : Event) :
    (emit ls e).ran = List.range ls.length ∧ (emit ls e).escaped = false := by
  have := emitFrom_ran 0 ls e
  simpa [emit] using this

/-- … and therefore no call's outcome changes: the call path returns the inner outcome for every
choice of listeners and every list of emitted events. -/
theorem outcome_independent_of_listeners {Event : Type} (ls : List (Listener Event)) (events : List Event)
    (outcome : Res) : callPath emit ls events outcome = outcome := by
  have : events.any (fun e => (emit ls e).escaped) = false := by
    simp only [List.any_eq_false]
    intro e _; simp [(every_listener_runs ls e).2]
  simp [callPath, this]

/-- Without `catch_unwind` a panicking listener would change the outcome and starve the listeners
registered after it (why the mutant "remove the catch_unwind" is a violation). -/
theorem no_catch_violates :
    callPath emitNoCatch [fun (_ : Nat) => false, fun _ => true, fun _ => false] [0] (.ok 5) = .panic ∧
    (emitNoCatch [fun (_ : Nat) => false, fun _ => true, fun _ => false] 0).ran = [0, 1] := by
  constructor <;> rfl

/-! ### one callback per kind of news (reconnect's `on_state_change` / `on_reconnect`) -/

theorem notifyFrom_own_guards {Event : Type} (i : Nat) (cbs : List (Listener Event)) (e : Event) :
    notifyFrom i (cbs.map fun c => [c]) e = List.range' i cbs.length := by
  induction cbs generalizing i with
  | nil => rfl
  | cons c tl ih =>
    have h1 : (emitNoCatchFrom i [c] e).ran = [i] := by
      simp only [emitNoCatchFrom]
      split <;> rfl
    simp only [List.map_cons, notifyFrom, h1, List.length_cons, List.length_nil, Nat.zero_add, ih, List.range'_succ,
      List.singleton_append]

/-- **Every callback is told, whatever the others do**: with one unwind guard per callback — the code's way — all
callbacks that one moment of the call path is reported to are invoked, in order, for ANY list of callbacks and any subset
of them panicking. -/
theorem every_callback_told {Event : Type} (cbs : List (Listener Event)) (e : Event) :
    notify (cbs.map fun c => [c]) e = List.range cbs.length := by
  simp [notify, notifyFrom_own_guards, List.range_eq_range']

/-- **A shared guard starves the callbacks behind a panicking one**: in a group of callbacks under ONE `catch_unwind`, the
first one that panics is the last one invoked — for any group, wherever the panic happens. -/
theorem shared_guard_stops_at_first_panic {Event : Type} (i : Nat) (pre post : List (Listener Event)) (l : Listener Event)
    (e : Event) (hpre : ∀ x ∈ pre, x e = false) (hl : l e = true) :
    (emitNoCatchFrom i (pre ++ l :: post) e).ran.length = pre.length + 1 := by
  induction pre generalizing i with
  | nil => simp [emitNoCatchFrom, hl]
  | cons x tl ih =>
    have hx : x e = false := hpre x (by simp)
    have := ih (i + 1) (fun y hy => hpre y (by simp [hy]))
    simp [emitNoCatchFrom, hx, this]

/-- The seeded "both reports belong to the same moment, so they share one unwind guard" of reconnect: the news "a
reconnect attempt starts" goes to `on_state_change` (position 0) and `on_reconnect` (position 1). Own guards: both are
told even when the first panics. One shared guard: when `on_state_change` panics, `on_reconnect` is never told (the call's
outcome is unchanged — nothing escapes — which is why no test of outcomes notices); a panicking `on_reconnect`, last in
its group, starves nobody. -/
theorem shared_guard_violates :
    notify [[fun (_ : Nat) => true], [fun _ => false]] 0 = [0, 1] ∧
    notify [[fun (_ : Nat) => true, fun _ => false]] 0 = [0] ∧
    notify [[fun (_ : Nat) => false, fun _ => true]] 0 = [0, 1] := by
  refine ⟨rfl, rfl, rfl⟩

/-- **A listener sees the layer as the next caller will.** On a completion path that gives back everything the
finished call holds before it runs its listeners (`drop(permit)`, then `emit`: any number of releases followed by
any number of events), what a call made from inside a listener — or arriving on another thread while a listener
takes its time — is told equals what the same call is told right after the step, for every capacity and load:
admission does not depend on what listeners do or how long they take. -/
theorem listener_sees_final_state (s : Slots) (a b : Nat) :
    ∀ v ∈ (finish s (List.replicate a .release ++ List.replicate b .emit)).2,
      v = (finish s (List.replicate a .release ++ List.replicate b .emit)).1.admits := by
  induction a generalizing s with
  | zero =>
    induction b with
    | zero => intro v hv; simp [finish] at hv
    | succ n ih =>
      intro v hv
      simp only [List.replicate_zero, List.nil_append, List.replicate_succ, finish, List.mem_cons] at hv ⊢
      have hfin : ∀ k, (finish s (List.replicate k Act.emit)).1 = s := by
        intro k; induction k with
        | zero => rfl
        | succ k ihk => simpa [List.replicate_succ, finish] using ihk
      rcases hv with hv | hv
      · rw [hv, hfin]
      · have := ih v (by simpa using hv)
        simpa using this
  | succ n ih =>
    intro v hv
    simp only [List.replicate_succ, List.cons_append, finish] at hv ⊢
    exact ih _ v hv

/-- Releasing the slot only after the listeners have run (the seeded "event-ordering tidy-up" of the bulkhead) makes
a call's outcome depend on the listeners: with one slot, the call made while the completion listeners of the
only call in flight run is rejected, the same call made right after the step is admitted. -/
theorem release_after_emit_violates :
    (finish { inflight := 1, max := 1 } [.emit, .release]).2 = [false] ∧
    (finish { inflight := 1, max := 1 } [.emit, .release]).1.admits = true ∧
    (finish { inflight := 1, max := 1 } [.release, .emit]).2 = [true] := by
  refine ⟨rfl, rfl, rfl⟩

/-! ## a finished call is not in flight (coalesce's protective condition) -/

open TR.Coalesce in
/-- **A request is coalesced only with a call that is in flight.** Over the C11 model of the coalesce layer, from ANY
state: the poll that completes a leader's inner call (ok, error or panic) answers the leader and frees its key in that
very step — the model has no notion of the finished future being kept or released by its caller, because that must
not matter — so a later request with the same key is forwarded to the wrapped service as a call of its own (the next
serial number), not made a waiter of the call that has ended. -/
theorem coalesce_finished_call_is_not_joined (s : State) (l key k c : Nat) (sc : Step)
    (hl : LiveLeader s l key k) (hdone : stepS s (.poll l) ≠ s)
    (hs : (stepS s (.poll l)).svcGone = false) (hc : lookup (stepS s (.poll l)).role c = none) :
    ∃ o r, (stepS s (.poll l)).log = s.log ++ [.innerDone l key k o, .result l r] ∧
      (stepS (stepS s (.poll l)) (.arrive c key sc false)).log =
        (stepS s (.poll l)).log ++ [.innerCall c key (stepS s (.poll l)).serial] := by
  rcases poll_leader_effect hl with h0 | ⟨o, r, _, _, _, _, hlog, hreg, _, _⟩
  · exact absurd h0 hdone
  · refine ⟨o, r, hlog, ?_⟩
    rw [arrive_free sc hs hc hreg]
    rfl

open TR.Coalesce in
/-- Non-vacuity, and the seeded situation: request 1 (key 7) completes at 5 ms and its caller keeps the finished future
(nothing in the model); request 2 with the same key arrives afterwards: a second inner call, and its own response. -/
example :
    (run [.arrive 1 7 ⟨5, .ok⟩ false, .adv 5, .poll 1, .arrive 2 7 ⟨0, .ok⟩ false, .poll 2]).log
      = [.innerCall 1 7 0, .innerDone 1 7 0 .ok, .result 1 (.ok 0), .innerCall 2 7 1, .innerDone 2 7 1 .ok, .result 2 (.ok 1)] := by
  decide

/-! ## a listener may use the service -/

/-- **A listener that sends a request through the service changes nothing** — on every call path that never emits
while it holds its (non-reentrant) lock: for all paths, from every state, the run with a re-entrant listener equals
the run without one — the call returns, every event reaches every listener, the lock ends up as it would. -/
theorem reentrant_listener_only_observes (p : List PStep) (s : PRun) (hs : s.hung = false)
    (hp : emitsUnlocked s.locked p = true) : walk true s p = walk false s p := by
  induction p generalizing s with
  | nil => rfl
  | cons st tl ih =>
    cases st with
    | lock =>
      simp only [walk, hs, Bool.false_eq_true, if_false]
      by_cases hl : s.locked = true
      · simp [hl]
      · simp only [hl]
        exact ih _ (by simp) (by simpa [emitsUnlocked] using hp)
    | unlock =>
      simp only [walk, hs, Bool.false_eq_true, if_false]
      exact ih _ (by simp) (by simpa [emitsUnlocked] using hp)
    | emit =>
      simp only [emitsUnlocked, Bool.and_eq_true, Bool.not_eq_true'] at hp
      simp only [walk, hs, Bool.false_eq_true, if_false, hp.1, Bool.and_false]
      exact ih _ (by simp) (by simpa [hp.1] using hp.2)

/-- **An event emitted under the lock hangs the call** as soon as a listener uses the service: for every call path
that runs through without such a listener but emits at least once while its lock is held, the run with a re-entrant
listener never returns (so the emitting call has no outcome and the later listeners are not told the event). -/
theorem emit_under_lock_hangs (p : List PStep) (s : PRun) (hs : s.hung = false)
    (hplain : (walk false s p).hung = false) (hp : emitsUnlocked s.locked p = false) :
    (walk true s p).hung = true := by
  induction p generalizing s with
  | nil => simp [emitsUnlocked] at hp
  | cons st tl ih =>
    cases st with
    | lock =>
      simp only [walk, hs, Bool.false_eq_true, if_false] at hplain ⊢
      by_cases hl : s.locked = true
      · simp [hl] at hplain
      · simp only [hl] at hplain ⊢
        exact ih _ (by simp) hplain (by simpa [emitsUnlocked] using hp)
    | unlock =>
      simp only [walk, hs, Bool.false_eq_true, if_false] at hplain ⊢
      exact ih _ (by simp) hplain (by simpa [emitsUnlocked] using hp)
    | emit =>
      simp only [walk, hs, Bool.false_eq_true, if_false, Bool.false_and] at hplain ⊢
      by_cases hl : s.locked = true
      · simp [hl]
      · have hl' : s.locked = false := by simpa using hl
        simp only [hl', Bool.and_false, Bool.false_eq_true, if_false] at hplain ⊢
        refine ih _ (by simp) hplain ?_
        simpa [emitsUnlocked, hl'] using hp

/-- The chaos layer's call path draws its rolls under the RNG lock and announces the decision after releasing it:
a probing listener changes nothing. The seeded "announce the decision before the RNG is handed on" order — `emit`
moved inside the locked block — hangs the call, and the event never reaches the later listeners; without a listener
that uses the service the two orders cannot be told apart. -/
theorem chaos_emit_inside_rng_lock_violates :
    walk true {} [.lock, .unlock, .emit] = { locked := false, emitted := 1, hung := false } ∧
    walk true {} [.lock, .emit, .unlock] = { locked := true, emitted := 0, hung := true } ∧
    walk false {} [.lock, .emit, .unlock] = walk false {} [.lock, .unlock, .emit] := by
  refine ⟨rfl, rfl, rfl⟩

/-! ## the time limiter is transparent however late its future is first polled -/

open TR.TimeLimiter in
/-- **No timeout unless the wrapped call is slower than the timeout — whenever the future is first polled.** For
every configuration (both cancellation modes, fixed or per-request timeouts) and every history — in particular
any amount of time between `call()` and the first poll of the returned future, and polls arbitrarily late —
a request whose wrapped call completes (ok or error) in less than its timeout is never answered `Timeout`: the
protective condition is measured from the start of the wrapped call (the first poll), not from `call()`. -/
theorem timelimiter_untriggered_never_times_out (cfg : Cfg) (ops : List Op) (c : Nat) (x : Caller) (t : Nat)
    (hx : lookup (run cfg ops).callers c = some x)
    (hout : x.sc.out = .ok ∨ ∃ kd, x.sc.out = .err kd) (hfast : x.sc.lat < x.tmo) :
    (t, CEv.result .timeout) ∉ x.hist := by
  intro hr
  have hinv := inv_reachable cfg ops c x hx
  have hnp : x.sc.out ≠ .panic := by rcases hout with h | ⟨kd, h⟩ <;> simp [h]
  have hnn : x.sc.out ≠ .never := by rcases hout with h | ⟨kd, h⟩ <;> simp [h]
  rcases hinv.toLate t hr hnp with h | h
  · exact absurd h hnn
  · simp only [Caller.deadline, Caller.doneAt] at h
    omega

open TR.TimeLimiter in
/-- Non-vacuity (both modes): created at 0, left alone for an hour (the timeout), first polled then, latency 5 ms:
the wrapped call starts at the first poll and its result is delivered, not a timeout. -/
example :
    (run { timeout := 3600000, cancel := true, dyn := false }
      [Op.arrive 1 none ⟨5, .ok⟩, .adv 3600000, .poll 1, .adv 5, .poll 1]).log =
      [.innerCall 1 0, .innerDone 1 0 .ok, .result 1 (.ok 0)] ∧
    (run { timeout := 3600000, cancel := false, dyn := false }
      [Op.arrive 1 none ⟨5, .ok⟩, .adv 3600000, .poll 1, .adv 5, .poll 1]).log =
      [.innerCall 1 0, .innerDone 1 0 .ok, .result 1 (.ok 0)] := by
  decide

/-! ## transparent under configuration: what `TR.Stack.denote` says, layer by layer

`denote ctx cfgs k s`: what the stack of configured layers `cfgs` makes of one request whose inner calls have the
outcomes `s` — (answer, inner calls made, outcomes left). The driver compares its predictions with the real stacks. -/

/-- **A retry layer that allows no retry is not there**: with `max_attempts` 0 or 1 (fixed or per request) the layer is
the identity on services — the request is forwarded exactly as its inner service is called, and whatever comes back,
an error the predicate would accept included, is handed up unchanged. -/
theorem retry_without_retries_is_transparent (ctx : Ctx) (max : Nat) (p : Pred) (inner : Svc) (h : max ≤ 1) :
    applyL ctx (.retry max p) inner = inner := by
  have : max - 1 = 0 := by omega
  simp [applyL, this, retryGo_zero]

/-- **Retry: bounded attempts, the LAST answer, unchanged.** Over the scripted service, for every `max_attempts`, predicate
and script: at least one and at most `max(max_attempts, 1)` calls are made, and the answer is the scripted service's answer
to the last of them (a success, an error the predicate rejects, or the error of the last permitted attempt) — as it is. -/
theorem retry_attempts_bounded_last_answer (ctx : Ctx) (max : Nat) (p : Pred) (k : Nat) (s : List Out) (a : Ans)
    (k' : Nat) (s' : List Out) (h : applyL ctx (.retry max p) base k s = some (a, k', s')) :
    k < k' ∧ k' ≤ k + Nat.max max 1 ∧ base (k' - 1) (s.drop (k' - 1 - k)) = some (a, k', s') := by
  obtain ⟨h1, h2, h3⟩ := retryGo_base p (max - 1) k s a k' s' (by simpa [applyL] using h)
  refine ⟨h1, ?_, h3⟩
  have : Nat.max max 1 = if max ≤ 1 then 1 else max := by simp [Nat.max_def]
  rw [this]; split <;> omega

/-- … and a service that keeps failing with errors the predicate accepts is called exactly `max(max_attempts, 1)` times. -/
theorem retry_exhausts_attempts (ctx : Ctx) (max : Nat) (p : Pred) (k : Nat) (s : List Out)
    (hl : Nat.max max 1 ≤ s.length) (hall : ∀ o ∈ s.take (Nat.max max 1), ∃ kd, o = Out.err kd ∧ p.holds kd = true) :
    ∃ a s', applyL ctx (.retry max p) base k s = some (a, k + Nat.max max 1, s') := by
  have e : Nat.max max 1 = (max - 1) + 1 := by simp [Nat.max_def]; split <;> omega
  rw [e] at hl hall
  obtain ⟨a, s', h⟩ := retryGo_base_exhausts p (max - 1) k s hl hall
  exact ⟨a, s', by rw [e]; simpa [applyL, Nat.add_assoc] using h⟩

/-- **Retry: an error the predicate rejects passes straight through** — for EVERY `max_attempts`, every inner service and
whatever else the builder was told (back-off, listeners, in whichever order): one inner call, that call's error as it is. -/
theorem retry_rejected_error_passes_unchanged (ctx : Ctx) (max : Nat) (p : Pred) (inner : Svc) (k k' : Nat)
    (s s' : List Out) (e : Err) (h : inner k s = some (.err e, k', s')) (hp : p.holds e.kind = false) :
    applyL ctx (.retry max p) inner k s = some (.err e, k', s') := by
  cases hm : max - 1 with
  | zero => simp [applyL, hm, retryGo, h]
  | succ n => simp [applyL, hm, retryGo, h, hp]

/-- … and so does a success. -/
theorem retry_success_passes (ctx : Ctx) (max : Nat) (p : Pred) (inner : Svc) (k k' n : Nat) (s s' : List Out)
    (h : inner k s = some (.ok n, k', s')) : applyL ctx (.retry max p) inner k s = some (.ok n, k', s') := by
  cases hm : max - 1 with
  | zero => simp [applyL, hm, retryGo, h]
  | succ m => simp [applyL, hm, retryGo, h]

/-- **The order of the builder's setters is not a configuration.** What the model makes of a retry layer's knobs depends on
`ma` (attempts) and `ro` (predicate) alone: the harness's `po` (predicate installed before / after the back-off setter), `bk`
(which of the three back-off setters), `bo`, `maf` do not enter — two headers that agree on `ma` and `ro` denote the same layer. -/
theorem retry_configuration_is_order_free (cf cf' : List (String × String)) (rl rl' : String)
    (hma : cfGet cf "ma" = cfGet cf' "ma") (hro : cfGet cf "ro" = cfGet cf' "ro") :
    lcfgOf "retry" cf rl = lcfgOf "retry" cf' rl' := by
  simp [lcfgOf, cfNat, hma, hro]

/-- **The executor layer has no protective condition**: however it was told which runtime it is built on (`ex:…`), and from
wherever the caller drives it (the model has no notion of the caller's thread: `arrive … off=1` is an `arrive`), it forwards
once and hands the answer back under its pass-through variant. -/
theorem executor_is_transparent_however_built (ctx : Ctx) (cf : List (String × String)) (rl : String) (inner : Svc) :
    applyL ctx (lcfgOf "executor" cf rl) inner = through (·.wrap "executor") inner ∧
    ∀ o, quiet ctx o (lcfgOf "executor" cf rl) = true := by
  simp [lcfgOf, applyL, quiet]

/-- **Fallback never touches a success** — any strategy, any predicate. -/
theorem fallback_success_passes (ctx : Ctx) (st : Strat) (p : Pred) (inner : Svc) (k k' n : Nat) (s s' : List Out)
    (h : inner k s = some (.ok n, k', s')) : applyL ctx (.fallback st p) inner k s = some (.ok n, k', s') := by
  simp [applyL, h]

/-- **An error the `handle` predicate rejects passes through unchanged** — whatever the strategy, the error-mapping
`exception` strategy included: forwarded once, the inner error under the pass-through variant and nothing else. -/
theorem fallback_rejected_error_passes_unchanged (ctx : Ctx) (st : Strat) (p : Pred) (inner : Svc) (k k' : Nat)
    (s s' : List Out) (e : Err) (h : inner k s = some (.err e, k', s')) (hp : p.holds e.kind = false) :
    applyL ctx (.fallback st p) inner k s = some (.err (e.wrap "fallback"), k', s') := by
  simp [applyL, h, hp]

/-- … and an error it accepts gets exactly what the strategy makes of it. -/
theorem fallback_accepted_error_gets_strategy (ctx : Ctx) (st : Strat) (p : Pred) (inner : Svc) (k k' : Nat)
    (s s' : List Out) (e : Err) (h : inner k s = some (.err e, k', s')) (hp : p.holds e.kind = true) :
    applyL ctx (.fallback st p) inner k s = some (fallbackAns st ctx.tag e, k', s') := by
  simp [applyL, h, hp]

/-- **A hedge layer without room for a hedge forwards once**: with `max_hedged_attempts` 0 or 1, whatever the delay
(zero, huge, none), the one attempt's response comes back unchanged and its error as the layer's report of it. -/
theorem hedge_without_room_forwards_once (ctx : Ctx) (n : Nat) (d : Option Nat) (inner : Svc) (h : n ≤ 1) :
    applyL ctx (.hedge n d) inner = through (·.wrap "hedge!all_failed") inner := by
  simp [applyL, h]

/-- **A hedge that is not due yet has not fired**: hedges allowed, but the request was answered before the delay (a huge one
in particular) had passed — then by its first attempt, successfully, and that response is handed up unchanged. -/
theorem hedge_not_due_is_transparent (ctx : Ctx) (n d : Nat) (inner : Svc) (k k' m : Nat) (s s' : List Out)
    (hd : ctx.span < d) (h : inner k s = some (.ok m, k', s')) :
    applyL ctx (.hedge n (some d)) inner k s = some (.ok m, k', s') := by
  by_cases hn : n ≤ 1
  · simp [applyL, hn, through, h, Ans.mapErr]
  · simp [applyL, hn, hd, h]

/-- **Limits that cannot be reached leave the layer out of the way**: a rate limiter, bulkhead, adaptive limiter or
circuit breaker whose capacity covers every call the case can have made so far (or that would have had to wait longer
than the request took), and a time limiter whose timeout is longer than the whole request took, forward once and
wrap only errors, in their pass-through variant. -/
theorem unreachable_limit_is_transparent (ctx : Ctx) (name : String) (cap wait : Nat) (inner : Svc)
    (h : ctx.demand ≤ cap ∨ ctx.span < wait) :
    applyL ctx (.guard name cap wait) inner = through (·.wrap name) inner ∧
    (∀ t, ctx.span < t → applyL ctx (.limiter name t) inner = through (·.wrap name) inner) := by
  refine ⟨by simp [applyL, h], ?_⟩
  intro t ht
  simp [applyL, ht]

/-- **Reconnect that may not reconnect forwards once**: without a policy, without retry after the back-off, or with
`max_attempts` 0, the layer makes exactly the calls its inner service makes for one call — whatever that call's outcome. -/
theorem reconnect_without_reconnects_forwards_once (ctx : Ctx) (max : Option Nat) (policy retry : Bool) (inner : Svc)
    (hcfg : policy = false ∨ retry = false ∨ max = some 0) (k k' : Nat) (s s' : List Out) (a : Ans)
    (h : inner k s = some (a, k', s')) :
    (applyL ctx (.reconnect max policy retry) inner k s).map (fun r => r.2) = some (k', s') ∧
    (∀ n, a = .ok n → applyL ctx (.reconnect max policy retry) inner k s = some (.ok n, k', s')) := by
  cases a with
  | ok n => simp [applyL, reconGo, h]
  | lit t => simp [applyL, reconGo, h]
  | err e =>
    refine ⟨?_, fun n h' => by cases h'⟩
    by_cases hk : (e.kind != 1) = true
    · simp [applyL, reconGo, h, hk]
    · rcases hcfg with rfl | rfl | rfl
      · cases max with
        | none => simp [applyL, reconGo, h, hk]
        | some m => by_cases hm : m < 1 <;> simp [applyL, reconGo, h, hk, hm]
      · cases max with
        | none => cases policy <;> simp [applyL, reconGo, h, hk]
        | some m => by_cases hm : m < 1 <;> cases policy <;> simp [applyL, reconGo, h, hk, hm]
      · simp [applyL, reconGo, h, hk]

/-- **Every stack of configured layers is transparent for a request that triggers none of them** (`quiet`: a retry layer
without retries or an error its predicate rejects, a fallback whose predicate rejects the error, a hedge without room or not
due, a limit that cannot be reached, chaos with rates 0, a reconnect layer and no connection failure, the plain wrappers):
forwarded exactly once, and that call's response — or its error inside exactly the pass-through variants of the layers,
outermost first — is the answer. For every list of layers, by induction. -/
theorem untriggered_stack_is_transparent (ctx : Ctx) (o : Out) (ho : o = .ok ∨ ∃ kd, o = .err kd) (ls : List LCfg)
    (hq : ∀ l ∈ ls, quiet ctx o l = true) (k : Nat) (s : List Out) :
    denote ctx ls k (o :: s) = some (passAll ls (answerOf o (k + 1)), k + 1, s) :=
  denote_transparent ctx o ho ls hq k s

/-- Non-vacuity, and the three configurations nobody had drawn: `max_attempts(0)` on a service that fails twice and then
succeeds — one call, the first error; `exception` + a predicate that rejects the error — untouched; no room for a hedge —
one call. And what the triggered neighbours do: `max_attempts(2)` on a service that keeps failing: two calls, the second
error; an accepted error is mapped. -/
example :
    let ctx : Ctx := { tag := 7, demand := 3, span := 0 }
    denote ctx [.retry 0 (.kind 1)] 0 [.err 1, .err 1, .ok] = some (.err ⟨"", 1, 1, ""⟩, 1, [.err 1, .ok]) ∧
    denote ctx [.fallback .exc (.kind 1)] 0 [.err 2] = some (.err ⟨"fallback(", 2, 1, ")"⟩, 1, []) ∧
    denote ctx [.hedge 0 (some 3600000)] 0 [.ok] = some (.ok 1, 1, []) ∧
    denote ctx [.retry 2 (.kind 1)] 0 [.err 1, .err 1, .err 1] = some (.err ⟨"", 1, 2, ""⟩, 2, [.err 1]) ∧
    denote ctx [.fallback .exc (.kind 1)] 0 [.err 1] = some (.err ⟨"fallback(mapped(", 1, 1, "))"⟩, 1, []) ∧
    denote ctx [.wrap "bulkhead", .limiter "timelimiter" 3600000, .retry 1 .all, .guard "circuit" 3 0, .bare] 0 [.err 2] =
      some (.err ⟨"bulkhead(timelimiter(circuit(", 2, 1, ")))"⟩, 1, []) := by
  refine ⟨rfl, rfl, rfl, rfl, rfl, rfl⟩

/-- Wave 6: a predicate installed before the back-off setter (`po:1`) is still the layer's predicate — an error it rejects is
forwarded once (the seeded builder re-sent it `max_attempts` times); an accepted one is retried; and the executor outermost
over the guide's consumer stack, whatever the constructor. -/
example :
    let ctx : Ctx := { tag := 11, demand := 3, span := 0 }
    let r : LCfg := .retry 3 (.kind 1)
    lcfgOf "retry" [("ma", "3"), ("po", "1"), ("bk", "exp")] "" = lcfgOf "retry" [("bk", "fn"), ("ma", "3")] "" ∧
    denote ctx [r] 0 [.err 2, .ok] = some (.err ⟨"", 2, 1, ""⟩, 1, [.ok]) ∧
    denote ctx [r] 0 [.err 1, .ok] = some (.ok 2, 2, []) ∧
    denote ctx [.wrap "executor", .limiter "timelimiter" 3600000, r] 0 [.err 2] =
      some (.err ⟨"executor(timelimiter(", 2, 1, "))"⟩, 1, []) := by
  refine ⟨retry_configuration_is_order_free _ _ _ _ (by simp [cfGet]) (by simp [cfGet]), rfl, rfl, rfl⟩

/-! ## answers at the boundaries: transparency over the observed log

`RSt` (see `TR/Model/Stack.lean`) is what a layer in a given configuration can do about calls and ANSWERS at its two
boundaries (`ret k tag r`: the future of a call made for request `tag` has resolved with `r`). Conditional, like the
contract theorems, on the layer's part of the log being accepted. -/

/-- **Exactly-once, the "at most" half, one layer**: in every configuration that allows one attempt per call (everything
but a retry / reconnect / hedge layer with room for further attempts), for every accepted sequence of events and every
request, the layer makes at most as many inner calls as it received outer calls. -/
theorem layer_forwards_at_most_once (c : LCfg) (hsg : single c = true) (l : List XIn) (hacc : (RSt.run c {} l).isSome)
    (t : Nat) : cntIC t l ≤ cntOC t l := by
  obtain ⟨s', hs'⟩ := Option.isSome_iff_exists.mp hacc
  exact Stack.layer_forwards_at_most_once c hsg l s' hs' t

/-- … and in EVERY configuration answers never outnumber calls: at most one answer per outer call is handed up, and only
answers of inner calls that were made are used. (With at most one inner call per outer call: the "at least once" half —
an answer made of an inner answer needs that inner call.) -/
theorem answers_never_outnumber_calls (c : LCfg) (hc : c ≠ .blackbox) (l : List XIn) (hacc : (RSt.run c {} l).isSome)
    (t : Nat) : cntOR t l ≤ cntOC t l ∧ cntIR t l ≤ cntIC t l := by
  obtain ⟨s', hs'⟩ := Option.isSome_iff_exists.mp hacc
  have hi := rinv_run c l {} s' rinv_init hs'
  obtain ⟨a1, a2, a3, a4⟩ := moved_run c hc t l {} s' hs'
  have h1 := hi.ansLe t
  have h2 := hi.flyEq t
  simp only at a1 a2 a3 a4
  constructor <;> omega

/-- **Every answer a layer hands up is made of an answer of its inner service to the same request**, by the rule of its
configuration (`answerOK`) — or it is the layer's own (`ownOK`: a refusal `name!…`, a stored / shared answer of a cache
or coalesce layer, a readiness error met by a further attempt). -/
theorem layer_answer_made_of_inner_answer (c : LCfg) (hc : c ≠ .blackbox) (l : List XIn)
    (hacc : (RSt.run c {} l).isSome) (k t : Nat) (ro : RVal) (hmem : XIn.outer (.ret k t ro) ∈ l) :
    (∃ ri a m k', XIn.inner (.ret k' t ri) ∈ l ∧ answerOK c m t ⟨t, a, ri⟩ ro = true) ∨ ∃ s0, ownOK c s0 t ro = true := by
  obtain ⟨s', hs'⟩ := Option.isSome_iff_exists.mp hacc
  rcases answers_made_of c hc l {} s' rinv_init hs' k t ro hmem with ⟨ri, a, m, hsrc, hok⟩ | ho
  · rcases hsrc with h0 | ⟨k', hk'⟩
    · simp at h0
    · exact Or.inl ⟨ri, a, m, k', hk', hok⟩
  · exact Or.inr ho

/-- **Pass-through layers return the inner answer unchanged** but for their variant around an error (`RVal.wrap`: a
response is never touched): bulkhead, rate limiter, circuit breaker, time limiter, cache, coalesce, adaptive limiter,
executor; chaos without even that. -/
theorem passthrough_answer_is_inner_answer (c : LCfg) (f : RVal → RVal) (hp : passR c = some f) (l : List XIn)
    (hacc : (RSt.run c {} l).isSome) (k t : Nat) (ro : RVal) (hmem : XIn.outer (.ret k t ro) ∈ l) :
    (∃ ri k', XIn.inner (.ret k' t ri) ∈ l ∧ ro = f ri) ∨ ∃ s0, ownOK c s0 t ro = true := by
  have hc : c ≠ .blackbox := by intro h; subst h; simp [passR] at hp
  rcases layer_answer_made_of_inner_answer c hc l hacc k t ro hmem with ⟨ri, a, m, k', hk', hok⟩ | ho
  · exact Or.inl ⟨ri, k', hk', answerOK_pass c f hp m t ⟨t, a, ri⟩ ro hok⟩
  · exact Or.inr ho

/-- **Retry returns an attempt's answer unchanged, and only one it may stop at**: a success or an error the predicate
rejects, or — while the layer serves one call for the request at a time (`m = false`) — the error of attempt number
`max(max_attempts, 1)`. (The other way an answer arises: the instance failed `poll_ready` before a further attempt.) -/
theorem retry_answer_is_an_attempts_answer (max : Nat) (p : Pred) (l : List XIn)
    (hacc : (RSt.run (.retry max p) {} l).isSome) (k t : Nat) (ro : RVal) (hmem : XIn.outer (.ret k t ro) ∈ l) :
    (∃ a m k', XIn.inner (.ret k' t ro) ∈ l ∧ (p.accepts ro = false ∨ m = true ∨ Nat.max max 1 ≤ a)) ∨
    ∃ s0, ownOK (.retry max p) s0 t ro = true := by
  rcases layer_answer_made_of_inner_answer _ (by simp) l hacc k t ro hmem with ⟨ri, a, m, k', hk', hok⟩ | ho
  · left
    simp only [answerOK, Bool.and_eq_true, beq_iff_eq, Bool.or_eq_true, Bool.not_eq_true', decide_eq_true_eq] at hok
    obtain ⟨rfl, hstop⟩ := hok
    refine ⟨a, m, k', hk', ?_⟩
    rcases hstop with (h | h) | h
    · exact Or.inl h
    · exact Or.inr (Or.inl h)
    · exact Or.inr (Or.inr h)
  · exact Or.inr ho

/-- **Fallback over the observed log**: the answer to an inner success is that success; to an inner error the predicate
rejects, that error in the pass-through variant — for every strategy; to one it accepts, what the strategy makes of it. -/
theorem fallback_answer_rule (st : Strat) (p : Pred) (l : List XIn) (hacc : (RSt.run (.fallback st p) {} l).isSome)
    (k t : Nat) (ro : RVal) (hmem : XIn.outer (.ret k t ro) ∈ l) :
    ∃ ri k', XIn.inner (.ret k' t ri) ∈ l ∧
      (match ri with
       | .ok _ _ => ro = ri
       | .err text => if p.accepts ri then ro = fbVal st t text else ro = ri.wrap "fallback") := by
  rcases layer_answer_made_of_inner_answer _ (by simp) l hacc k t ro hmem with ⟨ri, a, m, k', hk', hok⟩ | ⟨s0, ho⟩
  · refine ⟨ri, k', hk', ?_⟩
    cases ri with
    | ok v tg => simpa [answerOK] using hok
    | err text =>
      simp only [answerOK] at hok
      split at hok <;> simp_all
  · simp [ownOK] at ho

/-! ### the "at least once" half for layers that run the call in a task of their own (executor)

Whatever the caller does with the call future — polls it, drops it later, drops it at once without a single poll
(`arrive … gone=1`) — is no event at either boundary of a layer: the acceptor `RSt` never sees it. A layer that has been
called with a request owes it to its inner service (`RSt.wait`) until it forwards it or answers it itself; the driver
(`TR.Stack.owed`) demands of a detaching layer (`detaches`: the executor, whose spawned task "continues to run to completion
when the response future is dropped") that it owes nothing once the runtime has had its turn after an operation. -/

/-- every call a layer has received is still owed, has been forwarded, or was answered by the layer itself -/
def WInv (s : RSt) : Prop := ∀ t, s.oc t ≤ s.wait t + s.ic t + s.own t

theorem winv_launch (s0 : RSt) (t att : Nat)
    (h : ∀ t', s0.oc t' ≤ s0.wait t' + s0.ic t' + s0.own t' + (if t' = t then 1 else 0)) : WInv (launch s0 t att) := by
  intro t'
  have := h t'
  by_cases ht : t' = t
  · subst ht; simp [launch, upd] at this ⊢; omega
  · simp [launch, upd, ht] at this ⊢; omega

theorem winv_innerCall (c : LCfg) (s s' : RSt) (t : Nat) (hi : WInv s) (hs : innerCallR c s t = some s') : WInv s' := by
  unfold innerCallR at hs
  split at hs
  · cases hs; exact hi
  · split at hs
    · rename_i hw
      cases hs
      apply winv_launch
      intro t'
      have := hi t'
      by_cases ht : t' = t
      · subst ht; simp [upd]; omega
      · simp [upd, ht]; omega
    · split at hs
      · split at hs
        · cases hs
          apply winv_launch
          intro t'
          have := hi t'
          simp only
          split <;> omega
        · cases hs
      · split at hs
        · cases hs
          apply winv_launch
          intro t'
          have := hi t'
          simp only
          split <;> omega
        · cases hs

theorem winv_innerRet (c : LCfg) (s s' : RSt) (k t : Nat) (r : RVal) (hi : WInv s) (hs : innerRetR c s k t r = some s') :
    WInv s' := by
  unfold innerRetR at hs
  split at hs
  · split at hs
    · cases hs; exact hi
    · cases hs
  · split at hs
    · cases hs; exact hi
    · cases hs

theorem winv_outerRet (c : LCfg) (s s' : RSt) (t : Nat) (ro : RVal) (hi : WInv s) (hs : outerRetR c s t ro = some s') :
    WInv s' := by
  unfold outerRetR at hs
  split at hs
  · cases hs; exact hi
  · split at hs
    · split at hs
      · split at hs
        · cases hs; exact hi
        · cases hs
      · split at hs
        · cases hs
          intro t'
          have := hi t'
          by_cases ht : t' = t
          · subst ht; simp [upd]; omega
          · simp [upd, ht]; omega
        · cases hs
    · cases hs

theorem winv_step (c : LCfg) (s s' : RSt) (x : XIn) (hi : WInv s) (hs : s.step c x = some s') : WInv s' := by
  cases x with
  | outer e =>
    cases e with
    | ev e =>
      cases e with
      | call i t =>
        simp only [RSt.step, Option.some.injEq] at hs
        subst hs
        intro t'
        have := hi t'
        by_cases ht : t' = t
        · subst ht; simp [upd]; omega
        · simp [upd, ht]; omega
      | clone a b => simp only [RSt.step, Option.some.injEq] at hs; subst hs; exact hi
      | poll a r => simp only [RSt.step, Option.some.injEq] at hs; subst hs; exact hi
    | ret k t ro => exact winv_outerRet c s s' t ro hi (by simpa [RSt.step] using hs)
  | inner e =>
    cases e with
    | ev e =>
      cases e with
      | call i t => exact winv_innerCall c s s' t hi (by simpa [RSt.step] using hs)
      | clone a b => simp only [RSt.step, Option.some.injEq] at hs; subst hs; exact hi
      | poll a r => cases r <;> simp only [RSt.step, Option.some.injEq] at hs <;> subst hs <;> exact hi
    | ret k t r => exact winv_innerRet c s s' k t r hi (by simpa [RSt.step] using hs)

theorem winv_run (c : LCfg) (l : List XIn) : ∀ (s s' : RSt), WInv s → RSt.run c s l = some s' → WInv s' := by
  induction l with
  | nil => intro s s' hi h; simp only [RSt.run, Option.some.injEq] at h; subst h; exact hi
  | cons x tl ih =>
    intro s s' hi h
    simp only [RSt.run] at h
    cases hx : s.step c x with
    | none => simp [hx] at h
    | some s1 => simp only [hx] at h; exact ih s1 s' (winv_step c s s1 x hi hx) h

/-- **A layer that owes nothing has forwarded everything it did not answer itself** — in every configuration, for every
accepted sequence of boundary events (no event of the caller's call future is among them: polled, dropped late, dropped at
once, all the same): if request `t` is not owed any more (`unforwarded s' [t] = []`, what the driver demands of a detaching
layer after every operation) then the layer was called with it at most as often as it called its inner service with it plus
the answers it gave itself. -/
theorem nothing_owed_means_forwarded (c : LCfg) (hc : c ≠ .blackbox) (l : List XIn) (s' : RSt) (hs : RSt.run c {} l = some s')
    (t : Nat) (hw : unforwarded s' [t] = []) : cntOC t l ≤ cntIC t l + s'.own t := by
  have hi := winv_run c l {} s' (by intro t; simp) hs t
  obtain ⟨a1, a2, _, _⟩ := Stack.moved_run c hc t l {} s' hs
  simp only at a1 a2
  have hw0 : s'.wait t = 0 := by
    simp [unforwarded] at hw
    omega
  omega

/-- **The executor forwards every request exactly once, whether or not anybody waits for the answer**: for every accepted
sequence of events at its two boundaries after which it owes nothing for request `t` and has given no answer of its own to
it (it has none to give: no protective condition), the inner service was called for `t` exactly as often as the layer was. The
caller's future does not occur in the statement — a request whose call future was dropped before the spawned task's first
poll is forwarded like any other (the clause seeded change C20-w7m3 breaks: `if tx.is_closed() { return; }`). -/
theorem executor_forwards_exactly_once_without_caller (cf : List (String × String)) (rl : String) (l : List XIn) (s' : RSt)
    (hs : RSt.run (lcfgOf "executor" cf rl) {} l = some s') (t : Nat) (hw : unforwarded s' [t] = []) (ho : s'.own t = 0) :
    detaches (lcfgOf "executor" cf rl) = true ∧ cntIC t l = cntOC t l := by
  have e : lcfgOf "executor" cf rl = .wrap "executor" := by simp [lcfgOf]
  rw [e] at hs ⊢
  refine ⟨by simp [detaches], ?_⟩
  have h1 := nothing_owed_means_forwarded (.wrap "executor") (by simp) l s' hs t hw
  have h2 := layer_forwards_at_most_once (.wrap "executor") (by simp [single]) l (by simp [hs]) t
  omega

/-- a fire-and-forget request through an executor: called, the caller gone, forwarded in the runtime's next turn — accepted,
nothing owed; the same log without the forwarding is accepted too (a layer MAY owe: bulkhead queue, a dropped caller of an
ordinary layer) but leaves the request owed, which the driver reports for a detaching layer -/
example :
    (((RSt.run (.wrap "executor") {} [.outer (.ev (.call 1 7)), .inner (.ev (.call 1 7))]).map (unforwarded · [7])) = some []) ∧
    (((RSt.run (.wrap "executor") {} [.outer (.ev (.call 1 7))]).map (unforwarded · [7])) = some [7]) ∧
    detaches (.wrap "executor") = true ∧ detaches (.wrap "timelimiter") = false ∧ detaches (.retry 3 .all) = false := by
  refine ⟨by decide, by decide, rfl, rfl, rfl⟩

/-- **Whole stacks forward at most once**: through any stack of layers none of which has room for a further attempt, the
wrapped service is called for a request at most as often as the stack was (once, for a caller that sends it once). -/
theorem stack_forwards_at_most_once (g : List XG) (t : Nat) (cfgs : List LCfg) (hacc : AcceptedFrom g cfgs 0)
    (hs : ∀ c ∈ cfgs, single c = true) : calls t (xproj cfgs.length g) ≤ calls t (xproj 0 g) := by
  have := Stack.stack_forwards_at_most_once g t cfgs 0 hacc hs
  simpa using this

/-- **Whole stacks return the wrapped service's answer**: every answer seen at the top of a stack of pass-through layers
is `Explained` — the wrapped service's answer to that request inside exactly the pass-through variants of the layers
above the point where it arose, which is the innermost boundary unless a layer gave the answer itself. By induction over
the layers: for every stack. -/
theorem stack_answers_explained (g : List XG) (t : Nat) (cfgs : List LCfg) (hacc : AcceptedFrom g cfgs 0)
    (hp : ∀ c ∈ cfgs, (passR c).isSome) (k : Nat) (r : RVal) (hmem : XEv.ret k t r ∈ xproj 0 g) :
    Explained g t cfgs 0 r :=
  Stack.stack_answers_explained g t cfgs 0 hacc hp k r hmem

/-- Non-vacuity: what a bulkhead over a chaos layer (rates 0) over a failing service produced in the harness — call,
call, call, and the answer on its way back up — is accepted layer by layer; the request reaches the wrapped service once;
the answer at the top is explained as `bulkhead(` the wrapped service's error `)`. A bulkhead that hands up something
else, or forwards twice, is not accepted. -/
example :
    let g : List XG := [(0, .ev (.call 1 7)), (1, .ev (.call 1 7)), (2, .ev (.call 1 7)), (2, .ret 0 7 (.err "ierr2:0")),
      (1, .ret 0 7 (.err "ierr2:0")), (0, .ret 0 7 (.err "bulkhead(ierr2:0)"))]
    (RSt.run (.wrap "bulkhead") {} (xview 0 g)).isSome ∧ (RSt.run .bare {} (xview 1 g)).isSome ∧
    calls 7 (xproj 2 g) = 1 ∧
    (RSt.run (.wrap "bulkhead") {} [.outer (.ev (.call 1 7)), .inner (.ev (.call 1 7)), .inner (.ret 0 7 (.err "ierr2:0")),
      .outer (.ret 0 7 (.err "ierr2:0"))]).isNone ∧
    (RSt.run (.wrap "bulkhead") {} [.outer (.ev (.call 1 7)), .inner (.ev (.call 1 7)), .inner (.ev (.call 1 7))]).isNone ∧
    -- the seeded retry: a second attempt although `max_attempts` is 0
    (RSt.run (.retry 0 (.kind 1)) {} [.outer (.ev (.call 1 7)), .inner (.ev (.call 1 7)), .inner (.ret 0 7 (.err "ierr1:0")),
      .inner (.ev (.call 1 7))]).isNone ∧
    -- the seeded fallback: an error the predicate rejects comes back mapped
    (RSt.run (.fallback .exc (.kind 1)) {} [.outer (.ev (.call 1 7)), .inner (.ev (.call 1 7)), .inner (.ret 0 7 (.err "ierr2:0")),
      .outer (.ret 0 7 (.err "fallback(mapped(ierr2:0))"))]).isNone ∧
    (RSt.run (.fallback .exc (.kind 1)) {} [.outer (.ev (.call 1 7)), .inner (.ev (.call 1 7)), .inner (.ret 0 7 (.err "ierr2:0")),
      .outer (.ret 0 7 (.err "fallback(ierr2:0)"))]).isSome := by
  refine ⟨by decide, by decide, by decide, by decide, by decide, by decide, by decide, by decide⟩

/-! ## readiness errors surface as readiness errors -/

/-- **A readiness error of the held inner instance is handed up, at once**: after `poll_ready` of an inner instance that
the layer holds for a caller has failed, the one event the layer can perform is answering that caller's `poll_ready` with
an error — not `Pending`, not `Ready`, no call, no clone: a layer cannot swallow the failure or sit on it. -/
theorem readiness_error_surfaces (y y1 y2 : YSt) (i : Nat) (x : LIn) (hn : y.pend = none) (hh : heldBy y.l i = true)
    (h1 : y.step (.inner (.poll i .err)) = some y1) (h2 : y1.step x = some y2) :
    ∃ o, x = .outer (.poll o .err) ∧ y1.l.cur o = some i := by
  have hp := held_error_is_pending y y1 i hn hh h1
  obtain ⟨o, hx, hc, _⟩ := pending_error_must_surface y1 y2 i x hp h2
  exact ⟨o, hx, hc⟩

/-- **… and is never invented**: a layer answers `poll_ready` with an error only when the inner instance it holds for that
caller has just failed its own `poll_ready`. -/
theorem readiness_error_not_invented (y y' : YSt) (o : Nat) (h : y.step (.outer (.poll o .err)) = some y') :
    ∃ i, y.pend = some i ∧ y.l.cur o = some i :=
  error_answer_needs_inner_error y y' o h

/-- The stronger acceptor refines the old one: whatever `YSt` accepts, `LSt` accepts — so the contract theorems apply. -/
theorem contract_with_error_surfacing (l : List LIn) (hacc : (YSt.run {} l).isSome) (hout : Respects (outers l)) :
    Respects (inners l) := by
  obtain ⟨y', hy⟩ := Option.isSome_iff_exists.mp hacc
  exact Stack.layer_contract l (by simp [yrun_lrun l {} y' hy]) hout

/-- A layer that swallows a readiness error of its inner service (answers `Pending`), one that sits on it and goes on to
something else, and one that reports an error nobody below reported are all rejected; handing the error up is accepted. -/
example :
    (YSt.run {} [.inner (.poll 0 .err), .outer (.poll 0 .pending)]).isNone ∧
    (YSt.run {} [.inner (.poll 0 .err), .inner (.poll 0 .ready), .outer (.poll 0 .ready)]).isNone ∧
    (YSt.run {} [.inner (.poll 0 .pending), .outer (.poll 0 .err)]).isNone ∧
    (YSt.run {} [.inner (.poll 0 .err), .outer (.poll 0 .err), .inner (.poll 0 .ready), .outer (.poll 0 .ready),
                 .outer (.call 0 7)]).isSome := by
  refine ⟨rfl, rfl, rfl, rfl⟩

end TR.Props.C20
