import TR.Lemmas.Stack
import TR.Model.Listeners
/-!
# C20 — layers are transparent, honour Tower readiness; listeners only observe

`TR.Stack.LSt.step` is the bookkeeping all thirteen layers share, as a guarded transition over
the events at a layer's two boundaries (see `TR/Model/Stack.lean`). The correspondence check
replays the events the real layers produce at every boundary of every stack through it: a
layer that does something the idiom cannot do (the pinned `self.inner.clone()` followed by a
call of the never-polled clone; a retry without a readiness poll) is rejected.
-/
namespace TR.Props.C20
open TR TR.Stack

/-- **Readiness contract, one layer.** Any sequence of events — outer ones from a caller that
honours the contract, inner ones the layer's idiom allows, in any interleaving, with any
number of instances, retries, hedged attempts — makes every inner call on an instance that
has observed readiness since its previous call. -/
theorem layer_contract (l : List LIn) (hacc : (LSt.run {} l).isSome) (hout : Respects (outers l)) :
    Respects (inners l) :=
  Stack.layer_contract l hacc hout

/-- **Readiness contract, every stack.** For any number of layers `n` and any global log in
which each layer only does what the idiom allows: if the caller at boundary 0 honours the
contract, so does every boundary, down to the wrapped service at boundary `n`. By induction
over the boundaries, so for *every* stack, not only the documented ones. -/
theorem stack_contract (n : Nat) (g : List GEv) (hacc : Accepted n g) (h0 : Respects (proj 0 g)) :
    ∀ j, j ≤ n → Respects (proj j g) :=
  Stack.stack_contract n g hacc h0

/-- **Requests are forwarded unchanged.** Every `call` a layer makes on its inner service carries
the tag of a `call` it received before (so a stack never invents or swaps requests). -/
theorem forwards_received (l : List LIn) (s' : LSt) (hs : LSt.run {} l = some s') :
    ∀ t ∈ callTags (inners l), t ∈ callTags (outers l) := by
  intro t ht
  have := Stack.forwards_received l {} s' [] ⟨by intro i w h; simp at h, by intro o t h; simp at h, by intro o t h; simp at h⟩ hs t ht
  simpa using this

/-- The pinned idiom (`let mut inner = self.inner.clone(); … inner.call(req)`) cannot be performed
by the model, and the trace it produces at the inner boundary breaks the contract on the very
first request. -/
theorem fresh_clone_rejected :
    LSt.run {} [.inner (.poll 0 .ready), .outer (.poll 0 .ready), .outer (.call 0 7),
                .inner (.clone 0 1), .inner (.call 1 7)] = none ∧
    ¬ Respects [.poll 0 .ready, .clone 0 1, .call 1 7] := by
  constructor
  · rfl
  · decide

/-- A retry (or hedged attempt) without a new readiness poll is rejected as well. -/
theorem recall_without_poll_rejected :
    (LSt.run {} [.inner (.poll 0 .ready), .outer (.poll 0 .ready), .outer (.call 0 7), .inner (.clone 0 1),
                 .inner (.call 0 7), .inner (.call 0 7)]).isNone ∧
    (LSt.run {} [.inner (.poll 0 .ready), .outer (.poll 0 .ready), .outer (.call 0 7), .inner (.clone 0 1),
                 .inner (.call 0 7), .inner (.poll 0 .ready), .inner (.call 0 7)]).isSome := by
  constructor <;> rfl

/-- Non-vacuity: the events two repaired layers (retry over circuit breaker) produced in the
harness for a request that is retried once — accepted, and the caller respects the contract. -/
example :
    let g : List GEv := [(0, .clone 0 1), (1, .clone 0 1), (2, .clone 0 1), (2, .poll 1 .ready), (1, .poll 1 .ready),
      (0, .poll 1 .ready), (0, .call 1 7), (1, .clone 1 2), (2, .clone 1 2), (1, .call 1 7), (2, .clone 1 3),
      (2, .call 1 7), (2, .poll 3 .ready), (1, .poll 1 .ready), (1, .call 1 7), (2, .clone 3 4), (2, .call 3 7)]
    (LSt.run {} (view 0 g)).isSome ∧ (LSt.run {} (view 1 g)).isSome ∧ Respects (proj 0 g) ∧ Respects (proj 2 g) := by
  refine ⟨rfl, rfl, ?_, ?_⟩ <;> decide

/-! ## listeners only observe -/

open TR.Listeners

theorem emitFrom_ran {Event : Type} (i : Nat) (ls : List (Listener Event)) (e : Event) :
    (emitFrom i ls e).ran = (List.range ls.length).map (· + i) ∧ (emitFrom i ls e).escaped = false := by
  induction ls generalizing i with
  | nil => simp [emitFrom]
  | cons l tl ih =>
    obtain ⟨h1, h2⟩ := ih (i + 1)
    refine ⟨?_, by simp [emitFrom, h2]⟩
    simp only [emitFrom, h1, List.length_cons, List.range_succ_eq_map, List.map_cons, List.map_map]
    simp only [Nat.zero_add, List.cons.injEq, true_and]
    apply List.map_congr_left
    intro a _; simp; omega

/-- Whatever the listeners do — any subset of them panicking — `emit` invokes every listener
exactly once, in registration order, and no panic escapes. -/
theorem every_listener_runs {Event : Type} (ls : List (Listener Event)) (e : Event) :
    (emit ls e).ran = List.range ls.length ∧ (emit ls e).escaped = false := by
  have := emitFrom_ran 0 ls e
  simpa [emit] using this

/-- … and therefore no call's outcome changes: the call path returns the inner outcome for every
choice of listeners and every list of emitted events. -/
theorem outcome_independent_of_listeners {Event : Type} (ls : List (Listener Event)) (events : List Event)
    (outcome : Res) : callPath emit ls events outcome = outcome := by
  have : events.any (fun e => (emit ls e).escaped) = false := by
    simp only [List.any_eq_false]
    intro e _; simp [(every_listener_runs ls e).2]
  simp [callPath, this]

/-- Without `catch_unwind` a panicking listener would change the outcome and starve the listeners
registered after it (why the mutant "remove the catch_unwind" is a violation). -/
theorem no_catch_violates :
    callPath emitNoCatch [fun (_ : Nat) => false, fun _ => true, fun _ => false] [0] (.ok 5) = .panic ∧
    (emitNoCatch [fun (_ : Nat) => false, fun _ => true, fun _ => false] 0).ran = [0, 1] := by
  constructor <;> rfl

end TR.Props.C20
