import TR.Lemmas.Stack
import TR.Model.Listeners
import TR.Lemmas.TimeLimiter
import TR.Lemmas.Coalesce
/-!
# C20 — layers are transparent, honour Tower readiness; listeners only observe

`TR.Stack.LSt.step` is the bookkeeping all thirteen layers share, as a guarded transition over
the events at a layer's two boundaries (see `TR/Model/Stack.lean`). The correspondence check
replays the events the real layers produce at every boundary of every stack through it: a
layer that does something the idiom cannot do (the pinned `self.inner.clone()` followed by a
call of the never-polled clone; a retry without a readiness poll) is rejected.
-/
namespace TR.Props.C20
open TR TR.Stack

/-- **Readiness contract, one layer.** Any sequence of events — outer ones from a caller that
honours the contract, inner ones the layer's idiom allows, in any interleaving, with any
number of instances, retries, hedged attempts — makes every inner call on an instance that
has observed readiness since its previous call. -/
theorem layer_contract (l : List LIn) (hacc : (LSt.run {} l).isSome) (hout : Respects (outers l)) :
    Respects (inners l) :=
  Stack.layer_contract l hacc hout

/-- **Readiness contract, every stack.** For any number of layers `n` and any global log in
which each layer only does what the idiom allows: if the caller at boundary 0 honours the
contract, so does every boundary, down to the wrapped service at boundary `n`. By induction
over the boundaries, so for *every* stack, not only the documented ones. -/
theorem stack_contract (n : Nat) (g : List GEv) (hacc : Accepted n g) (h0 : Respects (proj 0 g)) :
    ∀ j, j ≤ n → Respects (proj j g) :=
  Stack.stack_contract n g hacc h0

/-- **Requests are forwarded unchanged.** Every `call` a layer makes on its inner service carries
the tag of a `call` it received before (so a stack never invents or swaps requests). -/
theorem forwards_received (l : List LIn) (s' : LSt) (hs : LSt.run {} l = some s') :
    ∀ t ∈ callTags (inners l), t ∈ callTags (outers l) := by
  intro t ht
  have := Stack.forwards_received l {} s' [] ⟨by intro i w h; simp at h, by intro o t h; simp at h, by intro o t h; simp at h⟩ hs t ht
  simpa using this

/-- The pinned idiom (`let mut inner = self.inner.clone(); … inner.call(req)`) cannot be performed
by the model, and the trace it produces at the inner boundary breaks the contract on the very
first request. -/
theorem fresh_clone_rejected :
    LSt.run {} [.inner (.poll 0 .ready), .outer (.poll 0 .ready), .outer (.call 0 7),
                .inner (.clone 0 1), .inner (.call 1 7)] = none ∧
    ¬ Respects [.poll 0 .ready, .clone 0 1, .call 1 7] := by
  constructor
  · rfl
  · decide

/-- A retry (or hedged attempt) without a new readiness poll is rejected as well. -/
theorem recall_without_poll_rejected :
    (LSt.run {} [.inner (.poll 0 .ready), .outer (.poll 0 .ready), .outer (.call 0 7), .inner (.clone 0 1),
                 .inner (.call 0 7), .inner (.call 0 7)]).isNone ∧
    (LSt.run {} [.inner (.poll 0 .ready), .outer (.poll 0 .ready), .outer (.call 0 7), .inner (.clone 0 1),
                 .inner (.call 0 7), .inner (.poll 0 .ready), .inner (.call 0 7)]).isSome := by
  constructor <;> rfl

/-- **Only `Ready(Ok)` licenses a call** — for any state of a boundary, any instance that has not observed
readiness since its last call, and any number of further `poll_ready` answers that are `Pending` (an inner
service that needs longer than the retry back-off to recover) or errors: the call that follows breaks the
contract. Waiting for something else in the meantime (a back-off timer) changes nothing. -/
theorem not_ready_polls_never_license (m : Mon) (i tag : Nat) (rs : List PollRes) (hrs : ∀ r ∈ rs, r ≠ .ready)
    (hi : m.ready i = false) : m.run (rs.map (fun r => Ev.poll i r) ++ [Ev.call i tag]) = none :=
  Mon.not_ready_polls_then_call m i tag rs hrs hi

/-- The layer automaton cannot perform it either: a retry that polled its instance and was told `Pending`
(twice, while its back-off ran) and then calls it is rejected; after a `ready` answer it is accepted. -/
theorem retry_after_pending_poll_rejected :
    (LSt.run {} [.inner (.poll 0 .ready), .outer (.poll 0 .ready), .outer (.call 0 7), .inner (.clone 0 1),
                 .inner (.call 0 7), .inner (.poll 0 .pending), .inner (.poll 0 .pending), .inner (.call 0 7)]).isNone ∧
    (LSt.run {} [.inner (.poll 0 .ready), .outer (.poll 0 .ready), .outer (.call 0 7), .inner (.clone 0 1),
                 .inner (.call 0 7), .inner (.poll 0 .pending), .inner (.poll 0 .ready), .inner (.call 0 7)]).isSome ∧
    ¬ Respects [.poll 0 .ready, .clone 0 1, .call 0 7, .poll 0 .pending, .poll 0 .pending, .call 0 7] := by
  refine ⟨rfl, rfl, ?_⟩
  decide

/-- **`poll_ready` answers `Ready` only on the strength of its inner service's answer** — in every state of every layer:
a ready answer at the outer boundary for instance `o` needs the inner instance that `o` holds to have *just* answered
ready. What the layer believes about its own protective state (a rate limiter whose window looks used up: "the call
will be rejected anyway") is no substitute — the decision that counts is taken later, in `call`. -/
theorem ready_answer_needs_inner_ready (s s' : LSt) (o : Nat) (h : outerPoll s o .ready = some s') :
    ∃ i, s.cur o = some i ∧ s.lastReady = some i := by
  unfold outerPoll at h
  split at h
  · split at h
    · rename_i i hi
      split at h
      · rename_i hr
        exact ⟨i, hi, hr rfl⟩
      · simp at h
    · simp at h
  · simp at h

/-- … and that answer is used up by whatever the layer's caller does next: after ANY event at the outer boundary (a call
that the layer answered itself — a rejection —, another poll, a clone), in any state, a ready answer without a new poll
of the inner service is something the layers' idiom cannot do. -/
theorem no_ready_answer_without_inner_poll (s s' : LSt) (ev : Stack.Ev) (o : Nat) (h : s.step (.outer ev) = some s') :
    outerPoll s' o .ready = none := by
  have hl : s'.lastReady = none := by
    cases ev with
    | clone a b =>
      simp only [LSt.step, outerClone] at h
      split at h
      · simp only [Option.some.injEq] at h; subst h; rfl
      · simp at h
    | poll a r =>
      simp only [LSt.step, outerPoll] at h
      split at h
      · split at h
        · split at h
          · simp only [Option.some.injEq] at h; subst h; rfl
          · simp at h
        · simp at h
      · simp at h
    | call a t =>
      simp only [LSt.step, outerCall] at h
      split at h
      · simp only [Option.some.injEq] at h; subst h; rfl
      · simp at h
  cases hr : outerPoll s' o .ready with
  | none => rfl
  | some s'' =>
    obtain ⟨i, _, hi⟩ := ready_answer_needs_inner_ready s' s'' o hr
    rw [hl] at hi
    cases hi

/-- The seeded "fail-fast limiter with a used-up window answers `poll_ready` itself": request 7 is forwarded, request 8 is
rejected by the limiter (no inner call), and for request 9 the limiter answers ready without polling the fresh clone it
holds; the window has rolled over meanwhile, so `call` forwards request 9 to that never-polled instance. The layer
automaton cannot perform the trace, the repaired trace (the clone is polled first) it can, and the trace at the inner
boundary breaks the contract. -/
theorem ready_without_inner_poll_rejected :
    (LSt.run {} [.inner (.poll 0 .ready), .outer (.poll 0 .ready), .outer (.call 0 7), .inner (.clone 0 1), .inner (.call 0 7),
                 .inner (.poll 1 .ready), .outer (.poll 0 .ready), .outer (.call 0 8), .inner (.clone 1 2),
                 .outer (.poll 0 .ready), .outer (.call 0 9), .inner (.clone 2 3), .inner (.call 2 9)]).isNone ∧
    (LSt.run {} [.inner (.poll 0 .ready), .outer (.poll 0 .ready), .outer (.call 0 7), .inner (.clone 0 1), .inner (.call 0 7),
                 .inner (.poll 1 .ready), .outer (.poll 0 .ready), .outer (.call 0 8), .inner (.clone 1 2),
                 .inner (.poll 2 .ready), .outer (.poll 0 .ready), .outer (.call 0 9), .inner (.clone 2 3), .inner (.call 2 9)]).isSome ∧
    ¬ Respects [.poll 0 .ready, .clone 0 1, .call 0 7, .poll 1 .ready, .clone 1 2, .clone 2 3, .call 2 9] := by
  refine ⟨rfl, rfl, ?_⟩
  decide

/-- Non-vacuity: the events two repaired layers (retry over circuit breaker) produced in the
harness for a request that is retried once — accepted, and the caller respects the contract. -/
example :
    let g : List GEv := [(0, .clone 0 1), (1, .clone 0 1), (2, .clone 0 1), (2, .poll 1 .ready), (1, .poll 1 .ready),
      (0, .poll 1 .ready), (0, .call 1 7), (1, .clone 1 2), (2, .clone 1 2), (1, .call 1 7), (2, .clone 1 3),
      (2, .call 1 7), (2, .poll 3 .ready), (1, .poll 1 .ready), (1, .call 1 7), (2, .clone 3 4), (2, .call 3 7)]
    (LSt.run {} (view 0 g)).isSome ∧ (LSt.run {} (view 1 g)).isSome ∧ Respects (proj 0 g) ∧ Respects (proj 2 g) := by
  refine ⟨rfl, rfl, ?_, ?_⟩ <;> decide

/-! ## listeners only observe -/

open TR.Listeners

theorem emitFrom_ran {Event : Type} (i : Nat) (ls : List (Listener Event)) (e : Event) :
    (emitFrom i ls e).ran = (List.range ls.length).map (· + i) ∧ (emitFrom i ls e).escaped = false := by
  induction ls generalizing i with
  | nil => simp [emitFrom]
  | cons l tl ih =>
    obtain ⟨h1, h2⟩ := ih (i + 1)
    refine ⟨?_, by simp [emitFrom, h2]⟩
    simp only [emitFrom, h1, List.length_cons, List.range_succ_eq_map, List.map_cons, List.map_map]
    simp only [Nat.zero_add, List.cons.injEq, true_and]
    apply List.map_congr_left
    intro a _; simp; omega

/-- Whatever the listeners do — any subset of them panicking — `emit` invokes every listener
exactly once, in registration order, and no panic escapes. -/
theorem every_listener_runs {Event : Type} (ls : List (Listener Event)) (e : Event) :
    (emit ls e).ran = List.range ls.length ∧ (emit ls e).escaped = false := by
  have := emitFrom_ran 0 ls e
  simpa [emit] using this

/-- … and therefore no call's outcome changes: the call path returns the inner outcome for every
choice of listeners and every list of emitted events. -/
theorem outcome_independent_of_listeners {Event : Type} (ls : List (Listener Event)) (events : List Event)
    (outcome : Res) : callPath emit ls events outcome = outcome := by
  have : events.any (fun e => (emit ls e).escaped) = false := by
    simp only [List.any_eq_false]
    intro e _; simp [(every_listener_runs ls e).2]
  simp [callPath, this]

/-- Without `catch_unwind` a panicking listener would change the outcome and starve the listeners
registered after it (why the mutant "remove the catch_unwind" is a violation). -/
theorem no_catch_violates :
    callPath emitNoCatch [fun (_ : Nat) => false, fun _ => true, fun _ => false] [0] (.ok 5) = .panic ∧
    (emitNoCatch [fun (_ : Nat) => false, fun _ => true, fun _ => false] 0).ran = [0, 1] := by
  constructor <;> rfl

/-! ### one callback per kind of news (reconnect's `on_state_change` / `on_reconnect`) -/

theorem notifyFrom_own_guards {Event : Type} (i : Nat) (cbs : List (Listener Event)) (e : Event) :
    notifyFrom i (cbs.map fun c => [c]) e = List.range' i cbs.length := by
  induction cbs generalizing i with
  | nil => rfl
  | cons c tl ih =>
    have h1 : (emitNoCatchFrom i [c] e).ran = [i] := by
      simp only [emitNoCatchFrom]
      split <;> rfl
    simp only [List.map_cons, notifyFrom, h1, List.length_cons, List.length_nil, Nat.zero_add, ih, List.range'_succ,
      List.singleton_append]

/-- **Every callback is told, whatever the others do**: with one unwind guard per callback — the code's way — all
callbacks that one moment of the call path is reported to are invoked, in order, for ANY list of callbacks and any subset
of them panicking. -/
theorem every_callback_told {Event : Type} (cbs : List (Listener Event)) (e : Event) :
    notify (cbs.map fun c => [c]) e = List.range cbs.length := by
  simp [notify, notifyFrom_own_guards, List.range_eq_range']

/-- **A shared guard starves the callbacks behind a panicking one**: in a group of callbacks under ONE `catch_unwind`, the
first one that panics is the last one invoked — for any group, wherever the panic happens. -/
theorem shared_guard_stops_at_first_panic {Event : Type} (i : Nat) (pre post : List (Listener Event)) (l : Listener Event)
    (e : Event) (hpre : ∀ x ∈ pre, x e = false) (hl : l e = true) :
    (emitNoCatchFrom i (pre ++ l :: post) e).ran.length = pre.length + 1 := by
  induction pre generalizing i with
  | nil => simp [emitNoCatchFrom, hl]
  | cons x tl ih =>
    have hx : x e = false := hpre x (by simp)
    have := ih (i + 1) (fun y hy => hpre y (by simp [hy]))
    simp [emitNoCatchFrom, hx, this]

/-- The seeded "both reports belong to the same moment, so they share one unwind guard" of reconnect: the news "a
reconnect attempt starts" goes to `on_state_change` (position 0) and `on_reconnect` (position 1). Own guards: both are
told even when the first panics. One shared guard: when `on_state_change` panics, `on_reconnect` is never told (the call's
outcome is unchanged — nothing escapes — which is why no test of outcomes notices); a panicking `on_reconnect`, last in
its group, starves nobody. -/
theorem shared_guard_violates :
    notify [[fun (_ : Nat) => true], [fun _ => false]] 0 = [0, 1] ∧
    notify [[fun (_ : Nat) => true, fun _ => false]] 0 = [0] ∧
    notify [[fun (_ : Nat) => false, fun _ => true]] 0 = [0, 1] := by
  refine ⟨rfl, rfl, rfl⟩

/-- **A listener sees the layer as the next caller will.** On a completion path that gives back everything the
finished call holds before it runs its listeners (`drop(permit)`, then `emit`: any number of releases followed by
any number of events), what a call made from inside a listener — or arriving on another thread while a listener
takes its time — is told equals what the same call is told right after the step, for every capacity and load:
admission does not depend on what listeners do or how long they take. -/
theorem listener_sees_final_state (s : Slots) (a b : Nat) :
    ∀ v ∈ (finish s (List.replicate a .release ++ List.replicate b .emit)).2,
      v = (finish s (List.replicate a .release ++ List.replicate b .emit)).1.admits := by
  induction a generalizing s with
  | zero =>
    induction b with
    | zero => intro v hv; simp [finish] at hv
    | succ n ih =>
      intro v hv
      simp only [List.replicate_zero, List.nil_append, List.replicate_succ, finish, List.mem_cons] at hv ⊢
      have hfin : ∀ k, (finish s (List.replicate k Act.emit)).1 = s := by
        intro k; induction k with
        | zero => rfl
        | succ k ihk => simpa [List.replicate_succ, finish] using ihk
      rcases hv with hv | hv
      · rw [hv, hfin]
      · have := ih v (by simpa using hv)
        simpa using this
  | succ n ih =>
    intro v hv
    simp only [List.replicate_succ, List.cons_append, finish] at hv ⊢
    exact ih _ v hv

/-- Releasing the slot only after the listeners have run (the seeded "event-ordering tidy-up" of the bulkhead) makes
a call's outcome depend on the listeners: with one slot, the call made while the completion listeners of the
only call in flight run is rejected, the same call made right after the step is admitted. -/
theorem release_after_emit_violates :
    (finish { inflight := 1, max := 1 } [.emit, .release]).2 = [false] ∧
    (finish { inflight := 1, max := 1 } [.emit, .release]).1.admits = true ∧
    (finish { inflight := 1, max := 1 } [.release, .emit]).2 = [true] := by
  refine ⟨rfl, rfl, rfl⟩

/-! ## a finished call is not in flight (coalesce's protective condition) -/

open TR.Coalesce in
/-- **A request is coalesced only with a call that is in flight.** Over the C11 model of the coalesce layer, from ANY
state: the poll that completes a leader's inner call (ok, error or panic) answers the leader and frees its key in that
very step — the model has no notion of the finished future being kept or released by its caller, because that must
not matter — so a later request with the same key is forwarded to the wrapped service as a call of its own (the next
serial number), not made a waiter of the call that has ended. -/
theorem coalesce_finished_call_is_not_joined (s : State) (l key k c : Nat) (sc : Step)
    (hl : LiveLeader s l key k) (hdone : stepS s (.poll l) ≠ s)
    (hs : (stepS s (.poll l)).svcGone = false) (hc : lookup (stepS s (.poll l)).role c = none) :
    ∃ o r, (stepS s (.poll l)).log = s.log ++ [.innerDone l key k o, .result l r] ∧
      (stepS (stepS s (.poll l)) (.arrive c key sc false)).log =
        (stepS s (.poll l)).log ++ [.innerCall c key (stepS s (.poll l)).serial] := by
  rcases poll_leader_effect hl with h0 | ⟨o, r, _, _, _, _, hlog, hreg, _, _⟩
  · exact absurd h0 hdone
  · refine ⟨o, r, hlog, ?_⟩
    rw [arrive_free sc hs hc hreg]
    rfl

open TR.Coalesce in
/-- Non-vacuity, and the seeded situation: request 1 (key 7) completes at 5 ms and its caller keeps the finished future
(nothing in the model); request 2 with the same key arrives afterwards: a second inner call, and its own response. -/
example :
    (run [.arrive 1 7 ⟨5, .ok⟩ false, .adv 5, .poll 1, .arrive 2 7 ⟨0, .ok⟩ false, .poll 2]).log
      = [.innerCall 1 7 0, .innerDone 1 7 0 .ok, .result 1 (.ok 0), .innerCall 2 7 1, .innerDone 2 7 1 .ok, .result 2 (.ok 1)] := by
  decide

/-! ## a listener may use the service -/

/-- **A listener that sends a request through the service changes nothing** — on every call path that never emits
while it holds its (non-reentrant) lock: for all paths, from every state, the run with a re-entrant listener equals
the run without one — the call returns, every event reaches every listener, the lock ends up as it would. -/
theorem reentrant_listener_only_observes (p : List PStep) (s : PRun) (hs : s.hung = false)
    (hp : emitsUnlocked s.locked p = true) : walk true s p = walk false s p := by
  induction p generalizing s with
  | nil => rfl
  | cons st tl ih =>
    cases st with
    | lock =>
      simp only [walk, hs, Bool.false_eq_true, if_false]
      by_cases hl : s.locked = true
      · simp [hl]
      · simp only [hl]
        exact ih _ (by simp) (by simpa [emitsUnlocked] using hp)
    | unlock =>
      simp only [walk, hs, Bool.false_eq_true, if_false]
      exact ih _ (by simp) (by simpa [emitsUnlocked] using hp)
    | emit =>
      simp only [emitsUnlocked, Bool.and_eq_true, Bool.not_eq_true'] at hp
      simp only [walk, hs, Bool.false_eq_true, if_false, hp.1, Bool.and_false]
      exact ih _ (by simp) (by simpa [hp.1] using hp.2)

/-- **An event emitted under the lock hangs the call** as soon as a listener uses the service: for every call path
that runs through without such a listener but emits at least once while its lock is held, the run with a re-entrant
listener never returns (so the emitting call has no outcome and the later listeners are not told the event). -/
theorem emit_under_lock_hangs (p : List PStep) (s : PRun) (hs : s.hung = false)
    (hplain : (walk false s p).hung = false) (hp : emitsUnlocked s.locked p = false) :
    (walk true s p).hung = true := by
  induction p generalizing s with
  | nil => simp [emitsUnlocked] at hp
  | cons st tl ih =>
    cases st with
    | lock =>
      simp only [walk, hs, Bool.false_eq_true, if_false] at hplain ⊢
      by_cases hl : s.locked = true
      · simp [hl] at hplain
      · simp only [hl] at hplain ⊢
        exact ih _ (by simp) hplain (by simpa [emitsUnlocked] using hp)
    | unlock =>
      simp only [walk, hs, Bool.false_eq_true, if_false] at hplain ⊢
      exact ih _ (by simp) hplain (by simpa [emitsUnlocked] using hp)
    | emit =>
      simp only [walk, hs, Bool.false_eq_true, if_false, Bool.false_and] at hplain ⊢
      by_cases hl : s.locked = true
      · simp [hl]
      · have hl' : s.locked = false := by simpa using hl
        simp only [hl', Bool.and_false, Bool.false_eq_true, if_false] at hplain ⊢
        refine ih _ (by simp) hplain ?_
        simpa [emitsUnlocked, hl'] using hp

/-- The chaos layer's call path draws its rolls under the RNG lock and announces the decision after releasing it:
a probing listener changes nothing. The seeded "announce the decision before the RNG is handed on" order — `emit`
moved inside the locked block — hangs the call, and the event never reaches the later listeners; without a listener
that uses the service the two orders cannot be told apart. -/
theorem chaos_emit_inside_rng_lock_violates :
    walk true {} [.lock, .unlock, .emit] = { locked := false, emitted := 1, hung := false } ∧
    walk true {} [.lock, .emit, .unlock] = { locked := true, emitted := 0, hung := true } ∧
    walk false {} [.lock, .emit, .unlock] = walk false {} [.lock, .unlock, .emit] := by
  refine ⟨rfl, rfl, rfl⟩

/-! ## the time limiter is transparent however late its future is first polled -/

open TR.TimeLimiter in
/-- **No timeout unless the wrapped call is slower than the timeout — whenever the future is first polled.** For
every configuration (both cancellation modes, fixed or per-request timeouts) and every history — in particular
any amount of time between `call()` and the first poll of the returned future, and polls arbitrarily late —
a request whose wrapped call completes (ok or error) in less than its timeout is never answered `Timeout`: the
protective condition is measured from the start of the wrapped call (the first poll), not from `call()`. -/
theorem timelimiter_untriggered_never_times_out (cfg : Cfg) (ops : List Op) (c : Nat) (x : Caller) (t : Nat)
    (hx : lookup (run cfg ops).callers c = some x)
    (hout : x.sc.out = .ok ∨ ∃ kd, x.sc.out = .err kd) (hfast : x.sc.lat < x.tmo) :
    (t, CEv.result .timeout) ∉ x.hist := by
  intro hr
  have hinv := inv_reachable cfg ops c x hx
  have hnp : x.sc.out ≠ .panic := by rcases hout with h | ⟨kd, h⟩ <;> simp [h]
  have hnn : x.sc.out ≠ .never := by rcases hout with h | ⟨kd, h⟩ <;> simp [h]
  rcases hinv.toLate t hr hnp with h | h
  · exact absurd h hnn
  · simp only [Caller.deadline, Caller.doneAt] at h
    omega

open TR.TimeLimiter in
/-- Non-vacuity (both modes): created at 0, left alone for an hour (the timeout), first polled then, latency 5 ms:
the wrapped call starts at the first poll and its result is delivered, not a timeout. -/
example :
    (run { timeout := 3600000, cancel := true, dyn := false }
      [Op.arrive 1 none ⟨5, .ok⟩, .adv 3600000, .poll 1, .adv 5, .poll 1]).log =
      [.innerCall 1 0, .innerDone 1 0 .ok, .result 1 (.ok 0)] ∧
    (run { timeout := 3600000, cancel := false, dyn := false }
      [Op.arrive 1 none ⟨5, .ok⟩, .adv 3600000, .poll 1, .adv 5, .poll 1]).log =
      [.innerCall 1 0, .innerDone 1 0 .ok, .result 1 (.ok 0)] := by
  decide

end TR.Props.C20
