import TR.Lemmas.Bulkhead
/-!
# C07 — the bulkhead never loses capacity and rejects only by timeout
-/
namespace TR.Props.C07
open TR TR.Bulkhead

/-- After **any** history (successes, errors, panics, never-completing calls that were
dropped, wait timeouts, cancellations in every phase): once nobody holds or has been handed
a permit, all `max` permits are free again. -/
theorem quiescent_full (cfg : Cfg) (ops : List Op)
    (h1 : (run cfg ops).running = []) (h2 : (run cfg ops).assigned = []) :
    (run cfg ops).free = cfg.max := by
  have := (inv_reachable cfg ops).count; simp [h1, h2] at this; exact this

/-- Nobody waits while a permit is free (no lost capacity while callers queue). -/
theorem no_waiter_while_free (cfg : Cfg) (ops : List Op) (h : (run cfg ops).free > 0) :
    (run cfg ops).queue = [] :=
  (inv_reachable cfg ops).noBarge h

/-- A caller polled for the first time while fewer than `max` calls are in flight and nobody
is queued (or has been handed a permit) reaches the inner service in that very step: the
first new event is its `inner_call`. -/
theorem admit_at_once (cfg : Cfg) (ops : List Op) (c : Nat)
    (hf : (run cfg ops).fresh.contains c = true)
    (hr : (run cfg ops).running.length < cfg.max)
    (ha : (run cfg ops).assigned = []) :
    ∃ rest, (stepS cfg (run cfg ops) (.poll c)).log
      = (run cfg ops).log ++ Ev.innerCall c (run cfg ops).serial :: rest := by
  have hc := (inv_reachable cfg ops).count
  have hfree : (run cfg ops).free > 0 := by simp [ha] at hc; omega
  obtain ⟨rest, h⟩ := pollFresh_admits cfg (run cfg ops) c hfree
  exact ⟨rest, by simp only [stepS, hf, if_true]; exact h⟩

/-- One-step characterisation of rejection: a poll emits `err:timeout` for `c` only when
(a) `c` was polled for the first time, no permit was free and `max_wait = 0`, or
(b) `c` was queued, had not been handed a permit, and its deadline has been reached. -/
theorem reject_only_by_timeout (cfg : Cfg) (s : State) (c c' : Nat)
    (h : Ev.result c' .timeout ∈ (stepS cfg s (.poll c)).log.drop s.log.length) :
    c' = c ∧
    ((s.fresh.contains c = true ∧ s.free = 0 ∧ cfg.maxWait = some 0) ∨
     (s.fresh.contains c = false ∧ s.assigned.contains c = false ∧ s.queue.contains c = true ∧
        ∃ d, lookup s.deadline c = some d ∧ d ≤ s.now)) :=
  poll_timeout_char cfg s c c' h

/-- Non-vacuity: a queued caller is rejected exactly at its deadline, not one ms earlier. -/
example :
    let ops := [Op.arrive 1 ⟨100, .ok⟩, .arrive 2 ⟨0, .ok⟩, .poll 1, .poll 2, .adv 9, .poll 2]
    (run { max := 1, maxWait := some 10 } ops).queue = [2] ∧
    (run { max := 1, maxWait := some 10 } (ops ++ [.adv 1, .poll 2])).log.getLast? = some (.result 2 .timeout) := by
  decide

end TR.Props.C07
