import TR.Lemmas.Bulkhead2
import TR.Lemmas.BulkheadMulti
import TR.Lemmas.BulkheadWait
/-!
# C07 — the bulkhead never loses capacity and rejects only by timeout
-/
namespace TR.Props.C07
open TR TR.Bulkhead

/-- After **any** history (successes, errors, panics, never-completing calls that were
dropped, wait timeouts, cancellations in every phase): once nobody holds or has been handed
a permit, all `max` permits are free again. -/
theorem quiescent_full (cfg : Cfg) (ops : List Op)
    (h1 : (run cfg ops).running = []) (h2 : (run cfg ops).assigned = []) :
    (run cfg ops).free = cfg.max := by
  have := (inv_reachable cfg ops).count; simp [h1, h2] at this; exact this

/-- Nobody waits while a permit is free (no lost capacity while callers queue). -/
theorem no_waiter_while_free (cfg : Cfg) (ops : List Op) (h : (run cfg ops).free > 0) :
    (run cfg ops).queue = [] :=
  (inv_reachable cfg ops).noBarge h

/-- A caller polled for the first time while fewer than `max` calls are in flight and nobody
is queued (or has been handed a permit) reaches the inner service in that very step: the
first new event is its `inner_call`. -/
theorem admit_at_once (cfg : Cfg) (ops : List Op) (c : Nat)
    (hf : (run cfg ops).fresh.contains c = true)
    (hr : (run cfg ops).running.length < cfg.max)
    (ha : (run cfg ops).assigned = []) :
    ∃ rest, (stepS cfg (run cfg ops) (.poll c)).log
      = (run cfg ops).log ++ Ev.innerCall c (run cfg ops).serial :: rest := by
  have hc := (inv_reachable cfg ops).count
  have hfree : (run cfg ops).free > 0 := by simp [ha] at hc; omega
  obtain ⟨rest, h⟩ := pollFresh_admits cfg (run cfg ops) c hfree
  exact ⟨rest, by simp only [stepS, hf, if_true]; exact h⟩

/-- One-step characterisation of rejection: a poll emits `err:timeout` for `c` only when
(a) `c` was polled for the first time, no permit was free and `max_wait = 0`, or
(b) `c` was queued, had not been handed a permit, and its deadline has been reached;
and then that result is the only thing the step emits (in particular no `inner_call`). -/
theorem reject_only_by_timeout (cfg : Cfg) (s : State) (c c' : Nat)
    (h : Ev.result c' .timeout ∈ (stepS cfg s (.poll c)).log.drop s.log.length) :
    c' = c ∧ (stepS cfg s (.poll c)).log = s.log ++ [Ev.result c .timeout] ∧
    ((s.fresh.contains c = true ∧ s.free = 0 ∧ cfg.maxWait = some 0) ∨
     (s.fresh.contains c = false ∧ s.assigned.contains c = false ∧ s.queue.contains c = true ∧
        ∃ d, lookup s.deadline c = some d ∧ d ≤ s.now)) :=
  poll_timeout_char cfg s c c' h

/-- Every caller is in at most one phase (never polled / queued / handed a permit / running),
in every reachable state. -/
theorem one_phase (cfg : Cfg) (ops : List Op) (c : Nat) : occ (run cfg ops) c ≤ 1 :=
  (inv2_reachable cfg ops).once c

/-- **A rejected request never reaches the wrapped service.** In every reachable state (hence
at every later time, whatever anybody does), a caller that has been answered with the
wait-timeout error has no `inner_call` in the event log. -/
theorem rejected_never_runs (cfg : Cfg) (ops : List Op) (c : Nat)
    (h : Ev.result c .timeout ∈ (run cfg ops).log) : ∀ k, Ev.innerCall c k ∉ (run cfg ops).log :=
  timeoutClean_reachable cfg ops c h

/-- **A request cancelled while waiting never reaches the wrapped service.** If the caller is
dropped while it has never been polled, is queued, or holds a permit it has not used yet,
then after any continuation `ops'` there is still no `inner_call` for it. -/
theorem cancelled_while_waiting_never_runs (cfg : Cfg) (ops ops' : List Op) (c : Nat)
    (hw : (run cfg ops).fresh.count c + (run cfg ops).queue.count c + (run cfg ops).assigned.count c ≥ 1) :
    ∀ k, Ev.innerCall c k ∉ (run cfg (ops ++ [.drop c] ++ ops')).log := by
  have h2 := inv2_reachable cfg ops
  obtain ⟨hk, ho, hn⟩ := drop_waiting_gone cfg (run cfg ops) c h2 hw
  have := gone_forever cfg ops' _ c hk ho hn
  simpa [run, List.foldl_append, NoCall] using this

/-- Non-vacuity: a queued caller is rejected exactly at its deadline, not one ms earlier. -/
example :
    let ops := [Op.arrive 1 ⟨100, .ok⟩, .arrive 2 ⟨0, .ok⟩, .poll 1, .poll 2, .adv 9, .poll 2]
    (run { max := 1, maxWait := some 10 } ops).queue = [2] ∧
    (run { max := 1, maxWait := some 10 } (ops ++ [.adv 1, .poll 2])).log.getLast? = some (.result 2 .timeout) := by
  decide

/-- Non-vacuity for the two "never runs" theorems: caller 2 is rejected, caller 3 is dropped while
queued; afterwards the slot is free and a fresh caller is admitted, but neither 2 nor 3 ever
reached the inner service. -/
example :
    let ops := [Op.arrive 1 ⟨100, .ok⟩, .arrive 2 ⟨0, .ok⟩, .arrive 3 ⟨0, .ok⟩, .poll 1, .poll 2, .poll 3, .adv 10, .poll 2]
    let s := run { max := 1, maxWait := some 10 } ops
    Ev.result 2 .timeout ∈ s.log ∧ s.queue.count 3 = 1 ∧
    (run { max := 1, maxWait := some 10 } (ops ++ [.drop 3] ++ [.adv 100, .poll 1, .arrive 4 ⟨0, .ok⟩, .poll 4])).serial = 2 := by
  decide

/-! ## several services built from one layer value; refused requests; presets -/

/-- **Services built from one layer value (or from clones of it) share nothing.** An operation of a caller on
service `i` — arrival, refused arrival, poll (admission, completion, rejection), cancellation — leaves the state of
every other service `j` as it was: free permits, queue, permits handed over, calls in flight, deadlines, event log.
(Only the call serial of the scripted backend, common to the harness's inner services, moves.) -/
theorem services_independent (cfg : Cfg) (ms : MState) (i j : Nat) (op : Op) (hij : j ≠ i) (hop : ∀ d, op ≠ .adv d) :
    ∃ n, (stepM cfg ms i op).insts j = { ms.insts j with serial := (ms.insts j).serial + n } :=
  stepM_other cfg ms i j op hij hop

/-- The operation itself acts on its service exactly as on a single bulkhead. -/
theorem service_step (cfg : Cfg) (ms : MState) (i c : Nat) :
    (stepM cfg ms i (.poll c)).insts i = stepS cfg (ms.insts i) (.poll c) := by
  simp [stepM]

/-- **An idle service admits at once, whatever the other services hold.** After any multi-service history, a caller
of service `i` polled for the first time while fewer than `max` calls are in flight *in service `i`* and nobody of
service `i` has been handed a permit reaches the inner service in that very step — no matter how many calls are
running or queued in the other services built from the same layer. -/
theorem service_admit_at_once (cfg : Cfg) (mops : List (Nat × Op)) (i c : Nat)
    (hf : ((runM cfg mops).insts i).fresh.contains c = true)
    (hr : ((runM cfg mops).insts i).running.length < cfg.max)
    (ha : ((runM cfg mops).insts i).assigned = []) :
    ∃ rest, ((stepM cfg (runM cfg mops) i (.poll c)).insts i).log
      = ((runM cfg mops).insts i).log ++ Ev.innerCall c ((runM cfg mops).insts i).serial :: rest := by
  rw [service_step]
  rw [runM_synced] at hf hr ha ⊢
  exact admit_at_once cfg _ c hf hr ha

/-- Each service gets all its permits back once nothing of ITS OWN is in flight. -/
theorem service_quiescent_full (cfg : Cfg) (mops : List (Nat × Op)) (i : Nat)
    (h1 : ((runM cfg mops).insts i).running = []) (h2 : ((runM cfg mops).insts i).assigned = []) :
    ((runM cfg mops).insts i).free = cfg.max := by
  rw [runM_synced] at h1 h2 ⊢
  exact quiescent_full cfg _ h1 h2

/-- In every service, a rejected request never reaches the wrapped service. -/
theorem service_rejected_never_runs (cfg : Cfg) (mops : List (Nat × Op)) (i c : Nat)
    (h : Ev.result c .timeout ∈ ((runM cfg mops).insts i).log) : ∀ k, Ev.innerCall c k ∉ ((runM cfg mops).insts i).log := by
  rw [runM_synced] at h ⊢
  exact rejected_never_runs cfg _ c h

/-- **A request refused because its handle did not become ready never reaches the wrapped service**, whatever
happens afterwards. -/
theorem refused_never_runs (cfg : Cfg) (ops ops' : List Op) (c : Nat) (kind : Option Nat)
    (hk : known (run cfg ops) c = false) :
    ∀ k, Ev.innerCall c k ∉ (run cfg (ops ++ [.refuse c kind] ++ ops')).log := by
  have h2 := inv2_reachable cfg ops
  have hocc : occ (run cfg ops) c = 0 := by
    by_cases ho : occ (run cfg ops) c ≥ 1
    · have := h2.isKnown c ho; rw [hk] at this; cases this
    · omega
  obtain ⟨r, _, f1, f2, f3, f4, f5, f6⟩ := refuseCall_fields (run cfg ops) c kind
  have hstep : stepS cfg (run cfg ops) (.refuse c kind) = refuseCall (run cfg ops) c kind := by
    simp only [stepS, hk, Bool.false_eq_true, if_false]
  have := gone_forever cfg ops' (stepS cfg (run cfg ops) (.refuse c kind)) c
    (by rw [hstep]; simp only [known, f6, lookup, if_true]; rfl)
    (by rw [hstep]; simp only [occ, f1, f2, f3, f4] at hocc ⊢; exact hocc)
    (by
      rw [hstep]; intro k hm; rw [f5] at hm
      rcases List.mem_append.mp hm with hm | hm
      · exact (h2.unknown c hk).1 k hm
      · simp at hm)
  simpa [run, List.foldl_append, NoCall] using this

/-- The presets reject at once when full (zero wait) and are otherwise ordinary configurations: every theorem above
applies to them. -/
theorem presets_reject_when_full :
    presetSmall.maxWait = some 0 ∧ presetMedium.maxWait = some 0 ∧ presetLarge.maxWait = some 0 ∧
    presetSmall.max = 10 ∧ presetMedium.max = 50 ∧ presetLarge.max = 200 := by decide

/-- Non-vacuity: service 0 (`max = 1`, wait 10) is full; its second caller is rejected at the deadline; meanwhile
service 1, built from the same layer, admits its caller at once and is not touched by any of it. -/
example :
    let mops : List (Nat × Op) := [(0, .arrive 1 ⟨100, .ok⟩), (0, .poll 1), (0, .arrive 2 ⟨0, .ok⟩), (0, .poll 2),
      (1, .arrive 3 ⟨100, .ok⟩), (1, .poll 3), (0, .adv 10), (0, .poll 2)]
    let ms := runM { max := 1, maxWait := some 10 } mops
    (ms.insts 0).log = [.innerCall 1 0, .result 2 .timeout] ∧ (ms.insts 1).log = [.innerCall 3 1] ∧
    (ms.insts 1).running = [3] ∧ (ms.insts 0).now = 10 ∧ (ms.insts 1).now = 10 := by decide

/-! ## "rejected exactly `max_wait` after it arrived" (audit B, C07 clause c)

"Arrived" is the first poll of the call future (that is where the code arms `timeout(max_wait, acquire)`); the model
keeps that instant in the ghost `firstPoll`. `arrival_is_first_poll` ties the ghost to the operation history,
`deadline_is_arrival_plus_wait` ties the armed deadline to it, `rejected_not_before_deadline` /
`rejected_at_deadline` / `waits_until_deadline` are the two directions of "exactly". (That the runtime WAKES the caller at
the deadline so that it is polled then is observed by the waker monitor, not modelled.) -/

/-- The ghost arrival instant of `c` is the clock reading at a `poll c` of the history at which `c` had never been
polled before (`fresh` = call future created, never polled). -/
theorem arrival_is_first_poll (cfg : Cfg) (ops : List Op) (c t : Nat)
    (h : lookup (run cfg ops).firstPoll c = some t) :
    ∃ pre post, ops = pre ++ Op.poll c :: post ∧ (run cfg pre).fresh.contains c = true ∧ (run cfg pre).now = t :=
  firstPoll_origin cfg ops c t h

/-- … and there is only one such poll: once a caller has been polled for the first time it is never "never polled"
again, whatever anybody does afterwards — so "the arrival of `c`" is well defined. -/
theorem first_poll_is_unique (cfg : Cfg) (pre ops' : List Op) (c : Nat)
    (hf : (run cfg pre).fresh.contains c = true) : c ∉ (run cfg (pre ++ [.poll c] ++ ops')).fresh := by
  have := first_poll_once cfg (run cfg pre) (inv2_reachable cfg pre) c hf ops'
  simpa [run, List.foldl_append] using this

/-- **The deadline of every waiting caller is its arrival instant plus `max_wait`**, in every reachable state; the
arrival lies in the past. (With `max_wait = 0` nobody ever waits: `reject_when_full_never_queues`.) -/
theorem deadline_is_arrival_plus_wait (cfg : Cfg) (ops : List Op) (c w : Nat)
    (hq : c ∈ (run cfg ops).queue) (hw : cfg.maxWait = some w) :
    ∃ t, lookup (run cfg ops).firstPoll c = some t ∧ lookup (run cfg ops).deadline c = some (t + w) ∧
      t ≤ (run cfg ops).now := by
  obtain ⟨t, h1, h2⟩ := (waitInv_reachable cfg ops).dl c hq w hw
  exact ⟨t, h1, h2, (waitInv_reachable cfg ops).past c t h1⟩

theorem reject_when_full_never_queues (cfg : Cfg) (ops : List Op) (hw : cfg.maxWait = some 0) :
    (run cfg ops).queue = [] :=
  (waitInv_reachable cfg ops).zero hw

/-- **Not earlier.** After any history, a step (any operation) that answers `c` with the wait-timeout error is a poll
of `c`, a `max_wait = w` is configured, `c` arrived at `t`, and `t + w ≤ now`; the answer is the only event of the step.
Either it is the arrival itself (`w = 0`, no permit free, `t = now`), or `c` was waiting without a permit and its
deadline `t + w` has been reached. -/
theorem rejected_not_before_deadline (cfg : Cfg) (ops : List Op) (op : Op) (c : Nat)
    (h : Ev.result c .timeout ∈ (stepS cfg (run cfg ops) op).log.drop (run cfg ops).log.length) :
    op = .poll c ∧ (stepS cfg (run cfg ops) op).log = (run cfg ops).log ++ [Ev.result c .timeout] ∧
    ∃ w t, cfg.maxWait = some w ∧ lookup (stepS cfg (run cfg ops) op).firstPoll c = some t ∧
      t + w ≤ (run cfg ops).now ∧
      (((run cfg ops).fresh.contains c = true ∧ (run cfg ops).free = 0 ∧ w = 0 ∧ t = (run cfg ops).now) ∨
       ((run cfg ops).fresh.contains c = false ∧ (run cfg ops).assigned.contains c = false ∧
          (run cfg ops).queue.contains c = true ∧ lookup (run cfg ops).firstPoll c = some t ∧
          lookup (run cfg ops).deadline c = some (t + w))) :=
  timeout_step cfg (run cfg ops) op c (waitInv_reachable cfg ops) h

/-- The same over whole histories: every `err:timeout` in a reachable log was produced by one particular `poll c` of
the history, made at an instant `≥ arrival + max_wait`. -/
theorem rejection_instant (cfg : Cfg) (ops : List Op) (c : Nat) (h : Ev.result c .timeout ∈ (run cfg ops).log) :
    ∃ pre post w t, ops = pre ++ Op.poll c :: post ∧ cfg.maxWait = some w ∧
      lookup (run cfg (pre ++ [.poll c])).firstPoll c = some t ∧ t + w ≤ (run cfg pre).now := by
  obtain ⟨pre, op, post, heq, hm⟩ := mem_log_origin cfg ops _ h
  obtain ⟨hop, _, w, t, hw, ht, hle, _⟩ := rejected_not_before_deadline cfg pre op c hm
  subst hop
  exact ⟨pre, post, w, t, heq, hw, by rw [run_snoc]; exact ht, hle⟩

/-- **Not later.** After any history, a caller that is waiting without a permit and is polled at or after
`arrival + max_wait` IS rejected by that poll: the step emits exactly its `err:timeout`, it leaves the queue, and
nothing else moves (no permit, no call in flight). -/
theorem rejected_at_deadline (cfg : Cfg) (ops : List Op) (c w t : Nat)
    (hq : c ∈ (run cfg ops).queue) (ha : c ∉ (run cfg ops).assigned) (hw : cfg.maxWait = some w)
    (ht : lookup (run cfg ops).firstPoll c = some t) (hnow : t + w ≤ (run cfg ops).now) :
    (stepS cfg (run cfg ops) (.poll c)).log = (run cfg ops).log ++ [Ev.result c .timeout] ∧
    c ∉ (stepS cfg (run cfg ops) (.poll c)).queue ∧
    (stepS cfg (run cfg ops) (.poll c)).running = (run cfg ops).running ∧
    (stepS cfg (run cfg ops) (.poll c)).free = (run cfg ops).free ∧
    (stepS cfg (run cfg ops) (.poll c)).assigned = (run cfg ops).assigned := by
  obtain ⟨t', h1, h2, _⟩ := deadline_is_arrival_plus_wait cfg ops c w hq hw
  have : t' = t := by rw [ht] at h1; cases h1; rfl
  subst this
  exact reject_step_effect cfg _ (inv2_reachable cfg ops) c _ hq ha h2 hnow

/-- **Not earlier, as a state equation.** Polled before `arrival + max_wait` (and without a permit), the waiting caller
just keeps waiting: the state does not change at all. -/
theorem waits_until_deadline (cfg : Cfg) (ops : List Op) (c w t : Nat)
    (hq : c ∈ (run cfg ops).queue) (ha : c ∉ (run cfg ops).assigned) (hw : cfg.maxWait = some w)
    (ht : lookup (run cfg ops).firstPoll c = some t) (hnow : (run cfg ops).now < t + w) :
    stepS cfg (run cfg ops) (.poll c) = run cfg ops := by
  obtain ⟨t', h1, h2, _⟩ := deadline_is_arrival_plus_wait cfg ops c w hq hw
  have : t' = t := by rw [ht] at h1; cases h1; rfl
  subst this
  obtain ⟨hf, ha', hq'⟩ := waiting_flags (inv2_reachable cfg ops) hq ha
  exact poll_before_deadline_waits cfg _ c _ hf ha' hq' h2 hnow

/-- Non-vacuity for the four theorems above (`max = 1`, `max_wait = 10`): caller 2 arrives at t = 3 while the slot is
taken; at t = 12 it is still queued with arrival 3 (`waits_until_deadline` applies); at t = 13 = 3 + 10 its poll is
answered `err:timeout` (`rejected_at_deadline`, `rejected_not_before_deadline`). -/
example :
    let cfg : Cfg := { max := 1, maxWait := some 10 }
    let ops := [Op.arrive 1 ⟨100, .ok⟩, .poll 1, .adv 3, .arrive 2 ⟨0, .ok⟩, .poll 2, .adv 9, .poll 2]
    let s := run cfg ops
    let s' := run cfg (ops ++ [.adv 1])
    s.queue = [2] ∧ s.assigned = [] ∧ lookup s.firstPoll 2 = some 3 ∧ lookup s.deadline 2 = some 13 ∧ s.now = 12 ∧
    s'.queue = [2] ∧ s'.now = 13 ∧
    Ev.result 2 .timeout ∈ (stepS cfg s' (.poll 2)).log.drop s'.log.length := by
  decide

/-- Non-vacuity for branch (a) of `rejected_not_before_deadline` (`max_wait = 0`): rejected at the arrival itself. -/
example :
    let cfg : Cfg := { max := 1, maxWait := some 0 }
    let s := run cfg [.arrive 1 ⟨100, .ok⟩, .poll 1, .adv 7, .arrive 2 ⟨0, .ok⟩]
    s.free = 0 ∧ s.fresh = [2] ∧
    Ev.result 2 .timeout ∈ (stepS cfg s (.poll 2)).log.drop s.log.length ∧
    lookup (stepS cfg s (.poll 2)).firstPoll 2 = some 7 := by
  decide

/-! ## `max_wait = none`: never rejected (audit B, C07 last row) -/

/-- **A bulkhead without `max_wait` never rejects anybody**: no `err:timeout` in any reachable log. -/
theorem never_rejected_without_max_wait (cfg : Cfg) (ops : List Op) (h : cfg.maxWait = none) (c : Nat) :
    Ev.result c .timeout ∉ (run cfg ops).log := by
  intro hm
  obtain ⟨_, _, w, _, _, hw, _, _⟩ := rejection_instant cfg ops c hm
  rw [h] at hw; cases hw

/-- … a waiting caller polled while it has no permit just keeps waiting, however late it is. -/
theorem waits_forever_without_max_wait (cfg : Cfg) (ops : List Op) (h : cfg.maxWait = none) (c : Nat)
    (hq : c ∈ (run cfg ops).queue) (ha : c ∉ (run cfg ops).assigned) :
    stepS cfg (run cfg ops) (.poll c) = run cfg ops := by
  obtain ⟨hf, ha', hq'⟩ := waiting_flags (inv2_reachable cfg ops) hq ha
  have hd : lookup (run cfg ops).deadline c = none := by
    rw [(waitInv_reachable cfg ops).nodl h]; rfl
  exact poll_without_deadline_waits cfg _ c hf ha' hq' hd

/-- Non-vacuity: with `max_wait = none` caller 2 is still queued a million ms later, and is served when 1 finishes. -/
example :
    let cfg : Cfg := { max := 1, maxWait := none }
    let ops := [Op.arrive 1 ⟨2000000, .ok⟩, .poll 1, .arrive 2 ⟨0, .ok⟩, .poll 2, .adv 1000000, .poll 2]
    (run cfg ops).queue = [2] ∧ (run cfg ops).assigned = [] ∧
    (run cfg (ops ++ [.adv 1000000, .poll 1, .poll 2])).log.getLast? = some (.result 2 (.ok 1)) := by
  decide

/-! ## "after any history it again admits `max` simultaneous calls" (audit B, C07 clause a: `probe_burst`) -/

/-- **Spare capacity is usable, all of it, at once.** After any history, any set of callers that have never been
polled and fit into what is not held (`|cs| + running + handed-over ≤ max`), polled once each in ANY order (`cs` is any
duplicate-free list), all reach the inner service — each in its own first poll — and none of them is rejected. -/
theorem spare_capacity_admits (cfg : Cfg) (ops : List Op) (cs : List Nat) (hnd : cs.Nodup)
    (hfr : ∀ c ∈ cs, c ∈ (run cfg ops).fresh)
    (hlen : cs.length + (run cfg ops).running.length + (run cfg ops).assigned.length ≤ cfg.max) :
    ∀ c ∈ cs, (∃ k, Ev.innerCall c k ∈ (run cfg (ops ++ cs.map Op.poll)).log) ∧
      Ev.result c .timeout ∉ (run cfg (ops ++ cs.map Op.poll)).log := by
  have hc := (inv_reachable cfg ops).count
  obtain ⟨h1, _⟩ := burst_admitted cfg cs (run cfg ops) (inv_reachable cfg ops) hnd hfr (by omega)
  intro c hcs
  rw [run_burst]
  obtain ⟨k, hk⟩ := h1 c hcs
  refine ⟨⟨k, hk⟩, ?_⟩
  intro ht
  rw [← run_burst] at ht hk
  exact rejected_never_runs cfg _ c ht k hk

/-- **`probe_burst`: after ANY history, once no call is in flight (and no permit is on its way to a waiter), the
bulkhead admits `max` calls again.** `max` (or fewer) callers that have never been polled, polled once each in any
order, all reach the inner service in their own first poll; nobody is rejected. -/
theorem probe_burst (cfg : Cfg) (ops : List Op) (cs : List Nat)
    (h1 : (run cfg ops).running = []) (h2 : (run cfg ops).assigned = [])
    (hnd : cs.Nodup) (hfr : ∀ c ∈ cs, c ∈ (run cfg ops).fresh) (hlen : cs.length ≤ cfg.max) :
    ∀ c ∈ cs, (∃ k, Ev.innerCall c k ∈ (run cfg (ops ++ cs.map Op.poll)).log) ∧
      Ev.result c .timeout ∉ (run cfg (ops ++ cs.map Op.poll)).log :=
  spare_capacity_admits cfg ops cs hnd hfr (by simp [h1, h2]; exact hlen)

/-- **… simultaneously.** If none of the burst's inner calls finishes at once (latency > 0, or never), then after the
burst all of them are inside the inner service TOGETHER — `running` is exactly the burst, and so is the set of open
calls read off the event log — and exactly `|cs|` permits are gone. With `|cs| = max` the bulkhead is full again. -/
theorem probe_burst_simultaneous (cfg : Cfg) (ops : List Op) (cs : List Nat)
    (h1 : (run cfg ops).running = []) (h2 : (run cfg ops).assigned = [])
    (hnd : cs.Nodup) (hfr : ∀ c ∈ cs, c ∈ (run cfg ops).fresh) (hlen : cs.length ≤ cfg.max)
    (hslow : ∀ c ∈ cs, ∀ sc, lookup (run cfg ops).script c = some sc → sc.lat > 0 ∨ sc.out = .never) :
    (run cfg (ops ++ cs.map Op.poll)).running = cs ∧
    inflight (run cfg (ops ++ cs.map Op.poll)).log = cs ∧
    (run cfg (ops ++ cs.map Op.poll)).free = cfg.max - cs.length := by
  have hfull := quiescent_full cfg ops h1 h2
  obtain ⟨r1, r2, _, _, _⟩ := burst_simultaneous cfg cs (run cfg ops) (inv2_reachable cfg ops) hnd hfr
    (by omega) hslow
  have hrun : (run cfg (ops ++ cs.map Op.poll)).running = cs := by rw [run_burst, r1, h1]; simp
  refine ⟨hrun, ?_, by rw [run_burst]; omega⟩
  rw [(logInv_reachable cfg _).fl]; exact hrun

/-- **… and the `(max+1)`-th waits.** After a burst of exactly `max` such calls, one more caller polled for the first
time does NOT reach the inner service: the `max` calls stay exactly as they are, no `inner_call` for it is logged, and
it is queued — or, with `max_wait = 0`, rejected with the timeout error in that very step. -/
theorem probe_burst_overflow (cfg : Cfg) (ops : List Op) (cs : List Nat) (x : Nat)
    (h1 : (run cfg ops).running = []) (h2 : (run cfg ops).assigned = [])
    (hnd : cs.Nodup) (hfr : ∀ c ∈ cs, c ∈ (run cfg ops).fresh) (hlen : cs.length = cfg.max)
    (hslow : ∀ c ∈ cs, ∀ sc, lookup (run cfg ops).script c = some sc → sc.lat > 0 ∨ sc.out = .never)
    (hx : x ∈ (run cfg ops).fresh) (hxcs : x ∉ cs) :
    (run cfg (ops ++ cs.map Op.poll ++ [.poll x])).running = cs ∧
    (∀ k, Ev.innerCall x k ∉ (run cfg (ops ++ cs.map Op.poll ++ [.poll x])).log) ∧
    ((cfg.maxWait = some 0 ∧ Ev.result x .timeout ∈ (run cfg (ops ++ cs.map Op.poll ++ [.poll x])).log) ∨
     (cfg.maxWait ≠ some 0 ∧ x ∈ (run cfg (ops ++ cs.map Op.poll ++ [.poll x])).queue)) := by
  have hfull := quiescent_full cfg ops h1 h2
  have := burst_overflow cfg (run cfg ops) (inv2_reachable cfg ops) cs x hnd hfr (by omega) hslow hx hxcs
    (by rw [← run_burst]; exact inv2_reachable cfg _)
  rw [run_snoc, run_burst]
  simpa [h1] using this

/-- Non-vacuity for the burst theorems after a non-trivial history (`max = 2`): a panic, a call dropped while running,
a waiter rejected at its deadline, a waiter dropped while it held a handed-over permit. Afterwards nothing is in flight
and both permits are free (the hypotheses and conclusion of `quiescent_full`; those of `admit_at_once` for 7, 8 or 9),
callers 7 and 8 (slow) and 9 are fresh; the burst [8, 7] is admitted in that order and 9 then queues. -/
example :
    let cfg : Cfg := { max := 2, maxWait := some 10 }
    let ops := [Op.arrive 1 ⟨0, .panic⟩, .arrive 2 ⟨5, .never⟩, .arrive 3 ⟨0, .ok⟩, .arrive 4 ⟨0, .ok⟩, .arrive 5 ⟨50, .ok⟩,
      .poll 5, .poll 2, .poll 3, .poll 4, .adv 10, .poll 3, .drop 2, .drop 4, .poll 1, .adv 50, .poll 5,
      .arrive 7 ⟨5, .ok⟩, .arrive 8 ⟨1, .never⟩, .arrive 9 ⟨0, .ok⟩]
    (run cfg ops).running = [] ∧ (run cfg ops).assigned = [] ∧ (run cfg ops).free = 2 ∧ (run cfg ops).fresh = [7, 8, 9] ∧
    Ev.result 3 .timeout ∈ (run cfg ops).log ∧ Ev.result 1 .panic ∈ (run cfg ops).log ∧
    (run cfg (ops ++ [.poll 8, .poll 7])).running = [8, 7] ∧
    (run cfg (ops ++ [.poll 8, .poll 7, .poll 9])).queue = [9] := by
  decide

/-- **Capacity is never lost — general form, the hypothesis read off the event log alone.** After any history, once
every inner call that was started has ended (`inflight log = []`), all `max` permits are accounted for — free, or on
their way to a waiter — and any duplicate-free set of callers made of waiters holding a handed-over permit and of
never-polled callers (no more of the latter than free permits; so up to `max` callers in all), polled once each in
any order, all reach the inner service, each in its own poll. (`probe_burst` is the case "nobody holds a handed-over
permit".) -/
theorem capacity_restored (cfg : Cfg) (ops : List Op) (bs : List Nat)
    (h1 : inflight (run cfg ops).log = []) (hnd : bs.Nodup)
    (hmem : ∀ c ∈ bs, c ∈ (run cfg ops).fresh ∨ c ∈ (run cfg ops).assigned)
    (hcnt : bs.countP (fun c => (run cfg ops).fresh.contains c) ≤ (run cfg ops).free) :
    (run cfg ops).free + (run cfg ops).assigned.length = cfg.max ∧
    ∀ c ∈ bs, ∃ k, Ev.innerCall c k ∈ (run cfg (ops ++ bs.map Op.poll)).log := by
  rw [(logInv_reachable cfg ops).fl] at h1
  refine ⟨by have := (inv_reachable cfg ops).count; simp [h1] at this; exact this, ?_⟩
  rw [run_burst]
  exact burst_admitted_mixed cfg bs (run cfg ops) hnd hmem hcnt

/-- Non-vacuity for `capacity_restored` (`max = 2`): nothing is in flight, caller 3 holds a permit handed to it when
caller 1 finished, one permit is free, caller 4 has never been polled; polled in the order 4, 3 both are admitted. -/
example :
    let cfg : Cfg := { max := 2, maxWait := none }
    let ops := [Op.arrive 1 ⟨5, .ok⟩, .arrive 2 ⟨5, .ok⟩, .arrive 3 ⟨9, .ok⟩, .arrive 4 ⟨9, .ok⟩,
      .poll 1, .poll 2, .poll 3, .adv 5, .poll 1, .poll 2]
    inflight (run cfg ops).log = [] ∧ (run cfg ops).assigned = [3] ∧ (run cfg ops).fresh = [4] ∧ (run cfg ops).free = 1 ∧
    (run cfg (ops ++ [.poll 4, .poll 3])).running = [4, 3] := by
  decide

/-- `admit_at_once` with its capacity hypothesis read off the event log: fewer than `max` open calls in the log. -/
theorem admit_at_once_log (cfg : Cfg) (ops : List Op) (c : Nat)
    (hf : (run cfg ops).fresh.contains c = true)
    (hr : (inflight (run cfg ops).log).length < cfg.max)
    (ha : (run cfg ops).assigned = []) :
    ∃ rest, (stepS cfg (run cfg ops) (.poll c)).log
      = (run cfg ops).log ++ Ev.innerCall c (run cfg ops).serial :: rest := by
  rw [(logInv_reachable cfg ops).fl] at hr
  exact admit_at_once cfg ops c hf hr ha

/-! ### the same for every service built from one layer value -/

/-- **Every service gets its full capacity back**: after any multi-service history, once nothing of service `i` is
in flight, `max` (or fewer) never-polled callers of service `i`, polled once each in any order, all reach its inner
service — whatever the sibling services hold. -/
theorem service_probe_burst (cfg : Cfg) (mops : List (Nat × Op)) (i : Nat) (cs : List Nat)
    (h1 : ((runM cfg mops).insts i).running = []) (h2 : ((runM cfg mops).insts i).assigned = [])
    (hnd : cs.Nodup) (hfr : ∀ c ∈ cs, c ∈ ((runM cfg mops).insts i).fresh) (hlen : cs.length ≤ cfg.max) :
    ∀ c ∈ cs, ∃ k, Ev.innerCall c k ∈ ((burstM cfg (runM cfg mops) i cs).insts i).log := by
  rw [burstM_inst]
  rw [runM_synced] at h1 h2 hfr ⊢
  intro c hc
  have := (probe_burst cfg _ cs h1 h2 hnd hfr hlen c hc).1
  rw [run_burst] at this
  exact this

/-- In every service: the deadline of a waiting caller is its arrival plus `max_wait`; without `max_wait` nobody is
ever rejected. -/
theorem service_wait_exact (cfg : Cfg) (mops : List (Nat × Op)) (i : Nat) :
    (∀ c w, c ∈ ((runM cfg mops).insts i).queue → cfg.maxWait = some w →
      ∃ t, lookup ((runM cfg mops).insts i).firstPoll c = some t ∧
        lookup ((runM cfg mops).insts i).deadline c = some (t + w) ∧ t ≤ ((runM cfg mops).insts i).now) ∧
    (cfg.maxWait = none → ∀ c, Ev.result c .timeout ∉ ((runM cfg mops).insts i).log) := by
  rw [runM_synced]
  exact ⟨fun c w hq hw => deadline_is_arrival_plus_wait cfg _ c w hq hw,
    fun h c => never_rejected_without_max_wait cfg _ h c⟩

/-! ## waits with a sub-millisecond part (`unit=us`)

`Cfg.maxWait` is the configured wait on the timer's grid: `timerTicks us` clock ticks (ms) for a wait of `us`
microseconds (`TR.Bulkhead.cfgOf`). The theorems above are stated in ticks; the following restate "exactly `max_wait`
after it arrived" for the configured wait itself. -/

/-- the timer rounds UP: the tick at which the wait is over is never before the configured wait has elapsed … -/
theorem timerTicks_not_early (us : Nat) : us ≤ 1000 * timerTicks us := by unfold timerTicks; omega
/-- … and less than one millisecond after it -/
theorem timerTicks_less_than_a_tick_late (us : Nat) : 1000 * timerTicks us < us + 1000 := by unfold timerTicks; omega
/-- whole-millisecond waits are exact -/
theorem timerTicks_whole (m : Nat) : timerTicks (1000 * m) = m := by unfold timerTicks; omega
/-- only a wait of exactly zero is "reject when full": 500 µs, 1 µs are waits -/
theorem timerTicks_zero_iff (us : Nat) : timerTicks us = 0 ↔ us = 0 := by unfold timerTicks; omega

/-- **Never early, for every configured wait.** With `max_wait_duration = us` microseconds, every `err:timeout` of a
reachable log was answered by a poll made at an instant `now` (ms) with `arrival + us µs ≤ now`: the configured wait
— not the wait truncated to whole milliseconds — has fully elapsed. -/
theorem rejection_never_before_configured_wait (cfg : Cfg) (us : Nat) (ops : List Op) (c : Nat)
    (hcfg : cfg.maxWait = some (timerTicks us)) (h : Ev.result c .timeout ∈ (run cfg ops).log) :
    ∃ pre post t, ops = pre ++ Op.poll c :: post ∧ lookup (run cfg (pre ++ [.poll c])).firstPoll c = some t ∧
      1000 * t + us ≤ 1000 * (run cfg pre).now := by
  obtain ⟨pre, post, w, t, heq, hw, ht, hle⟩ := rejection_instant cfg ops c h
  rw [hcfg] at hw
  cases hw
  refine ⟨pre, post, t, heq, ht, ?_⟩
  have := timerTicks_not_early us
  omega

/-- **The tail of the wait counts.** A caller that is waiting without a permit and is polled while its configured wait
of `us` microseconds has not yet elapsed (`now < arrival + us µs` — in particular at the last millisecond boundary
before the deadline of a wait such as 1.5 ms) keeps waiting: the state does not change, so a slot released then is
still handed to it (`release` gives the permit to the head of the queue). -/
theorem waits_through_configured_wait (cfg : Cfg) (us : Nat) (ops : List Op) (c t : Nat)
    (hq : c ∈ (run cfg ops).queue) (ha : c ∉ (run cfg ops).assigned) (hcfg : cfg.maxWait = some (timerTicks us))
    (ht : lookup (run cfg ops).firstPoll c = some t) (hnow : 1000 * (run cfg ops).now < 1000 * t + us) :
    stepS cfg (run cfg ops) (.poll c) = run cfg ops := by
  apply waits_until_deadline cfg ops c (timerTicks us) t hq ha hcfg ht
  have := timerTicks_not_early us
  omega

/-- … and it is rejected by the first poll at or after the first timer tick `≥ arrival + us µs`. -/
theorem rejected_at_first_tick_after_configured_wait (cfg : Cfg) (us : Nat) (ops : List Op) (c t : Nat)
    (hq : c ∈ (run cfg ops).queue) (ha : c ∉ (run cfg ops).assigned) (hcfg : cfg.maxWait = some (timerTicks us))
    (ht : lookup (run cfg ops).firstPoll c = some t) (hnow : t + timerTicks us ≤ (run cfg ops).now) :
    (stepS cfg (run cfg ops) (.poll c)).log = (run cfg ops).log ++ [Ev.result c .timeout] :=
  (rejected_at_deadline cfg ops c (timerTicks us) t hq ha hcfg ht hnow).1

/-- Non-vacuity (`max = 1`, `max_wait = 1.5 ms`): caller 2 arrives at t = 0 while the slot is taken; at t = 1 ms it is
polled and still queued; the holder is cancelled at t = 1 ms and caller 2 gets the slot at its next poll. Without the
release it is rejected at t = 2 ms, not at 1 ms. A wait of 500 µs queues (it is not fail-fast). -/
example :
    let cfg : Cfg := { max := 1, maxWait := some (timerTicks 1500) }
    let ops : List Op := [.arrive 1 ⟨1000, .never⟩, .poll 1, .arrive 2 ⟨0, .ok⟩, .poll 2, .adv 1, .poll 2]
    (run cfg ops).queue = [2] ∧ (run cfg ops).log = [.innerCall 1 0] ∧
    (run cfg (ops ++ [.drop 1, .poll 2])).log.getLast? = some (.result 2 (.ok 1)) ∧
    (run cfg (ops ++ [.adv 1, .poll 2])).log.getLast? = some (.result 2 .timeout) ∧
    (run { max := 1, maxWait := some (timerTicks 500) }
      [.arrive 1 ⟨1000, .never⟩, .poll 1, .arrive 2 ⟨0, .ok⟩, .poll 2]).queue = [2] := by decide


/-! ## capacity 0 — `max_concurrent_calls(0)` (the boundary value of the capacity knob)

Nobody can ever get a slot, so every caller "cannot get a slot" — and the rejection rule is the ordinary one, with no
shortcut: a caller is rejected with the timeout error exactly `max_wait` after its arrival (at once only if `max_wait`
is zero), and without a `max_wait` it waits for ever. The step function has no case for capacity 0; these are the
general theorems specialised, with the hypothesis "has not been handed a permit" discharged by the capacity. -/

/-- With capacity 0 there is never a free permit, nobody is ever handed one, nobody is ever inside. -/
theorem zero_capacity_never_admits (cfg : Cfg) (ops : List Op) (h0 : cfg.max = 0) :
    (run cfg ops).free = 0 ∧ (run cfg ops).assigned = [] ∧ (run cfg ops).running = [] := by
  have h := (inv_reachable cfg ops).count
  rw [h0] at h
  exact ⟨by omega, List.eq_nil_of_length_eq_zero (by omega), List.eq_nil_of_length_eq_zero (by omega)⟩

/-- **Capacity 0 does not shorten the wait.** A waiting caller of a capacity-0 bulkhead with `max_wait = w`, arrived at
`t`: polled before `t + w` nothing changes (it keeps waiting — it is NOT rejected at once); polled at or after `t + w` it
is rejected, by exactly that poll. -/
theorem zero_capacity_rejected_exactly_at_deadline (cfg : Cfg) (ops : List Op) (c w t : Nat) (h0 : cfg.max = 0)
    (hq : c ∈ (run cfg ops).queue) (hw : cfg.maxWait = some w) (ht : lookup (run cfg ops).firstPoll c = some t) :
    ((run cfg ops).now < t + w → stepS cfg (run cfg ops) (.poll c) = run cfg ops) ∧
    (t + w ≤ (run cfg ops).now →
      (stepS cfg (run cfg ops) (.poll c)).log = (run cfg ops).log ++ [Ev.result c .timeout]) := by
  have ha : c ∉ (run cfg ops).assigned := by rw [(zero_capacity_never_admits cfg ops h0).2.1]; simp
  exact ⟨fun h => waits_until_deadline cfg ops c w t hq ha hw ht h,
         fun h => (rejected_at_deadline cfg ops c w t hq ha hw ht h).1⟩

/-- Every rejection by a capacity-0 bulkhead comes from a poll made at an instant `≥ arrival + max_wait`. -/
theorem zero_capacity_rejection_instant (cfg : Cfg) (ops : List Op) (c : Nat) (_h0 : cfg.max = 0)
    (h : Ev.result c .timeout ∈ (run cfg ops).log) :
    ∃ pre post w t, ops = pre ++ Op.poll c :: post ∧ cfg.maxWait = some w ∧
      lookup (run cfg (pre ++ [.poll c])).firstPoll c = some t ∧ t + w ≤ (run cfg pre).now :=
  rejection_instant cfg ops c h

/-- Capacity 0 without a `max_wait`: a waiting caller waits for ever, whenever it is polled. -/
theorem zero_capacity_waits_forever (cfg : Cfg) (ops : List Op) (c : Nat) (h0 : cfg.max = 0) (hw : cfg.maxWait = none)
    (hq : c ∈ (run cfg ops).queue) : stepS cfg (run cfg ops) (.poll c) = run cfg ops := by
  have ha : c ∉ (run cfg ops).assigned := by rw [(zero_capacity_never_admits cfg ops h0).2.1]; simp
  exact waits_forever_without_max_wait cfg ops hw c hq ha

/-- Non-vacuity (`max = 0`, `max_wait = 50`): caller 1 arrives at 0 and is queued — not rejected — by its first poll; at
49 it is still queued with arrival 0 and deadline 50; the poll at 50 answers `err:timeout`. A caller arriving at 20 is
due at 70. With `max_wait = 0` the first poll rejects. -/
example :
    let cfg : Cfg := { max := 0, maxWait := some 50 }
    let ops := [Op.arrive 1 ⟨0, .ok⟩, .poll 1, .adv 20, .arrive 2 ⟨0, .ok⟩, .poll 2, .adv 29, .poll 1]
    let s := run cfg ops
    s.queue = [1, 2] ∧ s.log = [] ∧ lookup s.firstPoll 1 = some 0 ∧ lookup s.deadline 1 = some 50 ∧
    lookup s.deadline 2 = some 70 ∧ s.now = 49 ∧
    (run cfg (ops ++ [.adv 1, .poll 1, .poll 2])).log = [.result 1 .timeout] ∧
    (run cfg (ops ++ [.adv 1, .poll 1, .poll 2, .adv 20, .poll 2])).log = [.result 1 .timeout, .result 2 .timeout] ∧
    (run { max := 0, maxWait := some 0 } [.arrive 1 ⟨0, .ok⟩, .poll 1]).log = [.result 1 .timeout] := by
  decide

/-! ## very long waits: tokio's far-future horizon is not a wait limit

`max_wait = none` is NO time limit (`never_rejected_without_max_wait`, `waits_forever_without_max_wait`: for every
history, so for every length of the wait). The instants below are the ones at which a `Duration::MAX` timeout smuggled
in for "none" would fire: tokio cannot represent `now + Duration::MAX` and arms its far-future timer, `now + 30 years`
(of 365 days: 946 080 000 000 ms). A FINITE wait beyond that horizon (40 years) is honoured to the millisecond. -/

/-- 30 years of 365 days in milliseconds: `tokio::time::Sleep::far_future()` is `now +` this -/
def farFutureMs : Nat := 30 * 365 * 24 * 60 * 60 * 1000

/-- Non-vacuity at the horizon: no `max_wait`; the waiter is still queued one tick before, at, and one tick after 30
years, and is served when the holder goes away. With capacity 0 likewise. With `max_wait` = 40 years: still waiting at
30 years and one tick before 40 years, rejected at 40 years. -/
example :
    let cfg : Cfg := { max := 1, maxWait := none }
    let ops := [Op.arrive 1 ⟨0, .never⟩, .poll 1, .arrive 2 ⟨0, .ok⟩, .poll 2, .adv (farFutureMs - 1), .poll 2, .adv 1, .poll 2,
                .adv 1, .poll 2]
    farFutureMs = 946080000000 ∧
    (run cfg ops).queue = [2] ∧ (run cfg ops).log = [.innerCall 1 0] ∧ (run cfg ops).now = farFutureMs + 1 ∧
    (run cfg (ops ++ [.drop 1, .poll 2])).log.getLast? = some (.result 2 (.ok 1)) ∧
    (run { max := 0, maxWait := none } [.adv 7, .arrive 1 ⟨0, .ok⟩, .poll 1, .adv farFutureMs, .poll 1]).queue = [1] ∧
    (let cfg40 : Cfg := { max := 1, maxWait := some 1261440000000 }
     let ops40 := [Op.arrive 1 ⟨0, .never⟩, .poll 1, .arrive 2 ⟨0, .ok⟩, .poll 2, .adv farFutureMs, .poll 2, .adv 315359999999, .poll 2]
     (run cfg40 ops40).queue = [2] ∧ (run cfg40 (ops40 ++ [.adv 1, .poll 2])).log.getLast? = some (.result 2 .timeout)) := by
  decide

end TR.Props.C07
