import TR.Lemmas.Bulkhead2
/-!
# C07 — the bulkhead never loses capacity and rejects only by timeout
-/
namespace TR.Props.C07
open TR TR.Bulkhead

/-- After **any** history (successes, errors, panics, never-completing calls that were
dropped, wait timeouts, cancellations in every phase): once nobody holds or has been handed
a permit, all `max` permits are free again. -/
theorem quiescent_full (cfg : Cfg) (ops : List Op)
    (h1 : (run cfg ops).running = []) (h2 : (run cfg ops).assigned = []) :
    (run cfg ops).free = cfg.max := by
  have := (inv_reachable cfg ops).count; simp [h1, h2] at this; exact this

/-- Nobody waits while a permit is free (no lost capacity while callers queue). -/
theorem no_waiter_while_free (cfg : Cfg) (ops : List Op) (h : (run cfg ops).free > 0) :
    (run cfg ops).queue = [] :=
  (inv_reachable cfg ops).noBarge h

/-- A caller polled for the first time while fewer than `max` calls are in flight and nobody
is queued (or has been handed a permit) reaches the inner service in that very step: the
first new event is its `inner_call`. -/
theorem admit_at_once (cfg : Cfg) (ops : List Op) (c : Nat)
    (hf : (run cfg ops).fresh.contains c = true)
    (hr : (run cfg ops).running.length < cfg.max)
    (ha : (run cfg ops).assigned = []) :
    ∃ rest, (stepS cfg (run cfg ops) (.poll c)).log
      = (run cfg ops).log ++ Ev.innerCall c (run cfg ops).serial :: rest := by
  have hc := (inv_reachable cfg ops).count
  have hfree : (run cfg ops).free > 0 := by simp [ha] at hc; omega
  obtain ⟨rest, h⟩ := pollFresh_admits cfg (run cfg ops) c hfree
  exact ⟨rest, by simp only [stepS, hf, if_true]; exact h⟩

/-- One-step characterisation of rejection: a poll emits `err:timeout` for `c` only when
(a) `c` was polled for the first time, no permit was free and `max_wait = 0`, or
(b) `c` was queued, had not been handed a permit, and its deadline has been reached;
and then that result is the only thing the step emits (in particular no `inner_call`). -/
theorem reject_only_by_timeout (cfg : Cfg) (s : State) (c c' : Nat)
    (h : Ev.result c' .timeout ∈ (stepS cfg s (.poll c)).log.drop s.log.length) :
    c' = c ∧ (stepS cfg s (.poll c)).log = s.log ++ [Ev.result c .timeout] ∧
    ((s.fresh.contains c = true ∧ s.free = 0 ∧ cfg.maxWait = some 0) ∨
     (s.fresh.contains c = false ∧ s.assigned.contains c = false ∧ s.queue.contains c = true ∧
        ∃ d, lookup s.deadline c = some d ∧ d ≤ s.now)) :=
  poll_timeout_char cfg s c c' h

/-- Every caller is in at most one phase (never polled / queued / handed a permit / running),
in every reachable state. -/
theorem one_phase (cfg : Cfg) (ops : List Op) (c : Nat) : occ (run cfg ops) c ≤ 1 :=
  (inv2_reachable cfg ops).once c

/-- **A rejected request never reaches the wrapped service.** In every reachable state (hence
at every later time, whatever anybody does), a caller that has been answered with the
wait-timeout error has no `inner_call` in the event log. -/
theorem rejected_never_runs (cfg : Cfg) (ops : List Op) (c : Nat)
    (h : Ev.result c .timeout ∈ (run cfg ops).log) : ∀ k, Ev.innerCall c k ∉ (run cfg ops).log :=
  timeoutClean_reachable cfg ops c h

/-- **A request cancelled while waiting never reaches the wrapped service.** If the caller is
dropped while it has never been polled, is queued, or holds a permit it has not used yet,
then after any continuation `ops'` there is still no `inner_call` for it. -/
theorem cancelled_while_waiting_never_runs (cfg : Cfg) (ops ops' : List Op) (c : Nat)
    (hw : (run cfg ops).fresh.count c + (run cfg ops).queue.count c + (run cfg ops).assigned.count c ≥ 1) :
    ∀ k, Ev.innerCall c k ∉ (run cfg (ops ++ [.drop c] ++ ops')).log := by
  have h2 := inv2_reachable cfg ops
  obtain ⟨hk, ho, hn⟩ := drop_waiting_gone cfg (run cfg ops) c h2 hw
  have := gone_forever cfg ops' _ c hk ho hn
  simpa [run, List.foldl_append, NoCall] using this

/-- Non-vacuity: a queued caller is rejected exactly at its deadline, not one ms earlier. -/
example :
    let ops := [Op.arrive 1 ⟨100, .ok⟩, .arrive 2 ⟨0, .ok⟩, .poll 1, .poll 2, .adv 9, .poll 2]
    (run { max := 1, maxWait := some 10 } ops).queue = [2] ∧
    (run { max := 1, maxWait := some 10 } (ops ++ [.adv 1, .poll 2])).log.getLast? = some (.result 2 .timeout) := by
  decide

/-- Non-vacuity for the two "never runs" theorems: caller 2 is rejected, caller 3 is dropped while
queued; afterwards the slot is free and a fresh caller is admitted, but neither 2 nor 3 ever
reached the inner service. -/
example :
    let ops := [Op.arrive 1 ⟨100, .ok⟩, .arrive 2 ⟨0, .ok⟩, .arrive 3 ⟨0, .ok⟩, .poll 1, .poll 2, .poll 3, .adv 10, .poll 2]
    let s := run { max := 1, maxWait := some 10 } ops
    Ev.result 2 .timeout ∈ s.log ∧ s.queue.count 3 = 1 ∧
    (run { max := 1, maxWait := some 10 } (ops ++ [.drop 3] ++ [.adv 100, .poll 1, .arrive 4 ⟨0, .ok⟩, .poll 4])).serial = 2 := by
  decide

end TR.Props.C07
