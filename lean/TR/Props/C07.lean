import TR.Lemmas.Bulkhead2
import TR.Lemmas.BulkheadMulti
/-!
# C07 — the bulkhead never loses capacity and rejects only by timeout
-/
namespace TR.Props.C07
open TR TR.Bulkhead

/-- After **any** history (successes, errors, panics, never-completing calls that were
dropped, wait timeouts, cancellations in every phase): once nobody holds or has been handed
a permit, all `max` permits are free again. -/
theorem quiescent_full (cfg : Cfg) (ops : List Op)
    (h1 : (run cfg ops).running = []) (h2 : (run cfg ops).assigned = []) :
    (run cfg ops).free = cfg.max := by
  have := (inv_reachable cfg ops).count; simp [h1, h2] at this; exact this

/-- Nobody waits while a permit is free (no lost capacity while callers queue). -/
theorem no_waiter_while_free (cfg : Cfg) (ops : List Op) (h : (run cfg ops).free > 0) :
    (run cfg ops).queue = [] :=
  (inv_reachable cfg ops).noBarge h

/-- A caller polled for the first time while fewer than `max` calls are in flight and nobody
is queued (or has been handed a permit) reaches the inner service in that very step: the
first new event is its `inner_call`. -/
theorem admit_at_once (cfg : Cfg) (ops : List Op) (c : Nat)
    (hf : (run cfg ops).fresh.contains c = true)
    (hr : (run cfg ops).running.length < cfg.max)
    (ha : (run cfg ops).assigned = []) :
    ∃ rest, (stepS cfg (run cfg ops) (.poll c)).log
      = (run cfg ops).log ++ Ev.innerCall c (run cfg ops).serial :: rest := by
  have hc := (inv_reachable cfg ops).count
  have hfree : (run cfg ops).free > 0 := by simp [ha] at hc; omega
  obtain ⟨rest, h⟩ := pollFresh_admits cfg (run cfg ops) c hfree
  exact ⟨rest, by simp only [stepS, hf, if_true]; exact h⟩

/-- One-step characterisation of rejection: a poll emits `err:timeout` for `c` only when
(a) `c` was polled for the first time, no permit was free and `max_wait = 0`, or
(b) `c` was queued, had not been handed a permit, and its deadline has been reached;
and then that result is the only thing the step emits (in particular no `inner_call`). -/
theorem reject_only_by_timeout (cfg : Cfg) (s : State) (c c' : Nat)
    (h : Ev.result c' .timeout ∈ (stepS cfg s (.poll c)).log.drop s.log.length) :
    c' = c ∧ (stepS cfg s (.poll c)).log = s.log ++ [Ev.result c .timeout] ∧
    ((s.fresh.contains c = true ∧ s.free = 0 ∧ cfg.maxWait = some 0) ∨
     (s.fresh.contains c = false ∧ s.assigned.contains c = false ∧ s.queue.contains c = true ∧
        ∃ d, lookup s.deadline c = some d ∧ d ≤ s.now)) :=
  poll_timeout_char cfg s c c' h

/-- Every caller is in at most one phase (never polled / queued / handed a permit / running),
in every reachable state. -/
theorem one_phase (cfg : Cfg) (ops : List Op) (c : Nat) : occ (run cfg ops) c ≤ 1 :=
  (inv2_reachable cfg ops).once c

/-- **A rejected request never reaches the wrapped service.** In every reachable state (hence
at every later time, whatever anybody does), a caller that has been answered with the
wait-timeout error has no `inner_call` in the event log. -/
theorem rejected_never_runs (cfg : Cfg) (ops : List Op) (c : Nat)
    (h : Ev.result c .timeout ∈ (run cfg ops).log) : ∀ k, Ev.innerCall c k ∉ (run cfg ops).log :=
  timeoutClean_reachable cfg ops c h

/-- **A request cancelled while waiting never reaches the wrapped service.** If the caller is
dropped while it has never been polled, is queued, or holds a permit it has not used yet,
then after any continuation `ops'` there is still no `inner_call` for it. -/
theorem cancelled_while_waiting_never_runs (cfg : Cfg) (ops ops' : List Op) (c : Nat)
    (hw : (run cfg ops).fresh.count c + (run cfg ops).queue.count c + (run cfg ops).assigned.count c ≥ 1) :
    ∀ k, Ev.innerCall c k ∉ (run cfg (ops ++ [.drop c] ++ ops')).log := by
  have h2 := inv2_reachable cfg ops
  obtain ⟨hk, ho, hn⟩ := drop_waiting_gone cfg (run cfg ops) c h2 hw
  have := gone_forever cfg ops' _ c hk ho hn
  simpa [run, List.foldl_append, NoCall] using this

/-- Non-vacuity: a queued caller is rejected exactly at its deadline, not one ms earlier. -/
example :
    let ops := [Op.arrive 1 ⟨100, .ok⟩, .arrive 2 ⟨0, .ok⟩, .poll 1, .poll 2, .adv 9, .poll 2]
    (run { max := 1, maxWait := some 10 } ops).queue = [2] ∧
    (run { max := 1, maxWait := some 10 } (ops ++ [.adv 1, .poll 2])).log.getLast? = some (.result 2 .timeout) := by
  decide

/-- Non-vacuity for the two "never runs" theorems: caller 2 is rejected, caller 3 is dropped while
queued; afterwards the slot is free and a fresh caller is admitted, but neither 2 nor 3 ever
reached the inner service. -/
example :
    let ops := [Op.arrive 1 ⟨100, .ok⟩, .arrive 2 ⟨0, .ok⟩, .arrive 3 ⟨0, .ok⟩, .poll 1, .poll 2, .poll 3, .adv 10, .poll 2]
    let s := run { max := 1, maxWait := some 10 } ops
    Ev.result 2 .timeout ∈ s.log ∧ s.queue.count 3 = 1 ∧
    (run { max := 1, maxWait := some 10 } (ops ++ [.drop 3] ++ [.adv 100, .poll 1, .arrive 4 ⟨0, .ok⟩, .poll 4])).serial = 2 := by
  decide

/-! ## several services built from one layer value; refused requests; presets -/

/-- **Services built from one layer value (or from clones of it) share nothing.** An operation of a caller on
service `i` — arrival, refused arrival, poll (admission, completion, rejection), cancellation — leaves the state of
every other service `j` as it was: free permits, queue, permits handed over, calls in flight, deadlines, event log.
(Only the call serial of the scripted backend, common to the harness's inner services, moves.) -/
theorem services_independent (cfg : Cfg) (ms : MState) (i j : Nat) (op : Op) (hij : j ≠ i) (hop : ∀ d, op ≠ .adv d) :
    ∃ n, (stepM cfg ms i op).insts j = { ms.insts j with serial := (ms.insts j).serial + n } :=
  stepM_other cfg ms i j op hij hop

/-- The operation itself acts on its service exactly as on a single bulkhead. -/
theorem service_step (cfg : Cfg) (ms : MState) (i c : Nat) :
    (stepM cfg ms i (.poll c)).insts i = stepS cfg (ms.insts i) (.poll c) := by
  simp [stepM]

/-- **An idle service admits at once, whatever the other services hold.** After any multi-service history, a caller
of service `i` polled for the first time while fewer than `max` calls are in flight *in service `i`* and nobody of
service `i` has been handed a permit reaches the inner service in that very step — no matter how many calls are
running or queued in the other services built from the same layer. -/
theorem service_admit_at_once (cfg : Cfg) (mops : List (Nat × Op)) (i c : Nat)
    (hf : ((runM cfg mops).insts i).fresh.contains c = true)
    (hr : ((runM cfg mops).insts i).running.length < cfg.max)
    (ha : ((runM cfg mops).insts i).assigned = []) :
    ∃ rest, ((stepM cfg (runM cfg mops) i (.poll c)).insts i).log
      = ((runM cfg mops).insts i).log ++ Ev.innerCall c ((runM cfg mops).insts i).serial :: rest := by
  rw [service_step]
  rw [runM_synced] at hf hr ha ⊢
  exact admit_at_once cfg _ c hf hr ha

/-- Each service gets all its permits back once nothing of ITS OWN is in flight. -/
theorem service_quiescent_full (cfg : Cfg) (mops : List (Nat × Op)) (i : Nat)
    (h1 : ((runM cfg mops).insts i).running = []) (h2 : ((runM cfg mops).insts i).assigned = []) :
    ((runM cfg mops).insts i).free = cfg.max := by
  rw [runM_synced] at h1 h2 ⊢
  exact quiescent_full cfg _ h1 h2

/-- In every service, a rejected request never reaches the wrapped service. -/
theorem service_rejected_never_runs (cfg : Cfg) (mops : List (Nat × Op)) (i c : Nat)
    (h : Ev.result c .timeout ∈ ((runM cfg mops).insts i).log) : ∀ k, Ev.innerCall c k ∉ ((runM cfg mops).insts i).log := by
  rw [runM_synced] at h ⊢
  exact rejected_never_runs cfg _ c h

/-- **A request refused because its handle did not become ready never reaches the wrapped service**, whatever
happens afterwards. -/
theorem refused_never_runs (cfg : Cfg) (ops ops' : List Op) (c : Nat) (kind : Option Nat)
    (hk : known (run cfg ops) c = false) :
    ∀ k, Ev.innerCall c k ∉ (run cfg (ops ++ [.refuse c kind] ++ ops')).log := by
  have h2 := inv2_reachable cfg ops
  have hocc : occ (run cfg ops) c = 0 := by
    by_cases ho : occ (run cfg ops) c ≥ 1
    · have := h2.isKnown c ho; rw [hk] at this; cases this
    · omega
  obtain ⟨r, _, f1, f2, f3, f4, f5, f6⟩ := refuseCall_fields (run cfg ops) c kind
  have hstep : stepS cfg (run cfg ops) (.refuse c kind) = refuseCall (run cfg ops) c kind := by
    simp only [stepS, hk, Bool.false_eq_true, if_false]
  have := gone_forever cfg ops' (stepS cfg (run cfg ops) (.refuse c kind)) c
    (by rw [hstep]; simp only [known, f6, lookup, if_true]; rfl)
    (by rw [hstep]; simp only [occ, f1, f2, f3, f4] at hocc ⊢; exact hocc)
    (by
      rw [hstep]; intro k hm; rw [f5] at hm
      rcases List.mem_append.mp hm with hm | hm
      · exact (h2.unknown c hk).1 k hm
      · simp at hm)
  simpa [run, List.foldl_append, NoCall] using this

/-- The presets reject at once when full (zero wait) and are otherwise ordinary configurations: every theorem above
applies to them. -/
theorem presets_reject_when_full :
    presetSmall.maxWait = some 0 ∧ presetMedium.maxWait = some 0 ∧ presetLarge.maxWait = some 0 ∧
    presetSmall.max = 10 ∧ presetMedium.max = 50 ∧ presetLarge.max = 200 := by decide

/-- Non-vacuity: service 0 (`max = 1`, wait 10) is full; its second caller is rejected at the deadline; meanwhile
service 1, built from the same layer, admits its caller at once and is not touched by any of it. -/
example :
    let mops : List (Nat × Op) := [(0, .arrive 1 ⟨100, .ok⟩), (0, .poll 1), (0, .arrive 2 ⟨0, .ok⟩), (0, .poll 2),
      (1, .arrive 3 ⟨100, .ok⟩), (1, .poll 3), (0, .adv 10), (0, .poll 2)]
    let ms := runM { max := 1, maxWait := some 10 } mops
    (ms.insts 0).log = [.innerCall 1 0, .result 2 .timeout] ∧ (ms.insts 1).log = [.innerCall 3 1] ∧
    (ms.insts 1).running = [3] ∧ (ms.insts 0).now = 10 ∧ (ms.insts 1).now = 10 := by decide

end TR.Props.C07
