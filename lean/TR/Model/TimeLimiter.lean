import TR.Model.Common
/-!
# Time limiter (C06) — `crates/tower-resilience-timelimiter/src/lib.rs`

`TimeLimiter::call` (lib.rs:169-175) only captures the per-call timeout
(`config.timeout_source.get_timeout(&req)`: the fixed value, or the value the `timeout_fn`
closure extracts from the request) and the mode; everything else happens inside the returned
`async` block, i.e. at the **first poll** of the call future.  The deadline therefore counts
from the first poll, and so does the inner call's latency (the inner service is called there).

* cancel mode (lib.rs:181-183): `tokio::time::timeout(d, inner.call(req))`.  `Timeout::poll`
  polls the inner future first and the deadline second, so a finished inner call wins whenever
  it is observed, even at or after the deadline; on timeout the inner future is dropped.
* non-cancel mode (lib.rs:184-208): the inner call is `tokio::spawn`ed (it is called, and
  polled, by the runtime right after the caller's first poll and whenever its timer fires, not
  by the caller's polls) and the caller `select!`s — `biased;`, the task's oneshot first, then
  `sleep(d)` — so, as in cancel mode, a finished inner call wins whenever it is observed.
  (Before the repair "fix: time limiter without cancellation prefers a finished inner call
  over the timeout" the `select!` was unbiased and either branch could be taken when both were
  ready.)  After a timeout (or a drop of the call future) the task keeps running to
  completion.  A panicking task closes the oneshot, which the layer reports as a timeout.

One `poll` of one call future is one step.  Every caller has its own record; the only things
callers share are the clock and the harness's response serial counter.

A timeout is a `Duration`: whole milliseconds here, or `Duration::MAX` (`Tmo.max`), the idiomatic
"no limit".  `now + Duration::MAX` is not a representable instant; `tokio::time::timeout` and
`tokio::time::sleep` fall back to a deadline in the far future (`checked_add`, else 30 years), so
such a call is **never due**: it can only resolve with the inner result (`Caller.unl`,
`Caller.due`).

Service handles are not part of the model: the fate of an inner call is a function of its own
caller's operations and the clock (`independent`), so it cannot depend on which handles of the
service are alive (`manual dropsvc` is answered by the driver: later arrivals are `noop`).  The same
holds for the *service* a call goes through when several are built from one layer value, and for the
handle of it the call is made on (a kept handle used again while an earlier call is in flight, a clone
taken after a call): a `TimeLimiter` holds nothing but the wrapped service and the shared, immutable
configuration (lib.rs:119-131), so `arrive … svc=<k> h=<j>` is the `arrive` it would be without these
words, and `manual forget …` (a handle, a service, the layer value dropped) is no operation at all.
What the model says about it is `services_independent` (Props): for ANY division of the callers into
groups — services, handles — each group's records are those of the run that contains only that
group's operations and the clock.

**Wake-up.**  What makes the runtime poll a pending call again is the waker the call future left with the timers it
polled: `Caller.wakeup` is the earliest armed one of {completion of the inner call, deadline}, `State.woken` /
`State.wakeSet` say whose has been reached.  The harness observes the real waker (`probe woken c=<c>`, answered through
the observed choice `@woken=<0|1>`); the model checks the obligation — once the wake-up has been reached the waker must
have fired (`probeWoken`: `lost-wakeup` otherwise); a spurious wake-up is allowed (the poll it causes is silent).

**Entry points** (config.rs, layer.rs, error.rs).  The builder can be obtained in three ways
(`Start`), all the same default configuration; `.name(..)` and the listener setters leave the timeout
source and the mode alone (`Setter.name`, `Setter.listen`); the timeout source of a configuration as a
stand-alone `TimeoutFn` value (`Src`: `FixedTimeout::new(d)` / `DynamicTimeout::new(f)`), copied any
number of times through `Clone` / `clone_box`, answers `get_timeout` exactly as the layer does
(`probeSource`); what the accessors of `TimeLimiterError` and the conversion into `ResilienceError`
answer for each result the model can deliver is `isTimeout` / `intoInner` / `asResilience`.

**Readiness** (lib.rs:165-167): `TimeLimiter::poll_ready` is `self.inner.poll_ready(cx).map_err(Inner)` —
`Pending` and `Err` of the wrapped service propagate to the caller, who then makes no call at all
(`Op.refused`: the only trace is the caller's answer, no record exists, no inner call is ever made
for it); `call()` takes the very instance that was polled ready.  Back-pressure is therefore settled
*before* `call()`: the response future never waits for readiness, and the deadline of a call made
later (a retry under a fresh caller id) counts from ITS first poll.  The wrapped service's readiness
itself (`Rd`: a script of answers, a recovery time after every call) is the harness's scripted
inner service; `stepR` lets every arrival meet it and hands the service the operation it actually
sees (`effOp`).
-/
namespace TR.TimeLimiter

/-- a timeout value -/
inductive Tmo
  | ms (n : Nat)
  | max                   -- `Duration::MAX`: never due
deriving Repr, DecidableEq

instance (n : Nat) : OfNat Tmo n := ⟨.ms n⟩

/-- milliseconds of a finite timeout (0 for `max`, where it means nothing) -/
def Tmo.val : Tmo → Nat
  | .ms n => n
  | .max => 0

/-- the timeout is `Duration::MAX` -/
def Tmo.unl : Tmo → Bool
  | .ms _ => false
  | .max => true

structure Cfg where
  timeout : Tmo           -- fixed timeout / default of the per-request source (ms, or `max`)
  cancel  : Bool          -- `cancel_running_future`
  dyn     : Bool          -- timeout source is `timeout_fn` (per request) rather than fixed
deriving Repr, DecidableEq

/-! ## the builder

`TimeLimiterLayer::builder()` starts from a fixed timeout of 5 s, cancelling (config.rs
`TimeLimiterConfigBuilder::new`).  `cancel_running_future` overwrites the flag in place;
`timeout_duration` and `timeout_fn` change the builder's *type* and therefore rebuild it field
by field, carrying the flag (and name, listeners) over (config.rs:186-240).  So every field is
"last setter wins", whatever the order of the setters of the other fields. -/

inductive Setter
  | dur (ms : Tmo)          -- `.timeout_duration(ms)`
  | fn (dflt : Tmo)         -- `.timeout_fn(f)`; `dflt`: what `f` returns for a request without its own timeout
  | cancel (b : Bool)       -- `.cancel_running_future(b)`
  | name (s : String)       -- `.name(s)`: observability only
  | listen (kind : Nat)     -- `.on_success(f)` (0) / `.on_error(f)` (1) / `.on_timeout(f)` (2): observability only
deriving Repr, DecidableEq

def defaultCfg : Cfg := { timeout := 5000, cancel := true, dyn := false }

def applySetter (cfg : Cfg) : Setter → Cfg
  | .dur ms => { cfg with timeout := ms, dyn := false }
  | .fn d => { cfg with timeout := d, dyn := true }
  | .cancel b => { cfg with cancel := b }
  | .name _ => cfg
  | .listen _ => cfg

/-- the configuration `builder().s₁.s₂.….build()` ends up with -/
def build (chain : List Setter) : Cfg := chain.foldl applySetter defaultCfg

/-- where the builder comes from: `TimeLimiterLayer::builder()` (layer.rs:108), `TimeLimiterConfigBuilder::new()`
(config.rs:157), `TimeLimiterConfigBuilder::default()` (config.rs:148, which is `new()`) -/
inductive Start
  | builder
  | new
  | dflt
deriving Repr, DecidableEq

/-- what the builder starts from: in every case a fixed timeout of 5 s, cancelling -/
def startCfg : Start → Cfg
  | .builder => defaultCfg
  | .new => defaultCfg
  | .dflt => defaultCfg

/-- the configuration `<start>.s₁.s₂.….build()` ends up with -/
def buildFrom (st : Start) (chain : List Setter) : Cfg := chain.foldl applySetter (startCfg st)

/-! ## the timeout source as a value of its own

`FixedTimeout::new(d)` (config.rs:30) answers `d` for every request; `DynamicTimeout::new(f)` (config.rs:63)
answers `f(req)` — here: the request's own timeout, else the default the closure was built with.  Both are
`Clone` and can be boxed through `TimeoutFn::clone_box` (config.rs:40, 54, 76); a copy is the same source. -/

inductive Src
  | fixed (t : Tmo)
  | dynamic (dflt : Tmo)
deriving Repr, DecidableEq

/-- `get_timeout(&req)`; `own`: the timeout the request carries, if any -/
def Src.get : Src → Option Tmo → Tmo
  | .fixed t, _ => t
  | .dynamic d, own => own.getD d

/-- one copy: `Clone::clone` of the concrete value, or `TimeoutFn::clone_box` (of the value, or of a boxed copy) -/
inductive Copy
  | clone
  | box
deriving Repr, DecidableEq

def Src.copy (s : Src) : Copy → Src
  | .clone => s
  | .box => s

/-- the source a configuration asks for, constructed stand-alone with the arguments of its timeout setter -/
def Cfg.source (cfg : Cfg) : Src := if cfg.dyn then .dynamic cfg.timeout else .fixed cfg.timeout

/-- `probe source`: that source, copied along `path`, asked for the timeout of a request -/
def probeSource (cfg : Cfg) (path : List Copy) (own : Option Tmo) : Tmo :=
  (path.foldl Src.copy cfg.source).get own

/-- the call future -/
inductive Outer
  | fresh                 -- created by `call()`, never polled: nothing has happened yet
  | waiting               -- polled at least once, unresolved
  | gone                  -- resolved or dropped
deriving Repr, DecidableEq

/-- the inner call -/
inductive InnerSt
  | idle                  -- `inner.call` not yet invoked
  | running
  | finished              -- ran to completion (`inner_done`)
  | dropped               -- future dropped before completion (`inner_drop`)
deriving Repr, DecidableEq

/-- what a caller is told -/
inductive CRes
  | ok
  | err (kind : Nat)
  | panic
  | timeout
deriving Repr, DecidableEq

/-- per-caller events (no caller id, no serial) -/
inductive CEv
  | called
  | done (o : Out)
  | dropped
  | result (r : CRes)
deriving Repr, DecidableEq

structure Caller where
  outer : Outer := .fresh
  inner : InnerSt := .idle
  tmo   : Nat                       -- timeout captured by `call()` (ms) …
  unl   : Bool := false             -- … or `Duration::MAX`: no deadline at all (`tmo` means nothing)
  sc    : Step                      -- scripted inner call
  start : Nat := 0                  -- instant of the first poll (inner call + deadline armed)
  hist  : List (Nat × CEv) := []    -- ghost: this caller's events with their instants
deriving Repr, DecidableEq

def Caller.doneAt (x : Caller) : Nat := x.start + x.sc.lat
def Caller.deadline (x : Caller) : Nat := x.start + x.tmo

/-- the deadline has been reached at `now`; never, for a timeout of `Duration::MAX` -/
def Caller.due (x : Caller) (now : Nat) : Prop := x.unl = false ∧ x.deadline ≤ now

instance (x : Caller) (now : Nat) : Decidable (x.due now) :=
  inferInstanceAs (Decidable (x.unl = false ∧ x.deadline ≤ now))

/-! ## the wake-up of a pending call

A call future that returned `Pending` has left its waker with the timers it polled: in cancel mode the inner
future's own timer (it completes at `doneAt`; a never-completing inner call registers nothing) and the deadline
of `tokio::time::timeout` (none that the clock reaches for `Duration::MAX`); in non-cancel mode the oneshot (the
spawned task sends — or, panicking, drops the sender — at `doneAt`) and `sleep(timeout)`.  The runtime is told to
poll the caller again at the earliest of the armed ones; nothing else ever wakes it. -/

/-- the instant at which the runtime will poll the caller again: the inner call's completion instant or the
deadline, whichever is armed (the earlier one if both are); `none`: no call future is pending, or nothing is
armed (`Duration::MAX` over an inner call that never completes: pending for ever) -/
def Caller.wakeup (x : Caller) : Option Nat :=
  if x.outer ≠ .waiting then none
  else if x.sc.out = .never then (if x.unl then none else some x.deadline)
  else if x.unl then some x.doneAt
  else some (min x.doneAt x.deadline)

/-- record events in the caller's ghost history and hand them on -/
def note (now : Nat) (x : Caller) (evs : List CEv) : Caller × List CEv :=
  ({ x with hist := x.hist ++ evs.map (fun e => (now, e)) }, evs)

/-- what the caller gets when the inner outcome reaches it directly (cancel mode) -/
def resOf : Out → CRes
  | .ok => .ok
  | .err k => .err k
  | .panic => .panic
  | .never => .timeout

/-- what the caller gets through the oneshot (non-cancel mode): a panicked task has dropped
the sender, `rx` yields `Err(RecvError)`, `.ok()` makes it `None` = timeout (lib.rs:195-198) -/
def resRx : Out → CRes
  | .ok => .ok
  | .err k => .err k
  | .panic => .timeout
  | .never => .timeout

/-- first poll: the async block starts; `inner.call(req)` happens here -/
def begin (now : Nat) (x : Caller) : Caller :=
  { x with outer := .waiting, inner := .running, start := now }

/-! ## cancel mode -/

/-- `Timeout::poll`: the inner future first, the deadline second -/
def pollCancel (now : Nat) (x : Caller) : Caller × List CEv :=
  if x.sc.out ≠ .never ∧ x.doneAt ≤ now then
    note now { x with outer := .gone, inner := .finished } [.done x.sc.out, .result (resOf x.sc.out)]
  else if x.due now then
    note now { x with outer := .gone, inner := .dropped } [.dropped, .result .timeout]
  else (x, [])

def firstPollCancel (now : Nat) (x : Caller) : Caller × List CEv :=
  let (x1, _) := note now (begin now x) [.called]
  let (x2, evs) := pollCancel now x1
  (x2, .called :: evs)

/-! ## non-cancel mode -/

/-- the spawned task is polled by the runtime: it completes as soon as its latency is over -/
def runTask (now : Nat) (x : Caller) : Caller × List CEv :=
  if x.inner = .running ∧ x.sc.out ≠ .never ∧ x.doneAt ≤ now then
    note now { x with inner := .finished } [.done x.sc.out]
  else (x, [])

def deliver (now : Nat) (x : Caller) : Caller × List CEv :=
  note now { x with outer := .gone } [.result (resRx x.sc.out)]

def expire (now : Nat) (x : Caller) : Caller × List CEv :=
  note now { x with outer := .gone } [.result .timeout]

/-- `select! { biased; rx, sleep(timeout) }`: the oneshot first, the deadline second -/
def pollDetached (now : Nat) (x : Caller) : Caller × List CEv :=
  if x.inner = .finished then deliver now x
  else if x.due now then expire now x
  else (x, [])

/-- first poll: spawn (the task runs right after this poll), then `select!`: the oneshot is
still empty, `sleep(timeout)` is ready at once only for a zero timeout -/
def firstPollDetached (now : Nat) (x : Caller) : Caller × List CEv :=
  let x0 := begin now x
  if x.unl = false ∧ x.tmo = 0 then
    let (x1, e1) := expire now x0
    let (x2, e2) := note now x1 [.called]
    let (x3, e3) := runTask now x2
    (x3, e1 ++ e2 ++ e3)
  else
    let (x1, e1) := note now x0 [.called]
    let (x2, e2) := runTask now x1
    (x2, e1 ++ e2)

/-! ## one operation on one caller -/

def pollC (cfg : Cfg) (now : Nat) (x : Caller) : Caller × List CEv :=
  match x.outer with
  | .fresh => if cfg.cancel then firstPollCancel now x else firstPollDetached now x
  | .waiting => if cfg.cancel then pollCancel now x else pollDetached now x
  | .gone => (x, [])

def dropC (cfg : Cfg) (now : Nat) (x : Caller) : Caller × List CEv :=
  match x.outer with
  | .fresh => ({ x with outer := .gone }, [])
  | .waiting =>
      if cfg.cancel then note now { x with outer := .gone, inner := .dropped } [.dropped]
      else ({ x with outer := .gone }, [])       -- the spawned task is not affected
  | .gone => (x, [])

/-- time reaches `now`: in non-cancel mode the runtime completes the due tasks -/
def advC (cfg : Cfg) (now : Nat) (x : Caller) : Caller × List CEv :=
  if cfg.cancel then (x, []) else runTask now x

/-! ## the whole service -/

structure State where
  now     : Nat := 0
  serial  : Nat := 0                       -- harness: index of the next inner call
  callers : List (Nat × Caller) := []      -- in order of arrival, keys unique
  kOf     : List (Nat × Nat) := []         -- serial of a caller's inner call
  log     : List Ev := []                  -- ghost: every event so far
deriving Repr

inductive Op
  | arrive (c : Nat) (tmo : Option Tmo) (sc : Step)
  | poll (c : Nat)
  | drop (c : Nat)
  | adv (ms : Nat)
  /-- caller `c` asked `poll_ready` while the wrapped service was not ready (`err = false`: `Pending`) or
  had failed (`err = true`): the answer is handed on, the caller makes no call -/
  | refused (c : Nat) (err : Bool)
deriving Repr, DecidableEq

/-- the caller an operation belongs to (the clock belongs to nobody) -/
def Op.caller : Op → Option Nat
  | .arrive c _ _ => some c
  | .poll c => some c
  | .drop c => some c
  | .adv _ => none
  | .refused c _ => some c

/-- what a caller whose `poll_ready` was not `Ready(Ok)` is told (harness: `notready`, or the rendered
readiness error of the scripted inner service, `IErr { kind: 9, v: 0 }` wrapped in `TimeLimiterError::Inner`) -/
def refusal (err : Bool) : Res := if err then .inner 9 0 else .notReady

def CRes.toRes (k : Nat) : CRes → Res
  | .ok => .ok k
  | .err kd => .inner kd k
  | .panic => .panic
  | .timeout => .timeout

/-! ## what the accessors of the error type say (error.rs:33-60)

`TimeLimiterError::is_timeout`, `into_inner`, and `ResilienceError::from`, for the results the model delivers
(`Res.timeout` = `Err(Timeout)`, `Res.inner kd v` = `Err(Inner(e))`; everything else is not an error of the layer). -/

def isTimeout : Res → Bool
  | .timeout => true
  | _ => false

/-- `into_inner()`: the inner error (kind, serial), if any -/
def intoInner : Res → Option (Nat × Nat)
  | .inner kd v => some (kd, v)
  | _ => none

/-- `ResilienceError` as far as the time limiter produces it -/
inductive RErr
  | timeout (layer : String)
  | application (kind v : Nat)
deriving Repr, DecidableEq

def asResilience : Res → Option RErr
  | .timeout => some (.timeout "time_limiter")
  | .inner kd v => some (.application kd v)
  | _ => none

def toEv (c k : Nat) : CEv → Ev
  | .called => .innerCall c k
  | .done o => .innerDone c k o
  | .dropped => .innerDrop c k
  | .result r => .result c (r.toRes k)

/-- replace the record of caller `c` -/
def setC (l : List (Nat × Caller)) (c : Nat) (v : Caller) : List (Nat × Caller) :=
  l.map fun p => if p.1 = c then (p.1, v) else p

/-- apply a per-caller transition to caller `c`; an inner call started in this step gets the
next serial -/
def applyC (s : State) (c : Nat) (f : Caller → Caller × List CEv) : State :=
  match lookup s.callers c with
  | none => s
  | some x =>
      let r := f x
      let starts := r.2.contains .called
      let k := if starts then s.serial else (lookup s.kOf c).getD 0
      { s with callers := setC s.callers c r.1,
               kOf := if starts then (c, s.serial) :: s.kOf else s.kOf,
               serial := if starts then s.serial + 1 else s.serial,
               log := s.log ++ r.2.map (toEv c k) }

/-- insertion into a list sorted by (instant, serial): tokio's timer wheel fires in deadline
order and, within one millisecond, in registration order (= order of the inner calls) -/
def insDue (e : Nat × Nat × Ev) (l : List (Nat × Nat × Ev)) : List (Nat × Nat × Ev) :=
  match l with
  | [] => [e]
  | h :: tl =>
      if e.1 < h.1 ∨ (e.1 = h.1 ∧ e.2.1 < h.2.1) then e :: h :: tl else h :: insDue e tl

/-- the `inner_done` events of the tasks that complete when time reaches `now`, in firing order -/
def dueEvents (cfg : Cfg) (now : Nat) (kOf : List (Nat × Nat)) (l : List (Nat × Caller)) : List Ev :=
  let due := l.foldl (fun acc p =>
    let k := (lookup kOf p.1).getD 0
    (advC cfg now p.2).2.foldl (fun acc e => insDue (p.2.doneAt, k, toEv p.1 k e) acc) acc) []
  due.map (fun e => e.2.2)

def effTimeout (cfg : Cfg) (tmo : Option Tmo) : Tmo :=
  if cfg.dyn then tmo.getD cfg.timeout else cfg.timeout

/-- the record of a call just made: `call()` has captured the timeout -/
def newCaller (t : Tmo) (sc : Step) : Caller := { tmo := t.val, unl := t.unl, sc := sc }

def stepS (cfg : Cfg) (s : State) (op : Op) : State :=
  match op with
  | .adv ms =>
      let now := s.now + ms
      { s with now := now,
               callers := s.callers.map (fun p => (p.1, (advC cfg now p.2).1)),
               log := s.log ++ dueEvents cfg now s.kOf s.callers }
  | .arrive c tmo sc =>
      match lookup s.callers c with
      | some _ => s
      | none => { s with callers := s.callers ++ [(c, newCaller (effTimeout cfg tmo) sc)] }
  | .poll c => applyC s c (pollC cfg s.now)
  | .drop c => applyC s c (dropC cfg s.now)
  | .refused c e =>
      match lookup s.callers c with
      | some _ => s
      | none => { s with log := s.log ++ [Ev.result c (refusal e)] }

def init : State := {}
def run (cfg : Cfg) (ops : List Op) : State := ops.foldl (stepS cfg) init

/-- the waker of caller `c` must have fired by now: its call is pending and the armed wake-up has been reached -/
def State.woken (s : State) (c : Nat) : Bool :=
  match lookup s.callers c with
  | some x =>
      match x.wakeup with
      | some w => decide (w ≤ s.now)
      | none => false
  | none => false

/-- the wake set: the callers the runtime has been told to poll -/
def State.wakeSet (s : State) : List Nat := (s.callers.filter (fun p => s.woken p.1)).map (fun p => p.1)

/-- `probe woken c=<c> @woken=<0|1>`: the harness reports whether the waker of `c`'s call future has fired since its
last poll.  A waker may fire spuriously (the contract of `Future::poll` allows it, a poll then finds nothing:
`pending_before_wake`); it must not stay silent once the wake-up instant has been reached. -/
def probeWoken (s : State) (c : Nat) (observed : Bool) : Ev :=
  if s.woken c && !observed then Ev.probe s!"woken {c} lost-wakeup" else Ev.probe s!"woken {c}"

/-! ## readiness of the wrapped service

The scripted inner service of the harness (`world.rs`, `Inner::strict_rec`): every `poll_ready` on a
fresh clone first looks at the service-wide recovery (`busy`: after a call on any instance every
instance is `Pending` until `recMs` after that call, when `recAll`; the per-instance recovery
(`recAll = false`) is never met through the time limiter, which hands the called instance to the
response future and leaves a fresh clone behind), then consumes one answer of the script (exhausted:
ready). -/

/-- one answer of the wrapped service's `poll_ready` -/
inductive RAns
  | ready
  | pending
  | err
deriving Repr, DecidableEq

structure Rd where
  script : List RAns := []
  recMs  : Nat := 0
  recAll : Bool := false
  busy   : Option Nat := none        -- `busy_until`
deriving Repr, DecidableEq

def Rd.isBusy (rd : Rd) (now : Nat) : Bool :=
  match rd.busy with
  | some t => decide (now < t)
  | none => false

/-- one `poll_ready` of a fresh clone of the wrapped service at `now` -/
def Rd.answer (rd : Rd) (now : Nat) : RAns × Rd :=
  if rd.isBusy now then (.pending, rd) else
  match rd.script with
  | [] => (.ready, rd)
  | a :: tl => (a, { rd with script := tl })

/-- the wrapped service has been called at `now` -/
def Rd.called (rd : Rd) (now : Nat) : Rd :=
  if rd.recAll = true ∧ 0 < rd.recMs then { rd with busy := some (now + rd.recMs) } else rd

/-- the operation the service actually sees: the arrival of a new caller is `poll_ready` + `call()`
only if the wrapped service answers `Ready(Ok)`; otherwise the answer is propagated (`refused`) -/
def effOp (rd : Rd) (s : State) (op : Op) : Rd × Op :=
  match op with
  | .arrive c _ _ =>
      match lookup s.callers c with
      | some _ => (rd, op)
      | none =>
          match rd.answer s.now with
          | (.ready, rd') => (rd', op)
          | (.pending, rd') => (rd', .refused c false)
          | (.err, rd') => (rd', .refused c true)
  | _ => (rd, op)

/-- one requested operation against the service over a wrapped service with readiness `p.1`; an inner
call made in this step (a first poll) starts the wrapped service's recovery -/
def stepR (cfg : Cfg) (p : Rd × State) (op : Op) : Rd × State :=
  let s' := stepS cfg p.2 (effOp p.1 p.2 op).2
  (if s'.serial = p.2.serial then (effOp p.1 p.2 op).1 else (effOp p.1 p.2 op).1.called p.2.now, s')

def runR (cfg : Cfg) (rd : Rd) (ops : List Op) : Rd × State := ops.foldl (stepR cfg) (rd, init)

/-- the operations the service sees when `ops` are requested from `p` on -/
def effFrom (cfg : Cfg) (p : Rd × State) : List Op → List Op
  | [] => []
  | op :: tl => (effOp p.1 p.2 op).2 :: effFrom cfg (stepR cfg p op) tl

def effOps (cfg : Cfg) (rd : Rd) (ops : List Op) : List Op := effFrom cfg (rd, init) ops

/-! ## line protocol -/

/-- `<ms>` or `max` -/
def parseTmo (s : String) : Option Tmo :=
  if s = "max" then some .max else s.toNat?.map .ms

def parseOp (ws : List String) : Option Op :=
  match ws with
  | "arrive" :: c :: rest =>
      let kv := parseKv rest
      some (.arrive (c.toNat?.getD 0) ((kv.get "timeout").bind parseTmo) ((planOf kv).headD { lat := 0, out := .ok }))
  | "poll" :: c :: _ => some (.poll (c.toNat?.getD 0))
  | "drop" :: c :: _ => some (.drop (c.toNat?.getD 0))
  | "adv" :: ms :: _ => some (.adv (ms.toNat?.getD 0))
  | _ => none

/-- header `ready=<script>` ('p' pending, 'e' error, anything else ready), `rec=<ms>`, `recall=<0|1>` -/
def parseRd (kv : Kv) : Rd :=
  { script := (kv.str "ready" "").toList.map (fun ch => if ch = 'p' then RAns.pending else if ch = 'e' then .err else .ready),
    recMs := kv.nat "rec" 0, recAll := kv.nat "recall" 0 != 0 }

/-- `d<ms>` / `f<ms>` / `dmax` / `fmax` / `c0` / `c1` / `n<text>` / `ls` `le` `lt`; anything else is skipped (as the
harness does) -/
def parseSetter (w : String) : Option Setter :=
  let arg := (w.drop 1).toString.toNat?
  let t := parseTmo (w.drop 1).toString
  if w.startsWith "d" then t.map .dur
  else if w.startsWith "f" then t.map .fn
  else if w.startsWith "c" then
    match arg with
    | some 0 => some (.cancel false)
    | some 1 => some (.cancel true)
    | _ => none
  else if w.startsWith "n" then some (.name (w.drop 1).toString)
  else if w = "ls" then some (.listen 0)
  else if w = "le" then some (.listen 1)
  else if w = "lt" then some (.listen 2)
  else none

/-- header word `via=<builder|new|default>` -/
def parseStart (w : String) : Start :=
  if w = "new" then .new else if w = "default" then .dflt else .builder

/-- `path=<[cb]*>` of `probe source`; other letters are skipped (as the harness does) -/
def parsePath (w : String) : List Copy :=
  w.toList.filterMap fun ch => if ch = 'c' then some Copy.clone else if ch = 'b' then some Copy.box else none

def Tmo.render : Tmo → String
  | .ms n => toString n
  | .max => "max"

/-- header word `chain=s1,s2,…`: the builder chain, left to right -/
def parseChain (s : String) : List Setter := (s.splitOn ",").filterMap parseSetter

def machine : Machine where
  σ := Cfg × Rd × State
  init kv :=
    let cfg : Cfg :=
      match kv.get "chain" with
      | some ch => buildFrom (parseStart (kv.str "via" "builder")) (parseChain ch)
      | none => { timeout := ((kv.get "timeout").bind parseTmo).getD 5000, cancel := kv.nat "cancel" 1 != 0,
                  dyn := kv.nat "dyn" 0 != 0 }
    (cfg, parseRd kv, init)
  step := fun (cfg, rd, s) ws =>
    match ws with
    | "probe" :: "source" :: rest =>
        -- an observation: the state is untouched
        let kv := parseKv rest
        ((cfg, rd, s), [Ev.probe ("source " ++ (probeSource cfg (parsePath (kv.str "path" "")) ((kv.get "timeout").bind parseTmo)).render)])
    | "probe" :: "woken" :: rest =>
        -- an observation: the state is untouched
        let kv := parseKv rest
        ((cfg, rd, s), [probeWoken s (kv.nat "c" 0) (kv.nat "@woken" 1 != 0)])
    | _ =>
    match parseOp ws with
    | some op => let p := stepR cfg (rd, s) op; ((cfg, p), p.2.log.drop s.log.length)
    | none => ((cfg, rd, s), [])
  now := fun (_, _, s) => s.now

/-! ## a timeout function that reads mutable state: the knob

A `timeout_fn` is an arbitrary closure: it may read anything — a budget knob an operator turns at run time, a
counter — not only the request.  The harness's closure answers the request's own `timeout=`, else the current value
of a knob (`manual knob v=<ms|max>`; `v=-`: unset), else the default it was built with.  `call()` asks the timeout
source (lib.rs:176): what counts is the knob's value WHEN THE CALL IS MADE (`arrive`), whatever happens to the knob
before the response future is first polled, and in whatever order the response futures are first polled.  So a
request made under knob `k` that carries no timeout of its own IS the request carrying `k` (`withKnob`), and turning
the knob is no operation of the service at all (`stepK`). -/

/-- what `timeout_fn` sees for a request made while the knob is `knob`: the request's own timeout, else the knob -/
def withKnob (knob own : Option Tmo) : Option Tmo :=
  match own with
  | some t => some t
  | none => knob

inductive KOp
  | knob (v : Option Tmo)       -- `manual knob v=…`
  | op (o : Op)
deriving Repr, DecidableEq

/-- the operation the service sees for a requested one while the knob is `knob` -/
def knobOp (knob : Option Tmo) : Op → Op
  | .arrive c own sc => .arrive c (withKnob knob own) sc
  | o => o

def stepK (cfg : Cfg) (p : Option Tmo × State) : KOp → Option Tmo × State
  | .knob v => (v, p.2)
  | .op o => (p.1, stepS cfg p.2 (knobOp p.1 o))

def runK (cfg : Cfg) (ops : List KOp) : Option Tmo × State := ops.foldl (stepK cfg) (none, init)

/-- line level: an `arrive` / `probe source` line without a `timeout=` word, under knob `k`, is the line with
`timeout=<k>` -/
def knobWords (knob : Option Tmo) (ws : List String) : List String :=
  match knob with
  | none => ws
  | some k =>
      let rest := match ws with
        | "arrive" :: _ :: rest => some rest
        | "probe" :: "source" :: rest => some rest
        | _ => none
      match rest with
      | some r => if ((parseKv r).get "timeout").isSome then ws else ws ++ ["timeout=" ++ k.render]
      | none => ws

/-- `machine` under a `timeout_fn` that reads the knob -/
def machineK : Machine where
  σ := machine.σ × Option Tmo
  init kv := (machine.init kv, none)
  step := fun (m, knob) ws =>
    match ws with
    | "manual" :: "knob" :: rest => ((m, ((parseKv rest).get "v").bind parseTmo), [])
    | _ => let r := machine.step m (knobWords knob ws); ((r.1, knob), r.2)
  now := fun (m, _) => machine.now m

end TR.TimeLimiter
