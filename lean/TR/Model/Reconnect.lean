import TR.Model.Common
/-!
# Reconnect (C16) — `crates/tower-resilience-reconnect/src/service.rs`

`ReconnectService::call` calls the inner service at once and returns a `ReconnectFuture` whose
`poll` is a loop over `Phase::{Calling, Sleeping, Readying, Failed}`. One `poll` of one call future is one
model step; inside it the loop is the small-step relation `trans` (calling → done | sleeping,
sleeping → readying | done, readying → calling | done) iterated with fuel `3·|plan| + 4`, which
`TR/Lemmas/Reconnect.lean` proves sufficient (`loop_complete`).

`Readying` (service.rs:210-220): after the back-off the future polls the readiness of its own clone of the inner
service before it calls it again: pending → the future is pending; a readiness ERROR → the request ends with
`ServiceError(readiness error)` — the error of the last call (`last_error`) is dropped, the published state stays as it
is. The inner service's readiness is scripted (`Op.inner`): a recovery time after every call during which it is
pending, and a list of answers (ready / error) consumed by successive `poll_ready` calls outside the recovery.

Time is whole milliseconds (tokio timer resolution), policy delays are nanoseconds; a sleep of
`d` ns ends at the first millisecond tick `≥ now + d`.

The published `ReconnectState` is the shared field `conn`; `writer` is ghost (the caller whose
future stored the current value). Every caller keeps the ghost list `calls` of its inner calls
(latest first), each retry with the sleep that preceded it.
-/
namespace TR.Reconnect

inductive Conn
  | connected
  | disconnected
  | reconnecting
deriving DecidableEq, Repr, Inhabited

/-- `ReconnectPolicy` (policy.rs). `exp` is `ReconnectPolicy::exponential` (multiplier 2);
`jitter` stands for a randomised policy: the delay is an observed choice of the implementation
that must lie within `pct` % of the exponential value; `custom` is any `IntervalFunction`. -/
inductive Policy
  | none
  | fixed (ns : Nat)
  | exp (initial cap : Nat)
  | jitter (initial cap pct : Nat)
  | custom (f : Nat → Nat)

def expDelay (initial cap a : Nat) : Nat := min (initial * 2 ^ a) cap

def Policy.has : Policy → Bool
  | .none => false
  | _ => true

/-- `allowed p a d`: `d` (ns) is a value `delay_for_attempt a` may return under policy `p` -/
def Policy.allowed : Policy → Nat → Nat → Bool
  | .none, _, _ => false
  | .fixed n, _, d => d == n
  | .exp i c, a, d => d == expDelay i c a
  | .jitter i c pct, a, d =>
      decide (expDelay i c a * (100 - pct) ≤ d * 100 + 100) && decide (d * 100 ≤ expDelay i c a * (100 + pct) + 100)
  | .custom f, a, d => d == f a

inductive DelayAns
  | noPolicy
  | bad
  | delay (d : Nat) (rest : List Nat)

/-- `config.policy.delay_for_attempt(attempt)`; randomised policies consume an observed choice -/
def nextDelay (p : Policy) (a : Nat) (obs : List Nat) : DelayAns :=
  match p with
  | .none => .noPolicy
  | .fixed n => .delay n obs
  | .exp i c => .delay (expDelay i c a) obs
  | .custom f => .delay (f a) obs
  | .jitter i c pct =>
      match obs with
      | [] => .bad
      | d :: rest => if (Policy.jitter i c pct).allowed a d then .delay d rest else .bad

structure Cfg where
  maxAttempts : Option Nat      -- `None` = unlimited
  policy : Policy
  retry : Bool                  -- retry_on_reconnect
  reconn : Nat → Bool           -- should_reconnect on the error kind (no predicate = always true)

def exceeded (cfg : Cfg) (a : Nat) : Bool :=
  match cfg.maxAttempts with
  | some m => decide (m < a)
  | none => false

/-- result of a request, `ReconnectError` variants with the wrapped inner error (kind, serial) -/
inductive RRes
  | ok (k : Nat)
  | panic
  | service (kind k : Nat)
  | connFailed (kind k : Nat)
  | noRetry (kind k : Nat)
  | maxAttempts (attempts kind k : Nat)
  | readyErr                      -- `ServiceError` wrapping the inner service's READINESS error (after a back-off)
  | notReady                      -- the caller found the service not ready (pending or error) and made no call
deriving DecidableEq, Repr, Inhabited

/-- one scripted answer of the inner service's `poll_ready` -/
inductive Rdy
  | ready
  | error
deriving DecidableEq, Repr, Inhabited

inductive RdyAns
  | ready
  | pending
  | error
deriving DecidableEq, Repr, Inhabited

inductive REv
  | call (c k : Nat)
  | done (c k : Nat) (o : Out)
  | dropped (c k : Nat)
  | result (c : Nat) (r : RRes)
  | probe (x : Conn)
  | bad
  | readyErr                      -- the inner service answered a readiness poll with an error
deriving DecidableEq, Repr, Inhabited

/-- ghost: the sleep before a retry -/
structure SleepRec where
  attempt : Nat     -- argument given to `delay_for_attempt`
  since : Nat       -- instant (ms) the error was handled and the sleep created
  delay : Nat       -- ns
deriving DecidableEq, Repr, Inhabited

/-- ghost: one inner call of a request -/
structure CallRec where
  k : Nat           -- serial
  t : Nat           -- instant of `call()`
  step : Step       -- scripted latency and outcome
  pre : Option SleepRec
deriving DecidableEq, Repr, Inhabited

inductive Phase
  | calling (k doneAt : Nat) (out : Out)
  | sleeping (wake : Nat)
  | readying (wake : Nat)                 -- back-off over (it ended at `wake`); waiting for the inner service's readiness
  | done
deriving DecidableEq, Repr, Inhabited

structure Caller where
  phase : Phase
  attempt : Nat := 0
  lastErr : Option (Nat × Nat) := none
  plan : List Step                        -- scripted steps not yet consumed
  calls : List CallRec := []              -- ghost, latest first
  pend : Option SleepRec := none          -- ghost, the sleep in progress
  result : Option RRes := none
deriving Repr, Inhabited

/-- what one poll reads and writes besides its own future -/
structure Shared where
  now : Nat := 0
  serial : Nat := 0
  conn : Conn := .disconnected            -- ReconnectState::new()
  writer : Option Nat := none             -- ghost
  attempts : Nat := 0                     -- ReconnectState::attempts (state.rs:28): written only by `increment_attempts` / `mark_connected`
  lastConn : Nat := 0                     -- ReconnectState::last_connected (state.rs:31), see `mark`
  log : List REv := []                    -- ghost: every event so far
  tlog : List (Nat × REv) := []           -- ghost: the same events, each with the instant (`now`) at which it was appended —
                                          -- the `t=` the driver prints in front of every line (`tlog_is_what_the_driver_prints`)
  obs : List Nat := []                    -- observed choices attached to the current operation
  script : List Rdy := []                 -- inner service: scripted readiness answers not yet consumed (then: ready)
  recover : Nat := 0                      -- inner service: after a call, `poll_ready` is pending for this long (ms)
  busyUntil : Nat := 0                    -- inner service: end of the current recovery
deriving Repr, Inhabited

structure State where
  sh : Shared := {}
  callers : List (Nat × Caller) := []
deriving Repr, Inhabited

inductive Op
  | arrive (c : Nat) (plan : List Step)
  | poll (c : Nat) (obs : List Nat)
  | drop (c : Nat)
  | adv (ms : Nat)
  | probe
  | incr                                  -- the application calls `ReconnectState::increment_attempts()` on the shared handle
  | inner (script : List Rdy) (recover : Nat)   -- the wrapped service's readiness behaviour from now on

def ceilMs (ns : Nat) : Nat := (ns + 999999) / 1000000

/-- `mark_connected` / `mark_disconnected` / `mark_reconnecting` (state.rs:72-88). `mark_connected` also resets the
attempts counter and stores `Instant::now().elapsed()` in `last_connected`: the time that passes between two readings
of the clock inside one (atomic) step, `now - now`. -/
def mark (c : Nat) (x : Conn) (w : Shared) : Shared :=
  match x with
  | .connected => { w with conn := .connected, writer := some c, attempts := 0, lastConn := w.now - w.now }
  | x => { w with conn := x, writer := some c }
def emit (evs : List REv) (w : Shared) : Shared :=
  { w with log := w.log ++ evs, tlog := w.tlog ++ evs.map fun e => (w.now, e) }

def finish (c : Nat) (r : RRes) (st : Caller) (w : Shared) : Caller × Shared :=
  ({ st with phase := .done, result := some r }, emit [.result c r] w)

/-- `inner.poll_ready()`: pending while the service recovers from the previous call (no scripted answer is consumed),
else the next scripted answer (`ready` when the script is used up) -/
def readyAns (w : Shared) : RdyAns :=
  if w.now < w.busyUntil then .pending
  else match w.script with
    | .error :: _ => .error
    | _ => .ready

/-- a readiness poll outside the recovery consumed one scripted answer -/
def popScript (w : Shared) : Shared := { w with script := w.script.tail }

/-- `inner.call(request.clone())`: pops the next scripted step (default: ok at once); the inner service starts
recovering -/
def startCall (c : Nat) (st : Caller) (w : Shared) : Caller × Shared :=
  let stp := st.plan.headD { lat := 0, out := .ok }
  ({ st with phase := .calling w.serial (w.now + stp.lat) stp.out, plan := st.plan.tail,
             calls := { k := w.serial, t := w.now, step := stp, pre := st.pend } :: st.calls,
             pend := none },
   emit [.call c w.serial] { w with serial := w.serial + 1,
                                    busyUntil := if 0 < w.recover then w.now + w.recover else w.busyUntil })

/-- `Poll::Ready(Err(error))` in the Calling phase (service.rs:130-195) -/
def onError (cfg : Cfg) (c : Nat) (st : Caller) (w : Shared) (kd k : Nat) : Caller × Shared :=
  if cfg.reconn kd = false then finish c (.service kd k) st w
  else
    let w := mark c .disconnected w
    let st := { st with attempt := st.attempt + 1, lastErr := some (kd, k) }
    if exceeded cfg st.attempt = true then finish c (.maxAttempts st.attempt kd k) st w
    else match nextDelay cfg.policy st.attempt w.obs with
      | .noPolicy => finish c (.connFailed kd k) st w
      | .bad => ({ st with phase := .done }, emit [.bad] w)
      | .delay d rest =>
          ({ st with phase := .sleeping (w.now + ceilMs d),
                     pend := some { attempt := st.attempt, since := w.now, delay := d } },
           mark c .reconnecting { w with obs := rest })

def transCalling (cfg : Cfg) (c : Nat) (st : Caller) (w : Shared) (k doneAt : Nat) (out : Out) :
    Option (Caller × Shared) :=
  if w.now < doneAt then none
  else match out with
    | .never => none
    | .ok => some (finish c (.ok k) st (mark c .connected (emit [.done c k .ok] w)))
    | .panic => some (finish c .panic st (emit [.done c k .panic] w))
    | .err kd => some (onError cfg c st (emit [.done c k (.err kd)] w) kd k)

def transSleeping (cfg : Cfg) (c : Nat) (st : Caller) (w : Shared) (wake : Nat) :
    Option (Caller × Shared) :=
  if w.now < wake then none
  else if cfg.retry = true then some ({ st with phase := .readying wake }, w)
  else match st.lastErr with
    | some (kd, k) => some (finish c (.noRetry kd k) st (mark c .connected w))
    | none => none

/-- `Phase::Readying` (service.rs:210-220): `this.inner.poll_ready(cx)`. The first test never fires in a reachable
state (the phase is entered at `wake` or later and time does not go back: `TR.Props.C16.readying_is_after_the_backoff`);
it is there so that the per-request invariant needs no clock. -/
def transReadying (c : Nat) (st : Caller) (w : Shared) (wake : Nat) : Option (Caller × Shared) :=
  if w.now < wake then none
  else match readyAns w with
    | .pending => none
    | .ready => some (startCall c st (popScript w))
    | .error => some (finish c .readyErr st (emit [.readyErr] (popScript w)))

/-- one turn of the `loop` in `ReconnectFuture::poll`; `none` = `Poll::Pending` or completed -/
def trans (cfg : Cfg) (c : Nat) (st : Caller) (w : Shared) : Option (Caller × Shared) :=
  match st.phase with
  | .calling k doneAt out => transCalling cfg c st w k doneAt out
  | .sleeping wake => transSleeping cfg c st w wake
  | .readying wake => transReadying c st w wake
  | .done => none

def loop (cfg : Cfg) (c : Nat) : Nat → Caller → Shared → Caller × Shared
  | 0, st, w => (st, w)
  | n + 1, st, w =>
      match trans cfg c st w with
      | none => (st, w)
      | some (st', w') => loop cfg c n st' w'

def fuel (st : Caller) : Nat := 3 * st.plan.length + 4

def pollCaller (cfg : Cfg) (c : Nat) (st : Caller) (w : Shared) : Caller × Shared :=
  loop cfg c (fuel st) st w

def dropCaller (c : Nat) (st : Caller) (w : Shared) : Caller × Shared :=
  match st.phase with
  | .calling k _ _ => ({ st with phase := .done }, emit [.dropped c k] w)
  | _ => ({ st with phase := .done }, w)

def newCaller (plan : List Step) : Caller := { phase := .done, plan := plan }

/-- a request that was refused before a call future existed -/
def refused (plan : List Step) : Caller := { phase := .done, plan := plan, result := some .notReady }

def stepS (cfg : Cfg) (s : State) (op : Op) : State :=
  match op with
  | .adv ms => { s with sh := { s.sh with now := s.sh.now + ms } }
  | .probe => { s with sh := emit [.probe s.sh.conn] s.sh }
  | .incr => { s with sh := { s.sh with attempts := s.sh.attempts + 1 } }
  | .inner script recover => { s with sh := { s.sh with script := script, recover := recover } }
  | .arrive c plan =>
      match lookup s.callers c with
      | some _ => s
      | none =>
          -- the caller polls the service ready (`ReconnectService::poll_ready` = the inner service's) and calls it
          -- only if it is; otherwise there is no call future
          match readyAns s.sh with
          | .ready =>
              let r := startCall c (newCaller plan) (popScript s.sh)
              { sh := r.2, callers := (c, r.1) :: s.callers }
          | .pending =>
              { sh := emit [.result c .notReady] s.sh, callers := (c, refused plan) :: s.callers }
          | .error =>
              { sh := emit [.readyErr, .result c .notReady] (popScript s.sh), callers := (c, refused plan) :: s.callers }
  | .poll c obs =>
      match lookup s.callers c with
      | some st =>
          let r := pollCaller cfg c st { s.sh with obs := obs }
          { sh := { r.2 with obs := [] }, callers := (c, r.1) :: s.callers }
      | none => s
  | .drop c =>
      match lookup s.callers c with
      | some st =>
          let r := dropCaller c st s.sh
          { sh := r.2, callers := (c, r.1) :: s.callers }
      | none => s

def init : State := {}
def run (cfg : Cfg) (ops : List Op) : State := ops.foldl (stepS cfg) init

/-! ## errors with a `source()` chain

The wrapped service's error may have causes (`std::error::Error::source`). `should_reconnect` hands the predicate
the error the service RETURNED, and nothing else: the input language with chains (`COp`) is mapped to the one above
by keeping the head of every error (`COut.head`); the causes reach no transition. -/

/-- scripted outcome with a cause chain: `err kind causes` is an error of kind `kind` whose `source()` is an error
of kind `causes[0]`, whose `source()` is an error of kind `causes[1]`, … -/
inductive COut
  | ok
  | err (kind : Nat) (causes : List Nat)
  | panic
  | never
deriving DecidableEq, Repr, Inhabited

structure CStep where
  lat : Nat
  out : COut
deriving DecidableEq, Repr, Inhabited

/-- the error itself, without its causes -/
def COut.head : COut → Out
  | .ok => .ok
  | .err kd _ => .err kd
  | .panic => .panic
  | .never => .never

def CStep.head (s : CStep) : Step := { lat := s.lat, out := s.out.head }

inductive COp
  | arrive (c : Nat) (plan : List CStep)
  | poll (c : Nat) (obs : List Nat)
  | drop (c : Nat)
  | adv (ms : Nat)
  | probe
  | incr
  | inner (script : List Rdy) (recover : Nat)

def COp.head : COp → Op
  | .arrive c plan => .arrive c (plan.map CStep.head)
  | .poll c obs => .poll c obs
  | .drop c => .drop c
  | .adv ms => .adv ms
  | .probe => .probe
  | .incr => .incr
  | .inner sc r => .inner sc r

def runC (cfg : Cfg) (ops : List COp) : State := run cfg (ops.map COp.head)

/-- what the predicate-based classification of an error with causes IS: the predicate applied to the error -/
def classify (cfg : Cfg) (kind : Nat) (_causes : List Nat) : Bool := cfg.reconn kind

/-! ## what the accessors report

`ReconnectState::attempts()` / `increment_attempts()` / `time_since_connected()` (state.rs:57-99), read through
`ReconnectLayer::state()`, `ReconnectService::state()` or a clone of the `ReconnectState`; `ReconnectService::config()` and
the accessors of `ReconnectConfig` (config.rs:81-105). -/

/-- `ReconnectState::attempts()`. The service never increments the counter (it counts attempts per request, in the call
future); only the application's own `increment_attempts()` does, and `mark_connected` resets it. -/
def attemptsOf (s : State) : Nat := s.sh.attempts

/-- `ReconnectState::time_since_connected()` (state.rs:91-99): `None` while `last_connected` is 0; else
`Instant::now().elapsed()` — once more the time between two readings of the clock within one step — minus
`last_connected`, saturating. -/
def timeSinceConnected (w : Shared) : Option Nat :=
  if w.lastConn = 0 then none else some ((w.now - w.now) - w.lastConn)

/-- `config().policy().delay_for_attempt(a)` asked directly: `none` for policy `None`, else the delay in ns
(a randomised policy: the observed value, if the envelope allows it) -/
def delayProbe (cfg : Cfg) (a : Nat) (obs : List Nat) : String :=
  match nextDelay cfg.policy a obs with
  | .noPolicy => "none"
  | .bad => "choice-not-allowed"
  | .delay d _ => toString d

/-! ## `connection_errors_only()` (config.rs:332-343)

The shortcut installs a predicate on the error's `Display` text: lower-cased, it must contain one of five phrases.
(The doc comment speaks of `ErrorKind`s; the code matches text only — an `io::Error::new(BrokenPipe, "test")` is NOT
accepted.) Texts are ASCII here. -/

def lowerAscii (c : Char) : Char := if 'A' ≤ c ∧ c ≤ 'Z' then Char.ofNat (c.toNat + 32) else c

/-- `pat` occurs in `l` as a contiguous substring -/
def hasSub (pat : List Char) : List Char → Bool
  | [] => pat.isEmpty
  | b :: bs => pat.isPrefixOf (b :: bs) || hasSub pat bs

def connPhrases : List String :=
  ["broken pipe", "connection reset", "connection aborted", "not connected", "connection refused"]

/-- the closure of `connection_errors_only()` applied to an error whose `Display` text is `msg` -/
def connectionErrorsOnly (msg : String) : Bool :=
  connPhrases.any fun p => hasSub p.toList (msg.toList.map lowerAscii)

/-- `Display` text of the scripted error kinds beyond `ierr<kind>:<serial>` (the harness's `CErr`; kinds 0-3 and
everything not listed have no text). The prefix `ierr<kind>:<serial> ` contains no letter of any phrase start followed
by a phrase, and no phrase contains a digit or a colon: the text decides. -/
def kindText : Nat → String
  | 4 => "Broken pipe (os error 32)"
  | 5 => "Connection reset by peer (os error 104)"
  | 6 => "connection aborted"
  | 7 => "Transport endpoint is not connected (os error 107)"
  | 8 => "Connection refused (os error 111)"
  | 9 => "connection timed out"
  | 10 => "disconnected"
  | 11 => "BROKEN PIPE"
  | 12 => "connection  reset"
  | 13 => "host unreachable"
  | 14 => "upstream said: Connection Refused"
  | 15 => "brokenpipe"
  | _ => ""

/-- which scripted error kinds `connection_errors_only()` classifies as connection failures -/
def connAccepts (kd : Nat) : Bool := connectionErrorsOnly (kindText kd)

/-! ## several layer values

Services made by ONE `ReconnectLayer` value (or by a clone of it: `#[derive(Clone)]` clones the `ReconnectState`
handle, an `Arc`) share one connection state: `ReconnectLayer::state()` is documented as the place to monitor it, and
all of the above models that one state. A SECOND layer value made from the same configuration
(`ReconnectLayer::new(config.clone())`) has its own `ReconnectState::new()`: instance `j` below. The instances share
only the world: the clock and the numbering of inner calls. -/

structure Multi where
  now : Nat := 0
  serial : Nat := 0
  insts : List (Nat × State) := []
deriving Repr, Inhabited

/-- an instance sees the world's clock and call counter -/
def sync (now serial : Nat) (s : State) : State := { s with sh := { s.sh with now := now, serial := serial } }

/-- the instance of layer value `j` (a layer value nobody used yet is in its initial state) -/
def instOf (m : Multi) (j : Nat) : State := sync m.now m.serial ((lookup m.insts j).getD init)

/-- operation `op` on the instance of layer value `j` (an `adv` on any instance advances the one clock) -/
def stepM (cfg : Cfg) (m : Multi) (jop : Nat × Op) : Multi :=
  let s' := stepS cfg (instOf m jop.1) jop.2
  { now := s'.sh.now, serial := s'.sh.serial, insts := (jop.1, s') :: m.insts }

def runM (cfg : Cfg) (ops : List (Nat × Op)) : Multi := ops.foldl (stepM cfg) {}

/-- the layer value through which request `c` was made (0 if unknown) -/
def ownerOf (insts : List (Nat × State)) (c : Nat) : Nat :=
  match insts with
  | [] => 0
  | (j, s) :: tl => if (lookup s.callers c).isSome then j else ownerOf tl c

/-! ## line protocol -/

/-- `err2>1>3` -/
def parseCOut (s : String) : COut :=
  if s.startsWith "err" then
    match ((s.drop 3).toString.splitOn ">").map fun x => x.toNat?.getD 0 with
    | kd :: causes => .err kd causes
    | [] => .err 0 []
  else match parseOut s with
    | .ok => .ok
    | .err kd => .err kd []
    | .panic => .panic
    | .never => .never

/-- `inner=5:ok,0:err2>1` -/
def parseCPlan (s : String) : List CStep :=
  if s.isEmpty then [] else
  (s.splitOn ",").map fun part =>
    match part.splitOn ":" with
    | [l, o] => { lat := l.toNat?.getD 0, out := parseCOut o }
    | _ => { lat := 0, out := parseCOut part }

def Conn.render : Conn → String
  | .connected => "connected"
  | .disconnected => "disconnected"
  | .reconnecting => "reconnecting"

def RRes.toRes : RRes → Res
  | .ok k => .ok k
  | .panic => .panic
  | .service kd k => .custom s!"err:service:inner{kd}:{k}"
  | .connFailed kd k => .custom s!"err:conn_failed:inner{kd}:{k}"
  | .noRetry kd k => .custom s!"err:no_retry:inner{kd}:{k}"
  | .maxAttempts n kd k => .custom s!"err:max_attempts:{n}:inner{kd}:{k}"
  | .readyErr => .custom "err:service:inner9:0"     -- the scripted readiness error is `IErr {kind: 9, v: 0}`
  | .notReady => .notReady

def REv.toEv : REv → Ev
  | .call c k => .innerCall c k
  | .done c k o => .innerDone c k o
  | .dropped c k => .innerDrop c k
  | .result c r => .result c r.toRes
  | .probe x => .probe s!"state = {x.render}"
  | .bad => .raw "choice-not-allowed"
  | .readyErr => .raw "ready_err"

def parseObs (ws : List String) : List Nat :=
  ws.filterMap fun w =>
    if w.startsWith "@delay=" then (w.drop 7).toString.toNat? else none

def parseOp (ws : List String) : Option COp :=
  match ws with
  | "arrive" :: c :: rest => some (.arrive (c.toNat?.getD 0) (parseCPlan ((parseKv rest).str "inner" "0:ok")))
  | "poll" :: c :: rest => some (.poll (c.toNat?.getD 0) (parseObs rest))
  | "drop" :: c :: _ => some (.drop (c.toNat?.getD 0))
  | "adv" :: ms :: _ => some (.adv (ms.toNat?.getD 0))
  | "probe" :: "state" :: _ => some .probe
  | "manual" :: "incr" :: _ => some .incr
  | _ => none

def msNs (ms : Nat) : Nat := ms * 1000000

def parseTable (s : String) : List Nat :=
  let l := (s.splitOn ",").filterMap fun x => x.toNat?
  if l.isEmpty then [1] else l

/-- `ReconnectConfig::default()` (config.rs:108-121) = `ReconnectConfigBuilder::default()` (config.rs:381-394):
exponential 100 ms .. 5 s (`ReconnectPolicy::default()`), unlimited attempts, retry, no predicate -/
def defaultCfg : Cfg :=
  { maxAttempts := none, policy := .exp (msNs 100) (msNs 5000), retry := true, reconn := fun _ => true }

/-- the header says the layer is built from the default configuration, untouched -/
def isDefaultCtor (kv : Kv) : Bool :=
  kv.str "policy" "exp" = "default" || ["default", "with_defaults", "layerdefault"].contains (kv.str "ctor" "builder")

def parseCfg (kv : Kv) : Cfg :=
  -- `unit=us`: the header's durations are microseconds (default: milliseconds)
  let u : Nat → Nat := fun n => if kv.str "unit" "ms" = "us" then n * 1000 else msNs n
  let policy : Policy :=
    match kv.str "policy" "exp" with
    | "none" => .none
    | "fixed" => .fixed (u (kv.nat "d" 10))
    | "jitter" =>
        -- `jv=1`: the real `ReconnectPolicy::exponential_random` with randomization factor 0, whose delay is not
        -- observable from outside and is the exponential value itself
        if kv.nat "jv" 0 = 1 then .exp (u (kv.nat "init" 100)) (u (kv.nat "cap" 5000))
        else .jitter (u (kv.nat "init" 100)) (u (kv.nat "cap" 5000)) (kv.nat "rf" 50)
    | "custom" =>
        let t := parseTable (kv.str "tbl" "1")
        .custom fun a => u (t.getD (a % t.length) 1)
    | _ => .exp (u (kv.nat "init" 100)) (u (kv.nat "cap" 5000))
  let reconn : Nat → Bool :=
    match kv.get "pred" with
    | none => fun _ => true
    | some "conn" => connAccepts          -- `.connection_errors_only()`
    | some p =>
        let kinds := p.toList.filterMap fun ch => (String.singleton ch).toNat?
        fun kd => kinds.contains kd
  if isDefaultCtor kv then defaultCfg
  else
  { maxAttempts := kv.optNat "max", policy := policy, retry := kv.nat "retry" 1 != 0, reconn := reconn }

/-- the variant of `ReconnectPolicy` that `config().policy()` shows (`custom` and the observed `jitter` are
`ReconnectPolicy::Custom` in the harness) -/
def variantOf (kv : Kv) : String :=
  if isDefaultCtor kv then "exp" else
  match kv.str "policy" "exp" with
  | "none" => "none"
  | "fixed" => "fixed"
  | "jitter" => if kv.nat "jv" 0 = 1 then "random" else "custom"
  | "custom" => "custom"
  | _ => "exp"

def laySuffix (j : Nat) : String := if j = 0 then "" else s!"@{j}"

/-- `strict`: the harness's strict inner service (header `rdy=` / `rec=`) logs every call with the request's tag and
whether the instance had been polled ready: always, here — by the caller before the first call, by `Readying` before a
retry -/
def evOf (strict : Bool) (j : Nat) : REv → Ev
  | .probe x => .probe s!"state{laySuffix j} = {x.render}"
  | .call c k => if strict then .innerCallX c k c true else .innerCall c k
  | e => e.toEv

/-- `rdy=rre…`: the scripted answers of the inner service's `poll_ready` ('e' error, anything else ready) -/
def parseScript (s : String) : List Rdy := s.toList.map fun ch => if ch = 'e' then .error else .ready

structure MSt where
  cfg : Cfg
  variant : String
  script : List Rdy := []   -- header `rdy=` / `rec=`: the readiness behaviour of the inner service of every layer value
  recover : Nat := 0
  strict : Bool := false    -- either was given
  m : Multi := {}
  gone : Bool := false      -- `manual dropsvc`: no service handle is left to ask for its `config()`

/-- the inner service wrapped by a layer value nobody used yet starts with the header's readiness behaviour -/
def touch (x : MSt) (j : Nat) : Multi :=
  if (lookup x.m.insts j).isNone && (!x.script.isEmpty || x.recover != 0) then
    stepM x.cfg x.m (j, .inner x.script x.recover)
  else x.m

def stepOn (x : MSt) (j : Nat) (op : Op) : MSt × List Ev :=
  let m0 := touch x j
  let before := (instOf m0 j).sh.log.length
  let m' := stepM x.cfg m0 (j, op)
  ({ x with m := m' }, ((instOf m' j).sh.log.drop before).map (evOf x.strict j))

def optNatStr : Option Nat → String
  | none => "none"
  | some n => toString n

def machineStep (x : MSt) (ws : List String) : MSt × List Ev :=
  let kv := parseKv ws
  let j := kv.nat "lay" 0
  match ws with
  | "manual" :: "dropsvc" :: _ => ({ x with gone := true }, [])
  | "manual" :: "incr" :: _ =>
      let x' := (stepOn x j .incr).1
      (x', [.probe s!"incr{laySuffix j} = {attemptsOf (instOf x'.m j)}"])
  | "probe" :: "attempts" :: _ => (x, [.probe s!"attempts{laySuffix j} = {attemptsOf (instOf x.m j)}"])
  | "probe" :: "since" :: _ =>
      (x, [.probe s!"since{laySuffix j} = {optNatStr (timeSinceConnected (instOf x.m j).sh)}"])
  | "probe" :: "config" :: _ =>
      if x.gone then (x, [.probe "config = gone"]) else
      (x, [.probe s!"config = max:{optNatStr x.cfg.maxAttempts} retry:{if x.cfg.retry then 1 else 0} policy:{x.variant}"])
  | "probe" :: "delay" :: _ =>
      if x.gone then (x, [.probe "delay = gone"]) else
      let r := delayProbe x.cfg (kv.nat "a" 0) (parseObs ws)
      if r = "choice-not-allowed" then (x, [.raw r]) else (x, [.probe s!"delay a={kv.nat "a" 0} = {r}"])
  | "probe" :: "pred" :: _ =>
      if x.gone then (x, [.probe "pred = gone"]) else
      (x, [.probe s!"pred k={kv.nat "k" 0} = {if x.cfg.reconn (kv.nat "k" 0) then 1 else 0}"])
  | _ =>
    match parseOp ws with
    | some op =>
        let j := match op with
          | .poll c _ => ownerOf x.m.insts c
          | .drop c => ownerOf x.m.insts c
          | _ => j
        stepOn x j op.head
    | none => (x, [])

def machine : Machine where
  σ := MSt
  init kv := { cfg := parseCfg kv, variant := variantOf kv, script := parseScript (kv.str "rdy" ""), recover := kv.nat "rec" 0,
               strict := (kv.get "rdy").isSome || (kv.get "rec").isSome }
  step := machineStep
  now := fun x => x.m.now

end TR.Reconnect
