import TR.Model.Common
/-!
# Reconnect (C16) — `crates/tower-resilience-reconnect/src/service.rs`

`ReconnectService::call` calls the inner service at once and returns a `ReconnectFuture` whose
`poll` is a loop over `Phase::{Calling, Sleeping, Failed}`. One `poll` of one call future is one
model step; inside it the loop is the small-step relation `trans` (calling → done | sleeping,
sleeping → calling | done) iterated with fuel `2·|plan| + 3`, which `TR/Lemmas/Reconnect.lean`
proves sufficient (`loop_complete`).

Time is whole milliseconds (tokio timer resolution), policy delays are nanoseconds; a sleep of
`d` ns ends at the first millisecond tick `≥ now + d`.

The published `ReconnectState` is the shared field `conn`; `writer` is ghost (the caller whose
future stored the current value). Every caller keeps the ghost list `calls` of its inner calls
(latest first), each retry with the sleep that preceded it.
-/
namespace TR.Reconnect

inductive Conn
  | connected
  | disconnected
  | reconnecting
deriving DecidableEq, Repr, Inhabited

/-- `ReconnectPolicy` (policy.rs). `exp` is `ReconnectPolicy::exponential` (multiplier 2);
`jitter` stands for a randomised policy: the delay is an observed choice of the implementation
that must lie within `pct` % of the exponential value; `custom` is any `IntervalFunction`. -/
inductive Policy
  | none
  | fixed (ns : Nat)
  | exp (initial cap : Nat)
  | jitter (initial cap pct : Nat)
  | custom (f : Nat → Nat)

def expDelay (initial cap a : Nat) : Nat := min (initial * 2 ^ a) cap

def Policy.has : Policy → Bool
  | .none => false
  | _ => true

/-- `allowed p a d`: `d` (ns) is a value `delay_for_attempt a` may return under policy `p` -/
def Policy.allowed : Policy → Nat → Nat → Bool
  | .none, _, _ => false
  | .fixed n, _, d => d == n
  | .exp i c, a, d => d == expDelay i c a
  | .jitter i c pct, a, d =>
      decide (expDelay i c a * (100 - pct) ≤ d * 100 + 100) && decide (d * 100 ≤ expDelay i c a * (100 + pct) + 100)
  | .custom f, a, d => d == f a

inductive DelayAns
  | noPolicy
  | bad
  | delay (d : Nat) (rest : List Nat)

/-- `config.policy.delay_for_attempt(attempt)`; randomised policies consume an observed choice -/
def nextDelay (p : Policy) (a : Nat) (obs : List Nat) : DelayAns :=
  match p with
  | .none => .noPolicy
  | .fixed n => .delay n obs
  | .exp i c => .delay (expDelay i c a) obs
  | .custom f => .delay (f a) obs
  | .jitter i c pct =>
      match obs with
      | [] => .bad
      | d :: rest => if (Policy.jitter i c pct).allowed a d then .delay d rest else .bad

structure Cfg where
  maxAttempts : Option Nat      -- `None` = unlimited
  policy : Policy
  retry : Bool                  -- retry_on_reconnect
  reconn : Nat → Bool           -- should_reconnect on the error kind (no predicate = always true)

def exceeded (cfg : Cfg) (a : Nat) : Bool :=
  match cfg.maxAttempts with
  | some m => decide (m < a)
  | none => false

/-- result of a request, `ReconnectError` variants with the wrapped inner error (kind, serial) -/
inductive RRes
  | ok (k : Nat)
  | panic
  | service (kind k : Nat)
  | connFailed (kind k : Nat)
  | noRetry (kind k : Nat)
  | maxAttempts (attempts kind k : Nat)
deriving DecidableEq, Repr, Inhabited

inductive REv
  | call (c k : Nat)
  | done (c k : Nat) (o : Out)
  | dropped (c k : Nat)
  | result (c : Nat) (r : RRes)
  | probe (x : Conn)
  | bad
deriving DecidableEq, Repr, Inhabited

/-- ghost: the sleep before a retry -/
structure SleepRec where
  attempt : Nat     -- argument given to `delay_for_attempt`
  since : Nat       -- instant (ms) the error was handled and the sleep created
  delay : Nat       -- ns
deriving DecidableEq, Repr, Inhabited

/-- ghost: one inner call of a request -/
structure CallRec where
  k : Nat           -- serial
  t : Nat           -- instant of `call()`
  step : Step       -- scripted latency and outcome
  pre : Option SleepRec
deriving DecidableEq, Repr, Inhabited

inductive Phase
  | calling (k doneAt : Nat) (out : Out)
  | sleeping (wake : Nat)
  | done
deriving DecidableEq, Repr, Inhabited

structure Caller where
  phase : Phase
  attempt : Nat := 0
  lastErr : Option (Nat × Nat) := none
  plan : List Step                        -- scripted steps not yet consumed
  calls : List CallRec := []              -- ghost, latest first
  pend : Option SleepRec := none          -- ghost, the sleep in progress
  result : Option RRes := none
deriving Repr, Inhabited

/-- what one poll reads and writes besides its own future -/
structure Shared where
  now : Nat := 0
  serial : Nat := 0
  conn : Conn := .disconnected            -- ReconnectState::new()
  writer : Option Nat := none             -- ghost
  log : List REv := []                    -- ghost: every event so far
  obs : List Nat := []                    -- observed choices attached to the current operation
deriving Repr, Inhabited

structure State where
  sh : Shared := {}
  callers : List (Nat × Caller) := []
deriving Repr, Inhabited

inductive Op
  | arrive (c : Nat) (plan : List Step)
  | poll (c : Nat) (obs : List Nat)
  | drop (c : Nat)
  | adv (ms : Nat)
  | probe

def ceilMs (ns : Nat) : Nat := (ns + 999999) / 1000000

def mark (c : Nat) (x : Conn) (w : Shared) : Shared := { w with conn := x, writer := some c }
def emit (evs : List REv) (w : Shared) : Shared := { w with log := w.log ++ evs }

def finish (c : Nat) (r : RRes) (st : Caller) (w : Shared) : Caller × Shared :=
  ({ st with phase := .done, result := some r }, emit [.result c r] w)

/-- `inner.call(request.clone())`: pops the next scripted step (default: ok at once) -/
def startCall (c : Nat) (st : Caller) (w : Shared) : Caller × Shared :=
  let stp := st.plan.headD { lat := 0, out := .ok }
  ({ st with phase := .calling w.serial (w.now + stp.lat) stp.out, plan := st.plan.tail,
             calls := { k := w.serial, t := w.now, step := stp, pre := st.pend } :: st.calls,
             pend := none },
   emit [.call c w.serial] { w with serial := w.serial + 1 })

/-- `Poll::Ready(Err(error))` in the Calling phase (service.rs:130-195) -/
def onError (cfg : Cfg) (c : Nat) (st : Caller) (w : Shared) (kd k : Nat) : Caller × Shared :=
  if cfg.reconn kd = false then finish c (.service kd k) st w
  else
    let w := mark c .disconnected w
    let st := { st with attempt := st.attempt + 1, lastErr := some (kd, k) }
    if exceeded cfg st.attempt = true then finish c (.maxAttempts st.attempt kd k) st w
    else match nextDelay cfg.policy st.attempt w.obs with
      | .noPolicy => finish c (.connFailed kd k) st w
      | .bad => ({ st with phase := .done }, emit [.bad] w)
      | .delay d rest =>
          ({ st with phase := .sleeping (w.now + ceilMs d),
                     pend := some { attempt := st.attempt, since := w.now, delay := d } },
           mark c .reconnecting { w with obs := rest })

def transCalling (cfg : Cfg) (c : Nat) (st : Caller) (w : Shared) (k doneAt : Nat) (out : Out) :
    Option (Caller × Shared) :=
  if w.now < doneAt then none
  else match out with
    | .never => none
    | .ok => some (finish c (.ok k) st (mark c .connected (emit [.done c k .ok] w)))
    | .panic => some (finish c .panic st (emit [.done c k .panic] w))
    | .err kd => some (onError cfg c st (emit [.done c k (.err kd)] w) kd k)

def transSleeping (cfg : Cfg) (c : Nat) (st : Caller) (w : Shared) (wake : Nat) :
    Option (Caller × Shared) :=
  if w.now < wake then none
  else if cfg.retry = true then some (startCall c st w)
  else match st.lastErr with
    | some (kd, k) => some (finish c (.noRetry kd k) st (mark c .connected w))
    | none => none

/-- one turn of the `loop` in `ReconnectFuture::poll`; `none` = `Poll::Pending` or completed -/
def trans (cfg : Cfg) (c : Nat) (st : Caller) (w : Shared) : Option (Caller × Shared) :=
  match st.phase with
  | .calling k doneAt out => transCalling cfg c st w k doneAt out
  | .sleeping wake => transSleeping cfg c st w wake
  | .done => none

def loop (cfg : Cfg) (c : Nat) : Nat → Caller → Shared → Caller × Shared
  | 0, st, w => (st, w)
  | n + 1, st, w =>
      match trans cfg c st w with
      | none => (st, w)
      | some (st', w') => loop cfg c n st' w'

def fuel (st : Caller) : Nat := 2 * st.plan.length + 3

def pollCaller (cfg : Cfg) (c : Nat) (st : Caller) (w : Shared) : Caller × Shared :=
  loop cfg c (fuel st) st w

def dropCaller (c : Nat) (st : Caller) (w : Shared) : Caller × Shared :=
  match st.phase with
  | .calling k _ _ => ({ st with phase := .done }, emit [.dropped c k] w)
  | _ => ({ st with phase := .done }, w)

def newCaller (plan : List Step) : Caller := { phase := .done, plan := plan }

def stepS (cfg : Cfg) (s : State) (op : Op) : State :=
  match op with
  | .adv ms => { s with sh := { s.sh with now := s.sh.now + ms } }
  | .probe => { s with sh := emit [.probe s.sh.conn] s.sh }
  | .arrive c plan =>
      match lookup s.callers c with
      | some _ => s
      | none =>
          let r := startCall c (newCaller plan) s.sh
          { sh := r.2, callers := (c, r.1) :: s.callers }
  | .poll c obs =>
      match lookup s.callers c with
      | some st =>
          let r := pollCaller cfg c st { s.sh with obs := obs }
          { sh := { r.2 with obs := [] }, callers := (c, r.1) :: s.callers }
      | none => s
  | .drop c =>
      match lookup s.callers c with
      | some st =>
          let r := dropCaller c st s.sh
          { sh := r.2, callers := (c, r.1) :: s.callers }
      | none => s

def init : State := {}
def run (cfg : Cfg) (ops : List Op) : State := ops.foldl (stepS cfg) init

/-! ## errors with a `source()` chain

The wrapped service's error may have causes (`std::error::Error::source`). `should_reconnect` hands the predicate
the error the service RETURNED, and nothing else: the input language with chains (`COp`) is mapped to the one above
by keeping the head of every error (`COut.head`); the causes reach no transition. -/

/-- scripted outcome with a cause chain: `err kind causes` is an error of kind `kind` whose `source()` is an error
of kind `causes[0]`, whose `source()` is an error of kind `causes[1]`, … -/
inductive COut
  | ok
  | err (kind : Nat) (causes : List Nat)
  | panic
  | never
deriving DecidableEq, Repr, Inhabited

structure CStep where
  lat : Nat
  out : COut
deriving DecidableEq, Repr, Inhabited

/-- the error itself, without its causes -/
def COut.head : COut → Out
  | .ok => .ok
  | .err kd _ => .err kd
  | .panic => .panic
  | .never => .never

def CStep.head (s : CStep) : Step := { lat := s.lat, out := s.out.head }

inductive COp
  | arrive (c : Nat) (plan : List CStep)
  | poll (c : Nat) (obs : List Nat)
  | drop (c : Nat)
  | adv (ms : Nat)
  | probe

def COp.head : COp → Op
  | .arrive c plan => .arrive c (plan.map CStep.head)
  | .poll c obs => .poll c obs
  | .drop c => .drop c
  | .adv ms => .adv ms
  | .probe => .probe

def runC (cfg : Cfg) (ops : List COp) : State := run cfg (ops.map COp.head)

/-- what the predicate-based classification of an error with causes IS: the predicate applied to the error -/
def classify (cfg : Cfg) (kind : Nat) (_causes : List Nat) : Bool := cfg.reconn kind

/-! ## line protocol -/

/-- `err2>1>3` -/
def parseCOut (s : String) : COut :=
  if s.startsWith "err" then
    match ((s.drop 3).toString.splitOn ">").map fun x => x.toNat?.getD 0 with
    | kd :: causes => .err kd causes
    | [] => .err 0 []
  else match parseOut s with
    | .ok => .ok
    | .err kd => .err kd []
    | .panic => .panic
    | .never => .never

/-- `inner=5:ok,0:err2>1` -/
def parseCPlan (s : String) : List CStep :=
  if s.isEmpty then [] else
  (s.splitOn ",").map fun part =>
    match part.splitOn ":" with
    | [l, o] => { lat := l.toNat?.getD 0, out := parseCOut o }
    | _ => { lat := 0, out := parseCOut part }

def Conn.render : Conn → String
  | .connected => "connected"
  | .disconnected => "disconnected"
  | .reconnecting => "reconnecting"

def RRes.toRes : RRes → Res
  | .ok k => .ok k
  | .panic => .panic
  | .service kd k => .custom s!"err:service:inner{kd}:{k}"
  | .connFailed kd k => .custom s!"err:conn_failed:inner{kd}:{k}"
  | .noRetry kd k => .custom s!"err:no_retry:inner{kd}:{k}"
  | .maxAttempts n kd k => .custom s!"err:max_attempts:{n}:inner{kd}:{k}"

def REv.toEv : REv → Ev
  | .call c k => .innerCall c k
  | .done c k o => .innerDone c k o
  | .dropped c k => .innerDrop c k
  | .result c r => .result c r.toRes
  | .probe x => .probe s!"state = {x.render}"
  | .bad => .raw "choice-not-allowed"

def parseObs (ws : List String) : List Nat :=
  ws.filterMap fun w =>
    if w.startsWith "@delay=" then (w.drop 7).toString.toNat? else none

def parseOp (ws : List String) : Option COp :=
  match ws with
  | "arrive" :: c :: rest => some (.arrive (c.toNat?.getD 0) (parseCPlan ((parseKv rest).str "inner" "0:ok")))
  | "poll" :: c :: rest => some (.poll (c.toNat?.getD 0) (parseObs rest))
  | "drop" :: c :: _ => some (.drop (c.toNat?.getD 0))
  | "adv" :: ms :: _ => some (.adv (ms.toNat?.getD 0))
  | "probe" :: "state" :: _ => some .probe
  | _ => none

def msNs (ms : Nat) : Nat := ms * 1000000

def parseTable (s : String) : List Nat :=
  let l := (s.splitOn ",").filterMap fun x => x.toNat?
  if l.isEmpty then [1] else l

def parseCfg (kv : Kv) : Cfg :=
  let policy : Policy :=
    match kv.str "policy" "exp" with
    | "none" => .none
    | "fixed" => .fixed (msNs (kv.nat "d" 10))
    | "jitter" => .jitter (msNs (kv.nat "init" 100)) (msNs (kv.nat "cap" 5000)) (kv.nat "rf" 50)
    | "custom" =>
        let t := parseTable (kv.str "tbl" "1")
        .custom fun a => msNs (t.getD (a % t.length) 1)
    | _ => .exp (msNs (kv.nat "init" 100)) (msNs (kv.nat "cap" 5000))
  let reconn : Nat → Bool :=
    match kv.get "pred" with
    | none => fun _ => true
    | some p =>
        let kinds := p.toList.filterMap fun ch => (String.singleton ch).toNat?
        fun kd => kinds.contains kd
  if kv.str "policy" "exp" = "default" then
    -- `ReconnectConfig::default()`: exponential 100 ms .. 5 s, unlimited attempts, retry, no predicate
    { maxAttempts := none, policy := .exp (msNs 100) (msNs 5000), retry := true, reconn := fun _ => true }
  else
  { maxAttempts := kv.optNat "max", policy := policy, retry := kv.nat "retry" 1 != 0, reconn := reconn }

def machine : Machine where
  σ := Cfg × State
  init kv := (parseCfg kv, init)
  step := fun (cfg, s) ws =>
    match parseOp ws with
    | some op =>
        let s' := stepS cfg s op.head
        ((cfg, s'), (s'.sh.log.drop s.sh.log.length).map REv.toEv)
    | none => ((cfg, s), [])
  now := fun (_, s) => s.sh.now

end TR.Reconnect
