import TR.Model.Common
/-!
# Fallback (C17) — `crates/tower-resilience-fallback/src/lib.rs`, `Fallback::call`

The decision logic of the layer is the pure function `afterInner` (what to do with the result
of the inner call: pass it on, return it unchanged, apply a value-producing strategy, call the
backup service, transform the error) followed by `afterBackup`. Around it sits a small
state machine at the granularity of one `poll` of one call future, because the inner call and
the backup call take (virtual) time and the future can be dropped in every phase:

  fresh --first poll: inner.call(req)--> inner --done--> finished | backup --done--> finished

Payloads are distinguishable: a request is `(c, tag)`, the inner/backup service answers the
call with serial `k` by `Resp k c tag` or `IErr kind k`, so "exactly what the strategy
specifies for that request and that error" is visible in every result.

The caller may drop the service, every clone of it and the layer at any time (`Op.dropsvc`, the
harness's `manual dropsvc`): the response futures own what they need, so this only prevents
further calls (flag `svcGone`, read by `arrive` alone; TR.Props.C17.dropsvc_only_stops_new_calls).

Readiness (`Fallback::poll_ready`, lib.rs:270): the layer forwards `poll_ready` to the wrapped
service and wraps an error in the pass-through variant `FallbackError::Inner` — nothing else: no
predicate, no strategy, and the backup service is not consulted (it is a closure `Fn(Req) -> Future`,
it has no readiness the layer could poll). The wrapped service answers successive `poll_ready`
calls from a script (`Cfg.ready`: ready / pending / error); a caller polls readiness once when it
arrives: pending — it gives up (`notReady`), error — it gets that error, unchanged. The backup
closure of the harness is `|req| async move { backup.ready().await?.call(req).await }` on a second
scripted service (`Cfg.bready`; without a script `|req| backup.call(req)`, which is the same
thing for a service that is always ready): a pending answer makes the response future wake itself (it is polled again in the
same step), a readiness error of the backup is a failure of the backup (`FallbackFailed`), with no
backup call.

The user-supplied functions of the configuration are fixed, injective-enough test functions
(`strategyValue` … below); each of their invocations is an event (`callback`).
-/
namespace TR.Fallback

inductive Strategy
  | value        -- `FallbackStrategy::Value(v)`             : clone of a static value
  | valueFn      -- `FallbackStrategy::ValueFn(f)`           : `f()`
  | fromError    -- `FallbackStrategy::FromError(f)`         : `f(&error)`
  | fromReqErr   -- `FallbackStrategy::FromRequestError(f)`  : `f(&req, &error)`
  | service      -- `FallbackStrategy::Service(backup)`      : `backup(req).await`
  | exception    -- `FallbackStrategy::Exception(t)`         : `Err(Inner(t(error)))`
deriving DecidableEq, Repr, Inhabited

/-- answer of a scripted service to one `poll_ready` -/
inductive Rdy
  | ready
  | pending
  | error      -- `Poll::Ready(Err(readyErr))`
deriving DecidableEq, Repr, Inhabited

structure Cfg where
  strat  : Strategy
  handle : Option Nat      -- handle predicate as a bit mask over error kinds; `none` = no predicate
  val    : Nat             -- the configured static value / base of the value function
  /-- answers of the wrapped service to successive `poll_ready` calls (on any clone); ready once exhausted -/
  ready  : List Rdy := []
  /-- the same for the backup service of the service strategy -/
  bready : List Rdy := []
deriving Repr

structure Request where
  c   : Nat
  tag : Nat
deriving DecidableEq, Repr, Inhabited

structure Resp where
  v   : Nat
  c   : Nat
  tag : Nat
deriving DecidableEq, Repr, Inhabited

structure IErr where
  kind : Nat
  v    : Nat
deriving DecidableEq, Repr, Inhabited

/-- result of the inner (or backup) service: `Result<Resp, IErr>` -/
inductive IRes
  | ok (r : Resp)
  | err (e : IErr)
deriving DecidableEq, Repr, Inhabited

/-- result of the layer: `Result<Resp, FallbackError<IErr>>` -/
inductive Outcome
  | ok (r : Resp)
  | inner (e : IErr)       -- `FallbackError::Inner`
  | failed (e : IErr)      -- `FallbackError::FallbackFailed`
deriving DecidableEq, Repr, Inhabited

/-- the error with which a scripted service fails `poll_ready` (world.rs: `IErr { kind: 9, v: 0 }`) -/
def readyErr : IErr := ⟨9, 0⟩

/-- invocation of a user-supplied function of the configuration -/
inductive Callback
  | predicate (e : IErr) (b : Bool)
  | valueFn (n : Nat)
  | fromError (e : IErr)
  | fromReqErr (rq : Request) (e : IErr)
  | exception (e : IErr)
deriving DecidableEq, Repr, Inhabited

/-! ## the test functions the harness configures the layer with -/

/-- the handle predicate: bit `kind` of the mask -/
def accepts (cfg : Cfg) (e : IErr) : Bool :=
  match cfg.handle with
  | none => true
  | some m => m.testBit e.kind

def strategyValue (cfg : Cfg) : Resp := ⟨cfg.val, 0, 0⟩
/-- `n` = number of earlier invocations of the value function -/
def strategyValueFn (cfg : Cfg) (n : Nat) : Resp := ⟨cfg.val + n, 0, 1⟩
def strategyFromError (e : IErr) : Resp := ⟨e.v, 0, e.kind⟩
def strategyFromReqErr (rq : Request) (e : IErr) : Resp := ⟨e.v, rq.c, rq.tag * 100 + e.kind⟩
def strategyException (e : IErr) : IErr := ⟨e.kind + 10, e.v⟩

/-! ## the decision logic (lib.rs:286 `match result`, 308 predicate gate, 349 strategy match) -/

/-- what the layer does once the inner result is known -/
inductive Act
  | finish (cbs : List Callback) (o : Outcome)
  | backup (cbs : List Callback)          -- call the backup service with the (cloned) request
deriving DecidableEq, Repr, Inhabited

/-- the predicate is consulted only when one is configured -/
def predCalls (cfg : Cfg) (e : IErr) : List Callback :=
  match cfg.handle with
  | none => []
  | some _ => [.predicate e (accepts cfg e)]

def applyStrategy (cfg : Cfg) (rq : Request) (n : Nat) (e : IErr) : Act :=
  match cfg.strat with
  | .value      => .finish (predCalls cfg e) (.ok (strategyValue cfg))
  | .valueFn    => .finish (predCalls cfg e ++ [.valueFn n]) (.ok (strategyValueFn cfg n))
  | .fromError  => .finish (predCalls cfg e ++ [.fromError e]) (.ok (strategyFromError e))
  | .fromReqErr => .finish (predCalls cfg e ++ [.fromReqErr rq e]) (.ok (strategyFromReqErr rq e))
  | .service    => .backup (predCalls cfg e)
  | .exception  => .finish (predCalls cfg e ++ [.exception e]) (.inner (strategyException e))

/-- `n` = number of invocations of the value function so far -/
def afterInner (cfg : Cfg) (rq : Request) (n : Nat) : IRes → Act
  | .ok r  => .finish [] (.ok r)
  | .err e => if accepts cfg e then applyStrategy cfg rq n e
              else .finish (predCalls cfg e) (.inner e)

def afterBackup : IRes → Outcome
  | .ok r  => .ok r
  | .err e => .failed e

/-- `Fallback::poll_ready` (lib.rs:270): `self.inner.poll_ready(cx).map_err(FallbackError::Inner)`.
A readiness error of the wrapped service surfaces unchanged under the pass-through variant; neither
the configuration (predicate, strategy) nor the backup service has any part in it. -/
def pollReady : Rdy → Option (Option Outcome)
  | .ready => some none
  | .pending => none
  | .error => some (some (.inner readyErr))

/-- the answer number `i` of a readiness script -/
def answer (script : List Rdy) (i : Nat) : Rdy := script.getD i .ready

/-- number of leading `pending` answers -/
def pendingRun : List Rdy → Nat
  | .pending :: tl => pendingRun tl + 1
  | _ => 0

/-- the whole layer as one pure reference function of (configuration, request, value-function
counter, inner result, backup result): callbacks made, was the backup called, outcome -/
def resolve (cfg : Cfg) (rq : Request) (n : Nat) (ri rb : IRes) : List Callback × Bool × Outcome :=
  match afterInner cfg rq n ri with
  | .finish cbs o => (cbs, false, o)
  | .backup cbs => (cbs, true, afterBackup rb)

/-! ## the state machine -/

/-- answer of the scripted service to the call with serial `k` for request `rq` -/
def svcResult (rq : Request) (k : Nat) : Out → Option IRes
  | .ok => some (.ok ⟨k, rq.c, rq.tag⟩)
  | .err kd => some (.err ⟨kd, k⟩)
  | _ => none

inductive FEv
  | innerCall (c k : Nat) (rq : Request)
  | innerDone (c k : Nat) (o : Out)
  | innerDrop (c k : Nat)
  | backupCall (c k : Nat) (rq : Request)
  | backupDone (c k : Nat) (o : Out)
  | backupDrop (c k : Nat)
  | callback (c : Nat) (cb : Callback)     -- `c` is ghost (not rendered): the call during which it happened
  | resp (c : Nat) (o : Outcome)           -- full payload of the result
  | result (c : Nat) (o : Outcome)
  | panicked (c : Nat)
  | notReady (c : Nat)                     -- `poll_ready` was pending when `c` arrived: no call is made
deriving DecidableEq, Repr, Inhabited

inductive Phase
  | fresh (rq : Request) (plan : List Step)
  | inner (rq : Request) (k doneAt : Nat) (out : Out) (bk : Step)
  | backup (rq : Request) (k doneAt : Nat) (out : Out)
  | done
deriving DecidableEq, Repr, Inhabited

structure State where
  now     : Nat := 0
  phase   : List (Nat × Phase) := []
  serial  : Nat := 0
  fnCalls : Nat := 0
  log     : List FEv := []
  /-- every handle on the service (the `Fallback` it was built as, its clones, the layer) has been
  dropped: no further call can be made. Read by `arrive` only — the response futures own their
  configuration (`Arc::clone(&self.config)`, lib.rs:278), so nothing else may depend on it. -/
  svcGone : Bool := false
  /-- number of `poll_ready` answers of the wrapped service consumed so far -/
  rdy     : Nat := 0
  /-- … and of the backup service -/
  brdy    : Nat := 0
deriving Repr

inductive Op
  | arrive (c : Nat) (tag : Nat) (plan : List Step)
  | poll (c : Nat)
  | drop (c : Nat)
  | adv (ms : Nat)
  | dropsvc                -- `manual dropsvc`: drop the service, all its clones and the layer
deriving Repr

def emit (s : State) (evs : List FEv) : State := { s with log := s.log ++ evs }
def setPhase (s : State) (c : Nat) (p : Phase) : State := { s with phase := (c, p) :: s.phase }
def known (s : State) (c : Nat) : Bool := (lookup s.phase c).isSome

inductive Next
  | fin
  | toBackup
deriving DecidableEq, Repr, Inhabited

def actEvents (c : Nat) : Act → List FEv × Next
  | .finish cbs o => (cbs.map (.callback c) ++ [.resp c o, .result c o], .fin)
  | .backup cbs => (cbs.map (.callback c), .toBackup)

/-- events of the poll in which the inner call (serial `k`, scripted outcome `out ≠ never`) completes -/
def completionInner (cfg : Cfg) (c : Nat) (rq : Request) (n k : Nat) (out : Out) : List FEv × Next :=
  match svcResult rq k out with
  | some r => (.innerDone c k out :: (actEvents c (afterInner cfg rq n r)).1, (actEvents c (afterInner cfg rq n r)).2)
  | none => ([.innerDone c k out, .panicked c], .fin)

/-- events of the poll in which the backup call completes -/
def completionBackup (c : Nat) (rq : Request) (k : Nat) (out : Out) : List FEv :=
  match svcResult rq k out with
  | some r => [.backupDone c k out, .resp c (afterBackup r), .result c (afterBackup r)]
  | none => [.backupDone c k out, .panicked c]

def isValueFn : FEv → Bool
  | .callback _ (.valueFn _) => true
  | _ => false

def pollBackup (s : State) (c : Nat) (rq : Request) (k t : Nat) (out : Out) : State :=
  if s.now ≥ t ∧ out ≠ .never then setPhase (emit s (completionBackup c rq k out)) c .done else s

/-- the backup service is ready: the call happens, then the returned future is polled in the same step -/
def callBackup (s : State) (c : Nat) (rq : Request) (bk : Step) : State :=
  let s1 := emit { s with serial := s.serial + 1 } [.backupCall c s.serial rq]
  pollBackup (setPhase s1 c (.backup rq s.serial (s.now + bk.lat) bk.out)) c rq s.serial (s.now + bk.lat) bk.out

/-- events when the backup service fails readiness: that is a failure of the backup, there is no backup call -/
def backupNotReady (c : Nat) : List FEv := [.resp c (afterBackup (.err readyErr)), .result c (afterBackup (.err readyErr))]

/-- `backup(req_clone).await`, the backup closure being `ready().await?` then `call(req)`: the pending
answers of the backup's `poll_ready` are consumed within this step (each makes the future wake
itself, so it is polled again at once), then it is ready — the call — or fails -/
def startBackup (cfg : Cfg) (s : State) (c : Nat) (rq : Request) (bk : Step) : State :=
  let j := pendingRun (cfg.bready.drop s.brdy)
  let s0 := { s with brdy := s.brdy + j + 1 }
  match answer cfg.bready (s.brdy + j) with
  | .error => setPhase (emit s0 (backupNotReady c)) c .done
  | _ => callBackup s0 c rq bk

/-- after the completion block: finished, or on to the backup service -/
def continueWith (cfg : Cfg) (s1 : State) (c : Nat) (rq : Request) (bk : Step) : Next → State
  | .fin => setPhase s1 c .done
  | .toBackup => startBackup cfg s1 c rq bk

/-- the poll in which the inner call completes: its completion block is emitted in one piece -/
def completeInner (cfg : Cfg) (s : State) (c : Nat) (rq : Request) (k : Nat) (out : Out) (bk : Step) : State :=
  continueWith cfg
    (emit { s with fnCalls := s.fnCalls + (completionInner cfg c rq s.fnCalls k out).1.countP isValueFn }
      (completionInner cfg c rq s.fnCalls k out).1)
    c rq bk (completionInner cfg c rq s.fnCalls k out).2

def pollInner (cfg : Cfg) (s : State) (c : Nat) (rq : Request) (k t : Nat) (out : Out) (bk : Step) : State :=
  if s.now ≥ t ∧ out ≠ .never then completeInner cfg s c rq k out bk else s

/-- first poll: `service.call(req)` inside the async block, then the inner future is polled -/
def pollFresh (cfg : Cfg) (s : State) (c : Nat) (rq : Request) (plan : List Step) : State :=
  let st := plan.headD { lat := 0, out := .ok }
  let bk := plan.tail.headD { lat := 0, out := .ok }
  let s1 := emit { s with serial := s.serial + 1 } [.innerCall c s.serial rq]
  pollInner cfg (setPhase s1 c (.inner rq s.serial (s.now + st.lat) st.out bk)) c rq s.serial (s.now + st.lat) st.out bk

/-- events of an arrival, by what `Fallback::poll_ready` returned -/
def arriveEvents (c : Nat) : Option (Option Outcome) → List FEv
  | none => [.notReady c]
  | some none => []
  | some (some o) => [.resp c o, .result c o]

/-- a caller arrives: it clones the service and polls it ready once (one answer of the wrapped
service's script); only when that is `Ready(Ok)` does it make the call -/
def arriveS (cfg : Cfg) (s : State) (c tag : Nat) (plan : List Step) : State :=
  let s1 := emit { s with rdy := s.rdy + 1 } (arriveEvents c (pollReady (answer cfg.ready s.rdy)))
  setPhase s1 c (if pollReady (answer cfg.ready s.rdy) = some none then .fresh ⟨c, tag⟩ plan else .done)

def stepS (cfg : Cfg) (s : State) (op : Op) : State :=
  match op with
  | .adv ms => { s with now := s.now + ms }
  | .arrive c tag plan => if s.svcGone || known s c then s else arriveS cfg s c tag plan
  | .dropsvc => { s with svcGone := true }
  | .poll c =>
      match lookup s.phase c with
      | some (.fresh rq plan) => pollFresh cfg s c rq plan
      | some (.inner rq k t out bk) => pollInner cfg s c rq k t out bk
      | some (.backup rq k t out) => pollBackup s c rq k t out
      | _ => s
  | .drop c =>
      match lookup s.phase c with
      | some (.fresh _ _) => setPhase s c .done
      | some (.inner _ k _ _ _) => setPhase (emit s [.innerDrop c k]) c .done
      | some (.backup _ k _ _) => setPhase (emit s [.backupDrop c k]) c .done
      | _ => s

def init : State := {}
def run (cfg : Cfg) (ops : List Op) : State := ops.foldl (stepS cfg) init

/-! ## rendering and line protocol -/

def b01 (b : Bool) : Nat := if b then 1 else 0

def Callback.render : Callback → String
  | .predicate e b => s!"predicate {e.kind} {e.v} {b01 b}"
  | .valueFn n => s!"strategy value_fn {n}"
  | .fromError e => s!"strategy from_error {e.kind} {e.v}"
  | .fromReqErr rq e => s!"strategy from_request_error {rq.c} {rq.tag} {e.kind} {e.v}"
  | .exception e => s!"strategy exception {e.kind} {e.v}"

def Outcome.detail : Outcome → String
  | .ok r => s!"ok {r.v} {r.c} {r.tag}"
  | .inner e => s!"inner {e.kind} {e.v}"
  | .failed e => s!"fallback_failed {e.kind} {e.v}"

/-- the result line uses the common grammar; `FallbackFailed(e)` (inner and backup both failed,
`e` is the backup's error) is rendered with the common variant `all_failed` -/
def Outcome.res : Outcome → Res
  | .ok r => .ok r.v
  | .inner e => .inner e.kind e.v
  | .failed e => .allFailed e.kind e.v

/-- `sx` / `bx`: the wrapped / the backup service has a readiness script (header `ready=` / `bready=`);
the scripted service then logs the request's tag and whether the instance it is called on was polled
ready — always, here: `Fallback::call` takes the instance `poll_ready` was called on (lib.rs:276), the
backup closure calls the clone it polled -/
def FEv.toEv (sx bx : Bool) : FEv → Ev
  | .innerCall c k rq => if sx then .innerCallX c k rq.tag true else .innerCall c k
  | .innerDone c k o => .innerDone c k o
  | .innerDrop c k => .innerDrop c k
  | .backupCall c k rq => .raw (if bx then s!"binner_call {c} {k} tag={rq.tag} ready=1" else s!"binner_call {c} {k}")
  | .backupDone c k o => .raw s!"binner_done {c} {k} {o.render}"
  | .backupDrop c k => .raw s!"binner_drop {c} {k}"
  | .callback _ cb => .raw cb.render
  | .resp c o => .raw s!"resp {c} {o.detail}"
  | .result c o => .result c o.res
  | .panicked c => .result c .panic
  | .notReady c => .result c .notReady

/-- `ready=rpe…`: r ready, p pending, e error (anything else: ready) -/
def parseReady (s : String) : List Rdy :=
  s.toList.map fun ch => if ch = 'p' then .pending else if ch = 'e' then .error else .ready

def parseStrategy (s : String) : Strategy :=
  if s = "value" then .value
  else if s = "value_fn" then .valueFn
  else if s = "from_error" then .fromError
  else if s = "from_request_error" then .fromReqErr
  else if s = "service" then .service
  else if s = "exception" then .exception
  else .value

def parseOp (ws : List String) : Option Op :=
  match ws with
  | "arrive" :: c :: rest =>
      let kv := parseKv rest
      let c := c.toNat?.getD 0
      some (.arrive c (kv.nat "tag" c) (planOf kv))
  | "poll" :: c :: _ => some (.poll (c.toNat?.getD 0))
  | "drop" :: c :: _ => some (.drop (c.toNat?.getD 0))
  | "adv" :: ms :: _ => some (.adv (ms.toNat?.getD 0))
  | "manual" :: "dropsvc" :: _ => some .dropsvc
  | _ => none

/-- operations the harness answers `noop` (line protocol only, not part of the log the theorems
are about): there is no service left to make the call on, and a call that was never made can be
neither polled nor dropped -/
def refused (s : State) : Op → Bool
  | .arrive _ _ _ => s.svcGone
  | .poll c => !known s c
  | .drop c => !known s c
  | _ => false

def machine : Machine where
  σ := (Bool × Bool) × Cfg × State
  init kv :=
    let cfg : Cfg := { strat := parseStrategy (kv.str "strategy" "value"), handle := kv.optNat "handle",
                       val := kv.nat "val" 0, ready := parseReady (kv.str "ready" ""),
                       bready := parseReady (kv.str "bready" "") }
    (((kv.get "ready").isSome, (kv.get "bready").isSome), cfg, init)
  step := fun (x, cfg, s) ws =>
    match parseOp ws with
    | some op =>
        let s' := stepS cfg s op
        ((x, cfg, s'), (s'.log.drop s.log.length).map (FEv.toEv x.1 x.2) ++ (if refused s op then [.raw "noop"] else []))
    | none => ((x, cfg, s), [])
  now := fun (_, _, s) => s.now

end TR.Fallback
