import TR.Model.Common
/-!
# Fallback (C17) — `crates/tower-resilience-fallback/src/lib.rs`, `Fallback::call`

The decision logic of the layer is the pure function `afterInner` (what to do with the result
of the inner call: pass it on, return it unchanged, apply a value-producing strategy, call the
backup service, transform the error) followed by `afterBackup`. Around it sits a small
state machine at the granularity of one `poll` of one call future, because the inner call and
the backup call take (virtual) time and the future can be dropped in every phase:

  fresh --first poll: inner.call(req)--> inner --done--> finished | backup --done--> finished

Payloads are distinguishable: a request is `(c, tag)`, the inner/backup service answers the
call with serial `k` by `Resp k c tag` or `IErr kind k`, so "exactly what the strategy
specifies for that request and that error" is visible in every result.

The caller may drop the service, every clone of it and the layer at any time (`Op.dropsvc`, the
harness's `manual dropsvc`): the response futures own what they need, so this only prevents
further calls (flag `svcGone`, read by `arrive` alone; TR.Props.C17.dropsvc_only_stops_new_calls).

Readiness (`Fallback::poll_ready`, lib.rs:270): the layer forwards `poll_ready` to the wrapped
service and wraps an error in the pass-through variant `FallbackError::Inner` — nothing else: no
predicate, no strategy, and the backup service is not consulted (it is a closure `Fn(Req) -> Future`,
it has no readiness the layer could poll). The wrapped service answers successive `poll_ready`
calls from a script (`Cfg.ready`: ready / pending / error); a caller polls readiness once when it
arrives: pending — it gives up (`notReady`), error — it gets that error, unchanged. The backup
closure of the harness is `|req| async move { backup.ready().await?.call(req).await }` on a second
scripted service (`Cfg.bready`; without a script `|req| backup.call(req)`, which is the same
thing for a service that is always ready): a pending answer makes the response future wake itself (it is polled again in the
same step), a readiness error of the backup is a failure of the backup (`FallbackFailed`), with no
backup call.

The user-supplied functions of the configuration (handle predicate, value, value function,
`from_error`, `from_request_error`, error transformation) are PARAMETERS of the model (`Cfg`): every
definition and every theorem is about arbitrary functions. The functions the harness hands to the
real builder — fixed, injective-enough test functions (`strategyValue` … below) — are the instance
`test` the line-protocol machine runs. Each invocation of a user function is an event (`callback`).

Outside the machine, as pure functions of a delivered result: what the caller sees of it through
`FallbackError`'s own API (accessors, `map`, `clone`: `postRun`), and a second fallback layer stacked
on top (`upperFinish` = the decision function once more, on the lower layer's result; `stackLog` = the
log of the stack as a function of this machine's log). `callerLog` = what the caller logs, as a function
of the (stack's) log: every delivered result through the caller's `postRun` — the line-protocol machine
prints exactly `callerLog` of each new stretch of the log.
-/
namespace TR.Fallback

inductive Strategy
  | value        -- `FallbackStrategy::Value(v)`             : clone of a static value
  | valueFn      -- `FallbackStrategy::ValueFn(f)`           : `f()`
  | fromError    -- `FallbackStrategy::FromError(f)`         : `f(&error)`
  | fromReqErr   -- `FallbackStrategy::FromRequestError(f)`  : `f(&req, &error)`
  | service      -- `FallbackStrategy::Service(backup)`      : `backup(req).await`
  | exception    -- `FallbackStrategy::Exception(t)`         : `Err(Inner(t(error)))`
deriving DecidableEq, Repr, Inhabited

/-- answer of a scripted service to one `poll_ready` -/
inductive Rdy
  | ready
  | pending
  | error      -- `Poll::Ready(Err(readyErr))`
deriving DecidableEq, Repr, Inhabited

structure Request where
  c   : Nat
  tag : Nat
deriving DecidableEq, Repr, Inhabited

structure Resp where
  v   : Nat
  c   : Nat
  tag : Nat
deriving DecidableEq, Repr, Inhabited

structure IErr where
  kind : Nat
  v    : Nat
deriving DecidableEq, Repr, Inhabited

/-- A configuration of the layer: the strategy and the user-supplied functions, all arbitrary.
(`Req`, `Res`, `E` of the code are the payload types `Request`, `Resp`, `IErr`; a user function is a
total function of its arguments — except the value function, a closure `Fn() -> Res` without
arguments, which may be stateful: `valueFn n` is what its invocation number `n` returns.) -/
structure Cfg where
  strat  : Strategy
  /-- the handle predicate (`.handle(|e| …)`); `none` = no predicate configured -/
  pred   : Option (IErr → Bool)
  /-- `FallbackStrategy::Value(v)`: the configured static value -/
  value  : Resp
  /-- `FallbackStrategy::ValueFn(f)`: the response returned by invocation number `n` of `f` -/
  valueFn : Nat → Resp
  /-- `FallbackStrategy::FromError(f)` -/
  fromError : IErr → Resp
  /-- `FallbackStrategy::FromRequestError(f)` -/
  fromReqErr : Request → IErr → Resp
  /-- `FallbackStrategy::Exception(t)` -/
  exception : IErr → IErr
  /-- answers of the wrapped service to successive `poll_ready` calls (on any clone); ready once exhausted -/
  ready  : List Rdy := []
  /-- the same for the backup service of the service strategy -/
  bready : List Rdy := []

/-- result of the inner (or backup) service: `Result<Resp, IErr>` -/
inductive IRes
  | ok (r : Resp)
  | err (e : IErr)
deriving DecidableEq, Repr, Inhabited

/-- result of the layer: `Result<Resp, FallbackError<IErr>>` -/
inductive Outcome
  | ok (r : Resp)
  | inner (e : IErr)       -- `FallbackError::Inner`
  | failed (e : IErr)      -- `FallbackError::FallbackFailed`
deriving DecidableEq, Repr, Inhabited

/-- the error with which a scripted service fails `poll_ready` (world.rs: `IErr { kind: 9, v: 0 }`) -/
def readyErr : IErr := ⟨9, 0⟩

/-- invocation of a user-supplied function of the configuration -/
inductive Callback
  | predicate (e : IErr) (b : Bool)
  | valueFn (n : Nat)
  | fromError (e : IErr)
  | fromReqErr (rq : Request) (e : IErr)
  | exception (e : IErr)
deriving DecidableEq, Repr, Inhabited

/-! ## the handle predicate -/

/-- does the layer handle the error: the handle predicate says so; every error, if there is none
(lib.rs:308 `handle_predicate.as_ref().map(|p| p(&error)).unwrap_or(true)`) -/
def accepts (cfg : Cfg) (e : IErr) : Bool :=
  match cfg.pred with
  | none => true
  | some p => p e

/-! ## the test functions the harness configures the layer with: the instance `test` -/

/-- the test predicate: bit `kind` of the mask -/
def maskPred (m : Nat) (e : IErr) : Bool := m.testBit e.kind
def strategyValue (val : Nat) : Resp := ⟨val, 0, 0⟩
/-- `n` = number of earlier invocations of the value function -/
def strategyValueFn (val : Nat) (n : Nat) : Resp := ⟨val + n, 0, 1⟩
def strategyFromError (e : IErr) : Resp := ⟨e.v, 0, e.kind⟩
def strategyFromReqErr (rq : Request) (e : IErr) : Resp := ⟨e.v, rq.c, rq.tag * 100 + e.kind⟩
def strategyException (e : IErr) : IErr := ⟨e.kind + 10, e.v⟩

/-- the configuration the harness builds from a case header: strategy, predicate as a bit mask over
error kinds (`none` = no predicate), `val` = the configured static value / base of the value function -/
def test (strat : Strategy) (handle : Option Nat) (val : Nat) (ready : List Rdy := []) (bready : List Rdy := []) : Cfg :=
  { strat := strat, pred := handle.map maskPred, value := strategyValue val, valueFn := strategyValueFn val,
    fromError := strategyFromError, fromReqErr := strategyFromReqErr, exception := strategyException,
    ready := ready, bready := bready }

/-! ## the decision logic (lib.rs:286 `match result`, 308 predicate gate, 349 strategy match) -/

/-- what the layer does once the inner result is known -/
inductive Act
  | finish (cbs : List Callback) (o : Outcome)
  | backup (cbs : List Callback)          -- call the backup service with the (cloned) request
deriving DecidableEq, Repr, Inhabited

/-- the predicate is consulted only when one is configured -/
def predCalls (cfg : Cfg) (e : IErr) : List Callback :=
  match cfg.pred with
  | none => []
  | some _ => [.predicate e (accepts cfg e)]

def applyStrategy (cfg : Cfg) (rq : Request) (n : Nat) (e : IErr) : Act :=
  match cfg.strat with
  | .value      => .finish (predCalls cfg e) (.ok cfg.value)
  | .valueFn    => .finish (predCalls cfg e ++ [.valueFn n]) (.ok (cfg.valueFn n))
  | .fromError  => .finish (predCalls cfg e ++ [.fromError e]) (.ok (cfg.fromError e))
  | .fromReqErr => .finish (predCalls cfg e ++ [.fromReqErr rq e]) (.ok (cfg.fromReqErr rq e))
  | .service    => .backup (predCalls cfg e)
  | .exception  => .finish (predCalls cfg e ++ [.exception e]) (.inner (cfg.exception e))

/-- `n` = number of invocations of the value function so far -/
def afterInner (cfg : Cfg) (rq : Request) (n : Nat) : IRes → Act
  | .ok r  => .finish [] (.ok r)
  | .err e => if accepts cfg e then applyStrategy cfg rq n e
              else .finish (predCalls cfg e) (.inner e)

def afterBackup : IRes → Outcome
  | .ok r  => .ok r
  | .err e => .failed e

/-- `Fallback::poll_ready` (lib.rs:270): `self.inner.poll_ready(cx).map_err(FallbackError::Inner)`.
A readiness error of the wrapped service surfaces unchanged under the pass-through variant; neither
the configuration (predicate, strategy) nor the backup service has any part in it. -/
def pollReady : Rdy → Option (Option Outcome)
  | .ready => some none
  | .pending => none
  | .error => some (some (.inner readyErr))

/-- the answer number `i` of a readiness script -/
def answer (script : List Rdy) (i : Nat) : Rdy := script.getD i .ready

/-- number of leading `pending` answers -/
def pendingRun : List Rdy → Nat
  | .pending :: tl => pendingRun tl + 1
  | _ => 0

/-- the whole layer as one pure reference function of (configuration, request, value-function
counter, inner result, backup result): callbacks made, was the backup called, outcome -/
def resolve (cfg : Cfg) (rq : Request) (n : Nat) (ri rb : IRes) : List Callback × Bool × Outcome :=
  match afterInner cfg rq n ri with
  | .finish cbs o => (cbs, false, o)
  | .backup cbs => (cbs, true, afterBackup rb)

/-! ## the state machine -/

/-- answer of the scripted service to the call with serial `k` for request `rq` -/
def svcResult (rq : Request) (k : Nat) : Out → Option IRes
  | .ok => some (.ok ⟨k, rq.c, rq.tag⟩)
  | .err kd => some (.err ⟨kd, k⟩)
  | _ => none

inductive FEv
  | innerCall (c k : Nat) (rq : Request)
  | innerDone (c k : Nat) (o : Out)
  | innerDrop (c k : Nat)
  | backupCall (c k : Nat) (rq : Request)
  | backupDone (c k : Nat) (o : Out)
  | backupDrop (c k : Nat)
  | callback (c : Nat) (cb : Callback)     -- `c` is ghost (not rendered): the call during which it happened
  | resp (c : Nat) (o : Outcome)           -- full payload of the result
  | result (c : Nat) (o : Outcome)
  | panicked (c : Nat)
  | notReady (c : Nat)                     -- `poll_ready` was pending when `c` arrived: no call is made
deriving DecidableEq, Repr, Inhabited

inductive Phase
  | fresh (rq : Request) (plan : List Step)
  | inner (rq : Request) (k doneAt : Nat) (out : Out) (bk : Step)
  | backup (rq : Request) (k doneAt : Nat) (out : Out)
  | done
deriving DecidableEq, Repr, Inhabited

structure State where
  now     : Nat := 0
  phase   : List (Nat × Phase) := []
  serial  : Nat := 0
  fnCalls : Nat := 0
  log     : List FEv := []
  /-- every handle on the service (the `Fallback` it was built as, its clones, the layer) has been
  dropped: no further call can be made. Read by `arrive` only — the response futures own their
  configuration (`Arc::clone(&self.config)`, lib.rs:278), so nothing else may depend on it. -/
  svcGone : Bool := false
  /-- number of `poll_ready` answers of the wrapped service consumed so far -/
  rdy     : Nat := 0
  /-- … and of the backup service -/
  brdy    : Nat := 0
deriving Repr

inductive Op
  | arrive (c : Nat) (tag : Nat) (plan : List Step)
  | poll (c : Nat)
  | drop (c : Nat)
  | adv (ms : Nat)
  | dropsvc                -- `manual dropsvc`: drop the service, all its clones and the layer
deriving Repr

def emit (s : State) (evs : List FEv) : State := { s with log := s.log ++ evs }
def setPhase (s : State) (c : Nat) (p : Phase) : State := { s with phase := (c, p) :: s.phase }
def known (s : State) (c : Nat) : Bool := (lookup s.phase c).isSome

inductive Next
  | fin
  | toBackup
deriving DecidableEq, Repr, Inhabited

def actEvents (c : Nat) : Act → List FEv × Next
  | .finish cbs o => (cbs.map (.callback c) ++ [.resp c o, .result c o], .fin)
  | .backup cbs => (cbs.map (.callback c), .toBackup)

/-- events of the poll in which the inner call (serial `k`, scripted outcome `out ≠ never`) completes -/
def completionInner (cfg : Cfg) (c : Nat) (rq : Request) (n k : Nat) (out : Out) : List FEv × Next :=
  match svcResult rq k out with
  | some r => (.innerDone c k out :: (actEvents c (afterInner cfg rq n r)).1, (actEvents c (afterInner cfg rq n r)).2)
  | none => ([.innerDone c k out, .panicked c], .fin)

/-- events of the poll in which the backup call completes -/
def completionBackup (c : Nat) (rq : Request) (k : Nat) (out : Out) : List FEv :=
  match svcResult rq k out with
  | some r => [.backupDone c k out, .resp c (afterBackup r), .result c (afterBackup r)]
  | none => [.backupDone c k out, .panicked c]

def isValueFn : FEv → Bool
  | .callback _ (.valueFn _) => true
  | _ => false

def pollBackup (s : State) (c : Nat) (rq : Request) (k t : Nat) (out : Out) : State :=
  if s.now ≥ t ∧ out ≠ .never then setPhase (emit s (completionBackup c rq k out)) c .done else s

/-- the backup service is ready: the call happens, then the returned future is polled in the same step -/
def callBackup (s : State) (c : Nat) (rq : Request) (bk : Step) : State :=
  let s1 := emit { s with serial := s.serial + 1 } [.backupCall c s.serial rq]
  pollBackup (setPhase s1 c (.backup rq s.serial (s.now + bk.lat) bk.out)) c rq s.serial (s.now + bk.lat) bk.out

/-- events when the backup service fails readiness: that is a failure of the backup, there is no backup call -/
def backupNotReady (c : Nat) : List FEv := [.resp c (afterBackup (.err readyErr)), .result c (afterBackup (.err readyErr))]

/-- `backup(req_clone).await`, the backup closure being `ready().await?` then `call(req)`: the pending
answers of the backup's `poll_ready` are consumed within this step (each makes the future wake
itself, so it is polled again at once), then it is ready — the call — or fails -/
def startBackup (cfg : Cfg) (s : State) (c : Nat) (rq : Request) (bk : Step) : State :=
  let j := pendingRun (cfg.bready.drop s.brdy)
  let s0 := { s with brdy := s.brdy + j + 1 }
  match answer cfg.bready (s.brdy + j) with
  | .error => setPhase (emit s0 (backupNotReady c)) c .done
  | _ => callBackup s0 c rq bk

/-- after the completion block: finished, or on to the backup service -/
def continueWith (cfg : Cfg) (s1 : State) (c : Nat) (rq : Request) (bk : Step) : Next → State
  | .fin => setPhase s1 c .done
  | .toBackup => startBackup cfg s1 c rq bk

/-- the poll in which the inner call completes: its completion block is emitted in one piece -/
def completeInner (cfg : Cfg) (s : State) (c : Nat) (rq : Request) (k : Nat) (out : Out) (bk : Step) : State :=
  continueWith cfg
    (emit { s with fnCalls := s.fnCalls + (completionInner cfg c rq s.fnCalls k out).1.countP isValueFn }
      (completionInner cfg c rq s.fnCalls k out).1)
    c rq bk (completionInner cfg c rq s.fnCalls k out).2

def pollInner (cfg : Cfg) (s : State) (c : Nat) (rq : Request) (k t : Nat) (out : Out) (bk : Step) : State :=
  if s.now ≥ t ∧ out ≠ .never then completeInner cfg s c rq k out bk else s

/-- first poll: `service.call(req)` inside the async block, then the inner future is polled -/
def pollFresh (cfg : Cfg) (s : State) (c : Nat) (rq : Request) (plan : List Step) : State :=
  let st := plan.headD { lat := 0, out := .ok }
  let bk := plan.tail.headD { lat := 0, out := .ok }
  let s1 := emit { s with serial := s.serial + 1 } [.innerCall c s.serial rq]
  pollInner cfg (setPhase s1 c (.inner rq s.serial (s.now + st.lat) st.out bk)) c rq s.serial (s.now + st.lat) st.out bk

/-- events of an arrival, by what `Fallback::poll_ready` returned -/
def arriveEvents (c : Nat) : Option (Option Outcome) → List FEv
  | none => [.notReady c]
  | some none => []
  | some (some o) => [.resp c o, .result c o]

/-- a caller arrives: it clones the service and polls it ready once (one answer of the wrapped
service's script); only when that is `Ready(Ok)` does it make the call -/
def arriveS (cfg : Cfg) (s : State) (c tag : Nat) (plan : List Step) : State :=
  let s1 := emit { s with rdy := s.rdy + 1 } (arriveEvents c (pollReady (answer cfg.ready s.rdy)))
  setPhase s1 c (if pollReady (answer cfg.ready s.rdy) = some none then .fresh ⟨c, tag⟩ plan else .done)

def stepS (cfg : Cfg) (s : State) (op : Op) : State :=
  match op with
  | .adv ms => { s with now := s.now + ms }
  | .arrive c tag plan => if s.svcGone || known s c then s else arriveS cfg s c tag plan
  | .dropsvc => { s with svcGone := true }
  | .poll c =>
      match lookup s.phase c with
      | some (.fresh rq plan) => pollFresh cfg s c rq plan
      | some (.inner rq k t out bk) => pollInner cfg s c rq k t out bk
      | some (.backup rq k t out) => pollBackup s c rq k t out
      | _ => s
  | .drop c =>
      match lookup s.phase c with
      | some (.fresh _ _) => setPhase s c .done
      | some (.inner _ k _ _ _) => setPhase (emit s [.innerDrop c k]) c .done
      | some (.backup _ k _ _) => setPhase (emit s [.backupDrop c k]) c .done
      | _ => s

def init : State := {}
def run (cfg : Cfg) (ops : List Op) : State := ops.foldl (stepS cfg) init

/-! ## the caller's side of the result: `FallbackError`'s own API (error.rs)

What the layer hands to its caller is a `Result<Resp, FallbackError<E>>`; the caller looks at the
error through the crate's own accessors, converts its payload with `FallbackError::map` (the usual
`map_err(|e| e.map(AppErr::from))` glue of a stack with an application error type) and may clone it.
None of this may change which variant the layer produced, and the payload changes by exactly the
function given to `map`. -/

/-- `FallbackError::is_inner` (on a success there is no `FallbackError` to ask: `false`) -/
def Outcome.isInner : Outcome → Bool
  | .inner _ => true
  | _ => false

/-- `FallbackError::is_fallback_failed` -/
def Outcome.isFailed : Outcome → Bool
  | .failed _ => true
  | _ => false

/-- `FallbackError::inner` / `FallbackError::into_inner`: the payload, whatever the variant -/
def Outcome.payload : Outcome → Option IErr
  | .ok _ => none
  | .inner e => some e
  | .failed e => some e

/-- `result.map_err(|e| e.map(f))`: the variant stays, the payload goes through `f` -/
def Outcome.mapErr (f : IErr → IErr) : Outcome → Outcome
  | .ok r => .ok r
  | .inner e => .inner (f e)
  | .failed e => .failed (f e)

/-- `result.map_err(|e| e.clone())`: a clone is equal to the original -/
def Outcome.cloneErr (o : Outcome) : Outcome := o

/-- the caller's payload conversion (`AppErr::from` in the harness): kind + 100 -/
def appErr (e : IErr) : IErr := ⟨e.kind + 100, e.v⟩

/-- one step of what a caller does with an error result before looking at it (`post=` on `arrive`:
`c` clone, `v` view through the accessors, `m` map the payload) -/
inductive PostStep
  | clone
  | view
  | map
deriving DecidableEq, Repr, Inhabited

def postStep : PostStep → Outcome → Outcome
  | .clone, o => o.cloneErr
  | .view, o => o
  | .map, o => o.mapErr appErr

/-- what the four accessors report: `is_inner()`, `is_fallback_failed()`, `inner()`, `into_inner()` -/
structure View where
  isInner  : Bool
  isFailed : Bool
  ref      : IErr
  into     : IErr
deriving DecidableEq, Repr, Inhabited

/-- a success carries no `FallbackError`: nothing to look at -/
def viewOf (o : Outcome) : List View :=
  match o.payload with
  | some e => [⟨o.isInner, o.isFailed, e, e⟩]
  | none => []

/-- the caller's post-processing: the views taken on the way and the result as finally observed -/
def postRun : List PostStep → Outcome → List View × Outcome
  | [], o => ([], o)
  | st :: tl, o =>
      ((if st = .view then viewOf (postStep st o) else []) ++ (postRun tl (postStep st o)).1,
       (postRun tl (postStep st o)).2)

/-- number of `map` steps -/
def mapCount (steps : List PostStep) : Nat := steps.countP (· = .map)

/-- `f` applied `n` times -/
def iter (f : IErr → IErr) : Nat → IErr → IErr
  | 0, e => e
  | n + 1, e => iter f n (f e)

/-! ## two fallback layers stacked: a second instance of the decision function on top

The upper layer wraps the lower one, so its inner error type is the lower layer's
`FallbackError<IErr>`. Its test functions are the same as the lower layer's (bit-mask predicate,
`val`/`val+n`, `from_error`, `from_request_error`, `kind+10` transformation) read through an injective
encoding of that error into an `IErr`: `Inner(e)` has kind `2·e.kind`, `FallbackFailed(e)` kind
`2·e.kind+1` — a predicate mask therefore addresses (variant, kind), a transformed error keeps its
variant, and every function sees which variant it was handed. The upper layer's own result is
rendered through the same encoding. (The upper layer never uses the backup-service strategy here:
its decision is taken in the poll in which the lower layer's future resolves.) -/

/-- the lower layer's result as the upper layer's inner result (`Result<Resp, FallbackError<IErr>>`) -/
def Outcome.asInner : Outcome → IRes
  | .ok r => .ok r
  | .inner e => .err ⟨2 * e.kind, e.v⟩
  | .failed e => .err ⟨2 * e.kind + 1, e.v⟩

/-- the upper layer's decision on the lower layer's result: callbacks made, result of the stack.
`n` = earlier invocations of the upper layer's value function -/
def upperFinish (u : Cfg) (rq : Request) (n : Nat) (o : Outcome) : List Callback × Outcome :=
  match afterInner u rq n o.asInner with
  | .finish cbs o' => (cbs, o')
  | .backup cbs => (cbs, .inner ⟨0, 0⟩)     -- upper strategy = backup service: not built by the harness

/-- `poll_ready` of the upper layer: forwards, wrapping the lower layer's readiness error once more -/
def upperReady (o : Outcome) : Outcome :=
  match o.asInner with
  | .ok r => .ok r
  | .err e => .inner e

/-- both layers as one pure reference function: the lower instance's `resolve`, then the upper
instance's decision on its outcome -/
def stackResolve (l u : Cfg) (rq : Request) (nl nu : Nat) (ri rb : IRes) :
    List Callback × Bool × List Callback × Outcome :=
  ((resolve l rq nl ri rb).1, (resolve l rq nl ri rb).2.1,
   (upperFinish u rq nu (resolve l rq nl ri rb).2.2).1, (upperFinish u rq nu (resolve l rq nl ri rb).2.2).2)

/-- events of the stack: those of the lower instance, and the upper layer's callbacks -/
inductive SEv
  | low (e : FEv)
  | up (c : Nat) (cb : Callback)
deriving DecidableEq, Repr, Inhabited

def isValueFnCb : Callback → Bool
  | .valueFn _ => true
  | _ => false

/-- The log of the stack as a function of the lower instance's log. The lower layer's future
resolving (`resp c o`, `result c o` — always logged together) is not seen by the caller of the stack:
in the same poll the upper layer takes its decision on `o` (its callbacks are logged) and the caller
sees the upper layer's result. A result for a request whose inner call was never made is a readiness
failure: both `poll_ready`s forwarded it. `n` = invocations of the upper value function so far,
`rqs` = the requests given to the inner calls so far. -/
def liftLog (u : Cfg) : Nat → List (Nat × Request) → List FEv → List SEv
  | _, _, [] => []
  | n, rqs, .innerCall c k rq :: tl => .low (.innerCall c k rq) :: liftLog u n ((c, rq) :: rqs) tl
  | n, rqs, .resp c o :: tl =>
      match lookup rqs c with
      | some _ => liftLog u n rqs tl
      | none => .low (.resp c (upperReady o)) :: liftLog u n rqs tl
  | n, rqs, .result c o :: tl =>
      match lookup rqs c with
      | some rq =>
          (upperFinish u rq n o).1.map (.up c)
            ++ .low (.resp c (upperFinish u rq n o).2) :: .low (.result c (upperFinish u rq n o).2)
            :: liftLog u (n + (upperFinish u rq n o).1.countP isValueFnCb) rqs tl
      | none => .low (.result c (upperReady o)) :: liftLog u n rqs tl
  | n, rqs, e :: tl => .low e :: liftLog u n rqs tl

/-- the accumulators of `liftLog` after a stretch of the lower instance's log -/
def liftAcc (u : Cfg) : Nat → List (Nat × Request) → List FEv → Nat × List (Nat × Request)
  | n, rqs, [] => (n, rqs)
  | n, rqs, .innerCall c _ rq :: tl => liftAcc u n ((c, rq) :: rqs) tl
  | n, rqs, .result c o :: tl =>
      match lookup rqs c with
      | some rq => liftAcc u (n + (upperFinish u rq n o).1.countP isValueFnCb) rqs tl
      | none => liftAcc u n rqs tl
  | n, rqs, _ :: tl => liftAcc u n rqs tl

/-- the log the caller of the stack sees -/
def stackLog (u : Cfg) (log : List FEv) : List SEv := liftLog u 0 [] log

/-- the documented meaning of a shortcut constructor (`FallbackLayer::value(v)`, `::value_fn(f)`,
`::from_error(f)`, `::from_request_error(f)`, `::service(s)`, `::exception(f)`, layer.rs:45-152):
the builder with that strategy and nothing else — no predicate -/
def shortcut (strat : Strategy) (val : Nat) : Cfg := test strat none val

/-! ## the builder: a chain of setter calls (`FallbackConfigBuilder`, config.rs)

`FallbackLayer::builder()` followed by any number of setter calls and `build()`. There are two
independent slots: the strategy (written by `value`, `value_fn`, `from_error`, `from_request_error`,
`service`, `exception` — each documented as "Sets the fallback strategy to …", so the one called LAST
is in force, with the function IT was given) and the handle predicate (written by `handle`; the last
one is in force, none if it was never called). No setter touches the other slot; `name` touches
neither. `build()` panics when no strategy setter was ever called. -/

/-- a strategy together with the user function it was configured with (`FallbackStrategy<Req, Res, E>`) -/
inductive StrategyFn
  | value (v : Resp)
  | valueFn (f : Nat → Resp)
  | fromError (f : IErr → Resp)
  | fromReqErr (f : Request → IErr → Resp)
  | service
  | exception (f : IErr → IErr)

def StrategyFn.kind : StrategyFn → Strategy
  | .value _ => .value
  | .valueFn _ => .valueFn
  | .fromError _ => .fromError
  | .fromReqErr _ => .fromReqErr
  | .service => .service
  | .exception _ => .exception

/-- the configuration with that strategy in force: its kind and its function (the function fields of the
other strategies are not read under it: `TR.Props.C17.install_reads_own_function`) -/
def StrategyFn.install (base : Cfg) : StrategyFn → Cfg
  | .value v => { base with strat := .value, value := v }
  | .valueFn f => { base with strat := .valueFn, valueFn := f }
  | .fromError f => { base with strat := .fromError, fromError := f }
  | .fromReqErr f => { base with strat := .fromReqErr, fromReqErr := f }
  | .service => { base with strat := .service }
  | .exception f => { base with strat := .exception, exception := f }

/-- one call on the builder -/
inductive Setter
  | strategy (f : StrategyFn)
  | handle (p : IErr → Bool)
  | name

def Setter.isStrategy : Setter → Bool
  | .strategy _ => true
  | _ => false

def Setter.isHandle : Setter → Bool
  | .handle _ => true
  | _ => false

/-- the two slots of the builder -/
structure Builder where
  strategy : Option StrategyFn := none
  pred : Option (IErr → Bool) := none

def Builder.set (b : Builder) : Setter → Builder
  | .strategy f => { b with strategy := some f }
  | .handle p => { b with pred := some p }
  | .name => b

/-- the builder after a chain of setter calls -/
def chainBuilder (chain : List Setter) : Builder := chain.foldl Builder.set {}

/-- `build()`: `none` = it panics ("fallback strategy must be set"); `base` supplies what the builder
does not configure (the readiness scripts of the scripted services) -/
def Builder.build (base : Cfg) (b : Builder) : Option Cfg :=
  b.strategy.map fun f => f.install { base with pred := b.pred }

def buildChain (base : Cfg) (chain : List Setter) : Option Cfg := (chainBuilder chain).build base

/-- the strategy setter called last, as a function of the chain alone -/
def lastStrategy : List Setter → Option StrategyFn
  | [] => none
  | .strategy f :: tl => (match lastStrategy tl with | some g => some g | none => some f)
  | _ :: tl => lastStrategy tl

/-- the handle setter called last -/
def lastHandle : List Setter → Option (IErr → Bool)
  | [] => none
  | .handle p :: tl => (match lastHandle tl with | some q => some q | none => some p)
  | _ :: tl => lastHandle tl

/-- the harness's setter for one token of `chain=`: a strategy name (`value:<n>` / `value_fn:<n>`: with `n`
instead of `val`), `h<mask>`, `n` -/
def parseSetter (val : Nat) (tok : String) : Option Setter :=
  let name := (tok.splitOn ":").headD ""
  let v := (((tok.splitOn ":").tail.headD "").toNat?).getD val
  if name = "value" then some (.strategy (.value (strategyValue v)))
  else if name = "value_fn" then some (.strategy (.valueFn (strategyValueFn v)))
  else if name = "from_error" then some (.strategy (.fromError strategyFromError))
  else if name = "from_request_error" then some (.strategy (.fromReqErr strategyFromReqErr))
  else if name = "service" then some (.strategy .service)
  else if name = "exception" then some (.strategy (.exception strategyException))
  else if name = "n" then some .name
  else if name.startsWith "h" then (name.drop 1).toNat?.map fun m => .handle (maskPred m)
  else none

/-- header `chain=<setter>.<setter>.…` -/
def parseChain (val : Nat) (s : String) : List Setter := (s.splitOn ".").filterMap (parseSetter val)

/-! ## rendering and line protocol -/

def b01 (b : Bool) : Nat := if b then 1 else 0

def Callback.render : Callback → String
  | .predicate e b => s!"predicate {e.kind} {e.v} {b01 b}"
  | .valueFn n => s!"strategy value_fn {n}"
  | .fromError e => s!"strategy from_error {e.kind} {e.v}"
  | .fromReqErr rq e => s!"strategy from_request_error {rq.c} {rq.tag} {e.kind} {e.v}"
  | .exception e => s!"strategy exception {e.kind} {e.v}"

def Outcome.detail : Outcome → String
  | .ok r => s!"ok {r.v} {r.c} {r.tag}"
  | .inner e => s!"inner {e.kind} {e.v}"
  | .failed e => s!"fallback_failed {e.kind} {e.v}"

/-- the result line uses the common grammar; `FallbackFailed(e)` (inner and backup both failed,
`e` is the backup's error) is rendered with the common variant `all_failed` -/
def Outcome.res : Outcome → Res
  | .ok r => .ok r.v
  | .inner e => .inner e.kind e.v
  | .failed e => .allFailed e.kind e.v

/-- `sx` / `bx`: the wrapped / the backup service has a readiness script (header `ready=` / `bready=`);
the scripted service then logs the request's tag and whether the instance it is called on was polled
ready — always, here: `Fallback::call` takes the instance `poll_ready` was called on (lib.rs:276), the
backup closure calls the clone it polled -/
def FEv.toEv (sx bx : Bool) : FEv → Ev
  | .innerCall c k rq => if sx then .innerCallX c k rq.tag true else .innerCall c k
  | .innerDone c k o => .innerDone c k o
  | .innerDrop c k => .innerDrop c k
  | .backupCall c k rq => .raw (if bx then s!"binner_call {c} {k} tag={rq.tag} ready=1" else s!"binner_call {c} {k}")
  | .backupDone c k o => .raw s!"binner_done {c} {k} {o.render}"
  | .backupDrop c k => .raw s!"binner_drop {c} {k}"
  | .callback _ cb => .raw cb.render
  | .resp c o => .raw s!"resp {c} {o.detail}"
  | .result c o => .result c o.res
  | .panicked c => .result c .panic
  | .notReady c => .result c .notReady

/-- `ready=rpe…`: r ready, p pending, e error (anything else: ready) -/
def parseReady (s : String) : List Rdy :=
  s.toList.map fun ch => if ch = 'p' then .pending else if ch = 'e' then .error else .ready

def parseStrategy (s : String) : Strategy :=
  if s = "value" then .value
  else if s = "value_fn" then .valueFn
  else if s = "from_error" then .fromError
  else if s = "from_request_error" then .fromReqErr
  else if s = "service" then .service
  else if s = "exception" then .exception
  else .value

def parseOp (ws : List String) : Option Op :=
  match ws with
  | "arrive" :: c :: rest =>
      let kv := parseKv rest
      let c := c.toNat?.getD 0
      some (.arrive c (kv.nat "tag" c) (planOf kv))
  | "poll" :: c :: _ => some (.poll (c.toNat?.getD 0))
  | "drop" :: c :: _ => some (.drop (c.toNat?.getD 0))
  | "adv" :: ms :: _ => some (.adv (ms.toNat?.getD 0))
  | "manual" :: "dropsvc" :: _ => some .dropsvc
  | _ => none

/-- operations the harness answers `noop` (line protocol only, not part of the log the theorems
are about): there is no service left to make the call on, and a call that was never made can be
neither polled nor dropped -/
def refused (s : State) : Op → Bool
  | .arrive _ _ _ => s.svcGone
  | .poll c => !known s c
  | .drop c => !known s c
  | _ => false

/-- `post=cvm…` on `arrive`: c clone, v view, m map (anything else is ignored) -/
def parsePost (s : String) : List PostStep :=
  s.toList.filterMap fun ch =>
    if ch = 'c' then some .clone else if ch = 'v' then some .view else if ch = 'm' then some .map else none

def View.render (c : Nat) (v : View) : String :=
  s!"view {c} {b01 v.isInner} {b01 v.isFailed} {v.ref.kind} {v.ref.v} {v.into.kind} {v.into.v}"

/-- what the caller of the layer (or of the stack) logs: the events of the (stack's) log, and what the
accessors of `FallbackError` show it on the way -/
inductive CEv
  | ev (e : SEv)
  | view (c : Nat) (v : View)
deriving DecidableEq, Repr, Inhabited

/-- the post-processing steps of caller `c` (`post=` of its `arrive`; none if it gave none) -/
def stepsOf (posts : List (Nat × List PostStep)) (c : Nat) : List PostStep := (lookup posts c).getD []

/-- What the caller logs for one event of the (stack's) log: a result goes through the caller's
post-processing first — the views it takes are logged before the `resp` line, and `resp` / `result` show
what it finally holds (`postRun`); everything else is logged as it is. -/
def callerSees (posts : List (Nat × List PostStep)) : SEv → List CEv
  | .low (.resp c o) =>
      (postRun (stepsOf posts c) o).1.map (.view c) ++ [.ev (.low (.resp c (postRun (stepsOf posts c) o).2))]
  | .low (.result c o) => [.ev (.low (.result c (postRun (stepsOf posts c) o).2))]
  | e => [.ev e]

/-- the caller's log as a function of the (stack's) log -/
def callerLog (posts : List (Nat × List PostStep)) (l : List SEv) : List CEv := (l.map (callerSees posts)).flatten

/-- the upper layer's test functions log their invocations with a `u` in front -/
def CEv.toEv (sx bx : Bool) : CEv → Ev
  | .view c v => .raw (v.render c)
  | .ev (.up _ cb) => .raw ("u" ++ cb.render)
  | .ev (.low e) => e.toEv sx bx

/-- the generation line of an event that hands a request to user code (see `SEv.sight` below), then the event -/
def CEv.toEvs (sx bx : Bool) (sight : SEv → Option String) : CEv → List Ev
  | .view c v => [CEv.toEv sx bx (.view c v)]
  | .ev e => (match sight e with | some l => [.raw l] | none => []) ++ [CEv.toEv sx bx (.ev e)]

/-! ## which copy of the request goes where

`Fallback::call` (lib.rs:274-285) takes ONE copy of the request it is given (`req.clone()`, before the inner
call) and then has two values: the request itself, which is MOVED into the inner call, and the copy, which it
keeps for the strategies that work on the request (`from_request_error`, the backup service). For a request type
whose `Clone` is observable (a copy is marked as a copy: an attempt counter, a replay flag, a one-shot body only
the original carries) the two are different values. `Sub` is a request together with its generation (how many
times it was copied); the property's "for that request" / "passes through unchanged" fixes the primary side:
the wrapped service gets THE request the caller submitted, generation included. That the strategies get exactly
one copy further (and not, say, a copy of a copy) is the reading of lib.rs:279. -/

/-- a request value: the request and how many times it has been copied (`clone()` bumps it) -/
structure Sub where
  rq : Request
  gen : Nat
deriving DecidableEq, Repr, Inhabited

def Sub.clone (r : Sub) : Sub := { r with gen := r.gen + 1 }

/-- what `Fallback::call` hands out -/
structure Handed where
  /-- moved into the inner call -/
  primary : Sub
  /-- kept for `from_request_error` / the backup service -/
  strategy : Sub
deriving DecidableEq, Repr, Inhabited

/-- lib.rs:279-285: `let req_clone = req.clone(); … service.call(req)` -/
def handOut (r : Sub) : Handed := ⟨r, r.clone⟩

/-- who is handed a request -/
inductive Who
  | inner | backup | fromReqErr | upFromReqErr
deriving DecidableEq, Repr, Inhabited

/-- "`who`, working for caller `c`, was handed `got`" -/
structure Sight where
  who : Who
  c : Nat
  got : Sub
deriving DecidableEq, Repr, Inhabited

/-- Which request value an event of the lower instance's log hands to user code, `g c` being the generation of
the request caller `c` submitted to this instance: the inner call gets the primary side, the backup call and
the `from_request_error` function the strategy side. -/
def FEv.sight (g : Nat → Nat) : FEv → Option Sight
  | .innerCall c _ rq => some ⟨.inner, c, (handOut ⟨rq, g c⟩).primary⟩
  | .backupCall c _ rq => some ⟨.backup, c, (handOut ⟨rq, g c⟩).strategy⟩
  | .callback c (.fromReqErr rq _) => some ⟨.fromReqErr, c, (handOut ⟨rq, g c⟩).strategy⟩
  | _ => none

/-- The same for the stack's log. The upper layer is a second instance of the same code: it is given the caller's
request, hands its primary side down — so what the lower instance is submitted is `(handOut r).primary = r`, the
same generation `g c` — and its own `from_request_error` function gets its strategy side. -/
def SEv.sight (g : Nat → Nat) : SEv → Option Sight
  | .low e => e.sight g
  | .up c (.fromReqErr rq _) => some ⟨.upFromReqErr, c, (handOut ⟨rq, g c⟩).strategy⟩
  | .up _ _ => none

def Who.render : Who → String
  | .inner => "inner"
  | .backup => "backup"
  | .fromReqErr => "from_request_error"
  | .upFromReqErr => "ufrom_request_error"

/-- everything that is handed a request logs the generation it got, right before its own line -/
def Sight.render (s : Sight) : String := s!"reqgen {s.who.render} {s.c} {s.got.gen}"

/-- the generation of the request caller `c` submitted (`gen=` of its `arrive`; 0 = an original) -/
def genOf (gens : List (Nat × Nat)) (c : Nat) : Nat := (lookup gens c).getD 0

/-- `probe strategy c= tag= kind= v=`: the caller builds the `FallbackStrategy` value of the header's
strategy by hand (same test functions, value-function counter 0, a backup closure that echoes the
request), CLONES it (lib.rs:207) and applies the clone to the sample request and error -/
def probeStrategy (cfg : Cfg) (rq : Request) (e : IErr) : String :=
  match cfg.strat with
  | .value => s!"strategy value {(Outcome.ok cfg.value).detail}"
  | .valueFn => s!"strategy value_fn {(Outcome.ok (cfg.valueFn 0)).detail}"
  | .fromError => s!"strategy from_error {(Outcome.ok (cfg.fromError e)).detail}"
  | .fromReqErr => s!"strategy from_request_error {(Outcome.ok (cfg.fromReqErr rq e)).detail}"
  | .service => s!"strategy service {(Outcome.ok ⟨rq.tag, rq.c, rq.tag⟩).detail}"
  | .exception => s!"strategy exception {(Outcome.inner (cfg.exception e)).detail}"

/-- state of the line-protocol machine: the lower instance's state, the upper layer's configuration
(header `upper=<strategy> [uhandle=<mask>] [uval=<n>]`) and each caller's post-processing steps.
Header keys `via=` / `uvia=` (builder, shortcut constructor, `Default` builder) and the `arrive` options
`svc=<k>` (which of several services built from the one layer value, or from a clone of it) and
`reuse=1` (the call is made on the long-lived handle itself) have no meaning for the model: the
layer keeps nothing per service or per handle, the outcome is the same however it was built.
Header key `chain=<setters>`: the layer is built by that sequence of builder calls; the configuration is
`buildChain` of it (a chain without a strategy setter is ignored, like in the harness). -/
structure MS where
  sx : Bool
  bx : Bool
  cfg : Cfg
  up : Option Cfg
  posts : List (Nat × List PostStep) := []
  /-- the generation of each caller's submitted request (`gen=` of its `arrive`) -/
  gens : List (Nat × Nat) := []
  s : State := init
  /-- accumulators of `liftLog` over the log so far: the stack's log is produced stretch by stretch
  (`TR.Fallback.liftLog_append`) -/
  acc : Nat × List (Nat × Request) := (0, [])

/-- what the caller logs for a new stretch of the lower instance's log -/
def MS.observe (m : MS) (new : List FEv) : List Ev :=
  (callerLog m.posts (match m.up with
    | none => new.map SEv.low
    | some u => liftLog u m.acc.1 m.acc.2 new)).flatMap
      (CEv.toEvs m.sx m.bx (fun e => (e.sight (genOf m.gens)).map Sight.render))

def parseUpper (kv : Kv) : Option Cfg :=
  match kv.get "upper" with
  | none => none
  | some "service" => none
  | some st => some (test (parseStrategy st) (kv.optNat "uhandle") (kv.nat "uval" 0))

def machine : Machine where
  σ := MS
  init kv :=
    let base : Cfg := test (parseStrategy (kv.str "strategy" "value")) (kv.optNat "handle") (kv.nat "val" 0)
                       (parseReady (kv.str "ready" "")) (parseReady (kv.str "bready" ""))
    let cfg : Cfg := (buildChain base (parseChain (kv.nat "val" 0) (kv.str "chain" ""))).getD base
    { sx := (kv.get "ready").isSome, bx := (kv.get "bready").isSome, cfg := cfg, up := parseUpper kv }
  step := fun m ws =>
    match ws with
    | "probe" :: "strategy" :: rest =>
        let kv := parseKv rest
        (m, [.probe (probeStrategy m.cfg ⟨kv.nat "c" 0, kv.nat "tag" 0⟩ ⟨kv.nat "kind" 0, kv.nat "v" 0⟩)])
    | _ =>
    match parseOp ws with
    | some op =>
        let posts := match op, ws with
          | .arrive c _ _, _ :: _ :: rest =>
              if m.s.svcGone || known m.s c then m.posts else (c, parsePost ((parseKv rest).str "post" "")) :: m.posts
          | _, _ => m.posts
        let gens := match op, ws with
          | .arrive c _ _, _ :: _ :: rest =>
              if m.s.svcGone || known m.s c then m.gens else (c, (parseKv rest).nat "gen" 0) :: m.gens
          | _, _ => m.gens
        let s' := stepS m.cfg m.s op
        let new := s'.log.drop m.s.log.length
        let m1 := { m with posts := posts, gens := gens }
        ({ m1 with s := s', acc := match m.up with | some u => liftAcc u m.acc.1 m.acc.2 new | none => m.acc },
         m1.observe new ++ (if refused m.s op then [.raw "noop"] else []))
    | none => (m, [])
  now := fun m => m.s.now

end TR.Fallback
