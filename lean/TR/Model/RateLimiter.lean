import TR.Model.Common
/-!
# Rate limiter (C02, C15) — `crates/tower-resilience-ratelimiter/src/{limiter,lib}.rs`

Time is a `Nat` number of ticks (`Cfg.tickNs` nanoseconds each: one millisecond, or one microsecond
for `tick=us` cases): every generated instant and duration is a whole number of ticks, the fixed
window and the sliding log only add and subtract instants and durations.

The sliding counter computes in `f64`. The model writes its two tests in exact integer arithmetic
(`prev·(B−e) + cur·B < L·B`; `e / B ≥ 2`) and says precisely where the code's `f64` result may differ
from the exact one (`TR.RateLimiter.approx_decides`, `approx_buckets` in `Lemmas/RateLimiterF64.lean`:
any evaluation whose error is below `1/B` decides like the integer test unless the exact quantity is
*on* the boundary): only there — weighted count exactly `L` part-way into a bucket, elapsed time exactly
two buckets — the outcome is an **observed choice** (`Fx.adm`, `Fx.b1`) with the two neighbouring
outcomes allowed. The wait estimate of `estimate_wait_time` is not computed either: its exact real value
is the fraction `estFrac`, and what the code did with it (rejected / put to sleep / returned
`Duration::ZERO`, which `acquire()` takes for a grant) is an observed choice constrained to what that
value allows, **including ZERO** (`zeroOk`: the exact estimate is below one nanosecond).

`room` is the part of `try_acquire` that rolls the window / prunes the log / rotates the bucket
and takes a permit when there is one (one critical section under the limiter's mutex);
`noRoomAns` is the rest of `try_acquire` (the wait computation, which changes nothing).
`Ok(Duration::ZERO)` is "granted" in the code *and* what a zero wait looks like; the model
keeps the two apart (`room … = true` versus `Ans.wait _ 0`) and the caller logic treats a zero
wait as the code does (admission without a permit). `TR.Props.C02.admit_iff_granted` shows it
never happens for `limit ≥ 1` on the fixed window and the sliding log, and on the sliding counter when
`10 · limit ≤ period` in nanoseconds; `TR.Props.C02.zero_estimate_admits_without_permit` is the
counterexample outside that range (the code does it too: `corpus/ratelimiter/c02-zero-estimate.ops`).

One `poll` of one call future is one step. `acquire()` runs inside the boxed `async` block of
`RateLimiter::call`, i.e. at the **first poll** of the returned future, and `sleep(wait)` is
created (and polled) in that same poll: the arrival instant of a caller is its first poll.

Readiness of the wrapped service. `RateLimiter::poll_ready` forwards to the wrapped service and
`call` hands the request to the very instance that was polled (leaving a fresh clone behind), so
(a) while the wrapped service is not ready (`busyUntil`, set by the operation `manual busy ms=n`: a
saturated backend that answers `Pending` until `now + n`) a caller gets no call future at all — it is
turned away before `call` (`result c notready`), takes no permit and never reaches the wrapped
service; and (b) every call of the wrapped service goes to an instance that has reported ready
(`wire`: the `ready=1` of the strict scripted service's `inner_call` line). A scripted `Pending` or
`Err` answer of the wrapped service's `poll_ready` (`manual ready script=…`) turns the arriving caller
away in the same manner (`Op.turnedAway`; an error is handed on as `RateLimiterServiceError::Inner`).

Instants are unbounded naturals: the number of elapsed buckets of the sliding counter is the exact
quotient `e / B` (the code's float division, cast to `u32`, saturates; only `≥ 2` is ever asked of it),
except at exactly two buckets, where the float quotient may come out just below 2 (`Fx.b1`).

Ghost history kept in the state: `log` (every event), `tlog` (the same events with the instant at which
they were emitted — what the driver prints as `t=…` and the correspondence check compares), `admits`
(caller, instant of every inner call), `decided` (caller, arrival, decision instant of every admission /
rate-limited rejection), and the limiter's `wins`, `grants`, `lastTry`.

Second half of the file: the preset constructors' documented configurations, and `Fleet` — several
services built from one layer value, each with a limiter of its own — which is what the line-protocol
`machine` runs (with one service it is the single-limiter model above).
-/
namespace TR.RateLimiter

inductive Kind
  | fixed
  | slog
  | counter
deriving DecidableEq, Repr

structure Cfg where
  kind    : Kind
  limit   : Nat       -- limit_for_period
  period  : Nat       -- refresh_period (window / bucket duration)
  timeout : Nat       -- timeout_duration
  tickNs  : Nat := 1000000   -- nanoseconds per tick (only the sliding counter's zero-estimate test looks at it)
deriving Repr

/-- Observed choices of one poll besides `rej` / `woke` (absent = `false`).
`adm`: this poll reached the wrapped service (`inner_call` was logged during it). The model uses it in two
places only, both on the sliding counter when its exact test found no room: the weighted count is exactly
`limit` part-way into a bucket (the `f64` comparison may say `<`: a permit is taken), or the wait estimate
is below one nanosecond (`Duration::ZERO`: admitted without a permit).
`b1`: the platform's `f64` quotient `(2·B).as_secs_f64() / B.as_secs_f64()`, cast to `u32`, is 1 (not 2) for the
configured bucket `B`; it is used only when the elapsed time is exactly two buckets. -/
structure Fx where
  adm : Bool := false
  b1  : Bool := false
deriving DecidableEq, Repr

/-- the limiter behind the mutex: the fields of the three window states, plus ghost history -/
structure Lim where
  avail   : Nat                           -- fixed: available_permits
  start   : Nat := 0                      -- fixed: period_start; counter: bucket_start
  ts      : List Nat := []                -- sliding log: request_log, oldest first
  prev    : Nat := 0                      -- counter: previous_count
  cur     : Nat := 0                      -- counter: current_count
  wins    : List (Nat × List Nat) := [(0, [])]  -- ghost: (start, grants) of every fixed window / bucket, newest first
  grants  : List Nat := []                -- ghost: instant of every grant, in order
  lastTry : Nat := 0                      -- ghost: instant of the latest try_acquire (construction = 0)
deriving Repr

/-- the answer of `try_acquire` when no permit was taken -/
inductive Ans
  | wait (lo hi : Nat)     -- `Ok(d)`: the sleep timer fires at an instant in `[now+lo, now+hi]`
  | reject                 -- `Err(timeout)`
  | bad                    -- the observed choice is outside what the code guarantees
deriving DecidableEq, Repr

/-! ## ghost bookkeeping -/

def pushWin (w : List (Nat × List Nat)) (now : Nat) : List (Nat × List Nat) :=
  match w with
  | [] => [(now, [now])]
  | (s, g) :: older => (s, g ++ [now]) :: older

/-- record a grant at `now` -/
def grant (l : Lim) (now : Nat) : Lim :=
  { l with grants := l.grants ++ [now], wins := pushWin l.wins now }

/-- a new fixed window / counter bucket begins at `now` -/
def openWin (l : Lim) (now : Nat) : Lim :=
  { l with start := now, wins := (now, []) :: l.wins }

/-! ## fixed window — `FixedWindowState::try_acquire` -/

/-- `if now - period_start >= refresh_period { refresh(now) }` -/
def fixedRoll (cfg : Cfg) (l : Lim) (now : Nat) : Lim :=
  if now - l.start ≥ cfg.period then openWin { l with avail := cfg.limit } now else l

def roomFixed (cfg : Cfg) (l : Lim) (now : Nat) : Lim × Bool :=
  let l := fixedRoll cfg l now
  if l.avail > 0 then (grant { l with avail := l.avail - 1 } now, true) else (l, false)

/-! ## sliding log — `SlidingLogState::try_acquire` -/

/-- pop from the front while `now - timestamp >= window` -/
def expire (w now : Nat) : List Nat → List Nat
  | [] => []
  | t :: ts => if now - t ≥ w then expire w now ts else t :: ts

def roomLog (cfg : Cfg) (l : Lim) (now : Nat) : Lim × Bool :=
  let ts := expire cfg.period now l.ts
  if ts.length < cfg.limit then ({ l with ts := ts ++ [now], grants := l.grants ++ [now] }, true)
  else ({ l with ts := ts }, false)

/-! ## sliding counter — `SlidingCounterState::try_acquire` -/

/-- `buckets_passed >= 2`, where `buckets_passed = (elapsed / bucket) as u32` in `f64`: the exact quotient, except
that at exactly two buckets the float quotient may be just below 2 (observed: `b1`) -/
def twoBuckets (cfg : Cfg) (e : Nat) (b1 : Bool) : Bool :=
  if e = 2 * cfg.period then !b1 else decide (e / cfg.period ≥ 2)

/-- `maybe_rotate_bucket` -/
def counterRoll (cfg : Cfg) (l : Lim) (now : Nat) (b1 : Bool) : Lim :=
  let e := now - l.start
  if e ≥ cfg.period then
    openWin { l with prev := if twoBuckets cfg e b1 then 0 else l.cur, cur := 0 } now
  else l

/-- `estimate_wait_time` in exact arithmetic, as a fraction `n / m` of a tick (`l` is the state after `room` found
no permit, `e < B`): the rest of the bucket when the previous bucket is empty or the current one is full
(`target_ratio ≥ 1`), else `(target_ratio − e/B)·B` with `target_ratio = (prev + cur − L + 0.1) / prev`, i.e.
`((10·(prev + cur − L) + 1)·B − 10·prev·e) / (10·prev)`. It is positive (at least `B / (10·prev)`) and at most `B − e`. -/
def estFrac (cfg : Cfg) (l : Lim) (now : Nat) : Nat × Nat :=
  let e := now - l.start
  if l.prev = 0 ∨ cfg.limit ≤ l.cur then (cfg.period - e, 1)
  else ((10 * (l.prev + l.cur - cfg.limit) + 1) * cfg.period - 10 * l.prev * e, 10 * l.prev)

/-- the code can return `Duration::ZERO` as the wait: the exact estimate is below one nanosecond
(`Duration::from_secs_f64` rounds to the nearest nanosecond) -/
def zeroOk (cfg : Cfg) (l : Lim) (now : Nat) : Bool :=
  decide ((estFrac cfg l now).1 * cfg.tickNs < (estFrac cfg l now).2)

/-- Situations in which every `f64` operation of the weighted count is exact (the documented dyadic-grid argument,
`Lemmas/RateLimiterF64.lean`): the elapsed time is the bucket divided by 2, 4 or 8 (`fl(2ᵏ·x) = 2ᵏ·fl(x)`, so the
ratio is exactly `2⁻ᵏ`), or the bucket is 1, 2 or 4 whole seconds and the elapsed time a multiple of 2⁻⁹ s
(= 1 953 125 ns: `as_secs_f64` is exact on both, the ratio is `j / (512·S)`); the weight, the product with a small
count and the sum are then exact as well. There the comparison is NOT a choice. -/
def f64Exact (cfg : Cfg) (e : Nat) : Bool :=
  decide (e * 2 = cfg.period ∨ e * 4 = cfg.period ∨ e * 8 = cfg.period) ||
  (decide (cfg.period * cfg.tickNs = 1000000000 ∨ cfg.period * cfg.tickNs = 2000000000 ∨
      cfg.period * cfg.tickNs = 4000000000) && decide ((e * cfg.tickNs) % 1953125 = 0))

/-- the exact weighted count is exactly the limit, part-way into a bucket with a non-empty previous bucket, off the
dyadic grid: the one situation in which the `f64` comparison `weighted_count < limit` may come out either way -/
def onBoundary (cfg : Cfg) (l : Lim) (e : Nat) : Bool :=
  decide (l.prev * (cfg.period - e) + l.cur * cfg.period = cfg.limit * cfg.period ∧ 0 < l.prev ∧ e ≠ 0) &&
  !f64Exact cfg e

/-- weighted count `prev·(1 − e/B) + cur < L`, multiplied through by `B`; on the boundary the `f64` result is the
observed choice. (Should the wait estimate also be reportable as zero there — buckets of a few nanoseconds per call,
off the dyadic grid: never generated — an observed admission is attributed to the comparison.) -/
def roomCounter (cfg : Cfg) (l : Lim) (now : Nat) (fx : Fx) : Lim × Bool :=
  let l := counterRoll cfg l now fx.b1
  let e := now - l.start
  if l.prev * (cfg.period - e) + l.cur * cfg.period < cfg.limit * cfg.period ∨ (onBoundary cfg l e ∧ fx.adm) then
    (grant { l with cur := l.cur + 1 } now, true)
  else (l, false)

/-- the state-changing part of one `try_acquire` at `now`; `true` = a permit was taken -/
def room (cfg : Cfg) (l : Lim) (now : Nat) (fx : Fx := {}) : Lim × Bool :=
  let r := match cfg.kind with
    | .fixed => roomFixed cfg l now
    | .slog => roomLog cfg l now
    | .counter => roomCounter cfg l now fx
  ({ r.1 with lastTry := now }, r.2)

/-- The wait computation of `try_acquire` after `room` found no permit (`l` is the state after
`room`). Fixed and log: exact. Counter: the estimate `est` is float-valued; its exact value is
`estFrac = n/m` ticks, `0 < n/m ≤ B − e`. The code rejects iff `est > timeout`, returns `Ok(est)` otherwise —
a sleep of `est` rounded up to the timer granularity, or, when `est` rounds to zero nanoseconds,
`Ok(Duration::ZERO)`, which `acquire()` takes for a grant. The observed choices say which of the three
happened (`fx.adm`: the poll reached the wrapped service; `rej`: rejected at once / put to sleep); each is
allowed iff the exact estimate, give or take one tick for the float evaluation, explains it. -/
def noRoomAns (cfg : Cfg) (l : Lim) (now : Nat) (rej : Bool) (fx : Fx := {}) : Ans :=
  match cfg.kind with
  | .fixed =>
      let d := cfg.period - (now - l.start)
      if d > cfg.timeout then .reject else .wait d d
  | .slog =>
      match l.ts with
      | [] => .wait 0 0                      -- "should not happen if limit > 0": `Ok(Duration::ZERO)`
      | t :: _ =>
          let d := (t + cfg.period) - now
          if d > cfg.timeout then .reject else .wait d d
  | .counter =>
      let rem := cfg.period - (now - l.start)
      let n := (estFrac cfg l now).1
      let m := (estFrac cfg l now).2
      if fx.adm then (if zeroOk cfg l now then .wait 0 0 else .bad)
      else if rej then (if cfg.timeout < rem ∧ cfg.timeout * m < n + m then .reject else .bad)
      else (if 1 ≤ min cfg.timeout rem ∧ n ≤ cfg.timeout * m + m then .wait 1 (min cfg.timeout rem) else .bad)

/-! ## callers — `SharedRateLimiter::acquire` and `RateLimiter::call` -/

inductive Phase
  | fresh                          -- future created, never polled
  | sleeping (arr lo hi : Nat)     -- first polled at `arr`, told to wait; timer fires in `[lo, hi]`
  | running (arr : Nat)            -- admitted: the inner call exists
  | done (admitted : Bool)         -- resolved or dropped; `admitted` = it had reached the inner service
deriving DecidableEq, Repr

structure State where
  now     : Nat := 0
  lim     : Lim
  phase   : List (Nat × Phase) := []   -- newest entry of a caller wins (`lookup`)
  script  : List (Nat × Step) := []
  doneAt  : List (Nat × Nat) := []
  kOf     : List (Nat × Nat) := []
  serial  : Nat := 0
  busyUntil : Nat := 0                 -- the wrapped service answers `Pending` to `poll_ready` before this instant
  admits  : List (Nat × Nat) := []     -- ghost: (caller, instant) of every inner call, in order
  log     : List Ev := []              -- ghost: every event so far
  tlog    : List (Nat × Ev) := []      -- ghost: every event so far with the instant it was emitted at (the `t=` of its line)
  decided : List (Nat × Nat × Nat) := []  -- ghost: (caller, arrival, instant) of every admission / rate-limited rejection
deriving Repr

inductive Op
  | arrive (c : Nat) (sc : Step)
  | poll (c : Nat) (rej woke : Bool) (fx : Fx := {})   -- with the implementation's observed choices
  | drop (c : Nat)
  | adv (ms : Nat)
  | busy (ms : Nat)                    -- the wrapped service is not ready for the next `ms` ticks
  | turnedAway (c : Nat) (err : Bool)  -- an arrival whose `poll_ready` answered `Pending` (scripted) / `Err(Inner(e))`
deriving Repr

def emit (s : State) (evs : List Ev) : State :=
  { s with log := s.log ++ evs, tlog := s.tlog ++ evs.map fun e => (s.now, e) }
def setPh (s : State) (c : Nat) (p : Phase) : State := { s with phase := (c, p) :: s.phase }
def phaseOf (s : State) (c : Nat) : Option Phase := lookup s.phase c

/-- `inner.call(req)`: the inner service is called, `inner_call c k` -/
def startInner (s : State) (c arr : Nat) : State :=
  let lat := match lookup s.script c with | some sc => sc.lat | none => 0
  emit { setPh s c (.running arr) with
           doneAt := (c, s.now + lat) :: s.doneAt, kOf := (c, s.serial) :: s.kOf,
           serial := s.serial + 1, admits := s.admits ++ [(c, s.now)],
           decided := s.decided ++ [(c, arr, s.now)] }
       [.innerCall c s.serial]

def outcomeEvents (c k : Nat) : Out → List Ev
  | .ok => [.innerDone c k .ok, .result c (.ok k)]
  | .err kd => [.innerDone c k (.err kd), .result c (.inner kd k)]
  | .panic => [.innerDone c k .panic, .result c .panic]
  | .never => []

def pollRunning (s : State) (c : Nat) : State :=
  match lookup s.doneAt c, lookup s.script c, lookup s.kOf c with
  | some t, some sc, some k =>
      if s.now ≥ t ∧ sc.out ≠ .never then emit (setPh s c (.done true)) (outcomeEvents c k sc.out)
      else s
  | _, _, _ => s

/-- no yield between `acquire()` returning `Ok` and the first poll of the inner future -/
def admitCall (s : State) (c arr : Nat) : State := pollRunning (startInner s c arr) c

/-- `Err(RateLimiterServiceError::RateLimited)`; `arr` = the caller's arrival (first poll) -/
def rejectCall (s : State) (c arr : Nat) : State :=
  emit { setPh s c (.done false) with decided := s.decided ++ [(c, arr, s.now)] } [.result c .rateLimited]

/-- `poll_ready` of the wrapped service is pending when the caller arrives: no call is made -/
def notReadyCall (s : State) (c : Nat) : State := emit (setPh s c (.done false)) [.result c .notReady]

/-- `poll_ready` of the wrapped service failed when the caller arrived: `RateLimiter::poll_ready` hands the error on
as `RateLimiterServiceError::Inner` (the harness's scripted readiness error is kind 9, value 0) -/
def readyErrEv (c : Nat) : Ev := .raw s!"ready_err {c} inner9:0"

def badChoice (s : State) : State := emit s [.raw "choice-not-allowed"]

/-- first poll: the first `try_acquire` -/
def pollFresh (cfg : Cfg) (s : State) (c : Nat) (rej : Bool) (fx : Fx := {}) : State :=
  let r := room cfg s.lim s.now fx
  let s := { s with lim := r.1 }
  if r.2 then admitCall s c s.now
  else match noRoomAns cfg r.1 s.now rej fx with
    | .reject => rejectCall s c s.now
    | .wait lo hi =>
        if hi = 0 then admitCall s c s.now       -- `Ok(Duration::ZERO)` without a permit
        else setPh s c (.sleeping s.now (s.now + lo) (s.now + hi))
    | .bad => badChoice s

/-- `Ok(Duration::ZERO)` from the second `try_acquire` that is not a grant -/
def zeroWait : Ans → Bool
  | .wait _ hi => hi = 0
  | _ => false

/-- after the sleep: the second `try_acquire`; only `Ok(ZERO)` admits, anything else rejects -/
def secondTry (cfg : Cfg) (s : State) (c arr : Nat) (fx : Fx := {}) : State :=
  let r := room cfg s.lim s.now fx
  let s := { s with lim := r.1 }
  if r.2 then admitCall s c arr
  else if zeroWait (noRoomAns cfg r.1 s.now true fx) then admitCall s c arr
  else rejectCall s c arr

/-- poll of a sleeping caller; `woke` = the sleep timer has fired (observed) -/
def pollSleeping (cfg : Cfg) (s : State) (c arr lo hi : Nat) (woke : Bool) (fx : Fx := {}) : State :=
  if (woke = true ∧ s.now < lo) ∨ (woke = false ∧ hi ≤ s.now) then badChoice s
  else if woke then secondTry cfg s c arr fx
  else s

def dropCaller (s : State) (c : Nat) : State :=
  match phaseOf s c with
  | some .fresh => setPh s c (.done false)
  | some (.sleeping _ _ _) => setPh s c (.done false)
  | some (.running _) => emit (setPh s c (.done true)) [.innerDrop c ((lookup s.kOf c).getD 0)]
  | _ => s

def stepS (cfg : Cfg) (s : State) (op : Op) : State :=
  match op with
  | .adv ms => { s with now := s.now + ms }
  | .arrive c sc =>
      if (phaseOf s c).isSome then s
      else if s.now < s.busyUntil then notReadyCall s c
      else { setPh s c .fresh with script := (c, sc) :: s.script }
  | .busy ms => { s with busyUntil := s.now + ms }
  | .turnedAway c err =>
      -- `poll_ready` (forwarded to the wrapped service) did not answer `Ready(Ok)`: the caller makes no call
      if (phaseOf s c).isSome then s
      else notReadyCall (if err then emit s [readyErrEv c] else s) c
  | .poll c rej woke fx =>
      match phaseOf s c with
      | some .fresh => pollFresh cfg s c rej fx
      | some (.sleeping arr lo hi) => pollSleeping cfg s c arr lo hi woke fx
      | some (.running _) => pollRunning s c
      | _ => s
  | .drop c => dropCaller s c

def initLim (cfg : Cfg) : Lim := { avail := cfg.limit }
def init (cfg : Cfg) : State := { lim := initLim cfg }
def run (cfg : Cfg) (ops : List Op) : State := ops.foldl (stepS cfg) (init cfg)

/-! ## presets and construction paths — `layer.rs:85-133`, `config.rs:77-93`

The documented configurations of the preset constructors, in milliseconds. `scale u` converts them to the
tick of the case (`u` ticks per millisecond). A builder method called after a preset replaces that one field. -/

/-- `RateLimiterLayer::per_second(n)`: n requests per 1 second period, 100 ms timeout, (default) fixed window -/
def perSecond (n : Nat) : Cfg := { kind := .fixed, limit := n, period := 1000, timeout := 100 }
/-- `RateLimiterLayer::per_minute(n)`: n requests per 60 second period, 1 second timeout -/
def perMinute (n : Nat) : Cfg := { kind := .fixed, limit := n, period := 60000, timeout := 1000 }
/-- `RateLimiterLayer::burst(rate, burst)`: `rate + burst` per second, 100 ms timeout, sliding counter -/
def burst (rate b : Nat) : Cfg := { kind := .counter, limit := rate + b, period := 1000, timeout := 100 }
/-- `RateLimiterConfigBuilder::new()` / `::default()`: 50 per second, 100 ms timeout, fixed window -/
def builderDefaults : Cfg := { kind := .fixed, limit := 50, period := 1000, timeout := 100 }

def scale (u : Nat) (c : Cfg) : Cfg :=
  { c with period := c.period * u, timeout := c.timeout * u, tickNs := c.tickNs / u }

/-! ## several services built from one layer value — `layer.rs:137-143`, `lib.rs:251-290`

`Layer::layer` calls `RateLimiter::new`, which creates a **new** `SharedRateLimiter`: every service built from a
layer value (or from a clone of it — a layer clone shares only the configuration) has its own window state, whose
first window / bucket starts at the instant the service is built. Clones of one *service* share its limiter
(`C02`: "through one rate limiter (all clones)"), whichever handle a caller uses and whenever the clone was taken.

The model: a `Fleet` of independent instances of the single-limiter model above, one per service, each kept **in
its own time** (tick 0 = the instant the service was built; nothing in the single-limiter model depends on
absolute time, and the property statements only speak of differences of instants). What the services share is
the wrapped service (clones of one scripted service): its busy stretch, its readiness script and the numbering of
its calls (`inner_call c k`: k-th call in the case) — the fleet keeps those and renumbers the events of an
instance (`renum`; a caller makes at most one inner call, so the number is looked up by caller). -/

structure Fleet where
  insts     : List (Nat × State)          -- service → its limiter and callers (in the service's own time)
  owner     : List (Nat × Nat) := []      -- caller → service
  kG        : List (Nat × Nat) := []      -- caller → number of its inner call in the case
  serial    : Nat := 0
  now       : Nat := 0
  busyUntil : Nat := 0                    -- the wrapped service answers `Pending` before this instant
  rscript   : List Char := []             -- scripted `poll_ready` answers still to come: 'p' pending, 'e' error, else ready
deriving Repr

inductive FOp
  | arrive (k c : Nat) (sc : Step)        -- caller c calls (a handle of) service k; the service is built if need be
  | poll (c : Nat) (rej woke : Bool) (fx : Fx := {})
  | drop (c : Nat)
  | adv (ms : Nat)
  | busy (ms : Nat)
  | ready (script : List Char)
deriving Repr

def setInst (l : List (Nat × State)) (k : Nat) (s : State) : List (Nat × State) :=
  match l with
  | [] => [(k, s)]
  | (k', s') :: tl => if k' = k then (k', s) :: tl else (k', s') :: setInst tl k s

def mapInsts (g : State → State) (l : List (Nat × State)) : List (Nat × State) := l.map fun p => (p.1, g p.2)

/-- a service built now: a fresh limiter whose time starts here; the wrapped service it is given may be in the
middle of a busy stretch -/
def freshInst (cfg : Cfg) (f : Fleet) : State :=
  if f.now < f.busyUntil then stepS cfg (init cfg) (.busy (f.busyUntil - f.now)) else init cfg

def instOf (cfg : Cfg) (f : Fleet) (k : Nat) : State := (lookup f.insts k).getD (freshInst cfg f)

def kOfG (f : Fleet) (c : Nat) : Nat := (lookup f.kG c).getD 0

def renumRes (k : Nat) : Res → Res
  | .ok _ => .ok k
  | .inner kd _ => .inner kd k
  | r => r

/-- the events of one instance, with the calls of the wrapped service numbered through the whole case -/
def renum (f : Fleet) : List Ev → Fleet × List Ev
  | [] => (f, [])
  | .innerCall c _ :: es =>
      let r := renum { f with kG := (c, f.serial) :: f.kG, serial := f.serial + 1 } es
      (r.1, .innerCall c f.serial :: r.2)
  | .innerDone c _ o :: es => let r := renum f es; (r.1, .innerDone c (kOfG f c) o :: r.2)
  | .innerDrop c _ :: es => let r := renum f es; (r.1, .innerDrop c (kOfG f c) :: r.2)
  | .result c res :: es => let r := renum f es; (r.1, .result c (renumRes (kOfG f c) res) :: r.2)
  | e :: es => let r := renum f es; (r.1, e :: r.2)

/-- one step of service `k`'s instance; every other instance is left as it is -/
def onInst (cfg : Cfg) (f : Fleet) (k : Nat) (op : Op) : Fleet × List Ev :=
  let s := instOf cfg f k
  let s' := stepS cfg s op
  renum { f with insts := setInst f.insts k s' } (s'.log.drop s.log.length)

def fstep (cfg : Cfg) (f : Fleet) : FOp → Fleet × List Ev
  | .adv ms => ({ f with now := f.now + ms, insts := mapInsts (fun s => stepS cfg s (.adv ms)) f.insts }, [])
  | .busy ms => ({ f with busyUntil := f.now + ms, insts := mapInsts (fun s => stepS cfg s (.busy ms)) f.insts }, [])
  | .ready sc => ({ f with rscript := f.rscript ++ sc }, [])
  | .arrive k c sc =>
      if (lookup f.owner c).isSome then (f, [])
      else
        let f := { f with owner := (c, k) :: f.owner }
        -- the scripted service looks at its busy stretch first; a scripted answer is only consumed when it is not busy
        if f.now < f.busyUntil then onInst cfg f k (.arrive c sc)
        else match f.rscript with
          | [] => onInst cfg f k (.arrive c sc)
          | 'p' :: rest => onInst cfg { f with rscript := rest } k (.turnedAway c false)
          | 'e' :: rest => onInst cfg { f with rscript := rest } k (.turnedAway c true)
          | _ :: rest => onInst cfg { f with rscript := rest } k (.arrive c sc)
  | .poll c rej woke fx =>
      match lookup f.owner c with
      | some k => onInst cfg f k (.poll c rej woke fx)
      | none => (f, [])
  | .drop c =>
      match lookup f.owner c with
      | some k => onInst cfg f k (.drop c)
      | none => (f, [])

/-- service 0 is built together with the layer, at tick 0 of the case; the others when first used -/
def initFleet (cfg : Cfg) : Fleet := { insts := [(0, init cfg)] }
def frun (cfg : Cfg) (ops : List FOp) : Fleet := ops.foldl (fun f op => (fstep cfg f op).1) (initFleet cfg)

/-- the events of a whole case, as the line-protocol driver prints them (before `wire`) -/
def ftrace (cfg : Cfg) (ops : List FOp) : List Ev :=
  (ops.foldl (fun (p : Fleet × List Ev) op => let r := fstep cfg p.1 op; (r.1, p.2 ++ r.2)) (initFleet cfg, [])).2

/-- the service an operation is addressed to -/
def target (f : Fleet) : FOp → Option Nat
  | .arrive k _ _ => some k
  | .poll c _ _ _ => lookup f.owner c
  | .drop c => lookup f.owner c
  | _ => none

/-! ## line protocol -/

def parseKind (s : String) : Kind :=
  if s = "log" then .slog else if s = "counter" then .counter else .fixed

def flag (kv : Kv) (k : String) : Bool := kv.get k == some "1"

def parseOp (ws : List String) : Option Op :=
  match ws with
  | "arrive" :: c :: rest =>
      let plan := planOf (parseKv rest)
      some (.arrive (c.toNat?.getD 0) (plan.headD { lat := 0, out := .ok }))
  | "poll" :: c :: rest =>
      let kv := parseKv rest
      some (.poll (c.toNat?.getD 0) (flag kv "@rej") (flag kv "@woke") { adm := flag kv "@adm", b1 := flag kv "@b1" })
  | "drop" :: c :: _ => some (.drop (c.toNat?.getD 0))
  | "adv" :: ms :: _ => some (.adv (ms.toNat?.getD 0))
  | "manual" :: "busy" :: rest => some (.busy ((parseKv rest).nat "ms" 0))
  | _ => none

/-- `arrive c svc=k h=j lclone=1 …`: which handle of the service is used (`h=`) and whether the service is built
from a clone of the layer (`lclone=1`) make no difference to the model: clones of a service share its limiter,
clones of a layer share only the configuration. `manual ready script=pe…`: scripted `poll_ready` answers. -/
def parseFOp (ws : List String) : Option FOp :=
  match ws with
  | "arrive" :: c :: rest =>
      let kv := parseKv rest
      some (.arrive (kv.nat "svc" 0) (c.toNat?.getD 0) ((planOf kv).headD { lat := 0, out := .ok }))
  | "manual" :: "ready" :: rest => some (.ready ((parseKv rest).str "script" "").toList)
  | _ =>
      match parseOp ws with
      | some (.poll c rej woke fx) => some (.poll c rej woke fx)
      | some (.drop c) => some (.drop c)
      | some (.adv ms) => some (.adv ms)
      | some (.busy ms) => some (.busy ms)
      | _ => none

/-- The wrapped service of the harness is the strict scripted service: its `inner_call` line also
carries the request tag (the caller id) and whether the called instance had been polled ready.
The model's claim: always (`RateLimiter::poll_ready` polls the instance that `call` then uses). -/
def wire : Ev → Ev
  | .innerCall c k => .innerCallX c k c true
  | .innerCallX c k tag _ => .innerCallX c k tag true
  | e => e

/-- The configuration of the case header. `via=per_second|per_minute|burst|default` builds through the preset
(`n=`, `rate=`/`burst=`) or the builder's own defaults; `limit= period= timeout= kind=` given with it are builder
methods called afterwards (in ticks). Without `via` (plain builder, every field set) the defaults are the
harness's. `tick=us`: one tick is 1 µs (presets are stated in milliseconds). -/
def cfgOf (kv : Kv) : Cfg :=
  let u := if kv.str "tick" "ms" = "us" then 1000 else 1
  let via := kv.str "via" "builder"
  let base : Cfg :=
    if via = "per_second" then scale u (perSecond (kv.nat "n" 1))
    else if via = "per_minute" then scale u (perMinute (kv.nat "n" 1))
    else if via = "burst" then scale u (burst (kv.nat "rate" 1) (kv.nat "burst" 0))
    else if via = "default" then scale u builderDefaults
    else { kind := .fixed, limit := 1, period := 1000, timeout := 0 }
  { kind := match kv.get "kind" with | some k => parseKind k | none => base.kind,
    limit := kv.nat "limit" base.limit, period := kv.nat "period" base.period,
    timeout := kv.nat "timeout" base.timeout, tickNs := 1000000 / u }

def machine : Machine where
  σ := Cfg × Fleet
  init kv := let cfg := cfgOf kv; (cfg, initFleet cfg)
  step := fun (cfg, f) ws =>
    match parseFOp ws with
    | some op => let r := fstep cfg f op; ((cfg, r.1), r.2.map wire)
    | none => ((cfg, f), [])
  now := fun (_, f) => f.now

end TR.RateLimiter
