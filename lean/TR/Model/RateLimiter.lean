import TR.Model.Common
/-!
# Rate limiter (C02, C15) — `crates/tower-resilience-ratelimiter/src/{limiter,lib}.rs`

Time is a `Nat` number of ticks. In the correspondence check one tick is one millisecond:
every generated instant and duration is a whole number of milliseconds, the fixed window and the
sliding log only add and subtract instants and durations, and the sliding counter's weighted test
is written here in exact integer arithmetic (`prev·(B−e) + cur·B < L·B`), which does not depend on
the unit. The only sub-millisecond quantity in the code is the sliding counter's float-valued wait
estimate; it is not computed here but taken as an observed choice (see `noRoomAns`).

`room` is the part of `try_acquire` that rolls the window / prunes the log / rotates the bucket
and takes a permit when there is one (one critical section under the limiter's mutex);
`noRoomAns` is the rest of `try_acquire` (the wait computation, which changes nothing).
`Ok(Duration::ZERO)` is "granted" in the code *and* what a zero wait would look like; the model
keeps the two apart (`room … = true` versus `Ans.wait _ 0`) and the caller logic treats a zero
wait as the code does (admission without a permit) — `TR.Props.C02.admit_iff_granted` shows it
never happens for `limit ≥ 1`.

One `poll` of one call future is one step. `acquire()` runs inside the boxed `async` block of
`RateLimiter::call`, i.e. at the **first poll** of the returned future, and `sleep(wait)` is
created (and polled) in that same poll: the arrival instant of a caller is its first poll.

Readiness of the wrapped service. `RateLimiter::poll_ready` forwards to the wrapped service and
`call` hands the request to the very instance that was polled (leaving a fresh clone behind), so
(a) while the wrapped service is not ready (`busyUntil`, set by the operation `manual busy ms=n`: a
saturated backend that answers `Pending` until `now + n`) a caller gets no call future at all — it is
turned away before `call` (`result c notready`), takes no permit and never reaches the wrapped
service; and (b) every call of the wrapped service goes to an instance that has reported ready
(`wire`: the `ready=1` of the strict scripted service's `inner_call` line).
-/
namespace TR.RateLimiter

inductive Kind
  | fixed
  | slog
  | counter
deriving DecidableEq, Repr

structure Cfg where
  kind    : Kind
  limit   : Nat       -- limit_for_period
  period  : Nat       -- refresh_period (window / bucket duration)
  timeout : Nat       -- timeout_duration
deriving Repr

/-- the limiter behind the mutex: the fields of the three window states, plus ghost history -/
structure Lim where
  avail   : Nat                           -- fixed: available_permits
  start   : Nat := 0                      -- fixed: period_start; counter: bucket_start
  ts      : List Nat := []                -- sliding log: request_log, oldest first
  prev    : Nat := 0                      -- counter: previous_count
  cur     : Nat := 0                      -- counter: current_count
  wins    : List (Nat × List Nat) := [(0, [])]  -- ghost: (start, grants) of every fixed window / bucket, newest first
  grants  : List Nat := []                -- ghost: instant of every grant, in order
  lastTry : Nat := 0                      -- ghost: instant of the latest try_acquire (construction = 0)
deriving Repr

/-- the answer of `try_acquire` when no permit was taken -/
inductive Ans
  | wait (lo hi : Nat)     -- `Ok(d)`: the sleep timer fires at an instant in `[now+lo, now+hi]`
  | reject                 -- `Err(timeout)`
  | bad                    -- the observed choice is outside what the code guarantees
deriving DecidableEq, Repr

/-! ## ghost bookkeeping -/

def pushWin (w : List (Nat × List Nat)) (now : Nat) : List (Nat × List Nat) :=
  match w with
  | [] => [(now, [now])]
  | (s, g) :: older => (s, g ++ [now]) :: older

/-- record a grant at `now` -/
def grant (l : Lim) (now : Nat) : Lim :=
  { l with grants := l.grants ++ [now], wins := pushWin l.wins now }

/-- a new fixed window / counter bucket begins at `now` -/
def openWin (l : Lim) (now : Nat) : Lim :=
  { l with start := now, wins := (now, []) :: l.wins }

/-! ## fixed window — `FixedWindowState::try_acquire` -/

/-- `if now - period_start >= refresh_period { refresh(now) }` -/
def fixedRoll (cfg : Cfg) (l : Lim) (now : Nat) : Lim :=
  if now - l.start ≥ cfg.period then openWin { l with avail := cfg.limit } now else l

def roomFixed (cfg : Cfg) (l : Lim) (now : Nat) : Lim × Bool :=
  let l := fixedRoll cfg l now
  if l.avail > 0 then (grant { l with avail := l.avail - 1 } now, true) else (l, false)

/-! ## sliding log — `SlidingLogState::try_acquire` -/

/-- pop from the front while `now - timestamp >= window` -/
def expire (w now : Nat) : List Nat → List Nat
  | [] => []
  | t :: ts => if now - t ≥ w then expire w now ts else t :: ts

def roomLog (cfg : Cfg) (l : Lim) (now : Nat) : Lim × Bool :=
  let ts := expire cfg.period now l.ts
  if ts.length < cfg.limit then ({ l with ts := ts ++ [now], grants := l.grants ++ [now] }, true)
  else ({ l with ts := ts }, false)

/-! ## sliding counter — `SlidingCounterState::try_acquire` -/

/-- `maybe_rotate_bucket` -/
def counterRoll (cfg : Cfg) (l : Lim) (now : Nat) : Lim :=
  let e := now - l.start
  if e ≥ cfg.period then
    openWin { l with prev := if e / cfg.period ≥ 2 then 0 else l.cur, cur := 0 } now
  else l

/-- weighted count `prev·(1 − e/B) + cur < L`, multiplied through by `B` -/
def roomCounter (cfg : Cfg) (l : Lim) (now : Nat) : Lim × Bool :=
  let l := counterRoll cfg l now
  let e := now - l.start
  if l.prev * (cfg.period - e) + l.cur * cfg.period < cfg.limit * cfg.period then
    (grant { l with cur := l.cur + 1 } now, true)
  else (l, false)

/-- the state-changing part of one `try_acquire` at `now`; `true` = a permit was taken -/
def room (cfg : Cfg) (l : Lim) (now : Nat) : Lim × Bool :=
  let r := match cfg.kind with
    | .fixed => roomFixed cfg l now
    | .slog => roomLog cfg l now
    | .counter => roomCounter cfg l now
  ({ r.1 with lastTry := now }, r.2)

/-- The wait computation of `try_acquire` after `room` found no permit (`l` is the state after
`room`). Fixed and log: exact. Counter: the estimate `est` is float-valued; what the code
guarantees is `0 < est ≤ B − e` (time left in the bucket), a rejection iff `est > timeout`, and a
sleep of `est` rounded up to the timer granularity otherwise. The observed choice `rej` says
which of the two happened; it is allowed iff some `est` in that range explains it. -/
def noRoomAns (cfg : Cfg) (l : Lim) (now : Nat) (rej : Bool) : Ans :=
  match cfg.kind with
  | .fixed =>
      let d := cfg.period - (now - l.start)
      if d > cfg.timeout then .reject else .wait d d
  | .slog =>
      match l.ts with
      | [] => .wait 0 0                      -- "should not happen if limit > 0": `Ok(Duration::ZERO)`
      | t :: _ =>
          let d := (t + cfg.period) - now
          if d > cfg.timeout then .reject else .wait d d
  | .counter =>
      let rem := cfg.period - (now - l.start)
      if rej then (if cfg.timeout < rem then .reject else .bad)
      else (if 1 ≤ min cfg.timeout rem then .wait 1 (min cfg.timeout rem) else .bad)

/-! ## callers — `SharedRateLimiter::acquire` and `RateLimiter::call` -/

inductive Phase
  | fresh                          -- future created, never polled
  | sleeping (arr lo hi : Nat)     -- first polled at `arr`, told to wait; timer fires in `[lo, hi]`
  | running (arr : Nat)            -- admitted: the inner call exists
  | done (admitted : Bool)         -- resolved or dropped; `admitted` = it had reached the inner service
deriving DecidableEq, Repr

structure State where
  now     : Nat := 0
  lim     : Lim
  phase   : List (Nat × Phase) := []   -- newest entry of a caller wins (`lookup`)
  script  : List (Nat × Step) := []
  doneAt  : List (Nat × Nat) := []
  kOf     : List (Nat × Nat) := []
  serial  : Nat := 0
  busyUntil : Nat := 0                 -- the wrapped service answers `Pending` to `poll_ready` before this instant
  admits  : List (Nat × Nat) := []     -- ghost: (caller, instant) of every inner call, in order
  log     : List Ev := []              -- ghost: every event so far
deriving Repr

inductive Op
  | arrive (c : Nat) (sc : Step)
  | poll (c : Nat) (rej woke : Bool)   -- with the implementation's observed choices
  | drop (c : Nat)
  | adv (ms : Nat)
  | busy (ms : Nat)                    -- the wrapped service is not ready for the next `ms` ticks
deriving Repr

def emit (s : State) (evs : List Ev) : State := { s with log := s.log ++ evs }
def setPh (s : State) (c : Nat) (p : Phase) : State := { s with phase := (c, p) :: s.phase }
def phaseOf (s : State) (c : Nat) : Option Phase := lookup s.phase c

/-- `inner.call(req)`: the inner service is called, `inner_call c k` -/
def startInner (s : State) (c arr : Nat) : State :=
  let lat := match lookup s.script c with | some sc => sc.lat | none => 0
  emit { setPh s c (.running arr) with
           doneAt := (c, s.now + lat) :: s.doneAt, kOf := (c, s.serial) :: s.kOf,
           serial := s.serial + 1, admits := s.admits ++ [(c, s.now)] }
       [.innerCall c s.serial]

def outcomeEvents (c k : Nat) : Out → List Ev
  | .ok => [.innerDone c k .ok, .result c (.ok k)]
  | .err kd => [.innerDone c k (.err kd), .result c (.inner kd k)]
  | .panic => [.innerDone c k .panic, .result c .panic]
  | .never => []

def pollRunning (s : State) (c : Nat) : State :=
  match lookup s.doneAt c, lookup s.script c, lookup s.kOf c with
  | some t, some sc, some k =>
      if s.now ≥ t ∧ sc.out ≠ .never then emit (setPh s c (.done true)) (outcomeEvents c k sc.out)
      else s
  | _, _, _ => s

/-- no yield between `acquire()` returning `Ok` and the first poll of the inner future -/
def admitCall (s : State) (c arr : Nat) : State := pollRunning (startInner s c arr) c

/-- `Err(RateLimiterServiceError::RateLimited)` -/
def rejectCall (s : State) (c : Nat) : State := emit (setPh s c (.done false)) [.result c .rateLimited]

/-- `poll_ready` of the wrapped service is pending when the caller arrives: no call is made -/
def notReadyCall (s : State) (c : Nat) : State := emit (setPh s c (.done false)) [.result c .notReady]

def badChoice (s : State) : State := emit s [.raw "choice-not-allowed"]

/-- first poll: the first `try_acquire` -/
def pollFresh (cfg : Cfg) (s : State) (c : Nat) (rej : Bool) : State :=
  let r := room cfg s.lim s.now
  let s := { s with lim := r.1 }
  if r.2 then admitCall s c s.now
  else match noRoomAns cfg r.1 s.now rej with
    | .reject => rejectCall s c
    | .wait lo hi =>
        if hi = 0 then admitCall s c s.now       -- `Ok(Duration::ZERO)` without a permit
        else setPh s c (.sleeping s.now (s.now + lo) (s.now + hi))
    | .bad => badChoice s

/-- `Ok(Duration::ZERO)` from the second `try_acquire` that is not a grant -/
def zeroWait : Ans → Bool
  | .wait _ hi => hi = 0
  | _ => false

/-- after the sleep: the second `try_acquire`; only `Ok(ZERO)` admits, anything else rejects -/
def secondTry (cfg : Cfg) (s : State) (c arr : Nat) : State :=
  let r := room cfg s.lim s.now
  let s := { s with lim := r.1 }
  if r.2 then admitCall s c arr
  else if zeroWait (noRoomAns cfg r.1 s.now true) then admitCall s c arr
  else rejectCall s c

/-- poll of a sleeping caller; `woke` = the sleep timer has fired (observed) -/
def pollSleeping (cfg : Cfg) (s : State) (c arr lo hi : Nat) (woke : Bool) : State :=
  if (woke = true ∧ s.now < lo) ∨ (woke = false ∧ hi ≤ s.now) then badChoice s
  else if woke then secondTry cfg s c arr
  else s

def dropCaller (s : State) (c : Nat) : State :=
  match phaseOf s c with
  | some .fresh => setPh s c (.done false)
  | some (.sleeping _ _ _) => setPh s c (.done false)
  | some (.running _) => emit (setPh s c (.done true)) [.innerDrop c ((lookup s.kOf c).getD 0)]
  | _ => s

def stepS (cfg : Cfg) (s : State) (op : Op) : State :=
  match op with
  | .adv ms => { s with now := s.now + ms }
  | .arrive c sc =>
      if (phaseOf s c).isSome then s
      else if s.now < s.busyUntil then notReadyCall s c
      else { setPh s c .fresh with script := (c, sc) :: s.script }
  | .busy ms => { s with busyUntil := s.now + ms }
  | .poll c rej woke =>
      match phaseOf s c with
      | some .fresh => pollFresh cfg s c rej
      | some (.sleeping arr lo hi) => pollSleeping cfg s c arr lo hi woke
      | some (.running _) => pollRunning s c
      | _ => s
  | .drop c => dropCaller s c

def initLim (cfg : Cfg) : Lim := { avail := cfg.limit }
def init (cfg : Cfg) : State := { lim := initLim cfg }
def run (cfg : Cfg) (ops : List Op) : State := ops.foldl (stepS cfg) (init cfg)

/-! ## line protocol -/

def parseKind (s : String) : Kind :=
  if s = "log" then .slog else if s = "counter" then .counter else .fixed

def flag (kv : Kv) (k : String) : Bool := kv.get k == some "1"

def parseOp (ws : List String) : Option Op :=
  match ws with
  | "arrive" :: c :: rest =>
      let plan := planOf (parseKv rest)
      some (.arrive (c.toNat?.getD 0) (plan.headD { lat := 0, out := .ok }))
  | "poll" :: c :: rest =>
      let kv := parseKv rest
      some (.poll (c.toNat?.getD 0) (flag kv "@rej") (flag kv "@woke"))
  | "drop" :: c :: _ => some (.drop (c.toNat?.getD 0))
  | "adv" :: ms :: _ => some (.adv (ms.toNat?.getD 0))
  | "manual" :: "busy" :: rest => some (.busy ((parseKv rest).nat "ms" 0))
  | _ => none

/-- The wrapped service of the harness is the strict scripted service: its `inner_call` line also
carries the request tag (the caller id) and whether the called instance had been polled ready.
The model's claim: always (`RateLimiter::poll_ready` polls the instance that `call` then uses). -/
def wire : Ev → Ev
  | .innerCall c k => .innerCallX c k c true
  | .innerCallX c k tag _ => .innerCallX c k tag true
  | e => e

def machine : Machine where
  σ := Cfg × State
  init kv :=
    let cfg : Cfg := { kind := parseKind (kv.str "kind" "fixed"), limit := kv.nat "limit" 1,
                       period := kv.nat "period" 1000, timeout := kv.nat "timeout" 0 }
    (cfg, init cfg)
  step := fun (cfg, s) ws =>
    match parseOp ws with
    | some op => let s' := stepS cfg s op; ((cfg, s'), (s'.log.drop s.log.length).map wire)
    | none => ((cfg, s), [])
  now := fun (_, s) => s.now

end TR.RateLimiter
