import TR.Model.Common
/-!
# Retry (C05) — `crates/tower-resilience-retry/src/{lib,config,policy,budget,backoff}.rs`

The call future of `Retry::call` (lib.rs, the `loop` of the boxed `async move` block) is a small
machine per request:

    fresh ──poll──▶ calling k ──outcome──▶ done
                      ▲   │ retryable error, attempt+1 < max_attempts, budget grants
                      │   ▼
                    sleeping (until = now + backoff(attempt))

One `poll` of one call future is one step of the model (`pollS`); it runs as many loop
iterations as are possible without waiting (`loopC` over the single transition `tickC`): an
inner call that is ready at once is observed in the same poll, a zero back-off does not yield
(a tokio `sleep` whose deadline has been reached is ready at its first poll).

Time. The op clock (`now`, `adv`, inner latencies, every instant in the event log) is in whole
milliseconds; the configured back-offs are `Duration`s with sub-millisecond resolution and are
modelled in **microseconds** (`Cfg.backoff`). tokio's timer has millisecond granularity and rounds a
deadline *up*: a `sleep(d)` armed at instant `t` is ready at the first millisecond boundary
`≥ t + d`. All instants here are whole milliseconds, so that boundary is `t + ⌈d/1000⌉` ms
(`ceilMs`; probed on the real runtime through the retry layer: 500 µs → +1 ms, 1000 µs → +1 ms,
1001 µs → +2 ms, 1 µs → +1 ms, 0 → same poll, `exp:900` → +1, +2, +4 ms). `Duration::MAX` (header
value `max`) is modelled as `durMaxUs`; tokio replaces a deadline that `Instant` cannot represent
by "30 years from now", so model and code agree on every history shorter than that.

The retry budget is shared by all call futures of the layer. It is modelled *sequentially*: each
`try_withdraw` and each `deposit` is one atomic step (`Budget.withdraw`, `Budget.deposit` on the
budget state); the interleaving of the atomic operations inside them is the subject of C08.
`deposit` is called on **every** success (also a first-attempt success), `try_withdraw` before
every retry, after the predicate and the attempt bound have been consulted (lib.rs, in that
order).

Ghost history per request: every attempt (`Att`), every requested sleep, every answer of the
budget. Histories are kept newest first.

The event log (`State.log`) is the log the correspondence check compares, **with its instants**: every line is
`(t, e)`, `t` the instant (ms) the driver prints in front of it (`t=<now>`; `log_stamps_are_the_printed_instants` in
`TR.Props.C05`). Besides the common events (`inner_call`, `inner_done`, `inner_drop`, `result`, probes) it holds the
budget's answers: `budget <c> grant` / `budget <c> refused` (`REv.withdraw c granted`) — one line per `try_withdraw`
made by the loop of request `c`, at the place in the order of events where the call is made (after the `inner_done`
of the failed attempt, before the back-off / the result). The harness logs them from a wrapper around the budget
handed to the layer (`mw_retry.rs`, `Logged`); the layer's own `BudgetExhausted` listener event is a meta line
(`#budget_exhausted <attempt>`) that the monitor `c05-grant-before-retry` checks against the `refused` lines.

Interval functions whose answer is not a function of the retry number alone — `ExponentialRandomBackoff`
(jitter: a fresh random sample per call) — or is float-computed (`ExponentialBackoff` objects with any
multiplier / maximum) are *observed choices* (DESIGN §3.2): the harness hands the value the real object
returned to the poll that asked for it (`poll c @d=<ns> …`, in the order of the calls), the model checks it
against the policy's envelope `[backoff k, backoff k + spread k]` (µs; `choice-not-allowed` otherwise) and
sleeps the value clamped into the envelope. So `Cfg.backoff k` is the LEAST delay the policy may return for
retry `k` ("the configured back-off": the exact value for the deterministic policies, for which `spread` is
0), and every theorem about waiting holds for every answer inside the envelope.

Readiness between attempts. After a back-off the loop asks the service instance it holds for readiness
(`poll_ready`) before it calls it again; an `Err` there ends the request with that error, without a further
inner call (phase `unready`); `Pending` delays the retry: an instance that is still recovering from the call it served
(`Cfg.recov` ms after the start of the attempt) keeps the request waiting, the retry starts at the first poll at which
both the back-off has elapsed and the instance has recovered (`recovered`). `State.rdy` is the script of the inner service's answers to these polls
('r' ready, 'p' pending — polled again at once —, 'e' error; exhausted: ready), shared by all requests.
-/
namespace TR.Retry

/-! ## the events of the retry log -/

/-- an event of the retry log: one of the common events, or the answer of the budget to a `try_withdraw` made by the
loop of request `c` -/
inductive REv
  | base (e : Ev)
  | withdraw (c : Nat) (granted : Bool)
deriving DecidableEq, Repr, Inhabited

namespace REv
@[match_pattern] abbrev innerCall (c k : Nat) : REv := .base (.innerCall c k)
@[match_pattern] abbrev innerDone (c k : Nat) (o : Out) : REv := .base (.innerDone c k o)
@[match_pattern] abbrev innerDrop (c k : Nat) : REv := .base (.innerDrop c k)
@[match_pattern] abbrev result (c : Nat) (r : Res) : REv := .base (.result c r)
@[match_pattern] abbrev probe (s : String) : REv := .base (.probe s)
@[match_pattern] abbrev raw (s : String) : REv := .base (.raw s)

/-- the line compared with the implementation's: `budget <c> grant` / `budget <c> refused` -/
def toEv : REv → Ev
  | .base e => e
  | .withdraw c g => .raw s!"budget {c} {if g then "grant" else "refused"}"
end REv

/-- one line of the log: the instant (ms) the driver prints in front of it, and the event -/
abbrev Line := Nat × REv

/-! ## the budget, sequentially -/

structure BState where
  tokens : Nat
  limit  : Nat          -- AIMD: the controller's current maximum; token bucket: unused
deriving DecidableEq, Repr

/-- A retry budget as the call futures see it. Arbitrary functions: the per-request theorems hold
for every budget, hence for every sequence of grant answers. -/
structure Budget where
  withdraw : BState → Bool × BState
  deposit  : BState → BState

/-- `TokenBucketBudget` (budget.rs): tokens are stored ×1000 and only ever change by ±1000, so
whole tokens are modelled; `deposit` caps at `max_tokens` (and lowers a larger balance to it). -/
def bucket (maxT : Nat) : Budget where
  withdraw b := if 1 ≤ b.tokens then (true, { b with tokens := b.tokens - 1 }) else (false, b)
  deposit b := { b with tokens := min (b.tokens + 1) maxT }

/-- `AimdBudget` (budget.rs) over `AimdController` (core/aimd.rs) with `increase_by = 1` and
decrease factor `q/4`: a refused withdrawal lowers the limit to `max(⌊limit·q/4⌋, min)`; a deposit
adds `dep` capped at the *current* limit (a larger balance is lowered to it), then raises the
limit by one up to `max`. -/
def aimd (minB maxB dep wd q : Nat) : Budget where
  withdraw b :=
    if b.tokens < wd then (false, { b with limit := max (b.limit * q / 4) minB })
    else (true, { b with tokens := b.tokens - wd })
  deposit b := { tokens := min (b.tokens + dep) b.limit, limit := min (b.limit + 1) maxB }

/-! ## configuration, requests -/

structure Cfg where
  max     : Nat := 3                       -- `max_attempts` (fixed), default of a request without `ma=`
  dyn     : Bool := false                  -- `max_attempts_fn`: the request carries its own value
  pred    : Nat → Bool := fun _ => true    -- retry predicate over error kinds (none configured = all)
  backoff : Nat → Nat := fun _ => 0        -- `IntervalFunction::next_interval`, in µs: the least value it may return
  spread  : Nat → Nat := fun _ => 0        -- width of the envelope (µs): the answer lies in `[backoff k, backoff k + spread k]`
  budget  : Option Budget := none
  b0      : BState := ⟨0, 0⟩               -- initial budget state
  aimd    : Bool := false                  -- the budget is an `AimdBudget` (only then `probe limit` has an answer)
  rdy     : List Char := []                -- the inner service's answers to the readiness polls between attempts ('r' / 'p' / 'e')
  recov   : Nat := 0                       -- recovery time (ms) of a service instance after a call: pending for that long

/-! ## the builder

`RetryLayer::builder()` (config.rs `RetryConfigBuilder::new`) starts from 3 attempts, no predicate (every error is
retried), no interval function (`build()` then takes `ExponentialBackoff::new(100 ms)`), no budget. Every setter
overwrites one field of the builder and nothing else: `max_attempts(n)` and `max_attempts_fn(f)` both write the single
"max attempts source", `fixed_backoff` / `exponential_backoff` / `backoff` all write the interval function, `retry_on`
the predicate, `budget` the budget. So every setting of the built layer is the one set LAST, wherever the setters of the
other settings stand — in particular a `max_attempts(n)` after a `max_attempts_fn(f)` gives every request the limit `n`. -/

inductive Setter
  | maxA (n : Nat)                         -- `.max_attempts(n)`
  | maxFn (dflt : Nat)                     -- `.max_attempts_fn(f)`; `dflt`: what `f` answers for a request without `ma=`
  | backoff (f : Nat → Nat)                -- `.fixed_backoff(d)` / `.exponential_backoff(d)` / `.backoff(i)`, in µs
  | interval (lo sp : Nat → Nat)           -- `.backoff(i)` with `i` float-computed or jittered: envelope `[lo k, lo k + sp k]`, µs
  | pred (p : Nat → Bool)                  -- `.retry_on(p)`
  | budget (bu : Budget) (b0 : BState) (aimd : Bool)   -- `.budget(b)`, `b` in state `b0`

def defaultCfg : Cfg :=
  { max := 3, dyn := false, pred := fun _ => true, backoff := fun k => 100000 * 2 ^ k, budget := none }

def applySetter (cfg : Cfg) : Setter → Cfg
  | .maxA n => { cfg with max := n, dyn := false }
  | .maxFn d => { cfg with max := d, dyn := true }
  | .backoff f => { cfg with backoff := f, spread := fun _ => 0 }
  | .interval lo sp => { cfg with backoff := lo, spread := sp }
  | .pred p => { cfg with pred := p }
  | .budget bu b0 a => { cfg with budget := some bu, b0 := b0, aimd := a }

/-- the configuration of the layer `builder().s₁.s₂.….build()` -/
def build (chain : List Setter) : Cfg := chain.foldl applySetter defaultCfg

inductive Phase
  | fresh                                    -- future created, never polled
  | calling (k due : Nat) (o : Out)          -- inner call with serial `k` exists, ready at `due`
  | sleeping (wake : Nat)                   -- between two attempts
  | done
  | unready                                  -- the inner service failed readiness before a retry: finished with that error
  | dropped
deriving DecidableEq, Repr

/-- tokio's timer rounds a delay of `us` microseconds, armed at a whole-millisecond instant, **up** to
whole milliseconds: `⌈us/1000⌉` -/
def ceilMs (us : Nat) : Nat := (us + 999) / 1000

/-- `Duration::MAX` (`u64::MAX` s + 999 999 999 ns), rounded up to whole µs -/
def durMaxUs : Nat := 2 ^ 64 * 1000000

/-- `Duration::MAX` in ns -/
def durMaxNs : Nat := 18446744073709551615999999999

/-- a `Duration` (ns) in the model's unit, whole µs rounded **up** (so that `ceilMs (ceilUs ns)` is the timer's
rounding of the real value, and `ceilUs durMaxNs = durMaxUs`) -/
def ceilUs (ns : Nat) : Nat := (ns + 999) / 1000

/-- the delay slept before retry `k + 1` when the interval function answered `ch` (ns; `none`: a deterministic
policy, not observed): the answer in µs, clamped into the policy's envelope -/
def pick (cfg : Cfg) (k : Nat) : Option Nat → Nat
  | none => cfg.backoff k
  | some ns => cfg.backoff k + min (ceilUs ns - cfg.backoff k) (cfg.spread k)

/-- the observed answer lies inside the envelope -/
def okChoice (cfg : Cfg) (k : Nat) : Option Nat → Bool
  | none => true
  | some ns => decide (cfg.backoff k ≤ ceilUs ns) && decide (ceilUs ns ≤ cfg.backoff k + cfg.spread k)

/-- the error a failed readiness poll of the scripted inner service carries (`IErr { kind: 9, v: 0 }`) -/
def readyErr : Res := .inner 9 0

/-- the inner service's answer to the readiness poll before a retry: every pending answer is followed at once by
another poll (the future wakes itself), so the first answer that is not 'p' decides; `(ready?, rest of the script)` -/
def readyOf : List Char → Bool × List Char
  | [] => (true, [])
  | ch :: rest => if ch = 'p' then readyOf rest else (ch != 'e', rest)

/-- ghost record of one attempt -/
structure Att where
  k     : Nat            -- serial of the inner call
  idx   : Nat            -- attempt number, zero based (the code's `attempt`)
  start : Nat            -- instant of `service.call`
  due   : Nat            -- instant the inner future becomes ready
  out   : Out            -- its scripted outcome
  seen  : Option Nat     -- instant the call future observed the outcome
  wait  : Nat := 0       -- the delay (µs) slept before this attempt: what the interval function answered (0: first attempt)
deriving DecidableEq, Repr

structure Caller where
  maxA    : Nat                 -- `max_attempts` of this request
  plan    : List Step           -- scripted inner calls still to come
  plan0   : List Step := plan   -- ghost: the whole script of the request
  phase   : Phase := .fresh
  attempt : Nat := 0
  atts    : List Att := []      -- ghost, newest first
  sleeps  : List Nat := []      -- ghost, newest first: the delays handed to `sleep`, in µs
  grants  : List Bool := []     -- ghost, newest first: answers of `try_withdraw`
  result  : Option Res := none
  choices : List Nat := []      -- the answers (ns) the interval function gives during the poll in progress, in order
  rdy     : List Char := []     -- the readiness script as the poll in progress sees it (copied from / back to `State.rdy`)
deriving Repr

/-- the response / error handed to the caller for outcome `o` of inner call `k` -/
def resOf (k : Nat) : Out → Res
  | .ok => .ok k
  | .err kd => .inner kd k
  | .panic => .panic
  | .never => .panic        -- never observed

/-- result of one caller-local transition -/
structure Outp where
  cl     : Caller
  b      : BState
  serial : Nat
  deps   : Nat := 0           -- ghost: deposits made
  evs    : List Line := []

/-! ## one loop iteration -/

/-- `service.call(req.clone())`: the next scripted step is popped, `inner_call c k` -/
def startCall (now serial : Nat) (b : BState) (c : Nat) (cl : Caller) (idx : Nat) : Outp :=
  let st := cl.plan.headD { lat := 0, out := .ok }
  { cl := { cl with plan := cl.plan.tail, attempt := idx,
                    phase := .calling serial (now + st.lat) st.out,
                    atts := { k := serial, idx := idx, start := now, due := now + st.lat,
                              out := st.out, seen := none, wait := cl.sleeps.headD 0 } :: cl.atts },
    b := b, serial := serial + 1, evs := [(now, .innerCall c serial)] }

def seenNow (now : Nat) : List Att → List Att
  | [] => []
  | a :: tl => { a with seen := some now } :: tl

inductive Verdict
  | stop
  | retry
deriving DecidableEq, Repr

/-- verdict of the loop on one outcome: what to do, the budget afterwards, the deposits made,
the grant answers obtained -/
structure Cls where
  v      : Verdict
  b      : BState
  deps   : Nat := 0
  grants : List Bool := []

/-- What the loop does with outcome `o` of attempt number `attempt` (lib.rs: `Ok` ⇒ deposit and
return; `Err` ⇒ predicate, then `attempt + 1 >= max_attempts`, then `try_withdraw`). -/
def classify (cfg : Cfg) (b : BState) (maxA attempt : Nat) (o : Out) : Cls :=
  match o with
  | .ok =>
      match cfg.budget with
      | some bu => { v := .stop, b := bu.deposit b, deps := 1 }
      | none => { v := .stop, b := b }
  | .err kd =>
      if cfg.pred kd = false then { v := .stop, b := b }
      else if maxA ≤ attempt + 1 then { v := .stop, b := b }
      else match cfg.budget with
        | none => { v := .retry, b := b }
        | some bu =>
            if (bu.withdraw b).1 then { v := .retry, b := (bu.withdraw b).2, grants := [true] }
            else { v := .stop, b := (bu.withdraw b).2, grants := [false] }
  | _ => { v := .stop, b := b }

/-- the inner future is ready: `inner_done`, then the budget's answer if the loop asks it (`budget c grant|refused`), then
either the result or the sleep -/
def observe (cfg : Cfg) (now serial : Nat) (b : BState) (c : Nat) (cl : Caller) (k : Nat) (o : Out) : Outp :=
  let v := classify cfg b cl.maxA cl.attempt o
  let wd : List Line := v.grants.map fun g => (now, .withdraw c g)
  match v.v with
  | .stop =>
      { cl := { cl with phase := .done, atts := seenNow now cl.atts, grants := v.grants ++ cl.grants,
                        result := some (resOf k o) },
        b := v.b, serial := serial, deps := v.deps,
        evs := (now, .innerDone c k o) :: wd ++ [(now, .result c (resOf k o))] }
  | .retry =>
      let d := pick cfg cl.attempt cl.choices.head?
      { cl := { cl with phase := .sleeping (now + ceilMs d), atts := seenNow now cl.atts,
                        grants := v.grants ++ cl.grants, sleeps := d :: cl.sleeps, choices := cl.choices.tail },
        b := v.b, serial := serial, deps := v.deps,
        evs := (now, .innerDone c k o) :: wd ++
          (if okChoice cfg cl.attempt cl.choices.head? then [] else [(now, .raw "choice-not-allowed")]) }

/-- The service instance a request uses (the same for all its attempts) answers `Pending` to `poll_ready` until `recov` ms
have passed since the call it last served (a connection being re-established; no answer of the script is consumed
meanwhile, the pending poll arms a timer): has the instance recovered from its newest attempt (head of `atts`)? -/
def recovered (cfg : Cfg) (atts : List Att) (now : Nat) : Bool :=
  match atts with
  | [] => true
  | a :: _ => decide (a.start + cfg.recov ≤ now)

/-- the back-off has elapsed: the readiness poll, then the next attempt — or the readiness error as the result -/
def retryCall (now serial : Nat) (b : BState) (c : Nat) (cl : Caller) : Outp :=
  if (readyOf cl.rdy).1 then startCall now serial b c { cl with rdy := (readyOf cl.rdy).2 } (cl.attempt + 1)
  else
    { cl := { cl with rdy := (readyOf cl.rdy).2, phase := .unready, result := some readyErr },
      b := b, serial := serial, evs := [(now, .result c readyErr)] }

/-- one loop iteration of caller `c`, `none` when the future has to wait (or is finished) -/
def tickC (cfg : Cfg) (now serial : Nat) (b : BState) (c : Nat) (cl : Caller) : Option Outp :=
  match cl.phase with
  | .fresh => some (startCall now serial b c cl 0)
  | .calling k due o =>
      if due ≤ now ∧ o ≠ .never then some (observe cfg now serial b c cl k o) else none
  | .sleeping u =>
      if u ≤ now ∧ recovered cfg cl.atts now = true then some (retryCall now serial b c cl) else none
  | .done => none
  | .unready => none
  | .dropped => none

/-- one poll: iterate until the future has to wait -/
def loopC (cfg : Cfg) (now c : Nat) : Nat → Nat → BState → Caller → Outp
  | 0, serial, b, cl => { cl := cl, b := b, serial := serial }
  | f + 1, serial, b, cl =>
      match tickC cfg now serial b c cl with
      | none => { cl := cl, b := b, serial := serial }
      | some o =>
          let r := loopC cfg now c f o.serial o.b o.cl
          { r with deps := o.deps + r.deps, evs := o.evs ++ r.evs }

/-! ## the shared state -/

structure State where
  now      : Nat := 0
  serial   : Nat := 0
  callers  : List (Nat × Caller) := []
  b        : BState
  deposits : Nat := 0           -- ghost: number of `deposit` calls
  others   : Nat := 0           -- ghost: withdrawals granted to other users of the shared budget
  log      : List Line := []    -- the compared event log, every line with its instant
  rdy      : List Char := []    -- script of the inner service's answers to the readiness polls between attempts

inductive Op
  | arrive (c : Nat) (ma : Option Nat) (plan : List Step)
  | poll (c : Nat) (ds : List Nat)     -- `ds`: what the interval function answers during this poll (ns), in order
  | drop (c : Nat)
  | adv (ms : Nat)
  | probeBalance
  | probeLimit
  | deposit            -- another holder of the budget `Arc` deposits
  | withdraw           -- … or withdraws
  | invalid

/-- replace the first entry with key `c` -/
def modify (l : List (Nat × Caller)) (c : Nat) (v : Caller) : List (Nat × Caller) :=
  match l with
  | [] => []
  | (k, x) :: tl => if k = c then (k, v) :: tl else (k, x) :: modify tl c v

/-- append events, stamped with the current instant -/
def emit (s : State) (evs : List REv) : State := { s with log := s.log ++ evs.map fun e => (s.now, e) }

/-- an upper bound on the loop iterations of one poll: every attempt is one call and one sleep -/
def fuel (cl : Caller) : Nat := 2 * cl.maxA + 4

def pollS (cfg : Cfg) (s : State) (c : Nat) (ds : List Nat) : State :=
  match lookup s.callers c with
  | none => s
  | some cl =>
      let o := loopC cfg s.now c (fuel cl) s.serial s.b { cl with choices := ds, rdy := s.rdy }
      { s with callers := modify s.callers c o.cl, b := o.b, serial := o.serial, rdy := o.cl.rdy,
               deposits := s.deposits + o.deps, log := s.log ++ o.evs }

/-- dropping the call future drops the inner future, if one exists -/
def dropS (s : State) (c : Nat) : State :=
  match lookup s.callers c with
  | none => s
  | some cl =>
      match cl.phase with
      | .done => s
      | .unready => s
      | .dropped => s
      | .calling k _ _ =>
          emit { s with callers := modify s.callers c { cl with phase := .dropped } } [.innerDrop c k]
      | _ => { s with callers := modify s.callers c { cl with phase := .dropped } }

def arriveS (cfg : Cfg) (s : State) (c : Nat) (ma : Option Nat) (plan : List Step) : State :=
  match lookup s.callers c with
  | some _ => s
  | none =>
      let m := if cfg.dyn then ma.getD cfg.max else cfg.max
      { s with callers := (c, { maxA := m, plan := plan }) :: s.callers }

def noop : REv := .raw "noop"

def stepS (cfg : Cfg) (s : State) (op : Op) : State :=
  match op with
  | .adv ms => { s with now := s.now + ms }
  | .arrive c ma plan => arriveS cfg s c ma plan
  | .poll c ds => pollS cfg s c ds
  | .drop c => dropS s c
  | .probeBalance =>
      match cfg.budget with
      | some _ => emit s [.probe s!"balance={s.b.tokens}"]
      | none => emit s [noop]
  | .probeLimit => emit s [.probe s!"limit={s.b.limit}"]
  | .deposit =>
      match cfg.budget with
      | some bu => emit { s with b := bu.deposit s.b, deposits := s.deposits + 1 } [.probe "deposited"]
      | none => emit s [noop]
  | .withdraw =>
      match cfg.budget with
      | some bu =>
          let r := bu.withdraw s.b
          emit { s with b := r.2, others := s.others + (if r.1 then 1 else 0) }
            [.probe s!"withdraw={if r.1 then 1 else 0}"]
      | none => emit s [noop]
  | .invalid => emit s [noop]

def init (cfg : Cfg) : State := { b := cfg.b0, rdy := cfg.rdy }
def run (cfg : Cfg) (ops : List Op) : State := ops.foldl (stepS cfg) (init cfg)

/-! ## line protocol -/

def natsOf (s : String) (sep : String) : List Nat :=
  ((s.splitOn sep).filter (· ≠ "")).map fun x => x.toNat?.getD 0

/-- one configured back-off value in µs: a number of ms (of µs with `unit=us`), `max` = `Duration::MAX` -/
def durOf (us : Bool) (s : String) : Nat :=
  if s = "max" then durMaxUs else (s.toNat?.getD 0) * (if us then 1 else 1000)

/-- `ExponentialBackoff` (multiplier 2, no cap): `initial · 2^k`, saturating at `Duration::MAX` -/
def expOf (d k : Nat) : Nat := min (d * 2 ^ k) durMaxUs

/-- `fixed:10 | exp:5 | fn:1,2,3`, values in ms (µs when `us`) or `max`. The result is in µs. -/
def backoffOf (us : Bool) (s : String) : Nat → Nat :=
  match s.splitOn ":" with
  | ["fixed", d] => let d := durOf us d; fun _ => d
  | ["exp", d] => let d := durOf us d; fun k => expOf d k
  | [_, t] => let t := ((t.splitOn ",").filter (· ≠ "")).map (durOf us); fun k => t.getD k 0
  | _ => fun _ => 0

/-! ### interval-function objects handed to `.backoff(..)`

`FixedInterval::new(d)`, `ExponentialBackoff::new(d).multiplier(p/q).max_interval(cap)`,
`ExponentialRandomBackoff::new(d, pct/100).multiplier(p/q).max_interval(cap)`. The last two are float-computed (and the
last is random): the value is an observed choice, the model has the envelope around the exact-arithmetic capped
exponential (the envelope of `TR.Model.Backoff`, C14: relative 2^-40 plus 1 ns; jitter: within the randomization
factor of the capped value, never above `Duration::MAX`). -/

/-- one configured duration in ns: a number of ms (µs with `unit=us`), or `max` = `Duration::MAX` -/
def durNs (us : Bool) (s : String) : Nat :=
  if s = "max" then durMaxNs else (s.toNat?.getD 0) * (if us then 1000 else 1000000)

/-- relative `2^-40` plus one nanosecond -/
def tolNs (x : Nat) : Nat := x / 2 ^ 40 + 1

/-- `capped_exponential` in exact arithmetic (ns): `⌊initial · (p/q)^k⌋`, saturating at the cap -/
def idealNs (init p q cap k : Nat) : Nat := min (init * p ^ k / q ^ k) cap

/-- an `ExponentialBackoff` (`pct = none`) or `ExponentialRandomBackoff` (`pct` = randomization factor in %) as built -/
structure Ivl where
  init : Nat                  -- ns
  p    : Nat := 2             -- multiplier p/q
  q    : Nat := 1
  cap  : Option Nat := none   -- `max_interval` (ns)
  pct  : Option Nat := none

def Ivl.capNs (i : Ivl) : Nat := i.cap.getD durMaxNs
def Ivl.ideal (i : Ivl) (k : Nat) : Nat := idealNs i.init i.p i.q i.capNs k

/-- the least value (ns) the object may return for retry `k` -/
def Ivl.loNs (i : Ivl) (k : Nat) : Nat :=
  match i.pct with
  | none => i.ideal k - tolNs (i.ideal k)
  | some pct => i.ideal k * (100 - min pct 100) / 100 - (tolNs (i.ideal k) + 1)

/-- the largest -/
def Ivl.hiNs (i : Ivl) (k : Nat) : Nat :=
  match i.pct with
  | none => min (i.ideal k + tolNs (i.ideal k)) i.capNs
  | some pct => min (i.ideal k * (100 + min pct 100) / 100 + tolNs (2 * i.ideal k) + 1) durMaxNs

/-- the envelope in the model's unit (µs, rounded up as the observed value is) -/
def Ivl.lo (i : Ivl) (k : Nat) : Nat := ceilUs (i.loNs k)
def Ivl.sp (i : Ivl) (k : Nat) : Nat := ceilUs (i.hiNs k) - ceilUs (i.loNs k)

/-- a field of `<d>_<pct>_<p>_<q>_<cap>`: `-` (or absent) = the setter is not called -/
def fieldOf (fs : List String) (i : Nat) : Option String :=
  match fs[i]? with
  | some "-" => none
  | some "" => none
  | x => x

/-- `<d>_<p>_<q>_<cap>` (`pct?` = false) or `<d>_<pct>_<p>_<q>_<cap>` -/
def ivlOf (us : Bool) (rand : Bool) (arg : String) : Ivl :=
  let fs := arg.splitOn "_"
  let o := if rand then 1 else 0
  let mult := (fieldOf fs (1 + o)).map fun p => (p.toNat?.getD 0, ((fieldOf fs (2 + o)).bind (·.toNat?)).getD 1)
  { init := durNs us (fs.headD "0"),
    p := (mult.map (·.1)).getD 2, q := (mult.map (·.2)).getD 1,
    cap := (fieldOf fs (3 + o)).map (durNs us),
    pct := if rand then some (((fieldOf fs 1).bind (·.toNat?)).getD 50) else none }

/-- every back-off word: the three builder shortcuts / the custom table (exact, `spread` 0), or an interval-function
object `ifixed:<d>` / `iexp:<d>_<p>_<q>_<cap>` / `rand:<d>_<pct>_<p>_<q>_<cap>` → `(least value, width)` in µs -/
def intervalOf (us : Bool) (s : String) : (Nat → Nat) × (Nat → Nat) :=
  match s.splitOn ":" with
  | ["ifixed", d] => let d := durOf us d; (fun _ => d, fun _ => 0)
  | ["iexp", a] => let i := ivlOf us false a; (i.lo, i.sp)
  | ["rand", a] => let i := ivlOf us true a; (i.lo, i.sp)
  | _ => (backoffOf us s, fun _ => 0)

/-- `bo=… [unit=us]`; absent: the builder's default, exponential from 100 ms. The result is in µs. -/
def parseBackoff (kv : Kv) : (Nat → Nat) × (Nat → Nat) :=
  let us := kv.get "unit" == some "us"
  match kv.get "bo" with
  | none => (fun k => 100000 * 2 ^ k, fun _ => 0)
  | some s => intervalOf us s

/-- kind k is retried iff bit k of the mask is set -/
def predOf (m : Nat) : Nat → Bool := fun k => k < 64 && (m / 2 ^ k) % 2 == 1

/-- `retry=<mask>`: kind k is retried iff bit k is set; absent: every error is retried -/
def parsePred (kv : Kv) : Nat → Bool :=
  match kv.optNat "retry" with
  | none => fun _ => true
  | some m => predOf m

/-- field `i` of a budget word: a number; `-` = the builder's setter is not called (its default `dflt`); absent: `old` -/
def bfield (rest : List String) (i dflt old : Nat) : Nat :=
  match rest[i]? with
  | some "-" => dflt
  | some x => x.toNat?.getD 0
  | none => old

/-- `bucket:<max>:<initial>[:<tokens per second>] | aimd:<min>:<max>:<dep>:<wd>:<q>` (`AimdBudget::new`) |
`aimdb:<min>:<max>:<dep>:<wd>:<q>` (`RetryBudgetBuilder::new().aimd()…build()`, a field `-` = setter not called: 10, 1000,
1, 1, factor 0.5; the result is an `Arc<dyn RetryBudget>`: no `current_max()`); (budget, initial state, `probe limit` answers) -/
def budgetOf (s : String) : Option (Budget × BState × Bool) :=
  match s.splitOn ":" with
  | "bucket" :: rest =>
      let m := bfield rest 0 100 1
      -- `TokenBucketBudget::new` clamps the initial balance to the burst capacity
      some (bucket m, ⟨min (bfield rest 1 m m) m, m⟩, false)
  | "aimd" :: rest =>
      let p := rest.map fun x => x.toNat?.getD 0
      let mn := p.getD 0 1
      let mx := p.getD 1 1
      some (aimd mn mx (p.getD 2 1) (p.getD 3 1) (p.getD 4 2), ⟨mx, mx⟩, true)
  | "aimdb" :: rest =>
      let mx := bfield rest 1 1000 1000
      some (aimd (bfield rest 0 10 10) mx (bfield rest 2 1 1) (bfield rest 3 1 1) (bfield rest 4 2 2), ⟨mx, mx⟩, false)
  | _ => none

/-- all characters are decimal digits, and there is one -/
def digits? (s : String) : Option Nat := if s.all Char.isDigit then s.toNat? else none

/-- one item of `chain=`: `m<n>` / `f<n>` / `bf<d>` / `be<d>` / `bt<d>/<d>/…` / `bi<d>` / `bx<d>_…` / `br<d>_<pct>_…` /
`p<mask>` / `ubucket:…` / `uaimd:…` / `uaimdb:…`; anything else is skipped (as the harness does; `n<name>` = `.name(..)`
is applied by the harness and has no effect the model could see) -/
def parseSetter (us : Bool) (w : String) : Option Setter :=
  let a1 := (w.drop 1).toString
  let a2 := (w.drop 2).toString
  if w.startsWith "m" then (digits? a1).map .maxA
  else if w.startsWith "f" then (digits? a1).map .maxFn
  else if w.startsWith "p" then (digits? a1).map fun m => .pred (predOf m)
  else if w.startsWith "bf" then some (.backoff (backoffOf us ("fixed:" ++ a2)))
  else if w.startsWith "be" then some (.backoff (backoffOf us ("exp:" ++ a2)))
  else if w.startsWith "bt" then some (.backoff (backoffOf us ("fn:" ++ a2.replace "/" ",")))
  else if w.startsWith "bi" then let iv := intervalOf us ("ifixed:" ++ a2); some (.interval iv.1 iv.2)
  else if w.startsWith "bx" then let iv := intervalOf us ("iexp:" ++ a2); some (.interval iv.1 iv.2)
  else if w.startsWith "br" then let iv := intervalOf us ("rand:" ++ a2); some (.interval iv.1 iv.2)
  else if w.startsWith "u" then (budgetOf a1).map fun (bu, b0, a) => .budget bu b0 a
  else none

/-- header word `chain=s1,s2,…`: the builder chain, left to right -/
def parseChain (us : Bool) (s : String) : List Setter := (s.splitOn ",").filterMap (parseSetter us)

/-- the presets of `RetryLayer`: each is `builder()` followed by two setters (layer.rs) -/
def presetChain (via : String) : List Setter :=
  if via = "exponential_backoff" then [.maxA 3, .backoff (backoffOf false "exp:100")]
  else if via = "aggressive" then [.maxA 5, .backoff (backoffOf false "exp:50")]
  else if via = "conservative" then [.maxA 2, .backoff (backoffOf false "exp:500")]
  else []

def parseCfg (kv : Kv) : Cfg × Bool :=
  let rdy := (kv.str "ready" "").toList
  let rec_ := kv.nat "rec" 0
  match kv.get "chain" with
  | some ch =>
      let cfg := build (presetChain (kv.str "via" "") ++ parseChain (kv.get "unit" == some "us") ch)
      ({ cfg with rdy := rdy, recov := rec_ }, cfg.aimd)
  | none =>
    let bo := parseBackoff kv
    match (kv.get "budget").bind budgetOf with
    | some (bu, b0, isAimd) =>
        ({ max := kv.nat "max" 3, dyn := kv.nat "dyn" 0 == 1, pred := parsePred kv,
           backoff := bo.1, spread := bo.2, budget := some bu, b0 := b0, aimd := isAimd, rdy := rdy, recov := rec_ }, isAimd)
    | none =>
        ({ max := kv.nat "max" 3, dyn := kv.nat "dyn" 0 == 1, pred := parsePred kv,
           backoff := bo.1, spread := bo.2, rdy := rdy, recov := rec_ }, false)

/-- the observed answers of the interval function on a `poll` line: `@d=<ns>` words, in order -/
def choicesOf (ws : List String) : List Nat :=
  ws.filterMap fun w => if w.startsWith "@d=" then (w.drop 3).toString.toNat? else none

def parseOp (isAimd : Bool) (ws : List String) : Option Op :=
  match ws with
  | "arrive" :: c :: rest =>
      let kv := parseKv rest
      some (.arrive (c.toNat?.getD 0) (kv.optNat "ma") (planOf kv))
  | "poll" :: c :: rest => some (.poll (c.toNat?.getD 0) (choicesOf rest))
  | "drop" :: c :: _ => some (.drop (c.toNat?.getD 0))
  | "adv" :: ms :: _ => some (.adv (ms.toNat?.getD 0))
  | "probe" :: "balance" :: _ => some .probeBalance
  | "probe" :: "limit" :: _ => some (if isAimd then .probeLimit else .invalid)
  | "probe" :: _ => some .invalid
  | "manual" :: "deposit" :: _ => some .deposit
  | "manual" :: "withdraw" :: _ => some .withdraw
  | "manual" :: _ => some .invalid
  | _ => none

def machine : Machine where
  σ := (Cfg × Bool) × State
  init kv := let p := parseCfg kv; (p, init p.1)
  step := fun (p, s) ws =>
    match parseOp p.2 ws with
    | some op => let s' := stepS p.1 s op; ((p, s'), (s'.log.drop s.log.length).map fun l => l.2.toEv)
    | none => ((p, s), [])
  now := fun (_, s) => s.now

end TR.Retry
