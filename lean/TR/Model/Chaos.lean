import TR.Model.Common
/-!
# Chaos (C19) — `crates/tower-resilience-chaos/src/service.rs`, `Chaos::call`

The decision block (service.rs:64-89) runs once per request, in the first poll of the call
future, under the mutex of the shared `StdRng`. It is transcribed line by line as `decideG`
over an *abstract* generator (`Gen`: a state space with the two sampling operations the code
uses, `random::<f64>()` and `random_range(min..=max)`), so that the theorems hold for every
seed and every generator algorithm; only the contracts `roll ∈ [0,1)` and
`random_range(a..=b) ∈ [a,b]` are assumed (`Lawful`).

Numbers are exact: a roll is the 53-bit numerator `n` of the f64 `n·2⁻⁵³`; a rate `p ∈ [0,1]`
is its threshold `T = ⌈p·2⁵³⌉ ∈ [0,2⁵³]`, so that `roll < p ⟺ n < T`, `p > 0 ⟺ T > 0`,
`p = 1 ⟺ T = 2⁵³`. Latency bounds are whole milliseconds (`as_millis()` truncates).

For the correspondence check the harness cannot see the private generator; it holds a mirror
generator and hands the model, with every first poll, the draws the layer would make next
(`Draws`). `decideDraws` is `decideG` run on the finite generator that replays these draws.
-/
namespace TR.Chaos

def P53 : Nat := 9007199254740992   -- 2^53

structure Cfg where
  eT    : Nat        -- threshold of the error rate   (`error_injector.error_rate()`)
  lT    : Nat        -- threshold of the latency rate (`latency_rate`)
  minMs : Nat        -- `min_latency.as_millis()`
  maxMs : Nat        -- `max_latency.as_millis()`
deriving DecidableEq, Repr, Inhabited

/-- the generator as the code uses it -/
structure Gen (γ : Type) where
  nextF : γ → Nat × γ                 -- `rng.random::<f64>()`: numerator, next state
  nextR : Nat → Nat → γ → Nat × γ     -- `rng.random_range(lo..=hi)`: value, next state

inductive Decision
  | error
  | latency (ms : Nat)
  | pass
deriving DecidableEq, Repr, Inhabited

/-- service.rs:64-89 and the `inject_error` test at :91, line by line -/
def decideG {γ : Type} (G : Gen γ) (cfg : Cfg) (g : γ) : Decision × γ :=
  -- `let mut error_roll = 1.0; if error_rate > 0.0 { error_roll = rng.random(); }`
  let e : Nat × γ := if cfg.eT > 0 then G.nextF g else (P53, g)
  -- `if latency_rate > 0.0 && error_roll >= error_rate { … }`
  let l : Option Nat × γ :=
    if cfg.lT > 0 ∧ e.1 ≥ cfg.eT then
      -- `let latency_roll = rng.random(); should_inject_latency = latency_roll < latency_rate;`
      let lr := G.nextF e.2
      if lr.1 < cfg.lT then
        -- `if max_ms > min_ms { rng.random_range(min_ms..=max_ms) } else { min_ms }`
        if cfg.maxMs > cfg.minMs then
          let d := G.nextR cfg.minMs cfg.maxMs lr.2
          (some d.1, d.2)
        else (some cfg.minMs, lr.2)
      else (none, lr.2)
    else (none, e.2)
  -- `inject_error(&req, error_roll)`: `roll < rate` ⇒ return the error before anything else
  if e.1 < cfg.eT then (.error, l.2)
  else match l.1 with
    | some ms => (.latency ms, l.2)
    | none => (.pass, l.2)

/-- the decisions of the first `n` requests of a service whose generator starts in state `g` -/
def streamG {γ : Type} (G : Gen γ) (cfg : Cfg) : γ → Nat → List Decision
  | _, 0 => []
  | g, n + 1 => (decideG G cfg g).1 :: streamG G cfg (decideG G cfg g).2 n

/-! ## draws as inputs (monitor mode) -/

/-- the next draws of the generator, speculatively: first and second `f64`, the range draw if
made after one `f64` (no error roll) and if made after two -/
structure Draws where
  r1 : Nat
  r2 : Nat
  g1 : Nat
  g2 : Nat
deriving DecidableEq, Repr, Inhabited

/-- finite generator replaying `d`; its state counts the `f64` and the range draws made -/
def scriptGen (d : Draws) : Gen (Nat × Nat) where
  nextF := fun s => (if s.1 = 0 then d.r1 else d.r2, (s.1 + 1, s.2))
  nextR := fun _ _ s => (if s.1 = 1 then d.g1 else d.g2, (s.1, s.2 + 1))

/-- decision and number of draws consumed -/
def decideDraws (cfg : Cfg) (d : Draws) : Decision × Nat :=
  let r := decideG (scriptGen d) cfg (0, 0)
  (r.1, r.2.1 + r.2.2)

def inRange (cfg : Cfg) (x : Nat) : Bool := decide (cfg.minMs ≤ x) && decide (x ≤ cfg.maxMs)

/-- the contracts of `rand`: a roll is below 1; a range draw lies in the range -/
def allowed (cfg : Cfg) (d : Draws) : Bool :=
  decide (d.r1 < P53) && decide (d.r2 < P53) &&
    (!decide (cfg.maxMs > cfg.minMs) || (inRange cfg d.g1 && inRange cfg d.g2))

/-! ## the state machine: one poll of one call future per step -/

/-- the error the harness's `error_fn` produces for a request with tag `tag` -/
def injected (tag : Nat) : Res := .inner 99 tag

inductive Phase
  | fresh (tag : Nat) (st : Step)
  | sleeping (wake : Nat) (st : Step)                -- `tokio::time::sleep(latency).await`
  | inner (k doneAt : Nat) (out : Out)
  | done
deriving DecidableEq, Repr, Inhabited

structure State where
  now    : Nat := 0
  phase  : List (Nat × Phase) := []
  serial : Nat := 0
  decs   : List Decision := []            -- ghost: decisions in the order they were taken
  decOf  : List (Nat × Decision) := []    -- ghost: decision per caller
  used   : Nat := 0                       -- ghost: draws consumed so far
  gone   : Bool := false                  -- `manual dropsvc`: the caller has dropped every handle of the service
  log    : List Ev := []
deriving Repr

inductive Op
  | arrive (c tag : Nat) (st : Step)
  | poll (c : Nat) (d : Option Draws)
  | drop (c : Nat)
  | adv (ms : Nat)
  | dropsvc                               -- the caller drops every handle of the service, and the layer
deriving Repr

def emit (s : State) (evs : List Ev) : State := { s with log := s.log ++ evs }
def setPhase (s : State) (c : Nat) (p : Phase) : State := { s with phase := (c, p) :: s.phase }
def known (s : State) (c : Nat) : Bool := (lookup s.phase c).isSome

def outcomeEvents (c k : Nat) : Out → List Ev
  | .ok => [.innerDone c k .ok, .result c (.ok k)]
  | .err kd => [.innerDone c k (.err kd), .result c (.inner kd k)]
  | .panic => [.innerDone c k .panic, .result c .panic]
  | .never => []

def pollInner (s : State) (c k t : Nat) (out : Out) : State :=
  if s.now ≥ t ∧ out ≠ .never then setPhase (emit s (outcomeEvents c k out)) c .done else s

/-- `inner.call(req).await`: the call, then the first poll of its future, in one step -/
def startInner (s : State) (c : Nat) (st : Step) : State :=
  pollInner
    (setPhase (emit { s with serial := s.serial + 1 } [.innerCall c s.serial]) c
      (.inner s.serial (s.now + st.lat) st.out))
    c s.serial (s.now + st.lat) st.out

def pollSleeping (s : State) (c wake : Nat) (st : Step) : State :=
  if s.now ≥ wake then startInner s c st else s

def record (s : State) (c : Nat) (dec : Decision) (n : Nat) : State :=
  { s with decs := s.decs ++ [dec], decOf := (c, dec) :: s.decOf, used := s.used + n }

/-- the observed draws must satisfy the contracts of `rand` -/
def checked (cfg : Cfg) (s : State) (d : Draws) : State :=
  if allowed cfg d then s else emit s [.raw "choice-not-allowed"]

/-- service.rs:91-152: return the injected error at once / sleep, then call / call -/
def enact (s : State) (c tag : Nat) (st : Step) : Decision → State
  | .error => setPhase (emit s [.result c (injected tag)]) c .done
  | .latency ms => pollSleeping (setPhase s c (.sleeping (s.now + ms) st)) c (s.now + ms) st
  | .pass => startInner s c st

/-- first poll: the decision block, then error / sleep / inner call -/
def pollFresh (cfg : Cfg) (s : State) (c tag : Nat) (st : Step) (d : Draws) : State :=
  enact (record (checked cfg s d) c (decideDraws cfg d).1 (decideDraws cfg d).2) c tag st (decideDraws cfg d).1

def stepS (cfg : Cfg) (s : State) (op : Op) : State :=
  match op with
  | .adv ms => { s with now := s.now + ms }
  -- a request needs a handle to be made on (`poll_ready` / `call` take `&mut self`)
  | .arrive c tag st => if s.gone || known s c then s else setPhase s c (.fresh tag st)
  -- The call future owns all it needs (service.rs:55-59: the inner service, `Arc`s of the configuration and of
  -- the generator): nothing of a request that has arrived — polled or not yet polled — changes when the handles go;
  -- its decision is still taken at its first poll, from the same generator.
  | .dropsvc => { s with gone := true }
  | .poll c d =>
      match lookup s.phase c with
      | some (.fresh tag st) =>
          match d with
          | some d => pollFresh cfg s c tag st d
          | none => emit s [.raw "choice-not-allowed"]      -- a first poll needs the observed draws
      | some (.sleeping u st) => pollSleeping s c u st
      | some (.inner k t out) => pollInner s c k t out
      | _ => s
  | .drop c =>
      match lookup s.phase c with
      | some (.fresh _ _) => setPhase s c .done
      | some (.sleeping _ _) => setPhase s c .done
      | some (.inner k _ _) => setPhase (emit s [.innerDrop c k]) c .done
      | _ => s

def init : State := {}
def run (cfg : Cfg) (ops : List Op) : State := ops.foldl (stepS cfg) init

/-! ## the real-thread stress search (`manual stress threads=N calls=K`)

The harness lets `N` OS threads, each holding a clone of one service, make `K` calls in total and
reports how many of them the layer decided "error" / "delay" / "pass". The model's unit of atomicity
is the decision block of one request: the code draws all rolls of a request while it holds the
generator's mutex, so — ASSUMING that mutual exclusion — every parallel execution decides like some
sequential order of the `K` first polls, and by `decisions_are_seed_stream` the list of decisions is
then the first `K` entries of the seed's stream whatever that order is. The model has no generator of
its own (the draws of an ordinary first poll are handed to it); of a stress run it therefore checks
what must hold for EVERY seed: every call took exactly one decision, and the extremes of the property
(`stressAllowed`; `TR.Chaos.stress_tally_allowed` shows the tallies of every lawful seed's stream pass). -/

structure Tally where
  ne : Nat      -- calls decided "inject the error"
  nl : Nat      -- calls decided "delay"
  np : Nat      -- calls decided "pass"
deriving DecidableEq, Repr, Inhabited

def Decision.isLat : Decision → Bool
  | .latency _ => true
  | _ => false

/-- how many of the decisions `l` are error / delay / pass -/
def tally (l : List Decision) : Tally :=
  { ne := l.countP (· == .error), nl := l.countP Decision.isLat, np := l.countP (· == .pass) }

/-- `k` calls: one decision each; error rate 1 ⇒ all fail; error rate 0 ⇒ none fails; latency rate 0 ⇒
none is delayed; latency rate 1 ⇒ none passes undelayed -/
def stressAllowed (cfg : Cfg) (k : Nat) (t : Tally) : Bool :=
  decide (t.ne + t.nl + t.np = k) &&
  (!decide (cfg.eT = P53) || decide (t.ne = k)) &&
  (!decide (cfg.eT = 0) || decide (t.ne = 0)) &&
  (!decide (cfg.lT = 0) || decide (t.nl = 0)) &&
  (!decide (cfg.lT = P53) || decide (t.np = 0))

def stressLine (cfg : Cfg) (k : Nat) (t : Option Tally) : String :=
  match t with
  | some t =>
      if stressAllowed cfg k t then s!"stress calls={k} errors={t.ne} delayed={t.nl} passed={t.np} anomalies=0"
      else "choice-not-allowed"
  | none => "choice-not-allowed"

def parseTally (kv : Kv) : Option Tally :=
  match kv.optNat "@ne", kv.optNat "@nl", kv.optNat "@np" with
  | some a, some b, some c => some ⟨a, b, c⟩
  | _, _, _ => none

/-! ## line protocol -/

def parseDraws (kv : Kv) : Option Draws :=
  match kv.optNat "@r1", kv.optNat "@r2", kv.optNat "@g1", kv.optNat "@g2" with
  | some a, some b, some c, some d => some ⟨a, b, c, d⟩
  | _, _, _, _ => none

def parseOp (ws : List String) : Option Op :=
  match ws with
  | "arrive" :: c :: rest =>
      let kv := parseKv rest
      let c := c.toNat?.getD 0
      some (.arrive c (kv.nat "tag" c) ((planOf kv).headD { lat := 0, out := .ok }))
  | "poll" :: c :: rest => some (.poll (c.toNat?.getD 0) (parseDraws (parseKv rest)))
  | "drop" :: c :: _ => some (.drop (c.toNat?.getD 0))
  | "adv" :: ms :: _ => some (.adv (ms.toNat?.getD 0))
  | "manual" :: "dropsvc" :: _ => some .dropsvc
  | _ => none

/-! ## how the caller obtains the handle it calls, and the readiness of the wrapped service

`arrive c … via=<mode>`: `clone` (clone the template, ready the clone, call it), `readyclone` (ready the template,
then clone it, ready the clone, call the clone), `swap` (ready the template, leave a fresh clone in its place, call
the readied one), `template` (ready and call the template itself). `Chaos::poll_ready` (service.rs:50-52) is
`self.inner.poll_ready(cx)` and nothing else, and `Chaos::call` (service.rs:54-58) takes the instance `poll_ready` was
called on and leaves a fresh clone behind; the decision block belongs to the call FUTURE (first poll), which owns the
instance it will call. So the mode matters for one thing only: how many `poll_ready` calls reach the wrapped service
before the request is made (`Via.polls`) — each answered by the wrapped service alone (`gate`) — and the instance that
is eventually called is one that reported ready. `Op.arrive` carries no mode: the machine, and with it every theorem
about `run` / `stepS`, is the same for every caller mode of every request. -/

inductive Via
  | clone | readyclone | swap | template
deriving DecidableEq, Repr, Inhabited

/-- `poll_ready` calls the caller makes on the layer (each forwarded to the wrapped service) before `call` -/
def Via.polls : Via → Nat
  | .readyclone => 2
  | _ => 1

/-- one scripted readiness answer of the wrapped service (`Inner::strict`, header `ready=<script>`) -/
inductive Rdy
  | ready | pending | error
deriving DecidableEq, Repr, Inhabited

/-- `n` forwarded `poll_ready` calls against the script of the wrapped service; the caller gives up at the first
answer that is not "ready" (an exhausted script answers "ready"): admitted?, script left -/
def gateN : Nat → List Rdy → Bool × List Rdy
  | 0, sc => (true, sc)
  | _ + 1, [] => (true, [])
  | n + 1, .ready :: sc => gateN n sc
  | _ + 1, _ :: sc => (false, sc)

def gate (v : Via) (sc : List Rdy) : Bool × List Rdy := gateN v.polls sc

def parseVia (s : String) (dflt : Via) : Via :=
  if s = "clone" then .clone else if s = "readyclone" then .readyclone
  else if s = "swap" then .swap else if s = "template" then .template else dflt

/-- `ready=rpe…`: r ready, p pending, e error (anything else: ready) -/
def parseReady (s : String) : List Rdy :=
  s.toList.map fun ch => if ch = 'p' then .pending else if ch = 'e' then .error else .ready

/-- state of the line protocol around the machine: is the wrapped service the strict scripted one (header
`ready=`), what is left of its script, the caller's default mode, the tags of the requests made (the strict
service logs the tag with every call) -/
structure Proto where
  strict : Bool
  script : List Rdy
  dflt   : Via
  tags   : List (Nat × Nat) := []
deriving Repr

/-- the strict service logs the request's tag and whether the instance called had reported ready — always, here -/
def Proto.toEv (p : Proto) : Ev → Ev
  | .innerCall c k => if p.strict then .innerCallX c k ((lookup p.tags c).getD c) true else .innerCall c k
  | e => e

/-- An arrival in caller mode `v`: the `poll_ready` calls of the mode go to the wrapped service (`gate`); refused ⇒
`result c notready`, no request is made and the machine is not touched; admitted ⇒ the machine's `arrive` — the
same for every mode. -/
def arriveVia (cfg : Cfg) (p : Proto) (s : State) (v : Via) (c tag : Nat) (st : Step) : Proto × State × List Ev :=
  let g := gate v p.script
  if g.1 then
    let p' := { p with script := g.2, tags := (c, tag) :: p.tags }
    let s' := stepS cfg s (.arrive c tag st)
    (p', s', (s'.log.drop s.log.length).map p'.toEv)
  else ({ p with script := g.2 }, s, [.result c .notReady])

/-- thresholds reported by the harness on this line, if any -/
def withThresholds (cfg : Cfg) (kv : Kv) : Cfg :=
  match kv.optNat "@eT", kv.optNat "@lT" with
  | some e, some l => { cfg with eT := e, lT := l }
  | _, _ => cfg

/-- The rates reach the model as thresholds reported by the harness (decoded from the bits of
the `f64`s it gave to the builder): on `probe cfg @eT=… @lT=…` and again with every first poll.
The bounds come from the header in microseconds and are truncated to milliseconds like
`Duration::as_millis`. An `arrive` (the driver hands over first arrivals only, and none after `dropsvc`) first
passes the readiness gate of its caller mode: refused ⇒ `result c notready` and no request (the operation is not
part of the run); admitted ⇒ the machine's `arrive`. -/
def machine : Machine where
  σ := Proto × Cfg × State
  init kv :=
    let cfg : Cfg := { eT := 0, lT := 0, minMs := kv.nat "min_us" 0 / 1000, maxMs := kv.nat "max_us" 0 / 1000 }
    ({ strict := (kv.get "ready").isSome, script := parseReady (kv.str "ready" ""),
       dflt := if kv.nat "handles" 0 = 0 then .clone else .template }, cfg, init)
  step := fun (p, cfg0, s) ws =>
    let cfg := withThresholds cfg0 (parseKv ws)
    match ws with
    | "probe" :: "cfg" :: _ =>
        let s' := emit s [.probe s!"cfg eT={cfg.eT} lT={cfg.lT}"]
        ((p, cfg, s'), s'.log.drop s.log.length)
    | "manual" :: "stress" :: rest =>
        -- a separate, freshly seeded instance: the requests of the case proper are not affected
        let kv := parseKv rest
        let s' := emit s [.raw (stressLine cfg (kv.nat "calls" 1000) (parseTally kv))]
        ((p, cfg, s'), s'.log.drop s.log.length)
    | _ =>
      match parseOp ws with
      | some (.arrive c tag st) =>
          let r := arriveVia cfg p s (parseVia ((parseKv ws).str "via" "") p.dflt) c tag st
          ((r.1, cfg, r.2.1), r.2.2)
      | some op => let s' := stepS cfg s op; ((p, cfg, s'), (s'.log.drop s.log.length).map p.toEv)
      | none => ((p, cfg, s), [])
  now := fun (_, _, s) => s.now

end TR.Chaos
