import TR.Model.Common
/-!
# Chaos (C19) — `crates/tower-resilience-chaos/src/service.rs`, `Chaos::call`

The decision block (service.rs:64-89) runs once per request, in the first poll of the call
future, under the mutex of the shared `StdRng`. It is transcribed line by line as `decideG`
over an *abstract* generator (`Gen`: a state space with the two sampling operations the code
uses, `random::<f64>()` and `random_range(min..=max)`), so that the theorems hold for every
seed and every generator algorithm; only the contracts `roll ∈ [0,1)` and
`random_range(a..=b) ∈ [a,b]` are assumed (`Lawful`).

Numbers are exact: a roll is the 53-bit numerator `n` of the f64 `n·2⁻⁵³`; a rate `p ∈ [0,1]`
is its threshold `T = ⌈p·2⁵³⌉ ∈ [0,2⁵³]`, so that `roll < p ⟺ n < T`, `p > 0 ⟺ T > 0`,
`p = 1 ⟺ T = 2⁵³`. Latency bounds are whole milliseconds (`as_millis()` truncates).

`decideG` is the decision function of the code AS IT IS TODAY — one admissible function of the seed
and the request order. The property does not say which function it is ("a deterministic function of the
seed and the order of requests"), so nothing in the machine below depends on `decideG`: the machine
CONSUMES the decision the implementation reports for a request at its first poll (monitor mode, `@dec=…`
on the `poll` line), checks it against the boundary clauses of the property (`allowedDec`: rate 0 ⇒ never,
rate 1 ⇒ always, latency within the bounds) and predicts the behaviour that decision must have (injected
error at once and no inner call / inner call after exactly the latency / inner call in the first poll).
A refactor that changes the draw scheme (how many random numbers are drawn, in which order, from which
generator) and keeps the property therefore still corresponds. That the decisions ARE a function of seed and
request order is decided on the implementation side by the determinism monitors (equally seeded services given
the same requests in the same order must report identical decisions and latencies); the theorems quantify over
an ARBITRARY decision stream per service (`TR.Chaos.runD`), of which `decideG` threaded over a lawful generator
is one instance (`TR.Chaos.decideG_allowed`).

The event log. Besides the events of the common vocabulary (inner calls, results) the log holds the line
`first_poll <c> svc=<k>`, printed by the HARNESS when it polls the call future of request `c` for the first time (before
the poll; it depends on nothing the layer reports) — the instant at which the decision of the request is taken. With it
the injected latency is an observable of the compared log: instant of the `inner_call` line − instant of the `first_poll`
line. `State.tlog` is the log typed and with its instants (`TEv`, stamped with `now` at the moment of emission = the
`t=` the driver prints); `State.log` is its rendering. The theorems of `TR.Props.C19` about decisions, latencies and the
extremes are stated over `tlog` (`TR.Lemmas.ChaosTrace`).

Several services built from one layer value (`arrive c svc=<k> …`): the seeded stream is per SERVICE
(`Chaos::new` → `config.create_rng()`), shared by the clones of that service and by nothing else. The machine
keeps the decisions per service (`State.decs : List (svc × Decision)`, `decsOn`).
-/
namespace TR.Chaos

def P53 : Nat := 9007199254740992   -- 2^53

structure Cfg where
  eT    : Nat        -- threshold of the error rate   (`error_injector.error_rate()`)
  lT    : Nat        -- threshold of the latency rate (`latency_rate`)
  minMs : Nat        -- `min_latency.as_millis()`
  maxMs : Nat        -- `max_latency.as_millis()`
deriving DecidableEq, Repr, Inhabited

/-- the generator as the code uses it -/
structure Gen (γ : Type) where
  nextF : γ → Nat × γ                 -- `rng.random::<f64>()`: numerator, next state
  nextR : Nat → Nat → γ → Nat × γ     -- `rng.random_range(lo..=hi)`: value, next state

inductive Decision
  | error
  | latency (ms : Nat)
  | pass
deriving DecidableEq, Repr, Inhabited

/-- service.rs:64-89 and the `inject_error` test at :91, line by line -/
def decideG {γ : Type} (G : Gen γ) (cfg : Cfg) (g : γ) : Decision × γ :=
  -- `let mut error_roll = 1.0; if error_rate > 0.0 { error_roll = rng.random(); }`
  let e : Nat × γ := if cfg.eT > 0 then G.nextF g else (P53, g)
  -- `if latency_rate > 0.0 && error_roll >= error_rate { … }`
  let l : Option Nat × γ :=
    if cfg.lT > 0 ∧ e.1 ≥ cfg.eT then
      -- `let latency_roll = rng.random(); should_inject_latency = latency_roll < latency_rate;`
      let lr := G.nextF e.2
      if lr.1 < cfg.lT then
        -- `if max_ms > min_ms { rng.random_range(min_ms..=max_ms) } else { min_ms }`
        if cfg.maxMs > cfg.minMs then
          let d := G.nextR cfg.minMs cfg.maxMs lr.2
          (some d.1, d.2)
        else (some cfg.minMs, lr.2)
      else (none, lr.2)
    else (none, e.2)
  -- `inject_error(&req, error_roll)`: `roll < rate` ⇒ return the error before anything else
  if e.1 < cfg.eT then (.error, l.2)
  else match l.1 with
    | some ms => (.latency ms, l.2)
    | none => (.pass, l.2)

/-- the decisions of the first `n` requests of a service whose generator starts in state `g` -/
def streamG {γ : Type} (G : Gen γ) (cfg : Cfg) : γ → Nat → List Decision
  | _, 0 => []
  | g, n + 1 => (decideG G cfg g).1 :: streamG G cfg (decideG G cfg g).2 n

/-! ## decisions as inputs (monitor mode): the boundary clauses of the property -/

/-- an injected latency of `ms` is within `[min_latency, max_latency]`; when that interval is empty or a point
(`min ≥ max`) the code uses `min_latency` -/
def inBounds (cfg : Cfg) (ms : Nat) : Bool :=
  if cfg.maxMs > cfg.minMs then decide (cfg.minMs ≤ ms) && decide (ms ≤ cfg.maxMs) else decide (ms = cfg.minMs)

/-- What the property allows a decision to be, whatever the decision function is: error rate 0 ⇒ never an
error, error rate 1 ⇒ always an error; latency rate 0 ⇒ never a delay, latency rate 1 ⇒ every request that is
not failed is delayed; a delay lies within the bounds. -/
def allowedDec (cfg : Cfg) : Decision → Bool
  | .error => decide (cfg.eT > 0)
  | .latency ms => decide (cfg.eT < P53) && decide (cfg.lT > 0) && inBounds cfg ms
  | .pass => decide (cfg.eT < P53) && decide (cfg.lT ≠ P53)

/-! ## the state machine: one poll of one call future per step -/

/-- the error the harness's `error_fn` produces for a request with tag `tag` -/
def injected (tag : Nat) : Res := .inner 99 tag

inductive Phase
  | fresh (svc tag : Nat) (st : Step)                  -- `svc`: the service (of the one layer value) the request was made on
  | sleeping (wake : Nat) (st : Step)                -- `tokio::time::sleep(latency).await`
  | inner (k doneAt : Nat) (out : Out)
  | done
deriving DecidableEq, Repr, Inhabited

/-- A line of the event log, typed: an event of the common vocabulary, or the line the harness prints when it polls the
call future of request `c` (made on service `svc`) for the FIRST time — `first_poll <c> svc=<svc>`. The harness prints
it itself (it knows when it polls a future for the first time), before the poll: it does not depend on anything the
layer reports. With it the log shows the instant the decision of a request is taken, so the injected latency is an
observable: instant of the `inner_call` line − instant of the `first_poll` line. -/
inductive TEv
  | firstPoll (c svc : Nat)
  | ev (e : Ev)
deriving DecidableEq, Repr, Inhabited

/-- the line as it is rendered and compared -/
def TEv.toEv : TEv → Ev
  | .firstPoll c k => .raw s!"first_poll {c} svc={k}"
  | .ev e => e

structure State where
  now    : Nat := 0
  phase  : List (Nat × Phase) := []
  serial : Nat := 0
  decs   : List (Nat × Decision) := []    -- ghost: (service, decision) in the order the decisions were taken
  decOf  : List (Nat × Decision) := []    -- ghost: decision per caller
  gone   : Bool := false                  -- `manual dropsvc`: the caller has dropped every handle of the service
  log    : List Ev := []
  /-- the event log with its instants, typed: every line of `log`, in order, stamped with the instant at which it was
  emitted (= the `t=` the driver prints: `TR.Chaos.trace_is_the_log`, `TR.Chaos.stamps_are_the_drivers`) -/
  tlog   : List (Nat × TEv) := []
deriving Repr

inductive Op
  | arrive (c svc tag : Nat) (st : Step)  -- request `c` is made on service `svc` of the layer value
  | poll (c : Nat) (d : Option Decision)  -- `d`: the decision the implementation reports in this poll, if any
  | drop (c : Nat)
  | adv (ms : Nat)
  | dropsvc                               -- the caller drops every handle of the service, and the layer
deriving Repr

def emit (s : State) (evs : List Ev) : State :=
  { s with log := s.log ++ evs, tlog := s.tlog ++ evs.map (fun e => (s.now, TEv.ev e)) }
/-- the harness's line `first_poll c svc=k` -/
def mark (s : State) (c k : Nat) : State :=
  { s with log := s.log ++ [(TEv.firstPoll c k).toEv], tlog := s.tlog ++ [(s.now, TEv.firstPoll c k)] }
def setPhase (s : State) (c : Nat) (p : Phase) : State := { s with phase := (c, p) :: s.phase }
def known (s : State) (c : Nat) : Bool := (lookup s.phase c).isSome

def outcomeEvents (c k : Nat) : Out → List Ev
  | .ok => [.innerDone c k .ok, .result c (.ok k)]
  | .err kd => [.innerDone c k (.err kd), .result c (.inner kd k)]
  | .panic => [.innerDone c k .panic, .result c .panic]
  | .never => []

def pollInner (s : State) (c k t : Nat) (out : Out) : State :=
  if s.now ≥ t ∧ out ≠ .never then setPhase (emit s (outcomeEvents c k out)) c .done else s

/-- `inner.call(req).await`: the call, then the first poll of its future, in one step -/
def startInner (s : State) (c : Nat) (st : Step) : State :=
  pollInner
    (setPhase (emit { s with serial := s.serial + 1 } [.innerCall c s.serial]) c
      (.inner s.serial (s.now + st.lat) st.out))
    c s.serial (s.now + st.lat) st.out

def pollSleeping (s : State) (c wake : Nat) (st : Step) : State :=
  if s.now ≥ wake then startInner s c st else s

/-- the decisions taken on service `k`, in the order they were taken (= the order of the first polls of the
requests made on `k`) -/
def decsOn (s : State) (k : Nat) : List Decision := (s.decs.filter (fun p => p.1 == k)).map (·.2)

def record (s : State) (c k : Nat) (dec : Decision) : State :=
  { s with decs := s.decs ++ [(k, dec)], decOf := (c, dec) :: s.decOf }

/-- the observed decision must be one the property allows under this configuration -/
def checked (cfg : Cfg) (s : State) (dec : Decision) : State :=
  if allowedDec cfg dec then s else emit s [.raw "choice-not-allowed"]

/-- service.rs:91-152: return the injected error at once / sleep, then call / call -/
def enact (s : State) (c tag : Nat) (st : Step) : Decision → State
  | .error => setPhase (emit s [.result c (injected tag)]) c .done
  | .latency ms => pollSleeping (setPhase s c (.sleeping (s.now + ms) st)) c (s.now + ms) st
  | .pass => startInner s c st

/-- first poll: the harness's `first_poll` line, then the decision (observed, checked against the boundary clauses),
then error / sleep / inner call -/
def pollFresh (cfg : Cfg) (s : State) (c k tag : Nat) (st : Step) (dec : Decision) : State :=
  enact (record (checked cfg (mark s c k) dec) c k dec) c tag st dec

def stepS (cfg : Cfg) (s : State) (op : Op) : State :=
  match op with
  | .adv ms => { s with now := s.now + ms }
  -- a request needs a handle to be made on (`poll_ready` / `call` take `&mut self`)
  | .arrive c k tag st => if s.gone || known s c then s else setPhase s c (.fresh k tag st)
  -- The call future owns all it needs (service.rs:55-59: the inner service, `Arc`s of the configuration and of
  -- the generator): nothing of a request that has arrived — polled or not yet polled — changes when the handles go;
  -- its decision is still taken at its first poll, from the same generator.
  | .dropsvc => { s with gone := true }
  | .poll c d =>
      match lookup s.phase c with
      | some (.fresh k tag st) =>
          match d with
          | some d => pollFresh cfg s c k tag st d
          | none => emit s [.raw "choice-not-allowed"]      -- a first poll takes the decision: it must be reported
      | some (.sleeping u st) => pollSleeping s c u st
      | some (.inner k t out) => pollInner s c k t out
      | _ => s
  | .drop c =>
      match lookup s.phase c with
      | some (.fresh _ _ _) => setPhase s c .done
      | some (.sleeping _ _) => setPhase s c .done
      | some (.inner k _ _) => setPhase (emit s [.innerDrop c k]) c .done
      | _ => s

def init : State := {}
def run (cfg : Cfg) (ops : List Op) : State := ops.foldl (stepS cfg) init

/-! ## the real-thread stress search (`manual stress threads=N calls=K`)

The harness lets `N` OS threads, each holding a clone of one service, make `K` calls in total and
reports how many of them the layer decided "error" / "delay" / "pass". The model's unit of atomicity
is the decision block of one request: the code draws all rolls of a request while it holds the
generator's mutex, so — ASSUMING that mutual exclusion — every parallel execution decides like some
sequential order of the `K` first polls, and by `decisions_are_seed_stream` the list of decisions is
then the first `K` entries of the seed's stream whatever that order is. The model has no generator of
its own (the decision of an ordinary first poll is handed to it); of a stress run it therefore checks
what must hold for EVERY decision function: every call took exactly one decision, and the extremes of the
property (`stressAllowed`; `TR.Chaos.allowed_tally` shows the tallies of every list of allowed decisions pass,
`TR.Chaos.stress_tally_allowed` that the stream of today's decision function over a lawful generator does). -/

structure Tally where
  ne : Nat      -- calls decided "inject the error"
  nl : Nat      -- calls decided "delay"
  np : Nat      -- calls decided "pass"
deriving DecidableEq, Repr, Inhabited

def Decision.isLat : Decision → Bool
  | .latency _ => true
  | _ => false

/-- how many of the decisions `l` are error / delay / pass -/
def tally (l : List Decision) : Tally :=
  { ne := l.countP (· == .error), nl := l.countP Decision.isLat, np := l.countP (· == .pass) }

/-- `k` calls: one decision each; error rate 1 ⇒ all fail; error rate 0 ⇒ none fails; latency rate 0 ⇒
none is delayed; latency rate 1 ⇒ none passes undelayed -/
def stressAllowed (cfg : Cfg) (k : Nat) (t : Tally) : Bool :=
  decide (t.ne + t.nl + t.np = k) &&
  (!decide (cfg.eT = P53) || decide (t.ne = k)) &&
  (!decide (cfg.eT = 0) || decide (t.ne = 0)) &&
  (!decide (cfg.lT = 0) || decide (t.nl = 0)) &&
  (!decide (cfg.lT = P53) || decide (t.np = 0))

def stressLine (cfg : Cfg) (k : Nat) (t : Option Tally) : String :=
  match t with
  | some t =>
      if stressAllowed cfg k t then s!"stress calls={k} errors={t.ne} delayed={t.nl} passed={t.np} anomalies=0"
      else "choice-not-allowed"
  | none => "choice-not-allowed"

def parseTally (kv : Kv) : Option Tally :=
  match kv.optNat "@ne", kv.optNat "@nl", kv.optNat "@np" with
  | some a, some b, some c => some ⟨a, b, c⟩
  | _, _, _ => none

/-! ## the builder: setters called in any order (`chain=<setter>,<setter>,…` in the case header)

`ChaosLayer::builder()` and the two other builder types are plain records with one field per setting; every setter
overwrites ITS field and nothing else, `build()` copies the fields. So the configuration a chain of setters DEMANDS is:
for each kind of setting the value of the LAST setter of that kind, the builder's default (config.rs:181-191: 10 ms,
100 ms, latency rate 0, no seed, `<unnamed>`) when the kind is never set — whatever else is called before, between or
after, and in particular whatever the other latency bound is at that moment. Rates and names are opaque here (the
rates reach the machine as thresholds reported by the harness). -/

inductive Setter
  | minLat (us : Nat)          -- `.min_latency(d)`, `d` in microseconds
  | maxLat (us : Nat)          -- `.max_latency(d)`
  | latRate (spec : String)    -- `.latency_rate(r)`
  | errRate (spec : String)    -- `.error_rate(r)`
  | seed (n : Nat)             -- `.seed(n)`
  | name (s : String)          -- `.name(s)`
  | errFn                      -- `.error_fn(f)`
  | hooks                      -- the three `on_…` listeners
deriving DecidableEq, Repr, Inhabited

/-- the fields of the builder -/
structure Built where
  minUs   : Nat := 10000
  maxUs   : Nat := 100000
  latRate : Option String := none
  errRate : Option String := none
  seed    : Option Nat := none
  name    : Option String := none
  errFn   : Bool := false
  hooks   : Bool := false
deriving DecidableEq, Repr, Inhabited

/-- one setter: its own field, nothing else -/
def Built.set (b : Built) : Setter → Built
  | .minLat us => { b with minUs := us }
  | .maxLat us => { b with maxUs := us }
  | .latRate r => { b with latRate := some r }
  | .errRate r => { b with errRate := some r }
  | .seed n => { b with seed := some n }
  | .name n => { b with name := some n }
  | .errFn => { b with errFn := true }
  | .hooks => { b with hooks := true }

/-- the builder after the setters of `chain`, called in that order on a fresh builder -/
def buildChain (chain : List Setter) : Built := chain.foldl Built.set {}

/-- the last `.min_latency(..)` / `.max_latency(..)` of a chain (`d` when there is none): looks at setters of that one
kind only -/
def lastMin (d : Nat) : List Setter → Nat
  | [] => d
  | .minLat us :: r => lastMin us r
  | _ :: r => lastMin d r
def lastMax (d : Nat) : List Setter → Nat
  | [] => d
  | .maxLat us :: r => lastMax us r
  | _ :: r => lastMax d r

/-- `m:<µs>` | `M:<µs>` | `l:<rate spec>` | `e:<rate spec>` | `s:<seed>` | `n:<name>` | `f` | `h` -/
def parseSetter (t : String) : Option Setter :=
  match t.splitOn ":" with
  | ["m", v] => some (.minLat (v.toNat?.getD 0))
  | ["M", v] => some (.maxLat (v.toNat?.getD 0))
  | ["l", v] => some (.latRate v)
  | ["e", v] => some (.errRate v)
  | ["s", v] => some (.seed (v.toNat?.getD 0))
  | ["n", v] => some (.name v)
  | ["f"] => some .errFn
  | ["h"] => some .hooks
  | _ => none

def parseChain (s : String) : List Setter := (s.splitOn ",").filterMap parseSetter

/-- the latency bounds of the configuration, in whole milliseconds (`Duration::as_millis` truncates) -/
def Built.bounds (b : Built) : Nat × Nat := (b.minUs / 1000, b.maxUs / 1000)

/-- The bounds the case header demands: with `chain=` those of the chain (last setter of each kind, defaults otherwise),
without it `min_us=` / `max_us=` (the fixed builder paths of `order=`, each bound set exactly once). -/
def headerBounds (kv : Kv) : Nat × Nat :=
  match kv.get "chain" with
  | some c => (buildChain (parseChain c)).bounds
  | none => (kv.nat "min_us" 0 / 1000, kv.nat "max_us" 0 / 1000)

/-! ## line protocol -/

/-- `@dec=e` injected error, `@dec=p` passed through, `@dec=l<ms>` delayed by `ms` milliseconds: the decision the
layer reported (through its public event callbacks) while the request was polled for the first time -/
def parseDec (kv : Kv) : Option Decision :=
  match kv.get "@dec" with
  | some v =>
      if v = "e" then some .error
      else if v = "p" then some .pass
      else if v.startsWith "l" then ((v.drop 1).toString.toNat?).map .latency
      else none
  | none => none

def parseOp (ws : List String) : Option Op :=
  match ws with
  | "arrive" :: c :: rest =>
      let kv := parseKv rest
      let c := c.toNat?.getD 0
      some (.arrive c (kv.nat "svc" 0) (kv.nat "tag" c) ((planOf kv).headD { lat := 0, out := .ok }))
  | "poll" :: c :: rest => some (.poll (c.toNat?.getD 0) (parseDec (parseKv rest)))
  | "drop" :: c :: _ => some (.drop (c.toNat?.getD 0))
  | "adv" :: ms :: _ => some (.adv (ms.toNat?.getD 0))
  | "manual" :: "dropsvc" :: _ => some .dropsvc
  | _ => none

/-! ## how the caller obtains the handle it calls, and the readiness of the wrapped service

`arrive c … via=<mode>`: `clone` (clone the template, ready the clone, call it), `readyclone` (ready the template,
then clone it, ready the clone, call the clone), `swap` (ready the template, leave a fresh clone in its place, call
the readied one), `template` (ready and call the template itself). `Chaos::poll_ready` (service.rs:50-52) is
`self.inner.poll_ready(cx)` and nothing else, and `Chaos::call` (service.rs:54-58) takes the instance `poll_ready` was
called on and leaves a fresh clone behind; the decision block belongs to the call FUTURE (first poll), which owns the
instance it will call. So the mode matters for one thing only: how many `poll_ready` calls reach the wrapped service
before the request is made (`Via.polls`) — each answered by the wrapped service alone (`gate`) — and the instance that
is eventually called is one that reported ready. `Op.arrive` carries no mode: the machine, and with it every theorem
about `run` / `stepS`, is the same for every caller mode of every request. -/

inductive Via
  | clone | readyclone | swap | template
deriving DecidableEq, Repr, Inhabited

/-- `poll_ready` calls the caller makes on the layer (each forwarded to the wrapped service) before `call` -/
def Via.polls : Via → Nat
  | .readyclone => 2
  | _ => 1

/-- one scripted readiness answer of the wrapped service (`Inner::strict`, header `ready=<script>`) -/
inductive Rdy
  | ready | pending | error
deriving DecidableEq, Repr, Inhabited

/-- `n` forwarded `poll_ready` calls against the script of the wrapped service; the caller gives up at the first
answer that is not "ready" (an exhausted script answers "ready"): admitted?, script left -/
def gateN : Nat → List Rdy → Bool × List Rdy
  | 0, sc => (true, sc)
  | _ + 1, [] => (true, [])
  | n + 1, .ready :: sc => gateN n sc
  | _ + 1, _ :: sc => (false, sc)

def gate (v : Via) (sc : List Rdy) : Bool × List Rdy := gateN v.polls sc

def parseVia (s : String) (dflt : Via) : Via :=
  if s = "clone" then .clone else if s = "readyclone" then .readyclone
  else if s = "swap" then .swap else if s = "template" then .template else dflt

/-- `ready=rpe…`: r ready, p pending, e error (anything else: ready) -/
def parseReady (s : String) : List Rdy :=
  s.toList.map fun ch => if ch = 'p' then .pending else if ch = 'e' then .error else .ready

/-- state of the line protocol around the machine: is the wrapped service the strict scripted one (header
`ready=`), what is left of its script, the caller's default mode, the tags of the requests made (the strict
service logs the tag with every call) -/
structure Proto where
  strict : Bool
  script : List Rdy
  dflt   : Via
  tags   : List (Nat × Nat) := []
deriving Repr

/-- the strict service logs the request's tag and whether the instance called had reported ready — always, here -/
def Proto.toEv (p : Proto) : Ev → Ev
  | .innerCall c k => if p.strict then .innerCallX c k ((lookup p.tags c).getD c) true else .innerCall c k
  | e => e

/-- An arrival in caller mode `v`: the `poll_ready` calls of the mode go to the wrapped service (`gate`); refused ⇒
`result c notready`, no request is made and the machine is not touched; admitted ⇒ the machine's `arrive` — the
same for every mode. -/
def arriveVia (cfg : Cfg) (p : Proto) (s : State) (v : Via) (c k tag : Nat) (st : Step) : Proto × State × List Ev :=
  let g := gate v p.script
  if g.1 then
    let p' := { p with script := g.2, tags := (c, tag) :: p.tags }
    let s' := stepS cfg s (.arrive c k tag st)
    (p', s', (s'.log.drop s.log.length).map p'.toEv)
  else ({ p with script := g.2 }, s, [.result c .notReady])

/-- thresholds reported by the harness on this line, if any -/
def withThresholds (cfg : Cfg) (kv : Kv) : Cfg :=
  match kv.optNat "@eT", kv.optNat "@lT" with
  | some e, some l => { cfg with eT := e, lT := l }
  | _, _ => cfg

/-- The rates reach the model as thresholds reported by the harness (decoded from the bits of
the `f64`s it gave to the builder): on `probe cfg @eT=… @lT=…` and again with every first poll.
The bounds come from the header in microseconds and are truncated to milliseconds like
`Duration::as_millis`. An `arrive` (the driver hands over first arrivals only, and none after `dropsvc`) first
passes the readiness gate of its caller mode: refused ⇒ `result c notready` and no request (the operation is not
part of the run); admitted ⇒ the machine's `arrive`. -/
def machine : Machine where
  σ := Proto × Cfg × State
  init kv :=
    let cfg : Cfg := { eT := 0, lT := 0, minMs := (headerBounds kv).1, maxMs := (headerBounds kv).2 }
    ({ strict := (kv.get "ready").isSome, script := parseReady (kv.str "ready" ""),
       dflt := if kv.nat "handles" 0 = 0 then .clone else .template }, cfg, init)
  step := fun (p, cfg0, s) ws =>
    let cfg := withThresholds cfg0 (parseKv ws)
    match ws with
    | "probe" :: "cfg" :: _ =>
        let s' := emit s [.probe s!"cfg eT={cfg.eT} lT={cfg.lT}"]
        ((p, cfg, s'), s'.log.drop s.log.length)
    | "manual" :: "stress" :: rest =>
        -- a separate, freshly seeded instance: the requests of the case proper are not affected
        let kv := parseKv rest
        let s' := emit s [.raw (stressLine cfg (kv.nat "calls" 1000) (parseTally kv))]
        ((p, cfg, s'), s'.log.drop s.log.length)
    | _ =>
      match parseOp ws with
      | some (.arrive c k tag st) =>
          let r := arriveVia cfg p s (parseVia ((parseKv ws).str "via" "") p.dflt) c k tag st
          ((r.1, cfg, r.2.1), r.2.2)
      | some op => let s' := stepS cfg s op; ((p, cfg, s'), (s'.log.drop s.log.length).map p.toEv)
      | none => ((p, cfg, s), [])
  now := fun (_, _, s) => s.now

end TR.Chaos
