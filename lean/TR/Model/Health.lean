import TR.Model.Common
/-!
# Health check wrapper (C18) — `crates/tower-resilience-healthcheck/src/{wrapper,context,selector,config}.rs`

Two layers.

* The **pure core**: `stepRes` = what one *completed* check of one resource does to that
  resource's `(status, consecutive_failures, consecutive_successes)` (wrapper.rs 127-172 with
  context.rs 79-90), and `getWith` = `get_with_filter` + `SelectionStrategy::select`
  (wrapper.rs 235-259, selector.rs 74-133). The property theorems quantify over these.
* The **timed model** the correspondence check runs: the periodic task (initial sleep,
  `tokio::time::interval` with `MissedTickBehavior::Skip` and tokio's 5 ms lateness tolerance,
  one spawned `timeout(check)` per resource and round, the round ends when every check has
  completed or timed out), driven by `adv`. Virtual time only visits the instants reached by
  `adv`; at a visited instant a pending check whose latency has elapsed completes with its
  result (`timeout` polls the check before its own deadline), otherwise it is timed out once
  `timeout` ms have elapsed since it was started. Each slot keeps the ghost history of its
  completed outcomes; `Lemmas/Health` proves `core = runRes hist` for every reachable state,
  `Lemmas/HealthLog` that `hist` is what the `check_done` / `check_drop` lines of the event log say and
  that every probe line reports the fold of the check lines before it, `Lemmas/HealthFuel` that the
  fuel of `quiesce` never runs out.
* `SelectionStrategy::Random` (cargo feature `random`): `Strat.random draw`; in a run the draw is
  recovered from the observed result of the selection (`stratFor`, `@pick=`), which must be eligible.
-/
namespace TR.Health

/-! ## pure core: thresholds -/

/-- published status (`HealthStatus`) -/
inductive St
  | healthy | degraded | unhealthy | unknown
deriving DecidableEq, Repr, Inhabited

def St.usable : St → Bool
  | .healthy => true
  | .degraded => true
  | _ => false

def St.isHealthy : St → Bool
  | .healthy => true
  | _ => false

/-- what one completed check delivered: the checker's answer, or `timedOut` when the wrapper's
`timeout` elapsed first (the code turns that into `Unhealthy`) -/
inductive Outcome
  | healthy | degraded | unhealthy | unknown | timedOut
deriving DecidableEq, Repr, Inhabited

/-- a failed or timed-out check -/
def Outcome.failing : Outcome → Bool
  | .unhealthy => true
  | .timedOut => true
  | _ => false

/-- healthy or degraded: what `record_success` counts -/
def Outcome.passing : Outcome → Bool
  | .healthy => true
  | .degraded => true
  | _ => false

def Outcome.known : Outcome → Bool
  | .unknown => false
  | _ => true

/-- `ContextState` without the timestamp -/
structure Ctx where
  status : St := .unknown
  fails : Nat := 0
  succs : Nat := 0
deriving DecidableEq, Repr, Inhabited

def recordSuccess (r : Ctx) : Ctx := { r with succs := r.succs + 1, fails := 0 }
def recordFailure (r : Ctx) : Ctx := { r with fails := r.fails + 1, succs := 0 }

def onHealthy (sth : Nat) (r : Ctx) : Ctx :=
  let r := recordSuccess r
  if r.succs ≥ sth then { r with status := .healthy } else r

def onDegraded (r : Ctx) : Ctx := { recordSuccess r with status := .degraded }

def onFailure (fth : Nat) (r : Ctx) : Ctx :=
  let r := recordFailure r
  if r.fails ≥ fth then { r with status := .unhealthy } else r

/-- one completed check of one resource -/
def stepRes (sth fth : Nat) (r : Ctx) : Outcome → Ctx
  | .healthy => onHealthy sth r
  | .degraded => onDegraded r
  | .unhealthy => onFailure fth r
  | .timedOut => onFailure fth r
  | .unknown => r

/-- a resource after the completed checks `os` (oldest first), from `HealthCheckedContext::new` -/
def runRes (sth fth : Nat) (os : List Outcome) : Ctx := os.foldl (stepRes sth fth) {}

/-! ## pure core: selection -/

inductive Strat
  | first                                   -- FirstAvailable
  | rr                                      -- RoundRobin (shared counter)
  | prefer                                  -- PreferHealthy
  | custom (f : List St → Option Nat)       -- Custom(selector)
  | random (draw : Nat)                     -- Random (feature `random`); the draw is the environment's

/-- `iter().position(p)` -/
def position (p : St → Bool) : List St → Option Nat
  | [] => none
  | s :: tl => if p s then some 0 else (position p tl).map (· + 1)

/-- `enumerate().filter(p)` from index `k`: the matching entries with their indices -/
def availFrom (p : St → Bool) : Nat → List St → List (Nat × St)
  | _, [] => []
  | k, s :: tl => if p s then (k, s) :: availFrom p (k + 1) tl else availFrom p (k + 1) tl

/-- `SelectionStrategy::select` over the statuses of the slice it is given; returns the index
into that slice and the new value of the shared counter -/
def select (strat : Strat) (sts : List St) (ctr : Nat) : Option Nat × Nat :=
  if sts.isEmpty then (none, ctr) else
  match strat with
  | .first => (position St.usable sts, ctr)
  | .rr =>
      let us := (availFrom St.usable 0 sts).map (·.1)
      if us.isEmpty then (none, ctr) else (us[ctr % us.length]?, ctr + 1)
  | .prefer =>
      (match position St.isHealthy sts with
       | some i => some i
       | none => position St.usable sts, ctr)
  | .custom f => (f sts, ctr)
  | .random d =>
      -- `usable[rand::rng().random_range(0..usable.len())]`: any draw, reduced into range; the counter is not used
      let us := (availFrom St.usable 0 sts).map (·.1)
      if us.isEmpty then (none, ctr) else (us[d % us.length]?, ctr)

/-- `get_with_filter`: the resources are their own indices (`T = usize` in the harness) -/
def getWith (p : St → Bool) (strat : Strat) (sts : List St) (ctr : Nat) : Option Nat × Nat :=
  let avail := availFrom p 0 sts
  if avail.isEmpty then (none, ctr) else
  match select strat (avail.map (·.2)) ctr with
  | (none, ctr') => (none, ctr')
  | (some j, ctr') => ((avail[j]?).map (·.1), ctr')

def getHealthy := getWith St.isHealthy
def getUsable := getWith St.usable

/-- `m` consecutive selections with the same filter over unchanged statuses, threading the
shared counter -/
def picks (p : St → Bool) (strat : Strat) (sts : List St) : Nat → Nat → List (Option Nat)
  | 0, _ => []
  | m + 1, ctr => (getWith p strat sts ctr).1 :: picks p strat sts m (getWith p strat sts ctr).2

/-! ## timed model -/

/-- scripted answer of the checker: `s` never completes -/
inductive Sym
  | h | d | u | k | s
deriving DecidableEq, Repr, Inhabited

def Sym.outcome : Sym → Outcome
  | .h => .healthy
  | .d => .degraded
  | .u => .unhealthy
  | .k => .unknown
  | .s => .timedOut

def Sym.render : Sym → String
  | .h => "h" | .d => "d" | .u => "u" | .k => "k" | .s => "s"

structure Item where
  sym : Sym
  lat : Nat
deriving DecidableEq, Repr, Inhabited

def Item.render (it : Item) : String :=
  if it.sym = .s then "s" else s!"{it.sym.render}{it.lat}"

/-- the five numbers of a `HealthCheckConfig` (what its getters report) -/
structure Built where
  interval : Nat
  delay : Nat
  timeout : Nat
  sth : Nat
  fth : Nat
deriving DecidableEq, Repr, Inhabited

/-- `HealthCheckConfig::default()` (config.rs 60-74), in ms: what `HealthCheckConfig::builder().build()` and
`HealthCheckWrapperBuilder::new()` start from -/
def crateDefault : Built := { interval := 5000, delay := 500, timeout := 2000, sth := 1, fth := 2 }

structure Cfg where
  n : Nat
  sth : Nat
  fth : Nat
  interval : Nat
  timeout : Nat
  delay : Nat
  strat : Strat
  dflt : Item
  /-- `start()` is called when the wrapper is built (`start=0`: only by a later `manual start`) -/
  autostart : Bool := true
  /-- the `HealthCheckConfig` value handed to `with_config`, if that path was taken: what `probe config` reads -/
  built : Option Built := none

structure Slot where
  core : Ctx := {}
  hist : List Outcome := []      -- ghost: completed outcomes, oldest first
  script : List Item := []
  changes : List (St × St) := [] -- ghost: the (old, new) pairs `on_health_change` is (or would be) called with
deriving Repr

structure Pending where
  r : Nat
  start : Nat
  item : Item
  id : Nat                       -- serial number of the check (order of the `check()` calls of the case)
  cur : Bool                     -- spawned by the periodic task that is running now (it awaits this check)
deriving DecidableEq, Repr

inductive Phase
  | spawned                 -- the periodic task exists but has not run yet
  | initial (wake : Nat)    -- in `sleep(initial_delay)`, deadline `wake`
  | waiting (dl : Nat)      -- in `interval.tick()`, deadline `dl`
  | checking (next : Nat)   -- awaiting the join handles; the interval's next deadline is `next`
  | dead                    -- `interval(0)` panicked
  | stopped                 -- no periodic task: `stop()` was called, or `start()` never
deriving DecidableEq, Repr

/-- typed events of this model -/
inductive HEv
  | checkStart (r : Nat) (it : Item) (k : Nat)
  | checkDone (r : Nat) (sym : Sym) (k : Nat)
  | checkDrop (r : Nat) (k : Nat)
  | cbFailed (r : Nat)                       -- `on_check_failed(name, Elapsed)`
  | cbChange (r : Nat) (old new : St)        -- `on_health_change(name, old, new)`
  | started
  | stopped
  | config (b : Built)
  | u8 (v : Nat)
  | fresh (n : Nat)
  | status (r : Nat) (s : Option St)
  | details (r : Nat) (d : Option Ctx)
  | all (sts : List St)
  | got (healthyOnly : Bool) (res : Option Nat)
  | notAllowed                               -- an observed random choice that no draw explains
  | noop
deriving DecidableEq, Repr

structure State where
  now : Nat := 0
  slots : List Slot := []
  phase : Phase := .spawned
  pending : List Pending := []
  ctr : Nat := 0                 -- round_robin_counter
  nchk : Nat := 0                -- checks started so far (next serial)
  log : List HEv := []           -- ghost
deriving Repr

inductive Op
  | adv (ms : Nat) (order : List Nat)   -- `order`: observed order of this step's completions (serials)
  | script (r : Nat) (items : List Item)
  | status (r : Nat)
  | details (r : Nat)
  | all
  | getHealthy (pick : Option Nat)   -- `pick`: the observed result (only read under the Random strategy)
  | getUsable (pick : Option Nat)
  | start                        -- `start()` (again)
  | stop                         -- `stop()`
  | config                       -- getters of the `HealthCheckConfig` value
  | u8 (v : Nat)                 -- `HealthStatus::from(v as u8)` and back
  | fresh (n : Nat)              -- `n` contexts made by `HealthCheckedContext::new`, a closure `Selector`, extensions
  | bad                          -- answered `noop`
  | idle                         -- not an operation of this middleware: time to run, nothing else
deriving Repr

def updAt {α : Type} (l : List α) (i : Nat) (f : α → α) : List α :=
  match l, i with
  | [], _ => []
  | a :: tl, 0 => f a :: tl
  | a :: tl, i + 1 => a :: updAt tl i f

def emit (s : State) (evs : List HEv) : State := { s with log := s.log ++ evs }

def stepSlot (cfg : Cfg) (sl : Slot) (o : Outcome) : Slot :=
  let c' := stepRes cfg.sth cfg.fth sl.core o
  { sl with core := c', hist := sl.hist ++ [o],
            changes := if sl.core.status = c'.status then sl.changes else sl.changes ++ [(sl.core.status, c'.status)] }

def popScript (sl : Slot) : Slot := { sl with script := sl.script.tail }

def nextItem (cfg : Cfg) (sl : Slot) : Item := sl.script.headD cfg.dflt

/-- what has become of a check started at `start`, seen at instant `now` -/
def verdict (cfg : Cfg) (now start : Nat) (it : Item) : Option Outcome :=
  if it.sym ≠ .s ∧ now ≥ start + it.lat then some it.sym.outcome
  else if now ≥ start + cfg.timeout then some .timedOut
  else none

def doneEv (p : Pending) : Outcome → HEv
  | .timedOut => .checkDrop p.r p.id
  | _ => .checkDone p.r p.item.sym p.id

def statusAt (slots : List Slot) (r : Nat) : St := ((slots[r]?).map (·.core.status)).getD .unknown

/-- the observer callbacks of one completed check: `on_check_failed` when it timed out, `on_health_change`
when (and only when) the published status changed. Whether callbacks are registered is not an input of the
model's transition function at all (`Cfg` has no such field): the events are always recorded and `visible`
hides them from the rendered log when none is registered. -/
def callbacks (r : Nat) (o : Outcome) (old new : St) : List HEv :=
  (if o = .timedOut then [.cbFailed r] else []) ++ (if old = new then [] else [.cbChange r old new])

/-- the check `p` completes with outcome `o` -/
def finish (cfg : Cfg) (s : State) (p : Pending) (o : Outcome) : State :=
  let slots' := updAt s.slots p.r (fun sl => stepSlot cfg sl o)
  emit { s with slots := slots' }
    (doneEv p o :: callbacks p.r o (statusAt s.slots p.r) (statusAt slots' p.r))

/-- the spawned check task of resource `r` runs: calls the checker, polls it once -/
def startOne (cfg : Cfg) (s : State) (r : Nat) : State :=
  match s.slots[r]? with
  | none => s
  | some sl =>
      let it := nextItem cfg sl
      let p : Pending := ⟨r, s.now, it, s.nchk, true⟩
      let s1 := emit { s with slots := updAt s.slots r popScript, nchk := s.nchk + 1 } [.checkStart r it p.id]
      match verdict cfg s.now s.now it with
      | some o => finish cfg s1 p o
      | none => { s1 with pending := s1.pending ++ [p] }

def startRound (cfg : Cfg) (s : State) : State :=
  (List.range s.slots.length).foldl (startOne cfg) s

def finishOne (cfg : Cfg) (now : Nat) (s : State) (p : Pending) : State :=
  match verdict cfg now p.start p.item with
  | some o => finish cfg s p o
  | none => { s with pending := s.pending ++ [p] }

/-- the pending checks, those named in `order` first (in that order), the others after them as they were -/
def arrange : List Nat → List Pending → List Pending
  | [], ps => ps
  | k :: tl, ps =>
    match ps.find? (fun p => p.id = k) with
    | some p => p :: arrange tl (ps.erase p)
    | none => arrange tl ps

/-- every pending check that is due at this instant completes — whoever spawned it -/
def finishDue (cfg : Cfg) (order : List Nat) (s : State) : State :=
  (arrange order s.pending).foldl (finishOne cfg s.now) { s with pending := [] }

/-- `Interval::poll_tick`: deadline of the tick after the one with deadline `dl`, taken at `now` -/
def nextTick (period now dl : Nat) : Nat :=
  if now > dl + 5 then now + period - ((now - dl) % period) else dl + period

/-- let the periodic task run until nothing more can happen at this instant -/
def quiesce (cfg : Cfg) : Nat → State → State
  | 0, s => s
  | fuel + 1, s =>
    match s.phase with
    | .dead => s
    | .stopped => s
    | .spawned => quiesce cfg fuel { s with phase := .initial (s.now + cfg.delay) }
    | .initial wake =>
        if s.now ≥ wake then
          if cfg.interval = 0 then { s with phase := .dead }
          else quiesce cfg fuel { s with phase := .waiting s.now }
        else s
    | .waiting dl =>
        if s.now ≥ dl then
          quiesce cfg fuel (startRound cfg { s with phase := .checking (nextTick cfg.interval s.now dl) })
        else s
    | .checking next =>
        if s.pending.any (·.cur) then s else quiesce cfg fuel { s with phase := .waiting next }

/-- the periodic task is aborted: the checks it spawned are tasks of their own and go on -/
def orphan (ps : List Pending) : List Pending := ps.map fun p => { p with cur := false }

def statuses (s : State) : List St := s.slots.map (·.core.status)

/-- position of `i` in a list of resource indices -/
def posOf (i : Nat) : List Nat → Option Nat
  | [] => none
  | a :: tl => if a = i then some 0 else (posOf i tl).map (· + 1)

/-- the strategy one selection runs with. Every strategy but `Random` is the configured one. Under `Random` the
draw is the environment's: it is recovered from the observed result — the position of the returned resource in
the eligible list. A result that is not eligible (or "nothing" although resources are eligible) is explained by
no draw: `none`. With nothing eligible no draw is made. -/
def stratFor (strat : Strat) (p : St → Bool) (sts : List St) (pick : Option Nat) : Option Strat :=
  match strat with
  | .random _ =>
      let ids := (availFrom p 0 sts).map (·.1)
      if ids.isEmpty then some (.random 0)
      else match pick with
        | some i => (posOf i ids).map Strat.random
        | none => none
  | st => some st

/-- `get_healthy` (`healthyOnly`) / `get_usable`: both go through the one `round_robin_counter` -/
def doGet (cfg : Cfg) (s : State) (healthyOnly : Bool) (pick : Option Nat) : State :=
  let p := if healthyOnly then St.isHealthy else St.usable
  match stratFor cfg.strat p (statuses s) pick with
  | some st =>
      let (res, c) := getWith p st (statuses s) s.ctr
      emit { s with ctr := c } [.got healthyOnly res]
  | none => emit s [.notAllowed]

def doOp (cfg : Cfg) (s : State) : Op → State
  | .adv ms _ => { s with now := s.now + ms }
  | .script r items =>
      if r < s.slots.length then
        { s with slots := updAt s.slots r (fun sl => { sl with script := sl.script ++ items }) }
      else emit s [.noop]
  | .status r => emit s [.status r ((s.slots[r]?).map (·.core.status))]
  | .details r => emit s [.details r ((s.slots[r]?).map (·.core))]
  | .all => emit s [.all (statuses s)]
  | .getHealthy pick => doGet cfg s true pick
  | .getUsable pick => doGet cfg s false pick
  | .start => emit { s with phase := .spawned, pending := orphan s.pending } [.started]
  | .stop => emit { s with phase := .stopped, pending := orphan s.pending } [.stopped]
  | .config => emit s [match cfg.built with | some b => .config b | none => .noop]
  | .u8 v => emit s [if v < 256 then .u8 v else .noop]
  | .fresh n => emit s [if n ≤ 8 then .fresh n else .noop]
  | .bad => emit s [.noop]
  | .idle => s

def orderOf : Op → List Nat
  | .adv _ o => o
  | _ => []

/-- rounds at one instant are bounded by tokio's 5 ms tolerance (≤ 6 for a 1 ms period) -/
def fuel : Nat := 40

/-- one operation: its own effect, then every check that is due completes (in the observed order), then the
periodic task runs as far as it can -/
def stepS (cfg : Cfg) (s : State) (op : Op) : State :=
  quiesce cfg fuel (finishDue cfg (orderOf op) (doOp cfg s op))

def init (cfg : Cfg) : State :=
  { slots := List.replicate cfg.n {}, phase := if cfg.autostart then .spawned else .stopped }
def run (cfg : Cfg) (ops : List Op) : State := ops.foldl (stepS cfg) (init cfg)

/-! ## rendering and line protocol -/

def St.render : St → String
  | .healthy => "healthy" | .degraded => "degraded" | .unhealthy => "unhealthy" | .unknown => "unknown"

def St.letter : St → String
  | .healthy => "h" | .degraded => "d" | .unhealthy => "u" | .unknown => "k"

def renderOptNat : Option Nat → String
  | none => "none"
  | some i => toString i

/-- `From<HealthStatus> for u8` / `From<u8> for HealthStatus` (lib.rs 93-113) -/
def St.toU8 : St → Nat
  | .healthy => 0 | .degraded => 1 | .unhealthy => 2 | .unknown => 3

def St.ofU8 : Nat → St
  | 0 => .healthy | 1 => .degraded | 2 => .unhealthy | _ => .unknown

/-- `n` contexts straight from `HealthCheckedContext::new` are unknown with both counters 0 (the starting point
of `runRes`); a closure used through the `Selector` trait sees exactly those statuses (first not-usable one: the
first; first usable one: none); extensions are a typed side store (`u64` 7 under "x": read back as `u64`, not as
`u32`, not under "y", visible through a clone) that leaves status and counters alone -/
def renderFresh (n : Nat) : String :=
  let sts := List.replicate n St.unknown
  let all := if n = 0 then "-" else ",".intercalate (sts.map St.letter)
  let ext := if n = 0 then "-" else "7/none/none/7"
  s!"{all} f=0 s=0 sel={renderOptNat (position (fun st => !st.usable) sts)}/{renderOptNat (position St.usable sts)} ext={ext} after={all}"

def HEv.toEv : HEv → Ev
  | .checkStart r it k => .raw s!"check_start {r} {it.render} {k}"
  | .checkDone r sym k => .raw s!"check_done {r} {sym.render} {k}"
  | .checkDrop r k => .raw s!"check_drop {r} {k}"
  | .cbFailed r => .raw s!"cb_failed {r}"
  | .cbChange r old new => .raw s!"cb_change {r} {old.letter} {new.letter}"
  | .started => .raw "started"
  | .stopped => .raw "stopped"
  | .config b => .probe s!"config = iv={b.interval} delay={b.delay} to={b.timeout} sth={b.sth} fth={b.fth}"
  | .u8 v => .probe s!"u8 v={v} = {(St.ofU8 v).render} {(St.ofU8 v).toU8}"
  | .fresh n => .probe s!"fresh n={n} = {renderFresh n}"
  | .status r none => .probe s!"status r={r} = none"
  | .status r (some st) => .probe s!"status r={r} = {st.render}"
  | .details r none => .probe s!"details r={r} = none"
  | .details r (some d) => .probe s!"details r={r} = {d.status.render} f={d.fails} s={d.succs}"
  | .all sts => .probe s!"all = {if sts.isEmpty then "-" else ",".intercalate (sts.map St.letter)}"
  | .got true res => .probe s!"get_healthy = {renderOptNat res}"
  | .got false res => .probe s!"get_usable = {renderOptNat res}"
  | .notAllowed => .raw "choice-not-allowed"
  | .noop => .raw "noop"

def parseItem (tok : String) : Option Item :=
  let rest := (tok.drop 1).toString
  let lat : Option Nat := if rest.isEmpty then some 0 else rest.toNat?
  let mk (sym : Sym) : Option Item := lat.map fun l => { sym := sym, lat := l }
  if tok.startsWith "h" then mk .h
  else if tok.startsWith "d" then mk .d
  else if tok.startsWith "u" then mk .u
  else if tok.startsWith "k" then mk .k
  else if tok.startsWith "s" then (mk .s).map fun it => { it with lat := 0 }
  else none

def parseItems (s : String) : Option (List Item) :=
  (s.splitOn ",").mapM parseItem

/-- `@pick=<resource>`: the result the implementation returned (observed choice; absent or `none`: nothing) -/
def pickOf (ws : List String) : Option Nat :=
  (ws.filterMap fun w => if w.startsWith "@pick=" then (w.drop 6).toString.toNat? else none).head?

def parseOp (ws : List String) : Op :=
  match ws with
  | "adv" :: ms :: rest =>
      .adv (ms.toNat?.getD 0) (rest.filterMap fun w => if w.startsWith "@o=" then (w.drop 3).toString.toNat? else none)
  | "manual" :: "start" :: _ => .start
  | "manual" :: "stop" :: _ => .stop
  | "manual" :: "script" :: rest =>
      let kv := parseKv rest
      match kv.optNat "r", (kv.get "seq").bind parseItems with
      | some r, some items => .script r items
      | _, _ => .bad
  | "manual" :: _ => .bad
  | "probe" :: "status" :: rest =>
      match (parseKv rest).optNat "r" with | some r => .status r | none => .bad
  | "probe" :: "details" :: rest =>
      match (parseKv rest).optNat "r" with | some r => .details r | none => .bad
  | "probe" :: "all" :: _ => .all
  | "probe" :: "get_healthy" :: rest => .getHealthy (pickOf rest)
  | "probe" :: "get_usable" :: rest => .getUsable (pickOf rest)
  | "probe" :: "config" :: _ => .config
  | "probe" :: "u8" :: rest =>
      match (parseKv rest).optNat "v" with | some v => .u8 v | none => .bad
  | "probe" :: "fresh" :: rest =>
      match (parseKv rest).optNat "n" with | some n => .fresh n | none => .bad
  | "probe" :: _ => .bad
  | "arrive" :: _ => .bad
  | _ => .idle

/-- the custom selectors the harness can install (`strat=last|oob|none|second`) -/
def lastHealthy (sts : List St) : Option Nat :=
  ((availFrom St.isHealthy 0 sts).map (·.1)).getLast?

def parseStrat (s : String) : Strat :=
  if s = "rr" then .rr
  else if s = "prefer" then .prefer
  else if s = "last" then .custom lastHealthy
  else if s = "oob" then .custom (fun sts => some sts.length)
  else if s = "none" then .custom (fun _ => none)
  else if s = "second" then .custom (fun _ => some 1)
  else if s = "random" then .random 0
  else .first

/-- `post=fth:3,to:7`: wrapper-builder setters called after `with_config` -/
def applyOv (b : Built) (kv : String) : Built :=
  match kv.splitOn ":" with
  | [k, v] =>
    match v.toNat? with
    | none => b
    | some x =>
      if k = "iv" then { b with interval := x }
      else if k = "delay" then { b with delay := x }
      else if k = "to" then { b with timeout := x }
      else if k = "sth" then { b with sth := x }
      else if k = "fth" then { b with fth := x }
      else b
  | _ => b

def applyOvs (b : Built) (s : String) : Built := (s.splitOn ",").foldl applyOv b

/-- the configuration a case header describes. `via=cfg`: a `HealthCheckConfig` built by its own builder (setters
only for the keys present, the crate's defaults otherwise) and handed over by `with_config`, which replaces whatever
the wrapper builder was told before (`pre=` is without effect); setters called afterwards (`post=`) override it.
Otherwise the wrapper builder's own setters, all of them (the harness's defaults for absent keys). -/
def cfgOf (kv : Kv) : Cfg :=
  let viaCfg := kv.str "via" "builder" = "cfg"
  let d : Built := if viaCfg then crateDefault else { interval := 10, delay := 0, timeout := 5, sth := 1, fth := 2 }
  let b : Built := { interval := kv.nat "iv" d.interval, delay := kv.nat "delay" d.delay, timeout := kv.nat "to" d.timeout,
                     sth := kv.nat "sth" d.sth, fth := kv.nat "fth" d.fth }
  let e : Built := if viaCfg then applyOvs b (kv.str "post" "") else b
  { n := kv.nat "n" 1, sth := e.sth, fth := e.fth, interval := e.interval, timeout := e.timeout, delay := e.delay,
    strat := parseStrat (kv.str "strat" "first"),
    dflt := (parseItem (kv.str "dflt" "k")).getD { sym := .k, lat := 0 },
    autostart := kv.nat "start" 1 != 0,
    built := if viaCfg then some b else none }

def HEv.isCallback : HEv → Bool
  | .cbFailed _ => true
  | .cbChange _ _ _ => true
  | _ => false

/-- what of the recorded events is observable: the callback events only when callbacks are registered -/
def visible (cb : Bool) (evs : List HEv) : List HEv :=
  if cb then evs else evs.filter (fun e => !e.isCallback)

/-- `on_health_change` / `on_check_failed` are registered: only possible through `HealthCheckConfig::builder()` -/
def cbOf (kv : Kv) : Bool := kv.str "via" "builder" = "cfg" && kv.nat "cb" 0 = 1

/-! ## several wrappers

A case may build `wrappers=<k>` wrappers (all with the header's configuration; with `via=cfg` from clones of ONE
`HealthCheckConfig` value, `share=0`: from one value each). The specification: **a wrapper is a wrapper** — each has its
own statuses, counters, periodic task and round-robin cursor; whatever is done to another wrapper, however it was
configured, is for this one what `idle` is: time for its own tasks to run, nothing else. The model is therefore the
family of `k` single-wrapper models, and an operation line is, for each of them, an operation of its own or `idle`. -/

/-- one step of a family of wrappers: `f i` is what the step is for wrapper `i` -/
def stepFam (cfg : Cfg) (f : Nat → Op) : Nat → List State → List State
  | _, [] => []
  | i, s :: tl => stepS cfg s (f i) :: stepFam cfg f (i + 1) tl

/-- `k` wrappers with one configuration, after the steps `fs` -/
def runFam (cfg : Cfg) (k : Nat) (fs : List (Nat → Op)) : List State :=
  fs.foldl (fun ss f => stepFam cfg f 0 ss) (List.replicate k (init cfg))

/-- the wrapper a `manual` / `probe` line is for (`w=<j>`, default 0) -/
def targetOf (ws : List String) : Nat :=
  match ws with
  | "manual" :: rest => (parseKv rest).nat "w" 0
  | "probe" :: rest => (parseKv rest).nat "w" 0
  | _ => 0

/-- the observed order of wrapper `i`'s completions: `@o=<serial>` (wrapper 0), `@o=<i>.<serial>` -/
def orderFor (i : Nat) (ws : List String) : List Nat :=
  ws.filterMap fun w =>
    if w.startsWith "@o=" then
      let v := (w.drop 3).toString
      if i = 0 then v.toNat?
      else match v.splitOn "." with
        | [a, b] => if a.toNat? = some i then b.toNat? else none
        | _ => none
    else none

/-- what the operation line `ws` is for wrapper `i` of `k`: time passes for every wrapper (each with the observed order
of its own completions); any other line is an operation of the one wrapper it names and `idle` for the others; a line
that names a wrapper that does not exist is answered `noop` (recorded with wrapper 0) -/
def opFor (k i : Nat) (ws : List String) : Op :=
  match ws with
  | "adv" :: ms :: rest => .adv (ms.toNat?.getD 0) (orderFor i rest)
  | _ =>
    if targetOf ws < k then (if i = targetOf ws then parseOp ws else .idle)
    else if i = 0 then .bad else .idle

/-- a line of wrapper `i`: wrapper 0 as ever, the others prefixed `w<i> ` -/
def tagEv (i : Nat) (e : Ev) : Ev := if i = 0 then e else .raw s!"w{i} {e.render}"

/-- the events the wrappers recorded in one step, wrapper by wrapper -/
def newEvs (cb : Bool) : Nat → List State → List State → List Ev
  | i, s :: tl, s' :: tl' =>
      (visible cb (s'.log.drop s.log.length)).map (fun e => tagEv i e.toEv) ++ newEvs cb (i + 1) tl tl'
  | _, _, _ => []

/-- number of wrappers of a case -/
def wrappersOf (kv : Kv) : Nat := max 1 (kv.nat "wrappers" 1)

def machine : Machine where
  σ := Bool × Cfg × List State
  init kv := (cbOf kv, cfgOf kv, List.replicate (wrappersOf kv) (init (cfgOf kv)))
  step := fun (cb, cfg, ss) ws =>
    let ss' := stepFam cfg (fun i => opFor ss.length i ws) 0 ss
    ((cb, cfg, ss'), newEvs cb 0 ss ss')
  now := fun (_, _, ss) => ((ss.head?).map (·.now)).getD 0

end TR.Health
