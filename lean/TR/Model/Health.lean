import TR.Model.Common
/-!
# Health check wrapper (C18) — `crates/tower-resilience-healthcheck/src/{wrapper,context,selector,config}.rs`

Two layers.

* The **pure core**: `stepRes` = what one *completed* check of one resource does to that
  resource's `(status, consecutive_failures, consecutive_successes)` (wrapper.rs 127-172 with
  context.rs 79-90), and `getWith` = `get_with_filter` + `SelectionStrategy::select`
  (wrapper.rs 235-259, selector.rs 74-133). The property theorems quantify over these.
* The **timed model** the correspondence check runs: the periodic task (initial sleep,
  `tokio::time::interval` with `MissedTickBehavior::Skip` and tokio's 5 ms lateness tolerance,
  one spawned `timeout(check)` per resource and round, the round ends when every check has
  completed or timed out), driven by `adv`. Virtual time only visits the instants reached by
  `adv`; at a visited instant a pending check whose latency has elapsed completes with its
  result (`timeout` polls the check before its own deadline), otherwise it is timed out once
  `timeout` ms have elapsed since it was started. Each slot keeps the ghost history of its
  completed outcomes; `Lemmas/Health` proves `core = runRes hist` for every reachable state.
-/
namespace TR.Health

/-! ## pure core: thresholds -/

/-- published status (`HealthStatus`) -/
inductive St
  | healthy | degraded | unhealthy | unknown
deriving DecidableEq, Repr, Inhabited

def St.usable : St → Bool
  | .healthy => true
  | .degraded => true
  | _ => false

def St.isHealthy : St → Bool
  | .healthy => true
  | _ => false

/-- what one completed check delivered: the checker's answer, or `timedOut` when the wrapper's
`timeout` elapsed first (the code turns that into `Unhealthy`) -/
inductive Outcome
  | healthy | degraded | unhealthy | unknown | timedOut
deriving DecidableEq, Repr, Inhabited

/-- a failed or timed-out check -/
def Outcome.failing : Outcome → Bool
  | .unhealthy => true
  | .timedOut => true
  | _ => false

/-- healthy or degraded: what `record_success` counts -/
def Outcome.passing : Outcome → Bool
  | .healthy => true
  | .degraded => true
  | _ => false

def Outcome.known : Outcome → Bool
  | .unknown => false
  | _ => true

/-- `ContextState` without the timestamp -/
structure Ctx where
  status : St := .unknown
  fails : Nat := 0
  succs : Nat := 0
deriving DecidableEq, Repr, Inhabited

def recordSuccess (r : Ctx) : Ctx := { r with succs := r.succs + 1, fails := 0 }
def recordFailure (r : Ctx) : Ctx := { r with fails := r.fails + 1, succs := 0 }

def onHealthy (sth : Nat) (r : Ctx) : Ctx :=
  let r := recordSuccess r
  if r.succs ≥ sth then { r with status := .healthy } else r

def onDegraded (r : Ctx) : Ctx := { recordSuccess r with status := .degraded }

def onFailure (fth : Nat) (r : Ctx) : Ctx :=
  let r := recordFailure r
  if r.fails ≥ fth then { r with status := .unhealthy } else r

/-- one completed check of one resource -/
def stepRes (sth fth : Nat) (r : Ctx) : Outcome → Ctx
  | .healthy => onHealthy sth r
  | .degraded => onDegraded r
  | .unhealthy => onFailure fth r
  | .timedOut => onFailure fth r
  | .unknown => r

/-- a resource after the completed checks `os` (oldest first), from `HealthCheckedContext::new` -/
def runRes (sth fth : Nat) (os : List Outcome) : Ctx := os.foldl (stepRes sth fth) {}

/-! ## pure core: selection -/

inductive Strat
  | first                                   -- FirstAvailable
  | rr                                      -- RoundRobin (shared counter)
  | prefer                                  -- PreferHealthy
  | custom (f : List St → Option Nat)       -- Custom(selector)

/-- `iter().position(p)` -/
def position (p : St → Bool) : List St → Option Nat
  | [] => none
  | s :: tl => if p s then some 0 else (position p tl).map (· + 1)

/-- `enumerate().filter(p)` from index `k`: the matching entries with their indices -/
def availFrom (p : St → Bool) : Nat → List St → List (Nat × St)
  | _, [] => []
  | k, s :: tl => if p s then (k, s) :: availFrom p (k + 1) tl else availFrom p (k + 1) tl

/-- `SelectionStrategy::select` over the statuses of the slice it is given; returns the index
into that slice and the new value of the shared counter -/
def select (strat : Strat) (sts : List St) (ctr : Nat) : Option Nat × Nat :=
  if sts.isEmpty then (none, ctr) else
  match strat with
  | .first => (position St.usable sts, ctr)
  | .rr =>
      let us := (availFrom St.usable 0 sts).map (·.1)
      if us.isEmpty then (none, ctr) else (us[ctr % us.length]?, ctr + 1)
  | .prefer =>
      (match position St.isHealthy sts with
       | some i => some i
       | none => position St.usable sts, ctr)
  | .custom f => (f sts, ctr)

/-- `get_with_filter`: the resources are their own indices (`T = usize` in the harness) -/
def getWith (p : St → Bool) (strat : Strat) (sts : List St) (ctr : Nat) : Option Nat × Nat :=
  let avail := availFrom p 0 sts
  if avail.isEmpty then (none, ctr) else
  match select strat (avail.map (·.2)) ctr with
  | (none, ctr') => (none, ctr')
  | (some j, ctr') => ((avail[j]?).map (·.1), ctr')

def getHealthy := getWith St.isHealthy
def getUsable := getWith St.usable

/-- `m` consecutive selections with the same filter over unchanged statuses, threading the
shared counter -/
def picks (p : St → Bool) (strat : Strat) (sts : List St) : Nat → Nat → List (Option Nat)
  | 0, _ => []
  | m + 1, ctr => (getWith p strat sts ctr).1 :: picks p strat sts m (getWith p strat sts ctr).2

/-! ## timed model -/

/-- scripted answer of the checker: `s` never completes -/
inductive Sym
  | h | d | u | k | s
deriving DecidableEq, Repr, Inhabited

def Sym.outcome : Sym → Outcome
  | .h => .healthy
  | .d => .degraded
  | .u => .unhealthy
  | .k => .unknown
  | .s => .timedOut

def Sym.render : Sym → String
  | .h => "h" | .d => "d" | .u => "u" | .k => "k" | .s => "s"

structure Item where
  sym : Sym
  lat : Nat
deriving DecidableEq, Repr, Inhabited

def Item.render (it : Item) : String :=
  if it.sym = .s then "s" else s!"{it.sym.render}{it.lat}"

structure Cfg where
  n : Nat
  sth : Nat
  fth : Nat
  interval : Nat
  timeout : Nat
  delay : Nat
  strat : Strat
  dflt : Item

structure Slot where
  core : Ctx := {}
  hist : List Outcome := []      -- ghost: completed outcomes, oldest first
  script : List Item := []
deriving Repr

structure Pending where
  r : Nat
  start : Nat
  item : Item
deriving DecidableEq, Repr

inductive Phase
  | spawned                 -- the periodic task exists but has not run yet
  | initial (wake : Nat)    -- in `sleep(initial_delay)`, deadline `wake`
  | waiting (dl : Nat)      -- in `interval.tick()`, deadline `dl`
  | checking (next : Nat)   -- awaiting the join handles; the interval's next deadline is `next`
  | dead                    -- `interval(0)` panicked
deriving DecidableEq, Repr

/-- typed events of this model -/
inductive HEv
  | checkStart (r : Nat) (it : Item)
  | checkDone (r : Nat) (sym : Sym)
  | checkDrop (r : Nat)
  | status (r : Nat) (s : Option St)
  | details (r : Nat) (d : Option Ctx)
  | all (sts : List St)
  | got (healthyOnly : Bool) (res : Option Nat)
  | noop
deriving DecidableEq, Repr

structure State where
  now : Nat := 0
  slots : List Slot := []
  phase : Phase := .spawned
  pending : List Pending := []
  ctr : Nat := 0                 -- round_robin_counter
  log : List HEv := []           -- ghost
deriving Repr

inductive Op
  | adv (ms : Nat)
  | script (r : Nat) (items : List Item)
  | status (r : Nat)
  | details (r : Nat)
  | all
  | getHealthy
  | getUsable
  | bad                          -- answered `noop`
  | idle                         -- not an operation of this middleware: time to run, nothing else
deriving Repr

def updAt {α : Type} (l : List α) (i : Nat) (f : α → α) : List α :=
  match l, i with
  | [], _ => []
  | a :: tl, 0 => f a :: tl
  | a :: tl, i + 1 => a :: updAt tl i f

def emit (s : State) (evs : List HEv) : State := { s with log := s.log ++ evs }

def stepSlot (cfg : Cfg) (sl : Slot) (o : Outcome) : Slot :=
  { sl with core := stepRes cfg.sth cfg.fth sl.core o, hist := sl.hist ++ [o] }

def popScript (sl : Slot) : Slot := { sl with script := sl.script.tail }

def nextItem (cfg : Cfg) (sl : Slot) : Item := sl.script.headD cfg.dflt

/-- what has become of a check started at `start`, seen at instant `now` -/
def verdict (cfg : Cfg) (now start : Nat) (it : Item) : Option Outcome :=
  if it.sym ≠ .s ∧ now ≥ start + it.lat then some it.sym.outcome
  else if now ≥ start + cfg.timeout then some .timedOut
  else none

def doneEv (r : Nat) (it : Item) : Outcome → HEv
  | .timedOut => .checkDrop r
  | _ => .checkDone r it.sym

/-- one check of resource `r` completes with outcome `o` -/
def finish (cfg : Cfg) (s : State) (r : Nat) (it : Item) (o : Outcome) : State :=
  emit { s with slots := updAt s.slots r (fun sl => stepSlot cfg sl o) } [doneEv r it o]

/-- the spawned check task of resource `r` runs: calls the checker, polls it once -/
def startOne (cfg : Cfg) (s : State) (r : Nat) : State :=
  match s.slots[r]? with
  | none => s
  | some sl =>
      let it := nextItem cfg sl
      let s1 := emit { s with slots := updAt s.slots r popScript } [.checkStart r it]
      match verdict cfg s.now s.now it with
      | some o => finish cfg s1 r it o
      | none => { s1 with pending := s1.pending ++ [⟨r, s.now, it⟩] }

def startRound (cfg : Cfg) (s : State) : State :=
  (List.range s.slots.length).foldl (startOne cfg) s

def finishOne (cfg : Cfg) (now : Nat) (s : State) (p : Pending) : State :=
  match verdict cfg now p.start p.item with
  | some o => finish cfg s p.r p.item o
  | none => { s with pending := s.pending ++ [p] }

/-- every pending check that is due at this instant completes -/
def finishDue (cfg : Cfg) (s : State) : State :=
  s.pending.foldl (finishOne cfg s.now) { s with pending := [] }

/-- `Interval::poll_tick`: deadline of the tick after the one with deadline `dl`, taken at `now` -/
def nextTick (period now dl : Nat) : Nat :=
  if now > dl + 5 then now + period - ((now - dl) % period) else dl + period

/-- let the periodic task run until nothing more can happen at this instant -/
def quiesce (cfg : Cfg) : Nat → State → State
  | 0, s => s
  | fuel + 1, s =>
    match s.phase with
    | .dead => s
    | .spawned => quiesce cfg fuel { s with phase := .initial (s.now + cfg.delay) }
    | .initial wake =>
        if s.now ≥ wake then
          if cfg.interval = 0 then { s with phase := .dead }
          else quiesce cfg fuel { s with phase := .waiting s.now }
        else s
    | .waiting dl =>
        if s.now ≥ dl then
          quiesce cfg fuel (startRound cfg { s with phase := .checking (nextTick cfg.interval s.now dl) })
        else s
    | .checking next =>
        let s' := finishDue cfg s
        if s'.pending.isEmpty then quiesce cfg fuel { s' with phase := .waiting next } else s'

def statuses (s : State) : List St := s.slots.map (·.core.status)

def doOp (cfg : Cfg) (s : State) : Op → State
  | .adv ms => { s with now := s.now + ms }
  | .script r items =>
      if r < s.slots.length then
        { s with slots := updAt s.slots r (fun sl => { sl with script := sl.script ++ items }) }
      else emit s [.noop]
  | .status r => emit s [.status r ((s.slots[r]?).map (·.core.status))]
  | .details r => emit s [.details r ((s.slots[r]?).map (·.core))]
  | .all => emit s [.all (statuses s)]
  | .getHealthy =>
      let (res, c) := getHealthy cfg.strat (statuses s) s.ctr
      emit { s with ctr := c } [.got true res]
  | .getUsable =>
      let (res, c) := getUsable cfg.strat (statuses s) s.ctr
      emit { s with ctr := c } [.got false res]
  | .bad => emit s [.noop]
  | .idle => s

/-- rounds at one instant are bounded by tokio's 5 ms tolerance (≤ 6 for a 1 ms period) -/
def fuel : Nat := 40

def stepS (cfg : Cfg) (s : State) (op : Op) : State := quiesce cfg fuel (doOp cfg s op)

def init (cfg : Cfg) : State := { slots := List.replicate cfg.n {} }
def run (cfg : Cfg) (ops : List Op) : State := ops.foldl (stepS cfg) (init cfg)

/-! ## rendering and line protocol -/

def St.render : St → String
  | .healthy => "healthy" | .degraded => "degraded" | .unhealthy => "unhealthy" | .unknown => "unknown"

def St.letter : St → String
  | .healthy => "h" | .degraded => "d" | .unhealthy => "u" | .unknown => "k"

def renderOptNat : Option Nat → String
  | none => "none"
  | some i => toString i

def HEv.toEv : HEv → Ev
  | .checkStart r it => .raw s!"check_start {r} {it.render}"
  | .checkDone r sym => .raw s!"check_done {r} {sym.render}"
  | .checkDrop r => .raw s!"check_drop {r}"
  | .status r none => .probe s!"status r={r} = none"
  | .status r (some st) => .probe s!"status r={r} = {st.render}"
  | .details r none => .probe s!"details r={r} = none"
  | .details r (some d) => .probe s!"details r={r} = {d.status.render} f={d.fails} s={d.succs}"
  | .all sts => .probe s!"all = {if sts.isEmpty then "-" else ",".intercalate (sts.map St.letter)}"
  | .got true res => .probe s!"get_healthy = {renderOptNat res}"
  | .got false res => .probe s!"get_usable = {renderOptNat res}"
  | .noop => .raw "noop"

def parseItem (tok : String) : Option Item :=
  let rest := (tok.drop 1).toString
  let lat : Option Nat := if rest.isEmpty then some 0 else rest.toNat?
  let mk (sym : Sym) : Option Item := lat.map fun l => { sym := sym, lat := l }
  if tok.startsWith "h" then mk .h
  else if tok.startsWith "d" then mk .d
  else if tok.startsWith "u" then mk .u
  else if tok.startsWith "k" then mk .k
  else if tok.startsWith "s" then (mk .s).map fun it => { it with lat := 0 }
  else none

def parseItems (s : String) : Option (List Item) :=
  (s.splitOn ",").mapM parseItem

def parseOp (ws : List String) : Op :=
  match ws with
  | "adv" :: ms :: _ => .adv (ms.toNat?.getD 0)
  | "manual" :: "script" :: rest =>
      let kv := parseKv rest
      match kv.optNat "r", (kv.get "seq").bind parseItems with
      | some r, some items => .script r items
      | _, _ => .bad
  | "manual" :: _ => .bad
  | "probe" :: "status" :: rest =>
      match (parseKv rest).optNat "r" with | some r => .status r | none => .bad
  | "probe" :: "details" :: rest =>
      match (parseKv rest).optNat "r" with | some r => .details r | none => .bad
  | "probe" :: "all" :: _ => .all
  | "probe" :: "get_healthy" :: _ => .getHealthy
  | "probe" :: "get_usable" :: _ => .getUsable
  | "probe" :: _ => .bad
  | "arrive" :: _ => .bad
  | _ => .idle

/-- the custom selectors the harness can install (`strat=last|oob|none|second`) -/
def lastHealthy (sts : List St) : Option Nat :=
  ((availFrom St.isHealthy 0 sts).map (·.1)).getLast?

def parseStrat (s : String) : Strat :=
  if s = "rr" then .rr
  else if s = "prefer" then .prefer
  else if s = "last" then .custom lastHealthy
  else if s = "oob" then .custom (fun sts => some sts.length)
  else if s = "none" then .custom (fun _ => none)
  else if s = "second" then .custom (fun _ => some 1)
  else .first

def machine : Machine where
  σ := Cfg × State
  init kv :=
    let cfg : Cfg := {
      n := kv.nat "n" 1, sth := kv.nat "sth" 1, fth := kv.nat "fth" 2,
      interval := kv.nat "iv" 10, timeout := kv.nat "to" 5, delay := kv.nat "delay" 0,
      strat := parseStrat (kv.str "strat" "first"),
      dflt := (parseItem (kv.str "dflt" "k")).getD { sym := .k, lat := 0 } }
    (cfg, init cfg)
  step := fun (cfg, s) ws =>
    let s' := stepS cfg s (parseOp ws)
    ((cfg, s'), (s'.log.drop s.log.length).map HEv.toEv)
  now := fun (_, s) => s.now

end TR.Health
