import TR.Model.Common
/-!
# `EventListeners::emit` (C20, third clause) — `crates/tower-resilience-core/src/events.rs`

A listener either returns or panics. `emit` runs every registered listener in registration
order inside `catch_unwind`; `emitNoCatch` is the same loop without it (the first panic
propagates and the remaining listeners are skipped).
-/
namespace TR.Listeners

/-- a listener, as far as `emit` can tell: does it panic on this event? -/
abbrev Listener (Event : Type) := Event → Bool

/-- what `emit` did: which listeners ran (by index, in order), and whether a panic escaped -/
structure Trace where
  ran     : List Nat := []
  escaped : Bool := false
deriving DecidableEq, Repr

def emitFrom {Event : Type} (i : Nat) (ls : List (Listener Event)) (e : Event) : Trace :=
  match ls with
  | [] => {}
  | _ :: tl => let r := emitFrom (i + 1) tl e; { r with ran := i :: r.ran }   -- a panic is caught; go on

/-- `EventListeners::emit` -/
def emit {Event : Type} (ls : List (Listener Event)) (e : Event) : Trace := emitFrom 0 ls e

def emitNoCatchFrom {Event : Type} (i : Nat) (ls : List (Listener Event)) (e : Event) : Trace :=
  match ls with
  | [] => {}
  | l :: tl =>
    if l e then { ran := [i], escaped := true }     -- the panic unwinds out of `emit`
    else let r := emitNoCatchFrom (i + 1) tl e; { r with ran := i :: r.ran }

/-- the same loop without `catch_unwind` (mutant) -/
def emitNoCatch {Event : Type} (ls : List (Listener Event)) (e : Event) : Trace := emitNoCatchFrom 0 ls e

/-- a layer's call path: emit the events of the path, then return the outcome of the inner call;
a panic escaping `emit` would replace the outcome -/
def callPath {Event : Type} (em : List (Listener Event) → Event → Trace) (ls : List (Listener Event))
    (events : List Event) (outcome : Res) : Res :=
  if events.any (fun e => (em ls e).escaped) then .panic else outcome

/-! ## what a listener can observe: where on the completion path the listeners run

A listener is ordinary code: it may take its time while other calls arrive, and it may use the
service itself. Either way a call is decided against the state the layer is in *while the listeners
of a completion event run*. `finish` runs the part of a completion path that matters for that: give
a slot of the finished call back (`drop(permit)`, a counter decrement), run the listeners of an
event; every `emit` records what a call arriving at that moment is told. -/

inductive Act
  | release      -- give back a slot the finished call holds
  | emit         -- run the listeners of a completion event
deriving DecidableEq, Repr

/-- the layer's capacity bookkeeping (a bulkhead's semaphore, a limiter's in-flight counter) -/
structure Slots where
  inflight : Nat
  max      : Nat
deriving DecidableEq, Repr

/-- is a call arriving now let through? -/
def Slots.admits (s : Slots) : Bool := decide (s.inflight < s.max)

/-- run a completion path: the final bookkeeping and, per `emit`, the verdict a call made from
inside (or during) a listener of that event gets -/
def finish (s : Slots) : List Act → Slots × List Bool
  | [] => (s, [])
  | .release :: tl => finish { s with inflight := s.inflight - 1 } tl
  | .emit :: tl => ((finish s tl).1, s.admits :: (finish s tl).2)

/-! ## a listener that uses the service: what the call path may hold while it emits

A listener may itself send a request through the service (a diagnostic probe, a warm-up call) and poll it on the
spot. That request runs the same call path, on the same thread, before `emit` returns. If the path emits an event
while it holds a lock that the path also takes — a non-reentrant `std::sync::Mutex` — the listener's request blocks
on that lock for ever: `emit` never returns, the emitting call never completes, and the listeners registered after
the probing one are never told the event. `walk` runs a call path with (`re = true`) or without such a listener. -/

inductive PStep
  | lock       -- take the layer's non-reentrant lock (the chaos layer's RNG, a cache's store)
  | unlock     -- release it
  | emit       -- run the listeners of an event
deriving DecidableEq, Repr

structure PRun where
  locked  : Bool := false
  emitted : Nat := 0        -- events that every registered listener has been told
  hung    : Bool := false   -- the call is stuck and never returns
deriving DecidableEq, Repr

/-- run a call path; `re`: one of the listeners sends a request through the same service from inside the listener
(that request needs the path's lock; it is guarded against recursion and otherwise leaves nothing behind) -/
def walk (re : Bool) (s : PRun) : List PStep → PRun
  | [] => s
  | st :: tl =>
    if s.hung then s else
    match st with
    | .lock => if s.locked then { s with hung := true } else walk re { s with locked := true } tl
    | .unlock => walk re { s with locked := false } tl
    | .emit => if re && s.locked then { s with hung := true } else walk re { s with emitted := s.emitted + 1 } tl

/-- every `emit` of the path happens with the lock free -/
def emitsUnlocked (locked : Bool) : List PStep → Bool
  | [] => true
  | .lock :: tl => emitsUnlocked true tl
  | .unlock :: tl => emitsUnlocked false tl
  | .emit :: tl => !locked && emitsUnlocked locked tl

/-! ## one callback per kind of news: where the unwind guards sit

Some layers report through single callbacks, one per kind of news, instead of a listener list (reconnect:
`on_state_change`, `on_reconnect`), and one moment of the call path may be reported to several of them — a reconnect
attempt starts: `on_state_change(Disconnected, Reconnecting)`, then `on_reconnect(attempt)`. Each of them is an observer
like any listener. `notifyFrom i groups e` runs the callbacks in order, every GROUP under one `catch_unwind`: a panic
leaves the group — the rest of the group is skipped — and is caught at the group's guard (nothing escapes into the
call). The code's way is one guard per callback: `groups = cbs.map ([·])`. -/

def notifyFrom {Event : Type} (i : Nat) : List (List (Listener Event)) → Event → List Nat
  | [], _ => []
  | g :: gs, e => (emitNoCatchFrom i g e).ran ++ notifyFrom (i + g.length) gs e

/-- which callbacks (by position) were told the news -/
def notify {Event : Type} (groups : List (List (Listener Event))) (e : Event) : List Nat := notifyFrom 0 groups e

end TR.Listeners
