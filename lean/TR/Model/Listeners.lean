import TR.Model.Common
/-!
# `EventListeners::emit` (C20, third clause) — `crates/tower-resilience-core/src/events.rs`

A listener either returns or panics. `emit` runs every registered listener in registration
order inside `catch_unwind`; `emitNoCatch` is the same loop without it (the first panic
propagates and the remaining listeners are skipped).
-/
namespace TR.Listeners

/-- a listener, as far as `emit` can tell: does it panic on this event? -/
abbrev Listener (Event : Type) := Event → Bool

/-- what `emit` did: which listeners ran (by index, in order), and whether a panic escaped -/
structure Trace where
  ran     : List Nat := []
  escaped : Bool := false
deriving DecidableEq, Repr

def emitFrom {Event : Type} (i : Nat) (ls : List (Listener Event)) (e : Event) : Trace :=
  match ls with
  | [] => {}
  | _ :: tl => let r := emitFrom (i + 1) tl e; { r with ran := i :: r.ran }   -- a panic is caught; go on

/-- `EventListeners::emit` -/
def emit {Event : Type} (ls : List (Listener Event)) (e : Event) : Trace := emitFrom 0 ls e

def emitNoCatchFrom {Event : Type} (i : Nat) (ls : List (Listener Event)) (e : Event) : Trace :=
  match ls with
  | [] => {}
  | l :: tl =>
    if l e then { ran := [i], escaped := true }     -- the panic unwinds out of `emit`
    else let r := emitNoCatchFrom (i + 1) tl e; { r with ran := i :: r.ran }

/-- the same loop without `catch_unwind` (mutant) -/
def emitNoCatch {Event : Type} (ls : List (Listener Event)) (e : Event) : Trace := emitNoCatchFrom 0 ls e

/-- a layer's call path: emit the events of the path, then return the outcome of the inner call;
a panic escaping `emit` would replace the outcome -/
def callPath {Event : Type} (em : List (Listener Event) → Event → Trace) (ls : List (Listener Event))
    (events : List Event) (outcome : Res) : Res :=
  if events.any (fun e => (em ls e).escaped) then .panic else outcome

end TR.Listeners
