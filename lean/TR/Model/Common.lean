/-!
# Common vocabulary of the executable models (import-free)

Events are the observables compared line by line with the Rust harness; `render` is the one
text representation used on both sides.
-/
namespace TR

/-- scripted outcome of one inner call -/
inductive Out
  | ok
  | err (kind : Nat)
  | panic
  | never
deriving DecidableEq, Repr, Inhabited

/-- one scripted inner call: ready `lat` ms after `call()`, then `out` -/
structure Step where
  lat : Nat
  out : Out
deriving DecidableEq, Repr, Inhabited

/-- result delivered to a caller -/
inductive Res
  | ok (v : Nat)                 -- inner response with serial `v`
  | inner (kind v : Nat)         -- inner error passed through (under the layer's pass-through variant)
  | panic
  | timeout                      -- bulkhead wait timeout / time limiter timeout
  | full
  | rateLimited
  | openCircuit
  | fallback (v : Nat)
  | cancelled                    -- coalesce: leader cancelled
  | allFailed (kind v : Nat)     -- hedge
  | notReady
  | other (code a b : Nat)
  | custom (s : String)          -- middleware-specific error grammar, rendered verbatim
deriving DecidableEq, Repr, Inhabited

inductive Ev
  | innerCall (c k : Nat)
  | innerCallX (c k tag : Nat) (ready : Bool)
  | innerDone (c k : Nat) (o : Out)
  | innerDrop (c k : Nat)
  | result (c : Nat) (r : Res)
  | probe (s : String)
  | raw (s : String)
deriving DecidableEq, Repr, Inhabited

def Out.render : Out → String
  | .ok => "ok"
  | .err k => s!"err{k}"
  | .panic => "panic"
  | .never => "never"

def Res.render : Res → String
  | .ok v => s!"ok:{v}"
  | .inner k v => s!"err:inner{k}:{v}"
  | .panic => "panic"
  | .timeout => "err:timeout"
  | .full => "err:full"
  | .rateLimited => "err:ratelimited"
  | .openCircuit => "err:open"
  | .fallback v => s!"ok:fallback:{v}"
  | .cancelled => "err:leader_cancelled"
  | .allFailed k v => s!"err:all_failed:inner{k}:{v}"
  | .notReady => "notready"
  | .other c a b => s!"other:{c}:{a}:{b}"
  | .custom s => s

def Ev.render : Ev → String
  | .innerCall c k => s!"inner_call {c} {k}"
  | .innerCallX c k tag r => s!"inner_call {c} {k} tag={tag} ready={if r then 1 else 0}"
  | .innerDone c k o => s!"inner_done {c} {k} {o.render}"
  | .innerDrop c k => s!"inner_drop {c} {k}"
  | .result c r => s!"result {c} {r.render}"
  | .probe s => s!"probe {s}"
  | .raw s => s

/-- association-list lookup -/
def lookup {α : Type} (l : List (Nat × α)) (c : Nat) : Option α :=
  match l with
  | [] => none
  | (k, v) :: tl => if k = c then some v else lookup tl c

/-! ## line protocol helpers -/

abbrev Kv := List (String × String)

def parseKv (ws : List String) : Kv :=
  ws.filterMap fun w =>
    match w.splitOn "=" with
    | [a, b] => some (a, b)
    | _ => none

def Kv.get (kv : Kv) (k : String) : Option String :=
  match kv with
  | [] => none
  | (a, b) :: tl => if a = k then some b else Kv.get tl k

def Kv.nat (kv : Kv) (k : String) (d : Nat) : Nat :=
  match kv.get k with
  | some v => v.toNat?.getD d
  | none => d

def Kv.optNat (kv : Kv) (k : String) : Option Nat :=
  match kv.get k with
  | some v => v.toNat?
  | none => none

def Kv.str (kv : Kv) (k : String) (d : String) : String := (kv.get k).getD d

def parseOut (s : String) : Out :=
  if s = "ok" then .ok
  else if s = "panic" then .panic
  else if s = "never" then .never
  else if s = "hog" then .never      -- never completes (and burns the cooperative budget: a runtime aspect)
  else if s.startsWith "err" then .err ((s.drop 3).toString.toNat?.getD 0)
  else .ok

/-- `inner=5:ok,0:err1` -/
def parsePlan (s : String) : List Step :=
  if s.isEmpty then [] else
  (s.splitOn ",").map fun part =>
    match part.splitOn ":" with
    | [l, o] => { lat := l.toNat?.getD 0, out := parseOut o }
    | _ => { lat := 0, out := parseOut part }

def planOf (kv : Kv) : List Step := parsePlan (kv.str "inner" "0:ok")

/-- A model packaged for the line-protocol driver. `step` receives the words of one
operation line; the driver itself handles `settle`, duplicate arrivals and polls of dead
callers (exactly as the harness does). -/
structure Machine where
  σ : Type
  init : Kv → σ
  step : σ → List String → σ × List Ev
  now : σ → Nat

end TR
