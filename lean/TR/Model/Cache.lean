import TR.Model.Common
/-!
# Cache (C10) — `crates/tower-resilience-cache/src/{eviction,store,lib,shared_layer}.rs`

Three layers, as in the code:

* the **policy container** (`eviction.rs`): one list of entries whose *order* is the container's
  own order — LRU: most recently used first (`lru::LruCache`: `get` promotes, `push` of a present
  key replaces and promotes, `push` of a new key into a full cache drops the tail); FIFO: oldest
  insertion first (`VecDeque`: a re-insert of a present key replaces the value and keeps the
  position; a new key into a full store pops the front); LFU: no meaningful order, every entry
  has a count (1 at insertion, +1 on every `get` and every re-insert), the victim is *a*
  minimum-count key (`min_by_key` over a `HashMap`: which one among ties is the implementation's
  choice, an input `w` of the model, DESIGN §3.2);
* the **TTL layer** (`store.rs`): `inserted_at`; a read with `now − inserted_at > ttl` (strictly)
  removes the entry and misses; every (re-)insert refreshes `inserted_at` — also under FIFO,
  where the queue position is *not* refreshed;
* the **service** (`lib.rs`): lookup inside `call()` (= the `arrive` operation) → hit: a ready
  future holding a clone of the value, no inner call | miss: the inner call is made at once; when
  the inner future completes with `Ok` the response is inserted (at *that* instant) and returned,
  errors and panics are passed through and nothing is stored. Concurrent misses on one key each
  call the inner service; the later completion overwrites. `SharedCacheLayer` = the same store
  behind several services: one model state, `svc` is only echoed. Several services built from one
  *plain* `CacheLayer` value have a store each: independent copies of this model, each run on the
  operations that concern it (`runAt`, section "several services built from one layer value").
  A TTL of zero (`ttl := some 0`, `Duration::ZERO`) is a TTL: `now − inserted_at > 0` — an entry is
  served at the instant it was stored and has expired as soon as the clock has moved; it is not
  `none`.

Ghost fields (never read by the transitions): `used`, `born` on entries (logical instants of the
last use / of the insertion that created the entry), `tick`, `stored` (every successful
completion, newest first: `lookup stored k` is the specification map `key → (value, storedAt)`),
`callKey` (serial of an inner call → key of the request it was made for), `log`. Only `log` is compared with
the implementation; `stored`, `callKey`, `used` and `born` are tied to it by theorems (`TR/Lemmas/CacheLog.lean`:
the echo line is injective, `callKey` and `stored` are functions of the log; `CacheRecency.lean`: the LRU order is the
recency of the keys in the log; `CacheSince.lean`: LFU counts and the FIFO order over the history).
-/
namespace TR.Cache

inductive Policy
  | lru
  | lfu
  | fifo
deriving DecidableEq, Repr, Inhabited

structure Cfg where
  max    : Nat
  ttl    : Option Nat      -- clock ticks (1 ms; 1 µs in `tick=us` cases); none = entries never expire
  policy : Policy
deriving Repr

/-- capacity of the container as its constructor computes it (`LruStore::new`: 0 ↦ 100;
`LfuStore::new` / `FifoStore::new`: `capacity.max(1)`); equal to `max` whenever `max ≥ 1` -/
def Cfg.cap (cfg : Cfg) : Nat :=
  if cfg.max = 0 then (match cfg.policy with | .lru => 100 | _ => 1) else cfg.max

structure Entry where
  key  : Nat
  val  : Nat          -- serial carried by the cached response
  ins  : Nat          -- `inserted_at`
  cnt  : Nat          -- LFU frequency
  used : Nat          -- ghost: tick of the last `get` hit / insert of this key (maintained under LRU)
  born : Nat          -- ghost: tick of the insert that created this entry
deriving DecidableEq, Repr, Inhabited

/-! ## policy container -/

def find (items : List Entry) (k : Nat) : Option Entry := items.find? (fun e => e.key == k)
def rm (k : Nat) (items : List Entry) : List Entry := items.filter (fun e => e.key != k)
/-- apply `f` to the entry stored under `k` (every `f` used below keeps the key) -/
def upd (k : Nat) (f : Entry → Entry) (items : List Entry) : List Entry :=
  items.map (fun e => if e.key = k then f e else e)

/-- side effect of `EvictionStore::get` on a present entry `e` -/
def touch (p : Policy) (tick : Nat) (e : Entry) (items : List Entry) : List Entry :=
  match p with
  | .lru  => { e with used := tick } :: rm e.key items
  | .lfu  => upd e.key (fun x => { x with cnt := x.cnt + 1 }) items
  | .fifo => items

def expired (ttl : Option Nat) (now : Nat) (e : Entry) : Bool :=
  match ttl with
  | some d => decide (now - e.ins > d)
  | none   => false

/-- `CacheStore::get` as it is written (`store.rs:51-61`), in its two phases: the container's own
`get` runs **first** (`self.store.get(key)?` — LRU promotes the entry, LFU counts the use, FIFO does
nothing), and only then is the entry it returned tested; an expired one is removed from the already
touched container (`self.store.remove(key)`) and the read misses. That promote-then-remove leaves the
same container as a plain remove is a theorem, not an assumption: `TR.Cache.rm_touch` and
`TR.Cache.storeGet_eq` (`TR/Lemmas/Cache.lean`), on which every proof about a read rests. -/
def storeGet (cfg : Cfg) (now tick : Nat) (items : List Entry) (k : Nat) : List Entry × Option Nat :=
  match find items k with
  | none   => (items, none)
  | some e =>
      let touched := touch cfg.policy tick e items
      if expired cfg.ttl now e then (rm k touched, none) else (touched, some e.val)

def isMin (items : List Entry) (e : Entry) : Bool := items.all (fun x => decide (e.cnt ≤ x.cnt))

/-- an entry of minimal count (the first one) -/
def firstMin : List Entry → Option Entry
  | [] => none
  | e :: tl =>
      match firstMin tl with
      | none => some e
      | some m => if e.cnt ≤ m.cnt then some e else some m

/-- `w` is an allowed LFU victim: present, and no entry has a smaller count -/
def allowedVictim (items : List Entry) (w : Nat) : Bool :=
  match find items w with
  | some e => isMin items e
  | none => false

def lfuVictim (items : List Entry) (w : Nat) : Option Entry :=
  if allowedVictim items w then find items w else firstMin items

structure InsRes where
  items    : List Entry
  victim   : Option Entry := none     -- entry removed to make room (new key, full store)
  choiceOk : Bool := true
deriving Repr

def insertLru (cap : Nat) (items : List Entry) (e : Entry) : InsRes :=
  if (find items e.key).isSome then { items := e :: rm e.key items }
  else if items.length ≥ cap then { items := e :: items.dropLast, victim := items.getLast? }
  else { items := e :: items }

def insertFifo (cap : Nat) (items : List Entry) (e : Entry) : InsRes :=
  if (find items e.key).isSome then
    { items := upd e.key (fun x => { x with val := e.val, ins := e.ins }) items }
  else if items.length ≥ cap then { items := items.tail ++ [e], victim := items.head? }
  else { items := items ++ [e] }

def insertLfu (cap : Nat) (items : List Entry) (e : Entry) (w : Nat) : InsRes :=
  if (find items e.key).isSome then
    { items := upd e.key (fun x => { x with val := e.val, ins := e.ins, cnt := x.cnt + 1 }) items }
  else if items.length ≥ cap then
    match lfuVictim items w with
    | some v => { items := rm v.key items ++ [e], victim := some v, choiceOk := allowedVictim items w }
    | none   => { items := items ++ [e] }
  else { items := items ++ [e] }

/-- `CacheStore::insert` of value `v` under `k` at instant `now` -/
def storeInsert (cfg : Cfg) (now tick : Nat) (items : List Entry) (k v w : Nat) : InsRes :=
  let e : Entry := { key := k, val := v, ins := now, cnt := 1, used := tick, born := tick }
  match cfg.policy with
  | .lru  => insertLru cfg.cap items e
  | .fifo => insertFifo cfg.cap items e
  | .lfu  => insertLfu cfg.cap items e w

/-! ## service -/

/-- an inner call in flight -/
structure Pend where
  key    : Nat
  k      : Nat        -- serial of the inner call = value of its response
  doneAt : Nat
  out    : Out
deriving DecidableEq, Repr, Inhabited

structure State where
  now     : Nat := 0
  tick    : Nat := 0
  store   : List Entry := []
  hits    : List (Nat × Nat) := []            -- caller ↦ value cloned out of the cache in `call()`
  pend    : List (Nat × Pend) := []           -- caller ↦ inner call in flight
  seen    : List Nat := []
  serial  : Nat := 0
  stored  : List (Nat × (Nat × Nat)) := []    -- ghost: (key, (value, instant)) of every Ok completion, newest first
  callKey : List (Nat × Nat) := []            -- ghost: serial ↦ key of the request
  log     : List Ev := []                     -- ghost: every event so far
deriving DecidableEq, Repr

inductive Op
  | arrive (c key svc : Nat) (sc : Step)
  | poll (c : Nat) (w : Nat)      -- `w`: the implementation's LFU victim, read only when an LFU eviction happens
  | drop (c : Nat)
  | adv (ms : Nat)
deriving Repr

def emit (s : State) (evs : List Ev) : State := { s with log := s.log ++ evs }

def del {α : Type} (l : List (Nat × α)) (c : Nat) : List (Nat × α) := l.filter (fun p => p.1 != c)

def reqEv (c key svc : Nat) : Ev := .raw s!"req {c} key={key} svc={svc}"

/-- `call()` found an unexpired entry: the value is cloned into a ready future -/
def arriveHit (s : State) (c key svc : Nat) (items : List Entry) (v : Nat) : State :=
  emit { s with seen := c :: s.seen, store := items, tick := s.tick + 1, hits := (c, v) :: s.hits }
    [reqEv c key svc]

/-- `call()` found nothing (or an expired entry, now removed): the inner service is called -/
def arriveMiss (s : State) (c key svc : Nat) (items : List Entry) (sc : Step) : State :=
  emit { s with seen := c :: s.seen, store := items, tick := s.tick + 1,
                pend := (c, { key := key, k := s.serial, doneAt := s.now + sc.lat, out := sc.out }) :: s.pend,
                callKey := (s.serial, key) :: s.callKey, serial := s.serial + 1 }
    [reqEv c key svc, .innerCall c s.serial]

def arrive (cfg : Cfg) (s : State) (c key svc : Nat) (sc : Step) : State :=
  if s.seen.contains c then s else
  let r := storeGet cfg s.now s.tick s.store key
  match r.2 with
  | some v => arriveHit s c key svc r.1 v
  | none   => arriveMiss s c key svc r.1 sc

def pollHit (s : State) (c v : Nat) : State :=
  emit { s with hits := del s.hits c } [.result c (.ok v)]

/-- the inner future resolved `Ok`: insert (at this instant), then return the response -/
def completeOk (cfg : Cfg) (s : State) (c : Nat) (p : Pend) (w : Nat) : State :=
  let r := storeInsert cfg s.now s.tick s.store p.key p.k w
  emit { s with store := r.items, tick := s.tick + 1, pend := del s.pend c,
                stored := (p.key, (p.k, s.now)) :: s.stored }
    ([.innerDone c p.k .ok] ++ (if r.choiceOk then [] else [.raw "choice-not-allowed"]) ++ [.result c (.ok p.k)])

/-- the inner future resolved with an error or panicked: nothing is stored -/
def completeFail (s : State) (c : Nat) (p : Pend) (r : Res) : State :=
  emit { s with pend := del s.pend c } [.innerDone c p.k p.out, .result c r]

def pollPend (cfg : Cfg) (s : State) (c : Nat) (p : Pend) (w : Nat) : State :=
  if s.now ≥ p.doneAt then
    match p.out with
    | .ok     => completeOk cfg s c p w
    | .err kd => completeFail s c p (.inner kd p.k)
    | .panic  => completeFail s c p .panic
    | .never  => s
  else s

def poll (cfg : Cfg) (s : State) (c w : Nat) : State :=
  match lookup s.hits c with
  | some v => pollHit s c v
  | none =>
    match lookup s.pend c with
    | some p => pollPend cfg s c p w
    | none => s

def dropC (s : State) (c : Nat) : State :=
  match lookup s.hits c with
  | some _ => { s with hits := del s.hits c }
  | none =>
    match lookup s.pend c with
    | some p => emit { s with pend := del s.pend c } [.innerDrop c p.k]
    | none => s

def stepS (cfg : Cfg) (s : State) (op : Op) : State :=
  match op with
  | .adv ms => { s with now := s.now + ms }
  | .arrive c key svc sc => arrive cfg s c key svc sc
  | .poll c w => poll cfg s c w
  | .drop c => dropC s c

def init : State := {}
def run (cfg : Cfg) (ops : List Op) : State := ops.foldl (stepS cfg) init

/-! ## several services built from one layer value

`CacheLayer::layer` builds a **new store for every service** (`layer.rs`, "State Isolation": "Each call
to `layer()` creates a new cache store"); `SharedCacheLayer::layer` (`shared_layer.rs`) hands the one
`Arc<Mutex<CacheStore>>` of the layer value to every service, and so does a layer obtained by
`CacheLayer::shared()`. Clones of a service (`Cache::clone`) and every handle derived from them share the
store of that service in both cases; clones of a layer value behave like the layer value.

With `n` stores, a request made on service `svc` concerns store `svc % n`; the clock, polls and drops
concern every store (a poll or drop of a caller that has nothing parked or pending in a store is a
no-op there, `poll`/`dropC` by definition). The state of store `i` after a history is the state of a
single-store cache after the history *projected* to that store: the stores do not interact. -/

/-- number of stores behind `nsvc` services built from one layer value -/
def nStores (shared : Bool) (nsvc : Nat) : Nat := if shared then 1 else (if nsvc = 0 then 1 else nsvc)

/-- does the operation concern store `i` of `n`? -/
def concerns (n i : Nat) : Op → Bool
  | .arrive _ _ svc _ => svc % n == i
  | _ => true

/-- the history as store `i` sees it -/
def proj (n i : Nat) (ops : List Op) : List Op := ops.filter (concerns n i)

/-- state of store `i` (of `n`) after `ops` -/
def runAt (cfg : Cfg) (n i : Nat) (ops : List Op) : State := run cfg (proj n i ops)

/-- what `CacheConfigBuilder::new()` / `SharedCacheConfigBuilder::new()` (and their `Default` impls)
configure when no setter is called: `max_size` 100, no TTL, LRU -/
def builderDefaults : Cfg := { max := 100, ttl := none, policy := .lru }

/-- `Duration::MAX` (`u64::MAX` s + 999 999 999 ns) in whole clock ticks of `tickNs` nanoseconds: an age of
`a` ticks exceeds `Duration::MAX` exactly when `a > durMaxTicks tickNs`. No clock reading is that large
(`Instant` cannot even represent `inserted_at + Duration::MAX`): the idiomatic "never expires". -/
def durMaxTicks (tickNs : Nat) : Nat := (2 ^ 64 * 1000000000 - 1) / tickNs

/-- The header word `ttl=…`: absent = no TTL; `ttl=max` = `Duration::MAX`; `ttl=<n>` = n ticks, for EVERY
natural n (zero, and values far beyond anything `Instant + ttl` can represent, alike). -/
def parseTtl (tickNs : Nat) (v : Option String) : Option Nat :=
  match v with
  | none => none
  | some w => if w = "max" then some (durMaxTicks tickNs) else w.toNat?

/-! ## line protocol

The LFU victim among ties is not observable when it is chosen (the store is private and every
read through the public API changes counts). The driver therefore keeps the **set of model
states** reachable under *some* allowed sequence of victim choices (each obtained with `stepS`
and an explicit allowed `w`), and prunes it with the one thing the implementation reveals: the
adapter appends `@hit=0|1` to every `arrive` line. An empty set means that no allowed choice
explains the implementation (`choice-not-allowed`). All surviving states agree on the events
(the value of a hit is the latest stored one in every state, theorem `hit_is_latest`). Under
LRU and FIFO the set is always a singleton and the annotation is not used.

Header: `max` / `policy` / `ttl` absent = the builder's documented default (`builderDefaults`);
`ttl=max` is `Duration::MAX`, `ttl=<n>` n ticks for any natural n (`parseTtl`);
`shared=0|1|2` and `nsvc=<n>` give the number of stores (`nStores`); `listen=1`: the layer value has
`on_hit` / `on_miss` / `on_eviction` listeners, `probe events` prints how often each has fired (the
counters are kept by the driver, `XState`; the `Eviction` event follows `lib.rs`: the store was full
*before* the insert). Words the model does not read: `h=<j>` (which handle of the service makes the
call: all handles of a service share its store), `lc=1` (the service is built from a clone of the
layer value), `name=`, `via=` (which constructor produced the builder). -/

def parseOp (ws : List String) : Option Op :=
  match ws with
  | "arrive" :: c :: rest =>
      let kv := parseKv rest
      let plan := planOf kv
      some (.arrive (c.toNat?.getD 0) (kv.nat "key" 0) (kv.nat "svc" 0) (plan.headD { lat := 0, out := .ok }))
  | "poll" :: c :: rest => some (.poll (c.toNat?.getD 0) ((parseKv rest).nat "@victim" 0))
  | "drop" :: c :: _ => some (.drop (c.toNat?.getD 0))
  | "adv" :: ms :: _ => some (.adv (ms.toNat?.getD 0))
  | _ => none

def parsePolicy (s : String) : Policy :=
  if s = "lfu" then .lfu else if s = "fifo" then .fifo else .lru

/-- the victims the implementation may pick in state `s` (only consulted on an LFU eviction) -/
def victimChoices (cfg : Cfg) (s : State) : List Nat :=
  match cfg.policy with
  | .lfu =>
      let ks := (s.store.filter (isMin s.store)).map (·.key)
      if ks.isEmpty then [0] else ks
  | _ => [0]

def dedup (l : List State) : List State :=
  l.foldl (fun acc s => if acc.contains s then acc else acc ++ [s]) []

/-- one store as the driver tracks it: the candidate model states, and the map from the store's own
serial numbers (0, 1, 2, … in the order of *its* inner calls — the numbering of `State.serial`) to the
serial numbers of the case (the scripted inner service numbers the inner calls of all services of a case
consecutively) -/
structure MState where
  cfg   : Cfg
  cands : List State
  ser   : List (Nat × Nat) := []
  listen : Bool := false     -- an `on_eviction` listener is registered: the adapter marks the polls during which it fired (`@ev=1`)

/-- an `Ok` completion happened in this step (the specification map grew) -/
def okDone (s s' : State) : Bool := s'.stored.length != s.stored.length

/-- `lib.rs:223-252`: the `Eviction` event is emitted after an `Ok` completion iff the store held at
least `max_size` entries just **before** the insert (`store.len() >= config.max_size`) — also when the
key was present and merely updated; never for a TTL expiry -/
def evictionEvent (cfg : Cfg) (s s' : State) : Bool := okDone s s' && decide (s.store.length ≥ cfg.max)

/-- one operation on one store: new driver state, the events of the step (store-local serials), a
`choice-not-allowed` flag, and whether the step emitted an `Eviction` event to the listeners.
Under LFU the candidates may disagree on the latter (their stores can differ in length after a lazy
expiry-removal); only then is the adapter's observation consulted (`@ev=1` on the `poll` line during
which the `on_eviction` listener fired; cases with `listen=1` only). -/
def mstep (m : MState) (ws : List String) : MState × List Ev × Bool :=
  let old := m.cands.headD init
  match parseOp ws with
  | none => (m, [], false)
  | some op =>
    let (next, flag, ev) : List State × Bool × Bool :=
      match op with
      | .poll c _ =>
          let explicit := (parseKv ws).get "@victim"
          let nx : List (State × Bool) := m.cands.flatMap fun s =>
            match explicit with
            | some _ => [(stepS m.cfg s op, evictionEvent m.cfg s (stepS m.cfg s op))]
            | none => (victimChoices m.cfg s).map fun w =>
                (stepS m.cfg s (.poll c w), evictionEvent m.cfg s (stepS m.cfg s (.poll c w)))
          let flags := nx.map (·.2)
          let ambiguous := flags.contains true && flags.contains false
          let agree (p : State × Bool) : Bool :=
            match (parseKv ws).get "@ev" with
            | some "1" => p.2
            | _ => if m.listen then !p.2 else true
          let ok := if ambiguous then nx.filter agree else nx
          let fin := if ok.isEmpty then nx else ok
          (dedup (fin.map (·.1)), ok.isEmpty && !nx.isEmpty, (fin.headD (init, false)).2)
      | .arrive c _ _ _ =>
          let nx := m.cands.map (stepS m.cfg · op)
          let agree (s' : State) : Bool :=
            match (parseKv ws).get "@hit" with
            | some "1" => (lookup s'.hits c).isSome
            | some "0" => (lookup s'.hits c).isNone
            | _ => true
          let ok := nx.filter agree
          if ok.isEmpty then (dedup nx, nx.length > 1, false) else (dedup ok, false, false)
      | _ => (m.cands.map (stepS m.cfg · op), false, false)
    let new := next.headD init
    ({ m with cands := next }, new.log.drop old.log.length ++ (if flag then [.raw "choice-not-allowed"] else []), ev)

/-- the driver's state for a case: one `MState` per store (`nStores`), the number of inner calls made so
far in the case, and the listener counters of the layer value (`on_hit` / `on_miss` / `on_eviction`: the
listeners live in the `CacheConfig`, which every service built from the layer value shares) -/
structure XState where
  cfg    : Cfg
  stores : List MState
  gser   : Nat := 0
  listen : Bool := false
  hitN   : Nat := 0
  missN  : Nat := 0
  evN    : Nat := 0

def trSerial (ser : List (Nat × Nat)) (k : Nat) : Nat := (lookup ser k).getD k

/-- an event of one store, its serial numbers translated to those of the case -/
def trEv (ser : List (Nat × Nat)) : Ev → Ev
  | .innerCall c k => .innerCall c (trSerial ser k)
  | .innerDone c k o => .innerDone c (trSerial ser k) o
  | .innerDrop c k => .innerDrop c (trSerial ser k)
  | .result c (.ok v) => .result c (.ok (trSerial ser v))
  | .result c (.inner kd v) => .result c (.inner kd (trSerial ser v))
  | e => e

def isInnerCall : Ev → Option Nat
  | .innerCall _ k => some k
  | _ => none

/-- apply the operation to store `i` (if it concerns it); the events come out with case-wide serials -/
def xstepStore (n : Nat) (ws : List String) (acc : XState × List Ev) (im : Nat × MState) : XState × List Ev :=
  let (x, out) := acc
  let (i, m) := im
  let concerned : Bool := match parseOp ws with
    | some op => concerns n i op
    | none => false
  if !concerned then ({ x with stores := x.stores ++ [m] }, out) else
  let (m', evs, ev) := mstep m ws
  -- a new inner call of this store gets the next serial of the case
  let calls := evs.filterMap isInnerCall
  let ser' := (calls.zipIdx.map fun (k, j) => (k, x.gser + j)) ++ m'.ser
  let isArrive : Bool := match ws with | "arrive" :: _ => true | _ => false
  let x' := { x with stores := x.stores ++ [{ m' with ser := ser' }],
                     gser := x.gser + calls.length,
                     hitN := x.hitN + (if isArrive && !evs.isEmpty && calls.isEmpty then 1 else 0),
                     missN := x.missN + calls.length,
                     evN := x.evN + (if ev then 1 else 0) }
  (x', out ++ evs.map (trEv ser'))

def xstep (x : XState) (ws : List String) : XState × List Ev :=
  match ws with
  | "probe" :: "events" :: _ =>
      (x, [.probe (if x.listen then s!"events hit={x.hitN} miss={x.missN} evict={x.evN}" else "events off")])
  | _ =>
      let n := x.stores.length
      (x.stores.zipIdx.map (fun (m, i) => (i, m))).foldl (xstepStore n ws) ({ x with stores := [] }, [])

def machine : Machine where
  σ := XState
  init kv :=
    let cfg : Cfg := { max := kv.nat "max" builderDefaults.max, ttl := parseTtl (if kv.str "tick" "ms" = "us" then 1000 else 1000000) (kv.get "ttl"),
                       policy := match kv.get "policy" with | some p => parsePolicy p | none => builderDefaults.policy }
    let shared := kv.nat "shared" 0 != 0
    let n := nStores shared (kv.nat "nsvc" (if shared then 2 else 1))
    let listen := kv.nat "listen" 0 != 0
    { cfg := cfg, stores := List.replicate n { cfg := cfg, cands := [init], listen := listen }, listen := listen }
  step := xstep
  now := fun x => (((x.stores.headD { cfg := x.cfg, cands := [init] }).cands).headD init).now

end TR.Cache
