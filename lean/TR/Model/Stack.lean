import TR.Model.Common
/-!
# Stacks of layers and the Tower readiness contract (C20)

At every service *boundary* the observable events are `clone src new` (the new instance gets the
next id), `poll i r` (`poll_ready` on instance `i` returned `r`) and `call i tag`.

* `Mon` is the strict inner service as a function: a `call i` is legal only on an existing
  instance that has observed readiness since its previous call (a fresh clone has not).
* `LSt` is the bookkeeping every layer's code does, written once for all thirteen layers: which
  inner instance each outer instance holds (`cur`), which inner instances have been *moved into*
  in-flight requests (`owned`: the `mem::replace` idiom, plus clones of those for hedged
  attempts), and whether such an instance may be called (`armed`: it was taken over from an
  outer instance on which the caller had observed readiness, or the layer itself has polled it
  ready since its last call — `poll_fn(poll_ready).await` before a retry / hedge / reconnect
  attempt). `LSt.step` is a guarded transition: `none` = the layer did something its idiom
  cannot do (e.g. the pinned `self.inner.clone()` followed by a call of the never-polled clone).
* A stack is a list of such layers; a global log is a list of `(boundary, event)` in the order
  in which things happened (single-threaded harness), boundary 0 being the caller's.
-/
namespace TR.Stack

inductive PollRes
  | ready
  | pending
  | err
deriving DecidableEq, Repr

inductive Ev
  | clone (src new : Nat)
  | poll (i : Nat) (r : PollRes)
  | call (i : Nat) (tag : Nat)
deriving DecidableEq, Repr

/-- point update of a function-valued map -/
def upd {α : Type} (f : Nat → α) (i : Nat) (v : α) : Nat → α := fun j => if j = i then v else f j

/-! ## the contract at one boundary -/

structure Mon where
  n     : Nat := 1                          -- instances 0 … n-1 exist
  ready : Nat → Bool := fun _ => false      -- has observed readiness since its last call

def Mon.step (m : Mon) : Ev → Option Mon
  | .clone s new => if s < m.n ∧ new = m.n then some { n := m.n + 1, ready := upd m.ready m.n false } else none
  | .poll i r => if i < m.n then some { m with ready := upd m.ready i (decide (r = .ready) || m.ready i) } else none
  | .call i _ => if i < m.n ∧ m.ready i = true then some { m with ready := upd m.ready i false } else none

def Mon.run (m : Mon) : List Ev → Option Mon
  | [] => some m
  | e :: es => match m.step e with
    | some m' => m'.run es
    | none => none

/-- the trace honours the readiness contract -/
def Respects (t : List Ev) : Prop := (Mon.run {} t).isSome
instance (t : List Ev) : Decidable (Respects t) := by unfold Respects; infer_instance

/-! ## one layer -/

structure Own where
  tag   : Nat
  armed : Bool
deriving DecidableEq, Repr

structure LSt where
  cur       : Nat → Option Nat := fun o => if o = 0 then some 0 else none   -- outer instance ↦ the inner instance it holds
  owned     : Nat → Option Own := fun _ => none   -- inner instances moved into in-flight requests
  pendClone : Option (Nat × Nat) := none          -- outer clone `(new, src)` whose inner clone has not happened yet
  opened    : Option (Nat × Nat) := none          -- outer `call o tag` being served: instance not yet taken / called
  lastReady : Option Nat := none                  -- inner instance whose `poll_ready` has just returned ready
  lastCall  : Option (Nat × Nat) := none          -- `(o, tag)` of the direct inner call just made for outer instance `o`
  nO        : Nat := 1                            -- number of outer instances so far
  nI        : Nat := 1                            -- number of inner instances so far

/-- an event seen by a layer: at its outer boundary, or performed by it at its inner boundary -/
inductive LIn
  | outer (e : Ev)
  | inner (e : Ev)
deriving DecidableEq, Repr

/-- the layer value is cloned: its inner service will be cloned next. (Any outer event means the previous
`call()` has returned: an outer call the layer answered without calling its inner service — a cache hit, a
coalesced waiter — is simply closed.) -/
def outerClone (s : LSt) (src new : Nat) : Option LSt :=
  if s.pendClone = none ∧ (s.cur src).isSome ∧ s.cur new = none ∧ new = s.nO then
    some { s with pendClone := some (new, src), opened := none, lastReady := none, lastCall := none, nO := s.nO + 1 }
  else none

/-- `poll_ready` is forwarded: it returns ready only when the held inner instance just did -/
def outerPoll (s : LSt) (o : Nat) (r : PollRes) : Option LSt :=
  if s.pendClone = none then
    match s.cur o with
    | some i => if r = .ready → s.lastReady = some i then some { s with opened := none, lastReady := none, lastCall := none } else none
    | none => none
  else none

def outerCall (s : LSt) (o tag : Nat) : Option LSt :=
  if s.pendClone = none ∧ (s.cur o).isSome then
    some { s with opened := some (o, tag), lastReady := none, lastCall := none }
  else none

def innerCloneCore (s : LSt) (src new : Nat) : Option LSt :=
  match s.pendClone with
  | some (onew, osrc) =>
      -- `#[derive(Clone)]`: the new layer value holds a clone of the source's inner service
      if s.cur osrc = some src then some { s with cur := upd s.cur onew (some new), pendClone := none, lastReady := none }
      else none
  | none =>
    match s.opened with
    | some (o, tag) =>
        -- `mem::replace(&mut self.inner, clone)`: the polled instance moves into the request
        if s.cur o = some src then
          some { s with cur := upd s.cur o (some new), owned := upd s.owned src (some { tag := tag, armed := true }),
                        opened := none, lastReady := none }
        else none
    | none =>
        -- a clone of an instance a request owns (hedge template / hedged attempt): never polled yet
        match s.owned src with
        | some ow => some { s with owned := upd s.owned new (some { tag := ow.tag, armed := false }), lastReady := none }
        | none =>
          -- a spare clone of the held instance, taken right after serving a call on it (reconnect keeps one for its
          -- retries): it belongs to that request and has never been polled
          match s.lastCall with
          | some (o, tag) =>
              if s.cur o = some src then
                some { s with owned := upd s.owned new (some { tag := tag, armed := false }), lastReady := none, lastCall := none }
              else none
          | none => none

/-- the layer clones an inner instance; the clone is the next inner instance -/
def innerClone (s : LSt) (src new : Nat) : Option LSt :=
  if new = s.nI then (innerCloneCore s src new).map fun s' => { s' with nI := s.nI + 1 } else none

def holds (s : LSt) (i : Nat) : Prop := ∃ o, s.cur o = some i

def innerPoll (s : LSt) (i : Nat) (r : PollRes) (held : Bool) : Option LSt :=
  match s.owned i with
  | some ow => some { s with owned := if r = .ready then upd s.owned i (some { ow with armed := true }) else s.owned,
                             lastReady := none }
  | none => if held then some { s with lastReady := if r = .ready then some i else none } else none

def innerCall (s : LSt) (i tag : Nat) : Option LSt :=
  match s.opened with
  | some (o, t) =>
      -- the layer calls `self.inner` itself, synchronously in `call()`
      if s.cur o = some i ∧ t = tag then some { s with opened := none, lastReady := none, lastCall := some (o, tag) } else none
  | none =>
      match s.owned i with
      | some ow => if ow.armed = true ∧ ow.tag = tag then
                     some { s with owned := upd s.owned i (some { ow with armed := false }), lastReady := none }
                   else none
      | none => none

/-- is inner instance `i` held by one of the outer instances? (executable form of `holds`) -/
def heldBy (s : LSt) (i : Nat) : Bool := (List.range s.nO).any fun o => s.cur o == some i

/-- guarded transition -/
def LSt.step (s : LSt) : LIn → Option LSt
  | .outer (.clone src new) => outerClone s src new
  | .outer (.poll o r) => outerPoll s o r
  | .outer (.call o tag) => outerCall s o tag
  | .inner (.clone src new) => innerClone s src new
  | .inner (.poll i r) => innerPoll s i r (heldBy s i)
  | .inner (.call i tag) => innerCall s i tag

def LSt.run (s : LSt) : List LIn → Option LSt
  | [] => some s
  | e :: es => match s.step e with
    | some s' => s'.run es
    | none => none

def outers : List LIn → List Ev
  | [] => []
  | .outer e :: tl => e :: outers tl
  | .inner _ :: tl => outers tl

def inners : List LIn → List Ev
  | [] => []
  | .outer _ :: tl => inners tl
  | .inner e :: tl => e :: inners tl

/-! ## a stack of `n` layers: boundaries `0 … n` -/

abbrev GEv := Nat × Ev

/-- what layer `j` (between boundaries `j` and `j+1`) sees of a global log -/
def view (j : Nat) : List GEv → List LIn
  | [] => []
  | (b, e) :: tl => if b = j then .outer e :: view j tl else if b = j + 1 then .inner e :: view j tl else view j tl

/-- the events at boundary `j` -/
def proj (j : Nat) : List GEv → List Ev
  | [] => []
  | (b, e) :: tl => if b = j then e :: proj j tl else proj j tl

/-- every one of the `n` layers can perform its part of the log -/
def Accepted (n : Nat) (g : List GEv) : Prop := ∀ j, j < n → ((LSt.run {} (view j g)).isSome)

/-! ## configured layers: what transparency means under a configuration

Every layer has knobs, and for every value of every knob there are requests for which the layer's protective
condition is not triggered: a retry layer that allows no retry (`max_attempts` 0 or 1), a fallback whose `handle`
predicate rejects the error at hand, a hedge with no room for a hedge (`max_hedged_attempts` 0 or 1), a time limiter
whose timeout is longer than the whole request took, a rate limiter / bulkhead / adaptive limiter / circuit breaker
whose limit the traffic of the whole case cannot reach. `denote` says what a stack of configured layers makes of ONE
request whose inner calls have the scripted outcomes `s` (the i-th inner call made for the request gets the i-th
outcome; beyond the script every call succeeds): how many inner calls are made and which answer comes back, as a
function — or `none` where the answer depends on more than the request itself (attempts racing each other, a limit
that other requests may have used up), which the model does not predict.

A service, as far as one request can tell, is a function from (inner calls made so far, outcomes still to come) to
(answer, inner calls made, outcomes left). Layers are functions from services to services. -/

/-- which inner errors a predicate of a layer accepts (`retry_on`, `handle`), by the kind of the error — the text the
layers below put around an error never hides its kind -/
inductive Pred
  | all              -- every error (no predicate configured)
  | none             -- no error
  | kind (k : Nat)   -- the errors of kind `k`
deriving DecidableEq, Repr

def Pred.holds : Pred → Nat → Bool
  | .all, _ => true
  | .none, _ => false
  | .kind k, kd => kd == k

/-- the fallback strategies -/
inductive Strat
  | value | valueFn | fromErr | fromReq | service | exc
deriving DecidableEq, Repr

/-- an error on its way up: the inner service's error `ierr<kind>:<serial>` of the request's `ord`-th inner call,
inside the text the layers have put around it -/
structure Err where
  pre  : String
  kind : Nat
  ord  : Nat
  post : String
deriving DecidableEq, Repr

/-- a layer's pass-through variant around an error of its inner service: `name(…)` -/
def Err.wrap (e : Err) (name : String) : Err := { e with pre := name ++ "(" ++ e.pre, post := e.post ++ ")" }

inductive Ans
  | ok (ord : Nat)     -- the response of the request's `ord`-th inner call, unchanged
  | lit (s : String)   -- a response a layer made up (a fallback value), rendered
  | err (e : Err)
deriving DecidableEq, Repr

def Ans.mapErr (f : Err → Err) : Ans → Ans
  | .err e => .err (f e)
  | a => a

/-- one layer in one configuration, as far as one request can tell -/
inductive LCfg
  /-- forwards once; an error comes back under the pass-through variant `name(…)` (bulkhead that waits for ever,
  cache / coalesce for a key of its own, executor, circuit breaker that cannot trip) -/
  | wrap (name : String)
  /-- forwards once; response and error unchanged (chaos with both rates 0: its error type is the inner one) -/
  | bare
  /-- a capacity of `cap` that rejects after waiting `wait` ms: untriggered for certain while the calls of the whole case
  so far number at most `cap`, or the request took less than `wait` (rate limiter, bulkhead with a bounded wait, adaptive
  limiter with min = max, circuit breaker below its minimum number of calls) -/
  | guard (name : String) (cap wait : Nat)
  /-- a time limit: untriggered for certain when the whole request took less than `timeout` ms -/
  | limiter (name : String) (timeout : Nat)
  /-- `max` attempts, the first one included, on errors that `p` accepts -/
  | retry (max : Nat) (p : Pred)
  | fallback (st : Strat) (p : Pred)
  /-- at most `n` attempts, the first one included; a hedge starts `delay` ms after the first (`none`: at once) -/
  | hedge (n : Nat) (delay : Option Nat)
  /-- errors of kind 1 are connection failures: re-issued after the policy's back-off (`policy`: there is one) at most
  `max` times (`none`: without limit), when `retry` is set -/
  | reconnect (max : Option Nat) (policy retry : Bool)
  /-- a triggering configuration the model does not predict -/
  | blackbox
deriving DecidableEq, Repr

/-- what else the answer may depend on -/
structure Ctx where
  tag    : Nat   -- the request's tag
  demand : Nat   -- upper bound on the calls made at any one boundary so far in the case
  span   : Nat   -- virtual time from the request's arrival to its answer

abbrev Svc := Nat → List Out → Option (Ans × Nat × List Out)

/-- the scripted inner service: the next outcome of the script; beyond the script, success -/
def base : Svc
  | k, [] => some (.ok (k + 1), k + 1, [])
  | k, .ok :: tl => some (.ok (k + 1), k + 1, tl)
  | k, .err kd :: tl => some (.err ⟨"", kd, k + 1, ""⟩, k + 1, tl)
  | _, _ :: _ => none

/-- forward once, hand the answer back with `f` around an error -/
def through (f : Err → Err) (inner : Svc) : Svc := fun k s =>
  match inner k s with
  | some (a, k', s') => some (a.mapErr f, k', s')
  | none => none

/-- the retry loop with `left` retries left: an error the predicate accepts is retried while there are retries left;
everything else — a success, an error the predicate rejects, the error of the last permitted attempt — is returned as it is -/
def retryGo (inner : Svc) (p : Pred) : Nat → Svc
  | 0, k, s => inner k s
  | left + 1, k, s =>
    match inner k s with
    | some (.err e, k', s') => if p.holds e.kind then retryGo inner p left k' s' else some (.err e, k', s')
    | r => r

/-- what a fallback strategy answers to an error it handles (the harness's instances of the six strategies) -/
def fallbackAns (st : Strat) (tag : Nat) (e : Err) : Ans :=
  match st with
  | .value => .lit "ok:999999:tag=999999"
  | .valueFn => .lit "ok:999998:tag=999998"
  | .fromErr => .lit "ok:999997:tag=999997"
  | .fromReq => .lit s!"ok:999996:tag={tag}"
  | .service => .lit s!"ok:999995:tag={tag}"
  | .exc => .err ((e.wrap "mapped").wrap "fallback")

/-- reconnect: `att` connection failures so far -/
def reconGo (inner : Svc) (max : Option Nat) (policy retry : Bool) : Nat → Nat → Svc
  | 0, _, _, _ => none
  | fuel + 1, att, k, s =>
    match inner k s with
    | some (.err e, k', s') =>
      if e.kind != 1 then some (.err (e.wrap "reconnect"), k', s')
      else if (match max with | some m => decide (m < att + 1) | none => false) then
        some (.err (e.wrap s!"reconnect!max_attempts:{att + 1}"), k', s')
      else if !policy then some (.err (e.wrap "reconnect!conn_failed"), k', s')
      else if !retry then some (.err (e.wrap "reconnect!no_retry"), k', s')
      else reconGo inner max policy retry fuel (att + 1) k' s'
    | r => r

/-- not predicted -/
def unknown : Svc := fun _ _ => none

def applyL (ctx : Ctx) : LCfg → Svc → Svc
  | .wrap name, inner => through (·.wrap name) inner
  | .bare, inner => inner
  | .guard name cap wait, inner => if ctx.demand ≤ cap ∨ ctx.span < wait then through (·.wrap name) inner else unknown
  | .limiter name t, inner => if ctx.span < t then through (·.wrap name) inner else unknown
  | .retry max p, inner => retryGo inner p (max - 1)
  | .fallback st p, inner => fun k s =>
      match inner k s with
      | some (.err e, k', s') =>
        if p.holds e.kind then some (fallbackAns st ctx.tag e, k', s') else some (.err (e.wrap "fallback"), k', s')
      | r => r
  | .hedge n delay, inner =>
      -- no room for a hedge: the one attempt's answer (its error as `AllAttemptsFailed`)
      if n ≤ 1 then through (·.wrap "hedge!all_failed") inner
      else match delay with
        | some d =>
          -- the request was answered before the first hedge was due: by the first attempt, successfully
          if ctx.span < d then fun k s =>
            match inner k s with
            | some (.err _, _, _) => none
            | r => r
          else unknown
        | none => unknown
  | .reconnect max policy retry, inner => fun k s => reconGo inner max policy retry (s.length + 2) 0 k s
  | .blackbox, _ => unknown

/-- a stack of configured layers, outermost first, over the scripted inner service -/
def denote (ctx : Ctx) : List LCfg → Svc
  | [] => base
  | l :: ls => applyL ctx l (denote ctx ls)

/-! ### untriggered layers -/

def errKind : Out → Option Nat
  | .err kd => some kd
  | _ => none

/-- the layer's protective condition is not triggered by a request whose (first) inner call has the outcome `o`:
the configuration leaves the layer nothing to do but forward the request and hand the answer back -/
def quiet (ctx : Ctx) (o : Out) : LCfg → Bool
  | .wrap _ => true
  | .bare => true
  | .guard _ cap wait => decide (ctx.demand ≤ cap ∨ ctx.span < wait)
  | .limiter _ t => decide (ctx.span < t)
  | .retry max p => decide (max ≤ 1) || !((errKind o).any p.holds)
  | .fallback _ p => !((errKind o).any p.holds)
  | .hedge n d => decide (n ≤ 1) || (o == .ok && (match d with | some dd => decide (ctx.span < dd) | none => false))
  | .reconnect _ _ _ => !(errKind o == some 1)
  | .blackbox => false

/-- the layer's pass-through variant around an answer of its inner service -/
def passOne : LCfg → Ans → Ans
  | .wrap name, a => a.mapErr (·.wrap name)
  | .guard name _ _, a => a.mapErr (·.wrap name)
  | .limiter name _, a => a.mapErr (·.wrap name)
  | .fallback _ _, a => a.mapErr (·.wrap "fallback")
  | .hedge _ _, a => a.mapErr (·.wrap "hedge!all_failed")
  | .reconnect _ _ _, a => a.mapErr (·.wrap "reconnect")
  | _, a => a

def passAll (ls : List LCfg) (a : Ans) : Ans := ls.foldr passOne a

/-- the scripted service's answer to the request's `n`-th call with outcome `o` -/
def answerOf (o : Out) (n : Nat) : Ans :=
  match o with
  | .err kd => .err ⟨"", kd, n, ""⟩
  | _ => .ok n

/-! ### the configurations of the harness's layers (`cf<j>=<knob>:<value>/…`, `rl=…`) -/

def parseCf (s : String) : List (String × String) :=
  (s.splitOn "/").filterMap fun it =>
    match it.splitOn ":" with
    | k :: v :: rest => some (k, ":".intercalate (v :: rest))
    | _ => none

def cfGet (cf : List (String × String)) (k : String) : Option String :=
  match cf with
  | [] => none
  | (a, b) :: tl => if a = k then some b else cfGet tl k

def cfNat (cf : List (String × String)) (k : String) (d : Nat) : Nat :=
  match cfGet cf k with
  | some v => v.toNat?.getD d
  | none => d

/-- `<ms>` or `max` (`Duration::MAX`: longer than any case) -/
def durOf (v : String) : Nat := if v = "max" then 18446744073709551615000 else v.toNat?.getD 0

def predOf (w : String) : Pred :=
  if w = "all" then .all else if w = "e1" then .kind 1 else if w = "e2" then .kind 2 else .none

def stratOf (w : String) : Strat :=
  if w = "valuefn" then .valueFn else if w = "fromerr" then .fromErr else if w = "fromreq" then .fromReq
  else if w = "service" then .service else if w = "exc" then .exc else .value

def nthNat (l : List String) (i : Nat) (d : Nat) : Nat :=
  match l[i]? with
  | some v => v.toNat?.getD d
  | none => d

/-- the layer `name` of the harness with the knobs `cf` (`rl`: the header's configuration of the rate limiters) -/
def lcfgOf (name : String) (cf : List (String × String)) (rl : String) : LCfg :=
  let hedge (n : Nat) (d : Option Nat) : LCfg :=
    .hedge (cfNat cf "n" n) (match cfGet cf "d" with
      | some v => if v = "none" then none else if durOf v = 0 then none else some (durOf v)
      | none => d)
  match name with
  | "bulkhead" =>
      match cfGet cf "mw" with
      | some v => .guard "bulkhead" (cfNat cf "mc" 100) (durOf v)
      | none => .wrap "bulkhead"
  | "bulkhead1" => .guard "bulkhead" 1 0
  | "bulkhead1w" => .guard "bulkhead" 1 10
  | "ratelimiter" =>
      let p := rl.splitOn ":"
      -- (a limiter that sees that the wait for a permit would exceed its timeout rejects at once: no `wait`)
      if rl = "" then .guard "ratelimiter" 100000 0 else .guard "ratelimiter" (nthNat p 0 100000) 0
  | "circuit" =>
      match cfGet cf "cb" with
      | some v =>
        let p := v.splitOn ":"
        if 100 < nthNat p 2 50 then .wrap "circuit" else .guard "circuit" (nthNat p 1 1000 - 1) 0
      | none => .guard "circuit" 999 0
  | "timelimiter" | "timelimiter_nocancel" =>
      .limiter "timelimiter" (match cfGet cf "to" with | some v => durOf v | none => 3600000)
  -- (`po`: predicate installed before / after the back-off setter, `bk`: which back-off setter, `bo`, `maf`: not a
  -- configuration as far as a request can tell — see `retry_configuration_is_order_free`)
  | "retry" => .retry (cfNat cf "ma" 3) (predOf ((cfGet cf "ro").getD "e1"))
  | "cache" => .wrap "cache"
  | "fallback" =>
      -- (`hp:unset`: no `handle` predicate configured — every error is handled)
      let hp := (cfGet cf "hp").getD "never"
      .fallback (stratOf ((cfGet cf "st").getD "value")) (if hp = "unset" then .all else predOf hp)
  | "hedge" => hedge 2 (some 3600000)
  | "hedge1" => hedge 1 (some 3600000)
  | "hedge_fire" => hedge 2 (some 5)
  | "hedge_parallel" => hedge 3 none
  | "reconnect" =>
      .reconnect (match cfGet cf "ma" with | some v => if v = "unl" then none else some (v.toNat?.getD 2) | none => some 2)
        ((cfGet cf "pol").getD "fixed" != "none") (cfNat cf "ror" 1 == 1)
  | "adaptive" => .guard "adaptive" (match cfGet cf "lim" with | some v => v.toNat?.getD 500 | none => 500) 0
  | "coalesce" => .wrap "coalesce"
  -- (`ex:handle|new|cur`: however the layer was told its runtime; the caller's thread — `arrive … off=1` — is no part of the model)
  | "executor" => .wrap "executor"
  | "chaos" => .bare
  | _ => .blackbox

/-- serial of the request's `ord`-th (1, 2, …) inner call: its position among the calls at the innermost boundary -/
def nthIdx : List Nat → Nat → Nat → Nat → Option Nat
  | [], _, _, _ => none
  | t :: tl, tag, ord, i =>
    if t = tag then (if ord ≤ 1 then some i else nthIdx tl tag (ord - 1) (i + 1)) else nthIdx tl tag ord (i + 1)

def showSerial (bottom : List Nat) (tag ord : Nat) : String :=
  match nthIdx bottom tag ord 0 with
  | some k => toString k
  | none => s!"#{ord}"

/-- the answer in the harness's grammar; `bottom`: the tags of the calls at the innermost boundary, in order -/
def Ans.render (bottom : List Nat) (tag : Nat) : Ans → String
  | .ok ord => s!"ok:{showSerial bottom tag ord}:tag={tag}"
  | .lit s => s
  | .err e => s!"err:{e.pre}ierr{e.kind}:{showSerial bottom tag e.ord}{e.post}"

/-! ## readiness errors surface

`poll_ready` is forwarded: when the inner instance a layer holds for its caller answers with an error, the layer's own
`poll_ready` — the one in which that happened — answers with an error, and it answers with an error only then. `YSt` is
`LSt` with that one register: the held inner instance whose `poll_ready` has just failed. While it is set, the one thing
the layer can do is hand the failure up. (Instances a layer owns — retry, hedge and reconnect poll those themselves —
fail into the call's answer instead: no register.) -/

structure YSt where
  l    : LSt := {}
  pend : Option Nat := none     -- a held inner instance whose readiness error has not been handed up yet

def YSt.step (y : YSt) (x : LIn) : Option YSt :=
  match y.pend with
  | some i =>
    match x with
    | .outer (.poll o .err) => if y.l.cur o = some i then (y.l.step x).map fun l' => { l := l', pend := none } else none
    | _ => none
  | none =>
    match x with
    | .outer (.poll _ .err) => none
    | .inner (.poll i .err) => (y.l.step x).map fun l' => { l := l', pend := if heldBy y.l i then some i else none }
    | _ => (y.l.step x).map fun l' => { l := l', pend := none }

def YSt.run (y : YSt) : List LIn → Option YSt
  | [] => some y
  | e :: es => match y.step e with
    | some y' => y'.run es
    | none => none

/-! ## answers at the boundaries

The call futures are observed too: `ret k tag r` — the future of the k-th call at a boundary, made for request `tag`,
has resolved with `r`. `RSt` is what a layer in configuration `c` can do about answers, as a guarded transition like
`LSt`: which outer calls it has not forwarded yet (`wait`), which inner calls are in flight (`inflight`, with the number
of the attempt), which inner answers it has not handed up yet (`got`). An inner call needs an outer call that has not
been forwarded — or, for the layers that re-issue, a failed attempt that the configuration allows to repeat (`reissue`),
or room for a hedge; an answer handed up needs an inner answer it is made of according to the configuration's rule
(`answerOK`: unchanged under the pass-through variant; for retry the LAST attempt's, when the attempts are used up or
the predicate rejects the error; for fallback what the strategy makes of an accepted error; …), or it is the layer's
own refusal of a call it had not forwarded (`ownOK`). Counters per request tag are kept next to the lists so that
"at most once" is plain arithmetic. -/

inductive RVal
  | ok (v tag : Nat)
  | err (text : String)
deriving DecidableEq, Repr

inductive XEv
  | ev (e : Ev)
  | ret (k tag : Nat) (r : RVal)
deriving DecidableEq, Repr

inductive XIn
  | outer (e : XEv)
  | inner (e : XEv)
deriving DecidableEq, Repr

/-- the pass-through variant `name(…)` around an error; a response is not touched -/
def RVal.wrap (name : String) : RVal → RVal
  | .err t => .err (name ++ "(" ++ t ++ ")")
  | r => r

def digitsVal (cs : List Char) : Option Nat :=
  let ds := cs.takeWhile Char.isDigit
  if ds.isEmpty then none else some (ds.foldl (fun n c => 10 * n + (c.toNat - 48)) 0)

/-- what follows the first occurrence of `pat` -/
def afterFirst (pat : List Char) : List Char → Option (List Char)
  | [] => if pat.isEmpty then some [] else none
  | c :: tl => if pat.isPrefixOf (c :: tl) then some ((c :: tl).drop pat.length) else afterFirst pat tl

/-- the kind of the inner service's error inside an error text: the number after the first `ierr` -/
def kindOf (text : String) : Option Nat :=
  match afterFirst "ierr".toList text.toList with
  | some rest => digitsVal rest
  | none => none

/-- does the predicate accept this answer as an error to act on? (an error of a layer's own, without an inner error in
it, is accepted only by "every error") -/
def Pred.accepts (p : Pred) : RVal → Bool
  | .err t => match kindOf t with
    | Option.some k => p.holds k
    | Option.none => p == .all
  | .ok _ _ => false

/-- a connection failure for the harness's reconnect layer: an error of kind 1 -/
def isConn : RVal → Bool
  | .err t => kindOf t == some 1
  | .ok _ _ => false

/-- an error of the layer's own: `name!…` -/
def isOwn (name : String) : RVal → Bool
  | .err t => (name ++ "!").toList.isPrefixOf t.toList
  | .ok _ _ => false

/-- what the harness's instance of a fallback strategy makes of an error with text `text` of request `tag` -/
def fbVal (st : Strat) (tag : Nat) (text : String) : RVal :=
  match st with
  | .value => .ok 999999 999999
  | .valueFn => .ok 999998 999998
  | .fromErr => .ok 999997 999997
  | .fromReq => .ok 999996 tag
  | .service => .ok 999995 tag
  | .exc => .err ("fallback(mapped(" ++ text ++ "))")

structure Flight where
  k   : Nat
  tag : Nat
  att : Nat      -- which attempt of its outer call this is (1 = the first)
deriving DecidableEq, Repr

structure Got where
  tag : Nat
  att : Nat
  r   : RVal
deriving DecidableEq, Repr

/-- the first element with the property, and the rest -/
def takeFirst {α : Type} (p : α → Bool) : List α → Option (α × List α)
  | [] => none
  | x :: tl => if p x then some (x, tl) else
    match takeFirst p tl with
    | some (y, tl') => some (y, x :: tl')
    | none => none

structure RSt where
  wait     : Nat → Nat := fun _ => 0      -- outer calls not forwarded yet, per tag
  spare    : Nat → Nat := fun _ => 0      -- further attempts a hedge may start side by side, per tag
  inflight : List Flight := []
  got      : List Got := []               -- inner answers not handed up yet
  answered : List (Nat × RVal) := []      -- answers handed up so far
  nIC      : Nat := 0                     -- inner calls so far (the next one's number)
  -- counters per tag
  oc   : Nat → Nat := fun _ => 0          -- outer calls
  ic   : Nat → Nat := fun _ => 0          -- inner calls
  ir   : Nat → Nat := fun _ => 0          -- inner answers
  ors  : Nat → Nat := fun _ => 0          -- answers handed up that are made of an inner answer
  own  : Nat → Nat := fun _ => 0          -- answers the layer gave itself
  fly  : Nat → Nat := fun _ => 0          -- inner calls in flight
  held : Nat → Nat := fun _ => 0          -- inner answers not handed up yet
  re   : Nat → Nat := fun _ => 0          -- failed attempts that were re-issued
  perr : Nat := 0                         -- readiness errors of the inner service not accounted for yet
  multi : Nat → Bool := fun _ => false    -- tags for which the layer has served several calls at a time (hedged copies from above)
  seen : List (Nat × RVal) := []          -- every inner answer so far, with its tag

/-- how many attempts of one outer call a hedge may have side by side -/
def hedgeN : LCfg → Nat
  | .hedge n _ => n
  | _ => 1

/-- may the failed attempt `g` be repeated? (`m`: the layer has served several calls for this tag side by side — copies
sent by a hedge above —, whose attempts cannot be told apart by the tag: the count of attempts is not checked then) -/
def reissue (c : LCfg) (m : Bool) (g : Got) : Bool :=
  match c with
  | .retry max p => p.accepts g.r && (m || decide (g.att < Nat.max max 1))
  | .reconnect max policy retry =>
      isConn g.r && policy && retry && (m || (match max with | some mx => decide (g.att ≤ mx) | none => true))
  | _ => false

/-- is `ro` what the layer makes of the inner answer `g` of request `t`? -/
def answerOK (c : LCfg) (m : Bool) (t : Nat) (g : Got) (ro : RVal) : Bool :=
  match c with
  | .wrap name => ro == g.r.wrap name
  | .guard name _ _ => ro == g.r.wrap name
  | .limiter name _ => ro == g.r.wrap name
  | .bare => ro == g.r
  | .retry max p => ro == g.r && (!(p.accepts g.r) || m || decide (Nat.max max 1 ≤ g.att))
  | .fallback st p =>
      match g.r with
      | .err text => if p.accepts g.r then ro == fbVal st t text else ro == g.r.wrap "fallback"
      | .ok _ _ => ro == g.r
  | .hedge _ _ =>
      match g.r with
      | .ok _ _ => ro == g.r
      -- (all attempts failed: the error of the first attempt that reported one)
      | .err _ => ro == g.r.wrap "hedge!all_failed"
  | .reconnect max policy retry =>
      if !isConn g.r then ro == g.r.wrap "reconnect"
      else if m then isOwn "reconnect" ro
      else if (match max with | some m => decide (m < g.att) | none => false) then ro == g.r.wrap s!"reconnect!max_attempts:{g.att}"
      else if !policy then ro == g.r.wrap "reconnect!conn_failed"
      else if !retry then ro == g.r.wrap "reconnect!no_retry"
      else false
  | .blackbox => true

/-- layers that answer a request from what they answered to another request with its key (tag modulo 1000) -/
def keyedName (name : String) : Bool := name == "cache" || name == "coalesce"

/-- may the layer answer request `t` itself with `ro`? -/
def ownOK (c : LCfg) (s : RSt) (t : Nat) (ro : RVal) : Bool :=
  match c with
  | .wrap name =>
      isOwn name ro ||
      (keyedName name && decide (0 < s.wait t) && s.answered.any fun (t', r') => t' % 1000 == t % 1000 && r' == ro)
  | .guard name _ _ => isOwn name ro
  | .limiter name _ => isOwn name ro
  -- the layers that poll an instance themselves before a further attempt: when that `poll_ready` fails there is no
  -- attempt, the readiness error is the answer (retry: as it is; reconnect: as a service error)
  | .retry _ _ => decide (0 < s.perr) && (match ro with | .err _ => true | .ok _ _ => false)
  | .reconnect _ _ _ => decide (0 < s.perr) && (match ro with | .err _ => true | .ok _ _ => false)
  -- (a hedged attempt whose instance fails `poll_ready` fails with that error)
  | .hedge _ _ => decide (0 < s.perr) && isOwn "hedge" ro
  | _ => false

/-- is there room for one more attempt for tag `t`, all its outer calls taken together? (each outer call may have
`max` attempts; this bound also holds when several calls for one tag are served side by side) -/
def room (c : LCfg) (s : RSt) (t : Nat) : Bool :=
  match c with
  | .retry max _ => decide (s.ic t < Nat.max max 1 * s.oc t)
  | .reconnect max policy retry =>
      policy && retry && (match max with | some m => decide (s.ic t < (m + 1) * s.oc t) | none => true)
  | _ => false

/-- an inner call for `t` goes out: attempt number `att` of its outer call -/
def launch (s : RSt) (t att : Nat) : RSt :=
  { s with inflight := ⟨s.nIC, t, att⟩ :: s.inflight, nIC := s.nIC + 1, ic := upd s.ic t (s.ic t + 1),
           fly := upd s.fly t (s.fly t + 1) }

def innerCallR (c : LCfg) (s : RSt) (t : Nat) : Option RSt :=
  if c = .blackbox then some { s with nIC := s.nIC + 1 } else
  if 0 < s.wait t then
    -- an outer call that has not been forwarded yet
    some (launch { s with wait := upd s.wait t (s.wait t - 1), spare := upd s.spare t (s.spare t + (hedgeN c - 1)) } t 1)
  else match takeFirst (fun g => g.tag == t && reissue c (s.multi t) g) s.got with
    | some (g, got') =>
      -- a failed attempt that the configuration allows to repeat
      if 0 < s.held t ∧ room c s t = true then
        some (launch { s with got := got', held := upd s.held t (s.held t - 1), re := upd s.re t (s.re t + 1) } t (g.att + 1))
      else none
    | none =>
      -- a hedged attempt next to the first one
      if 0 < s.spare t then some (launch { s with spare := upd s.spare t (s.spare t - 1) } t 2) else none

def innerRetR (c : LCfg) (s : RSt) (k t : Nat) (r : RVal) : Option RSt :=
  match takeFirst (fun f => f.k == k && f.tag == t) s.inflight with
  | some (f, fl') =>
    if 0 < s.fly t then
      some { s with inflight := fl', fly := upd s.fly t (s.fly t - 1), got := ⟨t, f.att, r⟩ :: s.got,
                    held := upd s.held t (s.held t + 1), ir := upd s.ir t (s.ir t + 1), seen := (t, r) :: s.seen }
    else none
  | none => if c = .blackbox then some s else none

def outerRetR (c : LCfg) (s : RSt) (t : Nat) (ro : RVal) : Option RSt :=
  if c = .blackbox then some s else
  if s.ors t + s.own t < s.oc t then
    match takeFirst (fun g => g.tag == t && answerOK c (s.multi t) t g ro) s.got with
    | some (_, got') =>
      if 0 < s.held t then
        some { s with got := got', held := upd s.held t (s.held t - 1), ors := upd s.ors t (s.ors t + 1),
                      answered := (t, ro) :: s.answered }
      else none
    | none =>
      if ownOK c s t ro then
        some { s with wait := upd s.wait t (s.wait t - 1), own := upd s.own t (s.own t + 1), answered := (t, ro) :: s.answered,
                      perr := s.perr - 1 }
      else none
  else none

def RSt.step (c : LCfg) (s : RSt) : XIn → Option RSt
  | .outer (.ev (.call _ t)) =>
      some { s with wait := upd s.wait t (s.wait t + 1), oc := upd s.oc t (s.oc t + 1),
                    multi := if s.ors t + s.own t < s.oc t then upd s.multi t true else s.multi }
  | .outer (.ev _) => some s
  | .inner (.ev (.call _ t)) => innerCallR c s t
  | .inner (.ev (.poll _ .err)) => some { s with perr := s.perr + 1 }
  | .inner (.ev _) => some s
  | .inner (.ret k t r) => innerRetR c s k t r
  | .outer (.ret _ t ro) => outerRetR c s t ro

def RSt.run (c : LCfg) (s : RSt) : List XIn → Option RSt
  | [] => some s
  | e :: es => match s.step c e with
    | some s' => s'.run c es
    | none => none

/-! counting the events of a layer's view, per request tag -/

def cntOC (t : Nat) : List XIn → Nat
  | [] => 0
  | .outer (.ev (.call _ t')) :: tl => (if t' = t then 1 else 0) + cntOC t tl
  | _ :: tl => cntOC t tl

def cntIC (t : Nat) : List XIn → Nat
  | [] => 0
  | .inner (.ev (.call _ t')) :: tl => (if t' = t then 1 else 0) + cntIC t tl
  | _ :: tl => cntIC t tl

def cntIR (t : Nat) : List XIn → Nat
  | [] => 0
  | .inner (.ret _ t' _) :: tl => (if t' = t then 1 else 0) + cntIR t tl
  | _ :: tl => cntIR t tl

def cntOR (t : Nat) : List XIn → Nat
  | [] => 0
  | .outer (.ret _ t' _) :: tl => (if t' = t then 1 else 0) + cntOR t tl
  | _ :: tl => cntOR t tl

/-- a configuration in which a layer never makes more than one inner call for an outer call -/
def single : LCfg → Bool
  | .retry max _ => decide (max ≤ 1)
  | .hedge n _ => decide (n ≤ 1)
  | .reconnect max policy retry => !policy || !retry || max == some 0
  | .blackbox => false
  | _ => true

abbrev XG := Nat × XEv

def xview (j : Nat) : List XG → List XIn
  | [] => []
  | (b, e) :: tl => if b = j then .outer e :: xview j tl else if b = j + 1 then .inner e :: xview j tl else xview j tl

def xproj (j : Nat) : List XG → List XEv
  | [] => []
  | (b, e) :: tl => if b = j then e :: xproj j tl else xproj j tl

/-- the calls made for request `t` at one boundary -/
def calls (t : Nat) : List XEv → Nat
  | [] => 0
  | .ev (.call _ t') :: tl => (if t' = t then 1 else 0) + calls t tl
  | _ :: tl => calls t tl

/-- the layers `cfgs` (outermost first) sit between the boundaries `j`, `j + 1`, …: each of them, in its configuration,
can do what the global log says happened at its two boundaries -/
def AcceptedFrom (g : List XG) : List LCfg → Nat → Prop
  | [], _ => True
  | c :: cs, j => (RSt.run c {} (xview j g)).isSome ∧ AcceptedFrom g cs (j + 1)

/-- what a pass-through configuration does to the answer of its inner service -/
def passR : LCfg → Option (RVal → RVal)
  | .wrap name => some (RVal.wrap name)
  | .guard name _ _ => some (RVal.wrap name)
  | .limiter name _ => some (RVal.wrap name)
  | .bare => some id
  | _ => none

/-- where an answer `r` to request `t` seen at boundary `j` comes from, the layers `cfgs` lying below that boundary:
it is the wrapped service's own answer (no layer left), or the layer right below the boundary gave it itself (a refusal
`name!…` of its own, a cached / coalesced answer), or it is that layer's pass-through variant around an answer that
is explained one boundary further down -/
def Explained (g : List XG) (t : Nat) : List LCfg → Nat → RVal → Prop
  | [], j, r => ∃ k, XEv.ret k t r ∈ xproj j g
  | c :: cs, j, r =>
      (∃ s0, ownOK c s0 t r = true) ∨ ∃ f ri, passR c = some f ∧ r = f ri ∧ Explained g t cs (j + 1) ri

/-! ## line protocol: the driver replays the implementation's boundary events (`@ev=b<j>:…`) -/

/-- a request of the case -/
structure RInfo where
  tag    : Nat
  script : List Out
  t0     : Nat              -- instant of its arrival
  called : Bool := false    -- it has been handed to the outermost layer (`b0 call … <tag>`)

structure DState where
  n      : Nat
  layers : List (Option YSt)          -- `none` = that layer has already rejected an event
  resps  : List (Option RSt) := []    -- the layers' bookkeeping of answers
  mons   : List (Option Mon)
  now    : Nat := 0
  cfgs   : List LCfg := []            -- the layers' configurations, outermost first
  reqs   : List (Nat × RInfo) := []
  bottom : List Nat := []             -- tags of the calls at the innermost boundary, in order (the i-th has serial i)
  fanout : Nat := 1                   -- attempts a request may have side by side (product of the hedges' `n`)
  demand : Nat := 0                   -- upper bound on the calls at any one boundary so far
  keyed  : Bool := false              -- a cache / coalesce layer is in the stack
  echo   : Bool := false              -- answers are not predicted (any more): see `machine`
  owedSeen : List (Nat × Nat) := []   -- (layer, tag): reported as unforwarded by a detaching layer (see `owed`)

def parseRVal (ws : List String) : RVal :=
  match ws with
  | "ok" :: v :: rest =>
      -- `ok:<v>:tag=<t>`
      .ok (v.toNat?.getD 0) (match rest with | t :: _ => ((t.drop 4).toString.toNat?.getD 0) | [] => 0)
  | "err" :: rest => .err (":".intercalate rest)
  | _ => .err (":".intercalate ws)

def parseEv (s : String) : Option XG :=
  match s.splitOn ":" with
  | [b, "clone", x, y] => some ((b.drop 1).toString.toNat?.getD 0, .ev (.clone (x.toNat?.getD 0) (y.toNat?.getD 0)))
  | [b, "poll", x, r] =>
      some ((b.drop 1).toString.toNat?.getD 0,
        .ev (.poll (x.toNat?.getD 0) (if r = "ready" then .ready else if r = "pending" then .pending else .err)))
  | [b, "call", x, t] => some ((b.drop 1).toString.toNat?.getD 0, .ev (.call (x.toNat?.getD 0) (t.toNat?.getD 0)))
  | b :: "ret" :: k :: t :: rest =>
      some ((b.drop 1).toString.toNat?.getD 0, .ret (k.toNat?.getD 0) (t.toNat?.getD 0) (parseRVal rest))
  | _ => none

def RVal.render : RVal → String
  | .ok v t => s!"ok:{v}:tag={t}"
  | .err t => s!"err:{t}"

def renderEv (g : XG) : String :=
  match g.2 with
  | .ev (.clone s n) => s!"b{g.1} clone {s} {n}"
  | .ev (.poll i r) => s!"b{g.1} poll {i} {match r with | .ready => "ready" | .pending => "pending" | .err => "err"}"
  | .ev (.call i t) => s!"b{g.1} call {i} {t}"
  | .ret k t r => s!"b{g.1} ret {k} {t} {r.render}"

def stepAt {α : Type} (l : List (Option α)) (j : Nat) (f : α → Option α) : List (Option α) × Bool :=
  match l[j]? with
  | some (some a) => match f a with
    | some a' => (l.set j (some a'), true)
    | none => (l.set j none, false)
  | some none => (l, true)      -- already reported
  | none => (l, true)

/-- feed one observed boundary event to the layer above it (as inner), the boundary's monitor,
and the layer below it (as outer); report what was rejected -/
def cfgAt (d : DState) (j : Nat) : LCfg := (d.cfgs[j]?).getD .blackbox

def feed (d : DState) (g : XG) : DState × List TR.Ev :=
  let (b, x) := g
  -- the answers: the layer above this boundary (its inner side), the layer below it (its outer side)
  let (rs1, okr1) := if b > 0 then stepAt d.resps (b - 1) (fun s => s.step (cfgAt d (b - 1)) (.inner x)) else (d.resps, true)
  let (rs2, okr2) := if b < d.n then stepAt rs1 b (fun s => s.step (cfgAt d b) (.outer x)) else (rs1, true)
  let d := { d with resps := rs2 }
  let routs :=
    (if okr1 then [] else [s!"not-allowed layer {b - 1} in its configuration cannot perform {renderEv g}"]) ++
    (if okr2 then [] else [s!"not-allowed layer {b} in its configuration cannot answer {renderEv g}"])
  match x with
  | .ret _ _ _ => (d, (routs ++ [renderEv g]).map TR.Ev.raw)
  | .ev e =>
    let (ls1, ok1) := if b > 0 then stepAt d.layers (b - 1) (fun s => s.step (.inner e)) else (d.layers, true)
    let (ms, okm) := stepAt d.mons b (fun m => m.step e)
    let (ls2, ok2) := if b < d.n then stepAt ls1 b (fun s => s.step (.outer e)) else (ls1, true)
    let outs :=
      (if ok1 then [] else [s!"not-allowed layer {b - 1} cannot perform {renderEv g}"]) ++
      (if okm then [] else [s!"contract-violated at boundary {b}: {renderEv g}"]) ++
      (if ok2 then [] else [s!"not-allowed layer {b} cannot be driven by {renderEv g}"]) ++
      routs ++ [renderEv g]
    ({ d with layers := ls2, mons := ms }, outs.map TR.Ev.raw)

/-- `@fin=<c>:<answer>`: request `c` has been answered. The model's `result` line carries the answer `denote` predicts
from the layers' configurations and the request's scripted outcomes — with the number of inner calls it predicts, when
that is not the number made — wherever it predicts one; otherwise the observed answer (nothing is claimed). Not
predicted: a request that was not handed to the stack (`readyerr`, `notready`), one that shares its key with another
one under a cache / coalesce layer, everything after a caller was dropped (what was cancelled is not the request's own doing), and the cases
in which readiness errors meet re-issued attempts or a `Buffer` meets racing attempts (`echo`). -/
def answered (d : DState) (c : Nat) (seen : String) : TR.Ev :=
  let out (s : String) : TR.Ev := .result c (.custom s)
  match lookup d.reqs c with
  | none => out seen
  | some r =>
    -- another request with its key (cache, coalesce: tag modulo 1000) may have led, joined or fed it
    let shared := d.keyed && d.reqs.any fun (c', r') => c' != c && r'.tag % 1000 = r.tag % 1000
    if d.echo || !r.called || shared then out seen else
    match denote { tag := r.tag, demand := d.demand, span := d.now - r.t0 } d.cfgs 0 r.script with
    | none => out seen
    | some (a, k, _) =>
      let made := (d.bottom.filter (· == r.tag)).length
      out (a.render d.bottom r.tag ++ (if made = k then "" else s!" forwarded={made} expected={k}"))

/-- how many calls one request can cause at any one boundary, attempts side by side apart: a request is re-issued only
after a call made for it has failed, and beyond its script every call succeeds -/
def callsBound (script : List Out) : Nat := (script.filter (· != .ok)).length + 1

def markCalled (reqs : List (Nat × RInfo)) (tag : Nat) : List (Nat × RInfo) :=
  reqs.map fun (c, r) => if r.tag = tag then (c, { r with called := true }) else (c, r)

/-- layers that move the wrapped call into a task of their own, which runs to completion whatever becomes of the caller's
future (executor: "when the response future is dropped, the spawned task continues to run to completion") -/
def detaches : LCfg → Bool
  | .wrap name => name == "executor"
  | _ => false

/-- the requests (tags) a layer has been called with and has neither forwarded nor answered itself -/
def unforwarded (s : RSt) (tags : List Nat) : List Nat := tags.filter fun t => decide (0 < s.wait t)

/-- after every operation (the runtime has had its turn: the spawned tasks were polled) a detaching layer has forwarded
every request it was called with — whether or not the caller still holds, or ever polled, the call future
(`arrive … gone=1`, `drop`): `not-allowed …` is a line the implementation never prints, i.e. a disagreement
(reported once per layer and request: `DState.owedSeen`) -/
def owed (d : DState) : List (Nat × Nat) :=
  ((List.range d.n).zip (d.cfgs.zip d.resps)).flatMap fun (j, c, r) =>
    match r with
    | some s => if detaches c then ((unforwarded s (d.reqs.map (·.2.tag))).eraseDups).map fun t => (j, t) else []
    | none => []

/-- one word of an operation line: a boundary event or an answer the implementation recorded -/
def word (acc : DState × List TR.Ev) (w : String) : DState × List TR.Ev :=
  let d := acc.1
  if w.startsWith "@ev=" then
    match parseEv (w.drop 4).toString with
    | some g =>
      let r := feed d g
      let d' := r.1
      let d' := match g with
        | (b, .ev (.call _ tag)) =>
          let d1 := if b = 0 then { d' with reqs := markCalled d'.reqs tag } else d'
          if b = d1.n then { d1 with bottom := d1.bottom ++ [tag] } else d1
        | _ => d'
      (d', acc.2 ++ r.2)
    | none => acc
  else if w.startsWith "@fin=" then
    let body := (w.drop 5).toString
    match body.splitOn ":" with
    | c :: rest => (d, acc.2 ++ [answered d (c.toNat?.getD 0) (":".intercalate rest)])
    | [] => acc
  else acc

def machine : Machine where
  σ := DState
  init kv :=
    let names := ((kv.str "layers" "").splitOn ",").filter (· ≠ "")
    let n := names.length
    let cfgs := (List.range n).zipWith (fun j name => lcfgOf name (parseCf (kv.str s!"cf{j}" "")) (kv.str "rl" "")) names
    let fanout := cfgs.foldl (fun acc l => match l with | .hedge m _ => acc * (if m = 0 then 1 else m) | _ => acc) 1
    let reissues := cfgs.any fun l => match l with
      | .retry m _ => decide (2 ≤ m) | .reconnect _ _ _ => true | .hedge m _ => decide (2 ≤ m) | _ => false
    let racing := cfgs.any fun l => match l with | .hedge m _ => decide (2 ≤ m) | _ => false
    let probes := (kv.nat "lq" 0 + kv.nat "lqe" 0) * callsBound ((parsePlan (kv.str "lqinner" "0:ok")).map (·.out))
    { n := n, layers := List.replicate n (some {}), resps := List.replicate n (some {}), mons := List.replicate (n + 1) (some {}),
      cfgs := cfgs, fanout := fanout, demand := probes * fanout,
      keyed := names.any (fun x => x = "cache" || x = "coalesce"),
      echo := ((kv.str "ready" "").toList.any (· == 'e') && reissues) || (kv.str "inner" "strict" = "buffer" && racing) }
  step := fun d ws =>
    let d := match ws with
      | "adv" :: ms :: _ => { d with now := d.now + ms.toNat?.getD 0 }
      | "drop" :: _ => { d with echo := true }
      | "arrive" :: c :: rest =>
        let kv := parseKv rest
        let c := c.toNat?.getD 0
        let tag := kv.nat "tag" c
        let script := (planOf kv).map (·.out)
        { d with reqs := d.reqs ++ [(c, { tag := tag, script := script, t0 := d.now })],
                 demand := d.demand + callsBound script * d.fanout,
                 -- two requests with one tag cannot be told apart at the innermost boundary;
                 -- `gone=1`: the call future is dropped at once, never polled — a dropped caller (see `drop`)
                 -- `clonepanic=1`: copying the error of this request's inner call unwinds (code of the wrapped service, not
                 -- of a layer): what becomes of the requests that meet it is not predicted
                 echo := d.echo || (d.reqs.any fun (_, r) => r.tag = tag) || kv.nat "gone" 0 = 1 || kv.nat "clonepanic" 0 = 1 }
      | _ => d
    let r := ws.foldl word (d, [])
    let fresh := (owed r.1).filter fun x => !r.1.owedSeen.contains x
    ({ r.1 with owedSeen := r.1.owedSeen ++ fresh },
     r.2 ++ fresh.map fun (j, t) =>
       TR.Ev.raw s!"not-allowed layer {j} runs the call in a task of its own: it cannot leave request {t} unforwarded (no b{j + 1} call … {t}) once it was called with it, whatever became of the caller")
  now := fun d => d.now

end TR.Stack
