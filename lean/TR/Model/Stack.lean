import TR.Model.Common
/-!
# Stacks of layers and the Tower readiness contract (C20)

At every service *boundary* the observable events are `clone src new` (the new instance gets the
next id), `poll i r` (`poll_ready` on instance `i` returned `r`) and `call i tag`.

* `Mon` is the strict inner service as a function: a `call i` is legal only on an existing
  instance that has observed readiness since its previous call (a fresh clone has not).
* `LSt` is the bookkeeping every layer's code does, written once for all thirteen layers: which
  inner instance each outer instance holds (`cur`), which inner instances have been *moved into*
  in-flight requests (`owned`: the `mem::replace` idiom, plus clones of those for hedged
  attempts), and whether such an instance may be called (`armed`: it was taken over from an
  outer instance on which the caller had observed readiness, or the layer itself has polled it
  ready since its last call — `poll_fn(poll_ready).await` before a retry / hedge / reconnect
  attempt). `LSt.step` is a guarded transition: `none` = the layer did something its idiom
  cannot do (e.g. the pinned `self.inner.clone()` followed by a call of the never-polled clone).
* A stack is a list of such layers; a global log is a list of `(boundary, event)` in the order
  in which things happened (single-threaded harness), boundary 0 being the caller's.
-/
namespace TR.Stack

inductive PollRes
  | ready
  | pending
  | err
deriving DecidableEq, Repr

inductive Ev
  | clone (src new : Nat)
  | poll (i : Nat) (r : PollRes)
  | call (i : Nat) (tag : Nat)
deriving DecidableEq, Repr

/-- point update of a function-valued map -/
def upd {α : Type} (f : Nat → α) (i : Nat) (v : α) : Nat → α := fun j => if j = i then v else f j

/-! ## the contract at one boundary -/

structure Mon where
  n     : Nat := 1                          -- instances 0 … n-1 exist
  ready : Nat → Bool := fun _ => false      -- has observed readiness since its last call

def Mon.step (m : Mon) : Ev → Option Mon
  | .clone s new => if s < m.n ∧ new = m.n then some { n := m.n + 1, ready := upd m.ready m.n false } else none
  | .poll i r => if i < m.n then some { m with ready := upd m.ready i (decide (r = .ready) || m.ready i) } else none
  | .call i _ => if i < m.n ∧ m.ready i = true then some { m with ready := upd m.ready i false } else none

def Mon.run (m : Mon) : List Ev → Option Mon
  | [] => some m
  | e :: es => match m.step e with
    | some m' => m'.run es
    | none => none

/-- the trace honours the readiness contract -/
def Respects (t : List Ev) : Prop := (Mon.run {} t).isSome
instance (t : List Ev) : Decidable (Respects t) := by unfold Respects; infer_instance

/-! ## one layer -/

structure Own where
  tag   : Nat
  armed : Bool
deriving DecidableEq, Repr

structure LSt where
  cur       : Nat → Option Nat := fun o => if o = 0 then some 0 else none   -- outer instance ↦ the inner instance it holds
  owned     : Nat → Option Own := fun _ => none   -- inner instances moved into in-flight requests
  pendClone : Option (Nat × Nat) := none          -- outer clone `(new, src)` whose inner clone has not happened yet
  opened    : Option (Nat × Nat) := none          -- outer `call o tag` being served: instance not yet taken / called
  lastReady : Option Nat := none                  -- inner instance whose `poll_ready` has just returned ready
  lastCall  : Option (Nat × Nat) := none          -- `(o, tag)` of the direct inner call just made for outer instance `o`
  nO        : Nat := 1                            -- number of outer instances so far
  nI        : Nat := 1                            -- number of inner instances so far

/-- an event seen by a layer: at its outer boundary, or performed by it at its inner boundary -/
inductive LIn
  | outer (e : Ev)
  | inner (e : Ev)
deriving DecidableEq, Repr

/-- the layer value is cloned: its inner service will be cloned next. (Any outer event means the previous
`call()` has returned: an outer call the layer answered without calling its inner service — a cache hit, a
coalesced waiter — is simply closed.) -/
def outerClone (s : LSt) (src new : Nat) : Option LSt :=
  if s.pendClone = none ∧ (s.cur src).isSome ∧ s.cur new = none ∧ new = s.nO then
    some { s with pendClone := some (new, src), opened := none, lastReady := none, lastCall := none, nO := s.nO + 1 }
  else none

/-- `poll_ready` is forwarded: it returns ready only when the held inner instance just did -/
def outerPoll (s : LSt) (o : Nat) (r : PollRes) : Option LSt :=
  if s.pendClone = none then
    match s.cur o with
    | some i => if r = .ready → s.lastReady = some i then some { s with opened := none, lastReady := none, lastCall := none } else none
    | none => none
  else none

def outerCall (s : LSt) (o tag : Nat) : Option LSt :=
  if s.pendClone = none ∧ (s.cur o).isSome then
    some { s with opened := some (o, tag), lastReady := none, lastCall := none }
  else none

def innerCloneCore (s : LSt) (src new : Nat) : Option LSt :=
  match s.pendClone with
  | some (onew, osrc) =>
      -- `#[derive(Clone)]`: the new layer value holds a clone of the source's inner service
      if s.cur osrc = some src then some { s with cur := upd s.cur onew (some new), pendClone := none, lastReady := none }
      else none
  | none =>
    match s.opened with
    | some (o, tag) =>
        -- `mem::replace(&mut self.inner, clone)`: the polled instance moves into the request
        if s.cur o = some src then
          some { s with cur := upd s.cur o (some new), owned := upd s.owned src (some { tag := tag, armed := true }),
                        opened := none, lastReady := none }
        else none
    | none =>
        -- a clone of an instance a request owns (hedge template / hedged attempt): never polled yet
        match s.owned src with
        | some ow => some { s with owned := upd s.owned new (some { tag := ow.tag, armed := false }), lastReady := none }
        | none =>
          -- a spare clone of the held instance, taken right after serving a call on it (reconnect keeps one for its
          -- retries): it belongs to that request and has never been polled
          match s.lastCall with
          | some (o, tag) =>
              if s.cur o = some src then
                some { s with owned := upd s.owned new (some { tag := tag, armed := false }), lastReady := none, lastCall := none }
              else none
          | none => none

/-- the layer clones an inner instance; the clone is the next inner instance -/
def innerClone (s : LSt) (src new : Nat) : Option LSt :=
  if new = s.nI then (innerCloneCore s src new).map fun s' => { s' with nI := s.nI + 1 } else none

def holds (s : LSt) (i : Nat) : Prop := ∃ o, s.cur o = some i

def innerPoll (s : LSt) (i : Nat) (r : PollRes) (held : Bool) : Option LSt :=
  match s.owned i with
  | some ow => some { s with owned := if r = .ready then upd s.owned i (some { ow with armed := true }) else s.owned,
                             lastReady := none }
  | none => if held then some { s with lastReady := if r = .ready then some i else none } else none

def innerCall (s : LSt) (i tag : Nat) : Option LSt :=
  match s.opened with
  | some (o, t) =>
      -- the layer calls `self.inner` itself, synchronously in `call()`
      if s.cur o = some i ∧ t = tag then some { s with opened := none, lastReady := none, lastCall := some (o, tag) } else none
  | none =>
      match s.owned i with
      | some ow => if ow.armed = true ∧ ow.tag = tag then
                     some { s with owned := upd s.owned i (some { ow with armed := false }), lastReady := none }
                   else none
      | none => none

/-- is inner instance `i` held by one of the outer instances? (executable form of `holds`) -/
def heldBy (s : LSt) (i : Nat) : Bool := (List.range s.nO).any fun o => s.cur o == some i

/-- guarded transition -/
def LSt.step (s : LSt) : LIn → Option LSt
  | .outer (.clone src new) => outerClone s src new
  | .outer (.poll o r) => outerPoll s o r
  | .outer (.call o tag) => outerCall s o tag
  | .inner (.clone src new) => innerClone s src new
  | .inner (.poll i r) => innerPoll s i r (heldBy s i)
  | .inner (.call i tag) => innerCall s i tag

def LSt.run (s : LSt) : List LIn → Option LSt
  | [] => some s
  | e :: es => match s.step e with
    | some s' => s'.run es
    | none => none

def outers : List LIn → List Ev
  | [] => []
  | .outer e :: tl => e :: outers tl
  | .inner _ :: tl => outers tl

def inners : List LIn → List Ev
  | [] => []
  | .outer _ :: tl => inners tl
  | .inner e :: tl => e :: inners tl

/-! ## a stack of `n` layers: boundaries `0 … n` -/

abbrev GEv := Nat × Ev

/-- what layer `j` (between boundaries `j` and `j+1`) sees of a global log -/
def view (j : Nat) : List GEv → List LIn
  | [] => []
  | (b, e) :: tl => if b = j then .outer e :: view j tl else if b = j + 1 then .inner e :: view j tl else view j tl

/-- the events at boundary `j` -/
def proj (j : Nat) : List GEv → List Ev
  | [] => []
  | (b, e) :: tl => if b = j then e :: proj j tl else proj j tl

/-- every one of the `n` layers can perform its part of the log -/
def Accepted (n : Nat) (g : List GEv) : Prop := ∀ j, j < n → ((LSt.run {} (view j g)).isSome)

/-! ## line protocol: the driver replays the implementation's boundary events (`@ev=b<j>:…`) -/

structure DState where
  n      : Nat
  layers : List (Option LSt)          -- `none` = that layer has already rejected an event
  mons   : List (Option Mon)
  now    : Nat := 0

def parseEv (s : String) : Option GEv :=
  match s.splitOn ":" with
  | [b, "clone", x, y] => some ((b.drop 1).toString.toNat?.getD 0, .clone (x.toNat?.getD 0) (y.toNat?.getD 0))
  | [b, "poll", x, r] =>
      some ((b.drop 1).toString.toNat?.getD 0,
        .poll (x.toNat?.getD 0) (if r = "ready" then .ready else if r = "pending" then .pending else .err))
  | [b, "call", x, t] => some ((b.drop 1).toString.toNat?.getD 0, .call (x.toNat?.getD 0) (t.toNat?.getD 0))
  | _ => none

def renderEv (g : GEv) : String :=
  match g.2 with
  | .clone s n => s!"b{g.1} clone {s} {n}"
  | .poll i r => s!"b{g.1} poll {i} {match r with | .ready => "ready" | .pending => "pending" | .err => "err"}"
  | .call i t => s!"b{g.1} call {i} {t}"

def stepAt {α : Type} (l : List (Option α)) (j : Nat) (f : α → Option α) : List (Option α) × Bool :=
  match l[j]? with
  | some (some a) => match f a with
    | some a' => (l.set j (some a'), true)
    | none => (l.set j none, false)
  | some none => (l, true)      -- already reported
  | none => (l, true)

/-- feed one observed boundary event to the layer above it (as inner), the boundary's monitor,
and the layer below it (as outer); report what was rejected -/
def feed (d : DState) (g : GEv) : DState × List TR.Ev :=
  let (b, e) := g
  let (ls1, ok1) := if b > 0 then stepAt d.layers (b - 1) (fun s => s.step (.inner e)) else (d.layers, true)
  let (ms, okm) := stepAt d.mons b (fun m => m.step e)
  let (ls2, ok2) := if b < d.n then stepAt ls1 b (fun s => s.step (.outer e)) else (ls1, true)
  let outs :=
    (if ok1 then [] else [s!"not-allowed layer {b - 1} cannot perform {renderEv g}"]) ++
    (if okm then [] else [s!"contract-violated at boundary {b}: {renderEv g}"]) ++
    (if ok2 then [] else [s!"not-allowed layer {b} cannot be driven by {renderEv g}"]) ++
    [renderEv g]
  ({ d with layers := ls2, mons := ms }, outs.map TR.Ev.raw)

def machine : Machine where
  σ := DState
  init kv :=
    let n := ((kv.str "layers" "").splitOn ",").filter (· ≠ "") |>.length
    { n := n, layers := List.replicate n (some {}), mons := List.replicate (n + 1) (some {}) }
  step := fun d ws =>
    let d := match ws with
      | "adv" :: ms :: _ => { d with now := d.now + ms.toNat?.getD 0 }
      | _ => d
    let evs := ws.filterMap fun w => if w.startsWith "@ev=" then parseEv (w.drop 4).toString else none
    evs.foldl (fun (acc : DState × List TR.Ev) g => let r := feed acc.1 g; (r.1, acc.2 ++ r.2)) (d, [])
  now := fun d => d.now

end TR.Stack
