import TR.Model.Budget
/-!
# Retry budgets at protocol level (C08): a checker for value-level traces of the atomics

`TR.Budget` above transcribes `budget.rs` step by step; a harmless rewrite of the code (a hand-rolled
compare-exchange loop replaced by `fetch_update`, one more reload) changes the step sequence and breaks
that correspondence although the property still holds. This file states the *protocol* the property
really depends on, independent of how many loads an implementation performs:

* every write to the tokens cell is one atomic read-modify-write (a successful `compare_exchange` or
  `fetch_update`) performed inside a call, at most one per call;
* the write of a `try_withdraw` takes exactly `cost` from a balance that covers it, the write of a
  `deposit` adds at most `amount` and stays within the maximum (token bucket: exactly
  `min (old + amount) max`);
* `try_withdraw` returns `true` iff it wrote, and returns `false` only after reading a balance below
  the cost; `deposit` returns after its write;
* every write to the AIMD limit cell stays within `[min, max]`.

`checkTrace` decides this for one observed trace (the harness records, for every hooked atomic
operation, the value before and after it, and the begin / end of every API call). The theorems in
`TR.Lemmas.BudgetTrace` show that **every** trace the checker accepts satisfies conservation, the cap
and linearizability — for any number of threads and operations, whatever the interleaving.
-/
namespace TR.Budget

inductive AKind
  | load
  | store
  | cas
  | rmw
deriving DecidableEq, Repr

/-- one entry of an observed trace -/
inductive Item
  | begin (tid : Nat) (op : BOp)
  | fin (tid : Nat) (res : Option Bool)                        -- the call returned (`none`: deposit)
  | tok (tid : Nat) (k : AKind) (old new : Nat) (ok : Bool)    -- an atomic operation on the tokens cell
  | lim (tid : Nat) (k : AKind) (old new : Nat) (ok : Bool)    -- … on the AIMD limit cell
deriving DecidableEq, Repr

/-- a call in progress -/
structure OpenOp where
  tid : Nat
  op  : BOp
  eff : Bool := false      -- its one write has happened
  low : Bool := false      -- (W) it has read a balance below the cost: linearised as a refusal
deriving DecidableEq, Repr

structure CS where
  tokens    : Nat
  limit     : Nat
  opens     : List OpenOp := []
  retTrue   : Nat := 0      -- `try_withdraw` calls that returned true
  effW      : Nat := 0      -- withdrawal writes
  openWEff  : Nat := 0      -- open withdrawals that have written
  effD      : Nat := 0      -- deposit writes
  begunD    : Nat := 0      -- `deposit` calls begun
  finD      : Nat := 0      -- `deposit` calls returned
  openDEff  : Nat := 0      -- open deposits that have written
  openDNo   : Nat := 0      -- open deposits that have not written yet
  lin       : List LinOp := []
deriving Repr

def findOpen (l : List OpenOp) (tid : Nat) : Option OpenOp :=
  match l with
  | [] => none
  | o :: tl => if o.tid = tid then some o else findOpen tl tid

def dropOpen (l : List OpenOp) (tid : Nat) : List OpenOp := l.filter (fun o => o.tid != tid)

def setOpen (l : List OpenOp) (o : OpenOp) : List OpenOp := o :: dropOpen l o.tid

def cinit (cfg : Cfg) : CS := { tokens := cfg.initial, limit := cfg.maxLimit }

/-- does the call of `tid` that is in progress return `false`? (the next `fin` of that thread in the rest of the trace) -/
def willRefuse (rest : List Item) (tid : Nat) : Bool :=
  match rest with
  | [] => false
  | .fin t r :: tl => if t = tid then r == some false else willRefuse tl tid
  | _ :: tl => willRefuse tl tid

/-- does the call of `tid` that is in progress still write the tokens cell before it returns? -/
def willWrite (rest : List Item) (tid : Nat) : Bool :=
  match rest with
  | [] => false
  | .fin t _ :: tl => if t = tid then false else willWrite tl tid
  | .tok t k _ _ ok :: tl => if t = tid ∧ ok = true ∧ k ≠ .load then true else willWrite tl tid
  | _ :: tl => willWrite tl tid

/-- a read of the tokens cell that changes nothing (a load, a failed compare-exchange, a declined update). A
withdrawal that is going to be refused is linearised at its first read of a balance below the cost; a read whose
value the implementation ignores (a failed compare-exchange followed by a reload) decides nothing. A deposit that
never writes (an implementation may skip the write when the bucket is full) is linearised at its first read of a
balance the deposit would leave unchanged. -/
def tokRead (cfg : Cfg) (cs : CS) (tid v : Nat) (refuse : Bool) (nowrite : Bool := false) : Option CS :=
  match findOpen cs.opens tid with
  | none => some cs                       -- a read outside any call (`balance()`): nothing to record
  | some o =>
    if refuse = true ∧ o.op = .W ∧ o.eff = false ∧ o.low = false ∧ v < cfg.cost then
      -- the refusal's linearisation point
      some { cs with opens := setOpen cs.opens { o with low := true },
                     lin := cs.lin ++ [{ tid := tid, op := .W, res := false, cap := 0 }] }
    else if nowrite = true ∧ o.op = .D ∧ o.eff = false ∧ cs.openDNo ≥ 1 ∧
            (cfg.aimd = false → min (v + cfg.amount) cfg.maxTokens = v) then
      some { cs with opens := setOpen cs.opens { o with eff := true },
                     effD := cs.effD + 1, openDEff := cs.openDEff + 1, openDNo := cs.openDNo - 1,
                     lin := cs.lin ++ [{ tid := tid, op := .D, res := true, cap := v }] }
    else some cs

/-- a write to the tokens cell -/
def tokWrite (cfg : Cfg) (cs : CS) (tid : Nat) (k : AKind) (new : Nat) : Option CS :=
  if k = .store ∨ k = .load then none else           -- a plain store to the shared balance
  match findOpen cs.opens tid with
  | none => none                                      -- a write outside any call
  | some o =>
    if o.eff ∨ o.low then none else                   -- a second write, or a write after the refusal was decided
    match o.op with
    | .W =>
      if cs.tokens ≥ cfg.cost ∧ new = cs.tokens - cfg.cost then
        some { cs with tokens := new, opens := setOpen cs.opens { o with eff := true },
                       effW := cs.effW + 1, openWEff := cs.openWEff + 1,
                       lin := cs.lin ++ [{ tid := tid, op := .W, res := true, cap := 0 }] }
      else none
    | .D =>
      if new ≤ cs.tokens + cfg.amount ∧ new ≤ cfg.maxTokens ∧ cs.openDNo ≥ 1 ∧
         (cfg.aimd = false → new = min (cs.tokens + cfg.amount) cfg.maxTokens) then
        some { cs with tokens := new, opens := setOpen cs.opens { o with eff := true },
                       effD := cs.effD + 1, openDEff := cs.openDEff + 1, openDNo := cs.openDNo - 1,
                       lin := cs.lin ++ [{ tid := tid, op := .D, res := true, cap := new }] }
      else none

def cstep (cfg : Cfg) (cs : CS) (it : Item) (rest : List Item := []) : Option CS :=
  match it with
  | .begin tid op =>
    match findOpen cs.opens tid with
    | some _ => none                                  -- a call begun inside a call of the same thread
    | none =>
      match op with
      | .W => some { cs with opens := setOpen cs.opens { tid := tid, op := .W } }
      | .D => some { cs with opens := setOpen cs.opens { tid := tid, op := .D },
                             begunD := cs.begunD + 1, openDNo := cs.openDNo + 1 }
  | .fin tid res =>
    match findOpen cs.opens tid with
    | none => none
    | some o =>
      match o.op, res with
      | .W, some true =>
        if o.eff ∧ cs.openWEff ≥ 1 then
          some { cs with opens := dropOpen cs.opens tid, retTrue := cs.retTrue + 1, openWEff := cs.openWEff - 1 }
        else none
      | .W, some false => if o.low ∧ o.eff = false then some { cs with opens := dropOpen cs.opens tid } else none
      | .D, none =>
        if o.eff ∧ cs.openDEff ≥ 1 then
          some { cs with opens := dropOpen cs.opens tid, finD := cs.finD + 1, openDEff := cs.openDEff - 1 }
        else none
      | _, _ => none
  | .tok tid k old new ok =>
    if old ≠ cs.tokens then none                      -- the cell did not hold what the trace says it held
    else if ok = false ∨ k = .load then (if new = old then tokRead cfg cs tid old (willRefuse rest tid) (!willWrite rest tid) else none)
    else tokWrite cfg cs tid k new
  | .lim _ k old new ok =>
    if old ≠ cs.limit then none
    else if ok = false ∨ k = .load then (if new = old then some cs else none)
    else if cfg.minLimit ≤ new ∧ new ≤ cfg.maxLimit then some { cs with limit := new } else none

def crun (cfg : Cfg) (cs : CS) : List Item → Option CS
  | [] => some cs
  | it :: tl =>
    match cstep cfg cs it tl with
    | none => none
    | some cs' => crun cfg cs' tl

/-- index of the first rejected item (for the report) -/
def cfirstBad (cfg : Cfg) (cs : CS) (i : Nat) : List Item → Option Nat
  | [] => none
  | it :: tl =>
    match cstep cfg cs it tl with
    | none => some i
    | some cs' => cfirstBad cfg cs' (i + 1) tl

def checkTrace (cfg : Cfg) (tr : List Item) : Option CS := crun cfg (cinit cfg) tr

/-! ## text form: `b0:W;a0,l,w0,1000,1000,1;a0,c,w0,1000,0,1;e0:1` -/

def parseKind (s : String) : AKind :=
  if s = "l" then .load else if s = "s" then .store else if s = "c" then .cas else .rmw

def parseItem (s : String) : Option Item :=
  match s.toList with
  | 'b' :: rest =>
    match (String.ofList rest).splitOn ":" with
    | [t, op] =>
      match t.toNat?, op with
      | some t, "W" => some (.begin t .W)
      | some t, "D" => some (.begin t .D)
      | _, _ => none
    | _ => none
  | 'e' :: rest =>
    match (String.ofList rest).splitOn ":" with
    | [t, r] =>
      match t.toNat?, r with
      | some t, "1" => some (.fin t (some true))
      | some t, "0" => some (.fin t (some false))
      | some t, "-" => some (.fin t none)
      | _, _ => none
    | _ => none
  | 'a' :: rest =>
    match (String.ofList rest).splitOn "," with
    | [t, k, cell, old, new, ok] =>
      match t.toNat?, old.toNat?, new.toNat? with
      | some t, some o, some n =>
        if cell.startsWith "w" then some (.tok t (parseKind k) o n (ok = "1"))
        else some (.lim t (parseKind k) o n (ok = "1"))
      | _, _, _ => none
    | _ => none
  | _ => none

/-- `none` if some entry is not understood -/
def parseTrace (s : String) : Option (List Item) :=
  if s = "-" ∨ s.isEmpty then some [] else
  (s.splitOn ";").foldr (fun w acc => match parseItem w, acc with
    | some i, some l => some (i :: l)
    | _, _ => none) (some [])

end TR.Budget

namespace TR.Budget

/-- the verdict line: the harness claims `trace-ok`; the checker confirms or names the first rejected entry -/
def traceVerdict (cfg : Cfg) (s : String) : String :=
  match parseTrace s with
  | none => "trace-bad unparsed"
  | some tr =>
    match cfirstBad cfg (cinit cfg) 0 tr with
    | none => "trace-ok"
    | some i => s!"trace-bad {i}"

/-- the step model's machine plus the protocol verdict on the observed value-level trace (`@tr=` on the `sched` line) -/
def machineT : Machine where
  σ := DState
  init := machine.init
  step := fun d ws =>
    let r := machine.step d ws
    match ws with
    | "manual" :: "sched" :: rest =>
        if d.cfg.aimd && d.cfg.minLimit > d.cfg.maxLimit then r else
        (r.1, r.2 ++ [Ev.raw (traceVerdict d.cfg ((parseKv rest).str "@tr" "-"))])
    | _ => r
  now := fun _ => 0

end TR.Budget
