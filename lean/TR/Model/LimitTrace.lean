import TR.Model.Limit
/-!
# Adaptive limit algorithms at protocol level (C13): a checker for value-level traces of the atomics

`TR.Limit` transcribes `aimd.rs` / `algorithm.rs` one atomic operation at a time; a harmless rewrite (every "load the
limit, compute, store the limit" pair replaced by one `fetch_update`, a store skipped when nothing changes, one more
reload) changes the step sequence and breaks that correspondence although the property still holds. This file
states the *protocol* the property really depends on, independent of how an implementation sequences its atomics:

* the values of the limit cell chain (every operation starts from the value the previous one left behind);
* every WRITE to the limit cell happens inside a feedback operation and stores `F(r)` where `F` is one of the
  modelled update functions of `TR.Limit` that this kind of operation may apply (`record_success(latency)`:
  `aimdSuccNew` / `aimdFailNew` according to the latency threshold, or one of the three results of `vegasNew … q`;
  `record_failure()`: `aimdFailNew` / `vegasFailNew`; `record_successes(n)`: `aimdSuccsNew n`; `reset()`: the clamped
  initial value) and `r` is a value **the same operation read from the limit cell earlier** (a load, a failed
  compare-exchange, or — for a read-modify-write — the value it replaces);
* `limit()`, `record_dropped()`, the accessors and `clone()` write nothing; `limit()` returns a value it read from
  the cell; **every other result an operation reports is justified by the trace too** (the End markers carry them):
  `min_limit()` / `max_limit()` return the configured bounds, `in_flight()` a value the operation read from the in-flight
  cell, `clone()` (bare controller) starts from a limit the operation read from the limit cell; an acquisition reports
  "admitted" iff it wrote the counter. `thOuts` re-derives from the End markers what every thread reports (`th <i> …`), so
  that a round whose step sequence no longer matches the transcription is still compared on its thread outputs;
* (rounds of threads on clones of the *service*) every write to the service's `in_flight` cell is one atomic
  read-modify-write: `+1`, at most once, inside a `poll_ready`+`call` that is admitted iff it wrote; `−1`, exactly once,
  from a value ≥ 1, inside an operation that ends a call the thread holds (completion, failure, panic, drop).

* (the same rounds) every `poll_ready`+`call` that counts itself in has read, BEFORE that, a limit `r` from the limit cell
  and a count `n` from the counter with `n < r`; every one that is refused has read an `r` and an `n` with `n ≥ r`
  (`dstep` / `checkTraceD`, below): the readiness clauses in the form that can be judged when check and call are
  separate atomic steps.

`checkTrace` (`checkTraceD` with the readiness decisions) decides this for one observed trace (the harness records, through the observer hook of the
`verif-hooks` atomics, every hooked atomic operation with the value before and after it, plus the begin / end of
every API call, and finds out which cell is the limit cell by calling `limit()` once — the cell that call loads —
and `in_flight()` once for the counter). The theorems in `TR.Lemmas.LimitTrace` / `TR.Props.C13` hold for **every**
trace the checker accepts: any number of threads, operations and atomic operations, whatever the interleaving.
-/
namespace TR.Limit

inductive AKind
  | load
  | store
  | cas
  | rmw
deriving DecidableEq, Repr

/-- the feedback an operation may give the algorithm -/
inductive Fb
  | none
  | succ (rttNs : Nat)      -- `record_success(latency)`
  | fail                    -- `record_failure()`
  | succs (n : Nat)         -- `AimdController::record_successes(n)`
  | reset                   -- `AimdController::reset()`
deriving DecidableEq, Repr

/-- what an operation may do to the service's in-flight counter -/
inductive Role
  | none
  | acq        -- `poll_ready` + `call`: `+1` iff admitted
  | rel        -- ends a call the thread holds: `−1`, exactly once
deriving DecidableEq, Repr

/-- what else an operation reports (beside `limit()`'s value and an acquisition's verdict) -/
inductive Acc
  | none
  | minL       -- `min_limit()`: the configured minimum
  | maxL       -- `max_limit()`: the configured maximum
  | inFl       -- `in_flight()`: a value it read from the in-flight counter
  | clone      -- `AimdController::clone()`: the limit it read; the clone then records one success of its own
deriving DecidableEq, Repr

/-- an API call as the markers of the trace name it -/
structure TrOp where
  fb   : Fb := .none
  role : Role := .none
  rd   : Bool := false      -- `limit()`: returns a value it read from the limit cell
  acc  : Acc := .none
deriving DecidableEq, Repr

/-- one entry of an observed trace -/
inductive Item
  | begin (tid : Nat) (op : TrOp)
  | fin (tid : Nat) (op : TrOp) (res : Option Nat)              -- the call returned (`limit()`: the value; acquire: 1 = admitted)
  | lim (tid : Nat) (k : AKind) (old new : Nat) (ok : Bool)     -- an atomic operation on the limit cell
  | inf (tid : Nat) (k : AKind) (old new : Nat) (ok : Bool)     -- … on the service's in-flight counter
  | oth                                                          -- … on any other cell (rtt cells, the mirror)
deriving DecidableEq, Repr

/-- a call in progress -/
structure OpenOp where
  tid    : Nat
  op     : TrOp
  reads  : List Nat := []     -- the values it has read from the limit cell so far
  wroteI : Bool := false      -- it has written the in-flight counter
  readsI : List Nat := []     -- the values it has read from the in-flight counter so far
deriving DecidableEq, Repr

structure CS where
  lim      : Nat                   -- the limit cell
  inf      : Nat                   -- the in-flight counter
  opens    : List OpenOp := []
  vals     : List Nat := []        -- ghost: every value the limit cell has held (the initial one first)
  rets     : List Nat := []        -- ghost: every value a `limit()` call returned
  acq      : Nat := 0              -- `+1` writes
  rls      : Nat := 0              -- `−1` writes
  admitted : Nat := 0              -- acquisitions that returned "admitted"
  released : Nat := 0              -- releasing operations that returned
  openAW   : Nat := 0              -- acquisitions in progress that have written
  openRW   : Nat := 0              -- releasing operations in progress that have written
  openAN   : Nat := 0              -- acquisitions in progress that have not written (yet)
  openRN   : Nat := 0              -- releasing operations in progress that have not written yet
  begunA   : Nat := 0              -- acquisitions begun
  finA     : Nat := 0              -- acquisitions that returned (admitted or refused)
  begunR   : Nat := 0              -- releasing operations begun
deriving Repr

def findOpen (l : List OpenOp) (tid : Nat) : Option OpenOp :=
  match l with
  | [] => none
  | o :: tl => if o.tid = tid then some o else findOpen tl tid

def dropOpen (l : List OpenOp) (tid : Nat) : List OpenOp := l.filter (fun o => o.tid != tid)

def setOpen (l : List OpenOp) (o : OpenOp) : List OpenOp := o :: dropOpen l o.tid

def cinit (v0 i0 : Nat) : CS := { lim := v0, inf := i0, vals := [v0] }

/-- may an operation giving feedback `fb` replace a limit `r` it has read by `new`? -/
def allowed (cfg : Cfg) (fb : Fb) (r new : Nat) : Bool :=
  match fb with
  | .none => false
  | .succ rtt =>
      match cfg.kind with
      | .aimd => if rtt > cfg.thrNs then new == aimdFailNew cfg r else new == aimdSuccNew cfg r
      -- `vegasNew cfg r q` for SOME queue estimate `q`: these three estimates produce its three possible results
      | .vegas => new == vegasNew cfg r 0 || new == vegasNew cfg r (cfg.beta + 1) || new == vegasNew cfg r cfg.alpha
  | .fail =>
      match cfg.kind with
      | .aimd => new == aimdFailNew cfg r
      | .vegas => new == vegasFailNew cfg r
  | .succs n => cfg.ctl && new == aimdSuccsNew cfg n r
  | .reset => false

/-- … given the values `rs` it has read (`reset()` stores the clamped initial value whatever it read) -/
def allowedFrom (cfg : Cfg) (fb : Fb) (rs : List Nat) (new : Nat) : Bool :=
  match fb with
  | .reset => cfg.ctl && new == clampInit cfg
  | _ => rs.any fun r => allowed cfg fb r new

/-- a read of the limit cell (a load, a failed compare-exchange, a declined update) -/
def limRead (cs : CS) (tid v : Nat) : CS :=
  match findOpen cs.opens tid with
  | none => cs                      -- outside any call: nothing to record
  | some o => { cs with opens := setOpen cs.opens { o with reads := v :: o.reads } }

/-- the values an operation has read from the limit cell when it writes it: a read-modify-write has read the value it
replaces, a plain store has not -/
def readSet (k : AKind) (lim : Nat) (reads : List Nat) : List Nat := if k = .store then reads else lim :: reads

/-- a write to the limit cell -/
def limWrite (cfg : Cfg) (cs : CS) (tid : Nat) (k : AKind) (new : Nat) : Option CS :=
  match findOpen cs.opens tid with
  | none => none                    -- a write outside any feedback operation
  | some o =>
    if allowedFrom cfg o.op.fb (readSet k cs.lim o.reads) new then
      some { cs with lim := new, vals := cs.vals ++ [new],
                     opens := setOpen cs.opens { o with reads := readSet k cs.lim o.reads } }
    else none

/-- a write to the in-flight counter -/
def infWrite (cs : CS) (tid : Nat) (k : AKind) (new : Nat) : Option CS :=
  if k = .store ∨ k = .load then none else          -- a plain store to the shared counter
  match findOpen cs.opens tid with
  | none => none
  | some o =>
    if o.wroteI then none else                        -- a second write in one operation
    match o.op.role with
    | .none => none
    | .acq =>
      if new = cs.inf + 1 ∧ cs.openAN ≥ 1 then
        some { cs with inf := new, acq := cs.acq + 1, openAW := cs.openAW + 1, openAN := cs.openAN - 1,
                       opens := setOpen cs.opens { o with wroteI := true } }
      else none
    | .rel =>
      if cs.inf ≥ 1 ∧ new = cs.inf - 1 ∧ cs.openRN ≥ 1 then
        some { cs with inf := new, rls := cs.rls + 1, openRW := cs.openRW + 1, openRN := cs.openRN - 1,
                       opens := setOpen cs.opens { o with wroteI := true } }
      else none

/-- a read of the in-flight counter (a load, a failed compare-exchange) -/
def infRead (cs : CS) (tid v : Nat) : CS :=
  match findOpen cs.opens tid with
  | none => cs
  | some o => { cs with opens := setOpen cs.opens { o with readsI := v :: o.readsI } }

/-- the other results: the accessors report the configured bounds, `in_flight()` a value the call read from the counter,
the bare controller's `clone()` a limit the call read from the limit cell (the `Algorithm` types have no `clone()`: the
operation reports nothing there) -/
def accCheck (cfg : Cfg) (o : OpenOp) (acc : Acc) (res : Option Nat) : Bool :=
  match acc with
  | .none => true
  | .minL => res == some cfg.min
  | .maxL => res == some cfg.max
  | .inFl =>
    match res with
    | some v => o.readsI.contains v
    | none => false
  | .clone =>
    if cfg.ctl then
      match res with
      | some v => o.reads.contains v
      | none => false
    else res == none

/-- the value a `limit()` call returns was read from the limit cell by that call -/
def retCheck (o : OpenOp) (res : Option Nat) (rets : List Nat) : Option (List Nat) :=
  if o.op.rd then
    match res with
    | some v => if v ∈ o.reads then some (rets ++ [v]) else none
    | none => none
  else some rets

def finOp (cfg : Cfg) (cs : CS) (tid : Nat) (op : TrOp) (res : Option Nat) : Option CS :=
  match findOpen cs.opens tid with
  | none => none
  | some o =>
    if o.op ≠ op then none else
    if accCheck cfg o op.acc res = false then none else
    match retCheck o res cs.rets with
    | none => none
    | some rets =>
      let cs1 := { cs with opens := dropOpen cs.opens tid, rets := rets }
      match op.role with
      | .none => some cs1
      | .acq =>
        if o.wroteI then
          (if res = some 1 ∧ cs.openAW ≥ 1 then
             some { cs1 with admitted := cs.admitted + 1, openAW := cs.openAW - 1, finA := cs.finA + 1 }
           else none)
        else (if res = some 1 ∨ cs.openAN = 0 then none else some { cs1 with openAN := cs.openAN - 1, finA := cs.finA + 1 })
      | .rel =>
        if o.wroteI ∧ cs.openRW ≥ 1 then some { cs1 with released := cs.released + 1, openRW := cs.openRW - 1 } else none

def cstep (cfg : Cfg) (cs : CS) (it : Item) : Option CS :=
  match it with
  | .begin tid op =>
    match findOpen cs.opens tid with
    | some _ => none                                  -- a call begun inside a call of the same thread
    | none =>
      let cs1 := { cs with opens := setOpen cs.opens { tid := tid, op := op } }
      match op.role with
      | .none => some cs1
      | .acq => some { cs1 with begunA := cs.begunA + 1, openAN := cs.openAN + 1 }
      | .rel => some { cs1 with begunR := cs.begunR + 1, openRN := cs.openRN + 1 }
  | .fin tid op res => finOp cfg cs tid op res
  | .lim tid k old new ok =>
    if old ≠ cs.lim then none                         -- the cell did not hold what the trace says it held
    else if ok = false ∨ k = .load then
      (if new = old then some (limRead { cs with vals := cs.vals ++ [new] } tid old) else none)
    else limWrite cfg cs tid k new
  | .inf tid k old new ok =>
    if old ≠ cs.inf then none
    else if ok = false ∨ k = .load then (if new = old then some (infRead cs tid old) else none)
    else infWrite cs tid k new
  | .oth => some cs

def crun (cfg : Cfg) (cs : CS) : List Item → Option CS
  | [] => some cs
  | it :: tl =>
    match cstep cfg cs it with
    | none => none
    | some cs' => crun cfg cs' tl

/-- index of the first rejected item (for the report) -/
def cfirstBad (cfg : Cfg) (cs : CS) (i : Nat) : List Item → Option Nat
  | [] => none
  | it :: tl =>
    match cstep cfg cs it with
    | none => some i
    | some cs' => cfirstBad cfg cs' (i + 1) tl

/-- nothing is left in progress -/
def CS.quiet (cs : CS) : Bool :=
  cs.opens.isEmpty && cs.openAW == 0 && cs.openRW == 0 && cs.openAN == 0 && cs.openRN == 0

/-- a trace is accepted: every entry follows the protocol and every call has returned -/
def checkTrace (cfg : Cfg) (v0 i0 : Nat) (tr : List Item) : Option CS :=
  match crun cfg (cinit v0 i0) tr with
  | some cs => if cs.quiet then some cs else none
  | none => none

/-! ## the readiness decisions of concurrent callers, judged on the trace

`poll_ready` reads the limit and the in-flight counter and compares; `call` counts the call in later. Other threads run in
between, so "refused iff `limit` calls are in flight" cannot be judged against the state at the `fetch_add`. What can be
judged, however an implementation sequences the loads: an acquisition that **counts itself in** must by then have read a
limit `r` (from the limit cell) and a count `n` (from the counter) with `n < r`; an acquisition that is **refused** must
have read an `r` and an `n` with `n ≥ r`. `dstep` runs beside `cstep` (on the checker's state BEFORE the entry) and keeps
the witnesses; `checkTraceD` accepts a trace iff both do. -/

/-- one readiness decision: the limit and the count the acquisition had read -/
structure Dec where
  admitted : Bool
  lim      : Nat
  seen     : Nat
deriving DecidableEq, Repr

/-- a limit read and a count read with `count < limit` -/
def findBelow (reads readsI : List Nat) : Option (Nat × Nat) :=
  reads.findSome? fun r => (readsI.find? fun n => decide (n < r)).map fun n => (r, n)

/-- … with `count ≥ limit` -/
def findAtOrAbove (reads readsI : List Nat) : Option (Nat × Nat) :=
  reads.findSome? fun r => (readsI.find? fun n => decide (n ≥ r)).map fun n => (r, n)

structure DS where
  pend : List (Nat × (Nat × Nat)) := []     -- acquisitions that have counted themselves in: thread ↦ the witness (limit, count)
  decs : List Dec := []                      -- ghost: every decision so far, in the order the acquisitions returned
deriving Repr

def dropPend (l : List (Nat × (Nat × Nat))) (tid : Nat) : List (Nat × (Nat × Nat)) := l.filter fun p => p.1 != tid

def dstep (cs : CS) (ds : DS) (it : Item) : Option DS :=
  match it with
  | .inf tid k _ _ ok =>
    if ok = false ∨ k = .load ∨ k = .store then some ds else
    match findOpen cs.opens tid with
    | none => some ds
    | some o =>
      if o.op.role = .acq then
        match findBelow o.reads o.readsI with
        | some p => some { ds with pend := (tid, p) :: dropPend ds.pend tid }
        | none => none                       -- counted in without having seen fewer calls than a limit
      else some ds
  | .fin tid op _ =>
    if op.role = .acq then
      match findOpen cs.opens tid with
      | none => some ds
      | some o =>
        if o.wroteI then
          match lookup ds.pend tid with
          | some p => some { pend := dropPend ds.pend tid, decs := ds.decs ++ [{ admitted := true, lim := p.1, seen := p.2 }] }
          | none => none
        else
          match findAtOrAbove o.reads o.readsI with
          | some p => some { ds with decs := ds.decs ++ [{ admitted := false, lim := p.1, seen := p.2 }] }
          | none => none                     -- refused without having seen `limit` calls in flight
    else some ds
  | _ => some ds

def crunD (cfg : Cfg) (cs : CS) (ds : DS) : List Item → Option (CS × DS)
  | [] => some (cs, ds)
  | it :: tl =>
    match cstep cfg cs it, dstep cs ds it with
    | some cs', some ds' => crunD cfg cs' ds' tl
    | _, _ => none

def cfirstBadD (cfg : Cfg) (cs : CS) (ds : DS) (i : Nat) : List Item → Option Nat
  | [] => none
  | it :: tl =>
    match cstep cfg cs it, dstep cs ds it with
    | some cs', some ds' => cfirstBadD cfg cs' ds' (i + 1) tl
    | _, _ => some i

/-- a trace is accepted with its readiness decisions: every entry follows the protocol, every acquisition's verdict is
justified by what it had read, every call has returned -/
def checkTraceD (cfg : Cfg) (v0 i0 : Nat) (tr : List Item) : Option (CS × DS) :=
  match crunD cfg (cinit v0 i0) {} tr with
  | some (cs, ds) => if cs.quiet then some (cs, ds) else none
  | none => none

/-! ## what a trace shows, read off the trace alone (independent of the checker) -/

/-- every value the limit cell holds in the course of the trace (each entry records the value it leaves behind) -/
def limValues : List Item → List Nat
  | [] => []
  | .lim _ _ _ new _ :: tl => new :: limValues tl
  | _ :: tl => limValues tl

/-- the values returned by the `limit()` calls -/
def readResults : List Item → List Nat
  | [] => []
  | .fin _ op (some v) :: tl => if op.rd then v :: readResults tl else readResults tl
  | _ :: tl => readResults tl

/-- `poll_ready` + `call` operations that returned "admitted" -/
def admittedCalls : List Item → Nat
  | [] => 0
  | .fin _ op res :: tl => if op.role = .acq ∧ res = some 1 then admittedCalls tl + 1 else admittedCalls tl
  | _ :: tl => admittedCalls tl

/-- operations that ended a call their thread held (completion, failure, panic, drop) and returned -/
def releasedCalls : List Item → Nat
  | [] => 0
  | .fin _ op _ :: tl => if op.role = .rel then releasedCalls tl + 1 else releasedCalls tl
  | _ :: tl => releasedCalls tl

/-- `poll_ready` + `call` operations begun / returned (admitted or refused) -/
def begunAcq : List Item → Nat
  | [] => 0
  | .begin _ op :: tl => if op.role = .acq then begunAcq tl + 1 else begunAcq tl
  | _ :: tl => begunAcq tl

def endedAcq : List Item → Nat
  | [] => 0
  | .fin _ op _ :: tl => if op.role = .acq then endedAcq tl + 1 else endedAcq tl
  | _ :: tl => endedAcq tl

/-- operations ending a held call that were begun -/
def begunRel : List Item → Nat
  | [] => 0
  | .begin _ op :: tl => if op.role = .rel then begunRel tl + 1 else begunRel tl
  | _ :: tl => begunRel tl

/-- the value the in-flight counter holds after the trace -/
def finalInf (i0 : Nat) : List Item → Nat
  | [] => i0
  | .inf _ _ _ new _ :: tl => finalInf new tl
  | _ :: tl => finalInf i0 tl

/-- the value the limit cell holds after the trace -/
def finalLim (v0 : Nat) : List Item → Nat
  | [] => v0
  | .lim _ _ _ new _ :: tl => finalLim new tl
  | _ :: tl => finalLim v0 tl

/-! ## text form

`kn0,n1;b9:L;a9,l,n0,4,4,1;e9:L:4;b0:S1048576;a0,l,n0,4,4,1;a0,s,n0,4,5,1;e0:S1048576:-` — the first entry names the
limit cell and the in-flight cell (`-`: none) as the harness's probes found them. Operation codes: `S<ns>` `F` `X` `L`
`m` `M` `N<k>` `R` `K` (feedback programs), `A` (acquire), `Cs` `Cf` `Cp` (complete a held call: ok / error / panic), `C-` `D-`
(nothing held), `D+` (drop a held call), `I` (`in_flight()`). The End marker carries what the call reported: `L`, `m`, `M`, `I` the
value, `K` the clone's first limit, `A` 1 / 0, everything else `-`. -/

def parseKind (s : String) : AKind :=
  if s = "l" then .load else if s = "s" then .store else if s = "c" then .cas else .rmw

def parseTrOp (s : String) : Option TrOp :=
  match s.toList with
  | 'S' :: d => (String.ofList d).toNat?.map fun n => { fb := .succ n }
  | ['F'] => some { fb := .fail }
  | ['X'] => some {}
  | ['L'] => some { rd := true }
  | ['m'] => some { acc := .minL }
  | ['M'] => some { acc := .maxL }
  | 'N' :: d => (String.ofList d).toNat?.map fun n => { fb := .succs n }
  | ['R'] => some { fb := .reset }
  | ['K'] => some { acc := .clone }
  | ['A'] => some { role := .acq }
  | ['C', 's'] => some { fb := .succ 0, role := .rel }
  | ['C', 'f'] => some { fb := .fail, role := .rel }
  | ['C', 'p'] => some { role := .rel }
  | ['C', '-'] => some {}
  | ['D', '+'] => some { role := .rel }
  | ['D', '-'] => some {}
  | ['I'] => some { acc := .inFl }
  | _ => none

def parseItem (lc ic : String) (s : String) : Option Item :=
  match s.toList with
  | 'b' :: rest =>
    match (String.ofList rest).splitOn ":" with
    | [t, op] =>
      match t.toNat?, parseTrOp op with
      | some t, some op => some (.begin t op)
      | _, _ => none
    | _ => none
  | 'e' :: rest =>
    match (String.ofList rest).splitOn ":" with
    | [t, op, r] =>
      match t.toNat?, parseTrOp op with
      | some t, some op => if r = "-" then some (.fin t op none) else r.toNat?.map fun v => .fin t op (some v)
      | _, _ => none
    | _ => none
  | 'a' :: rest =>
    match (String.ofList rest).splitOn "," with
    | [t, k, cell, old, new, ok] =>
      match t.toNat?, old.toNat?, new.toNat? with
      | some t, some o, some n =>
        if cell = lc then some (.lim t (parseKind k) o n (ok = "1"))
        else if cell = ic then some (.inf t (parseKind k) o n (ok = "1"))
        else some .oth
      | _, _, _ => none
    | _ => none
  | _ => none

/-- `none` if some entry is not understood -/
def parseTrace (s : String) : Option (List Item) :=
  match s.splitOn ";" with
  | hd :: tl =>
    match hd.toList with
    | 'k' :: cells =>
      match (String.ofList cells).splitOn "," with
      | [lc, ic] =>
        tl.foldr (fun w acc => match parseItem lc ic w, acc with
          | some i, some l => some (i :: l)
          | _, _ => none) (some [])
      | _ => none
    | _ => none
  | [] => none

/-- the value the limit cell held when the trace began: what its first entry (the harness's `limit()` probe) found -/
def firstLim : List Item → Option Nat
  | [] => none
  | .lim _ _ old _ _ :: _ => some old
  | _ :: tl => firstLim tl

def firstInf : List Item → Option Nat
  | [] => none
  | .inf _ _ old _ _ :: _ => some old
  | _ :: tl => firstInf tl

/-! ## what every thread reports, re-derived from the End markers of an accepted trace -/

/-- what one returned call contributes to its thread's output line (`th <i> …`): a refused acquisition `x`, `limit()` /
`min_limit()` / `max_limit()` / `in_flight()` their value, the bare controller's `clone()` the clone's limit before and after
the one success it records on it -/
def finOuts (cfg : Cfg) (op : TrOp) (res : Option Nat) : List String :=
  if op.role = .acq then (if res = some 1 then [] else ["x"])
  else
    match res with
    | none => []
    | some v =>
      if op.acc = .clone then [toString v, toString (aimdSuccNew cfg v)]
      else if op.rd ∨ op.acc ≠ .none then [toString v] else []

/-- the output of thread `tid` -/
def thOuts (cfg : Cfg) (tid : Nat) : List Item → List String
  | [] => []
  | .fin t op res :: tl => if t = tid then finOuts cfg op res ++ thOuts cfg tid tl else thOuts cfg tid tl
  | _ :: tl => thOuts cfg tid tl

def renderOutStrs (l : List String) : String := if l.isEmpty then "none" else ",".intercalate l

/-- the verdict line: the harness claims `trace-ok`; the checker confirms or names the first rejected entry.
`expect`: the value the limit cell must hold at the beginning (`none`: whatever the probe found, provided it is within
the bounds). Returns the verdict and the value the limit cell holds afterwards. -/
def traceVerdict (cfg : Cfg) (expect : Option Nat) (s : String) : String × Option Nat :=
  match parseTrace s with
  | none => ("trace-bad unparsed", none)
  | some tr =>
    match firstLim tr with
    | none => ("trace-bad no-probe", none)
    | some v0 =>
      if (expect.isSome ∧ expect ≠ some v0) ∨ ¬ (cfg.min ≤ v0 ∧ v0 ≤ cfg.max) then ("trace-bad start", none) else
      let i0 := (firstInf tr).getD 0
      match cfirstBadD cfg (cinit v0 i0) {} 0 tr with
      | some i => (s!"trace-bad {i}", none)
      | none =>
        match checkTraceD cfg v0 i0 tr with
        | some (cs, _) => ("trace-ok", some cs.lim)
        | none => ("trace-bad unfinished", none)

/-- the protocol-level lines of one round / warm-up: the verdict; and for an accepted trace what each of the `nth` threads
reported (`trace-th <i> …`, from the End markers the checker has validated) and the values the round left in the limit cell
and — if the trace names an in-flight cell — in the counter (`trace-end <limit> [<in_flight>]`). The harness logs the same
lines from what its threads returned and from `limit()` / `in_flight()` after the round. -/
def traceReport (cfg : Cfg) (expect : Option Nat) (nth : Nat) (s : String) : List String × Option Nat :=
  let v := traceVerdict cfg expect s
  match v.2, parseTrace s with
  | some lim, some tr =>
    let i0 := (firstInf tr).getD 0
    let hasInf := ((s.splitOn ";").headD "").endsWith ",-" == false
    (v.1 :: (List.range nth).map (fun i => s!"trace-th {i} {renderOutStrs (thOuts cfg i tr)}") ++
      [if hasInf then s!"trace-end {lim} {finalInf i0 tr}" else s!"trace-end {lim}"], v.2)
  | _, _ => ([v.1], v.2)

/-- the step model's machine plus the protocol verdict on the observed value-level traces (`@tr=` on the `warm` and
`sched` lines). `plim`: the value the limit cell holds according to the accepted traces so far (`none` once a trace was
rejected: later traces are then judged from whatever their probe finds). -/
def machineT : Machine where
  σ := (Cfg × MState) × Option Nat
  init kv := (machine.init kv, some (clampInit (parseCfg kv)))
  step := fun (d, plim) ws =>
    let r := machine.step d ws
    match ws with
    | "manual" :: what :: rest =>
        if what = "sched" ∨ what = "warm" then
          if d.1.min > d.1.max then ((r.1, plim), r.2) else
          let nth := if what = "warm" then 1 else d.2.progs.length
          let v := traceReport d.1 plim nth ((parseKv rest).str "@tr" "-")
          ((r.1, v.2), r.2 ++ v.1.map Ev.raw)
        else ((r.1, plim), r.2)
    | _ => ((r.1, plim), r.2)
  now := fun _ => 0

end TR.Limit
