import TR.Model.Common
/-!
# Bulkhead (C01, C07) — `crates/tower-resilience-bulkhead/src/service.rs`

One `poll` of one call future is one step. The tokio semaphore is modelled as
`free` permits + a FIFO `queue` of waiters + the list `assigned` of waiters that a release
has already handed a permit to (tokio assigns permits at release time, the waiter only
notices at its next poll). `running` = callers whose inner call exists (they hold a permit).
-/
namespace TR.Bulkhead

structure Cfg where
  max     : Nat
  maxWait : Option Nat      -- none = wait forever; some 0 = reject when full
deriving Repr

structure State where
  now       : Nat := 0
  free      : Nat
  fresh     : List Nat := []          -- call future created, never polled
  queue     : List Nat := []          -- waiting for a permit (FIFO)
  assigned  : List Nat := []          -- handed a permit by a release, not polled since
  running   : List Nat := []          -- inner call exists
  deadline  : List (Nat × Nat) := []  -- wait deadline of queued callers
  firstPoll : List (Nat × Nat) := []  -- ghost: instant of the first poll ("arrival")
  doneAt    : List (Nat × Nat) := []  -- instant the inner call finishes
  script    : List (Nat × Step) := []
  kOf       : List (Nat × Nat) := []  -- serial number of the caller's inner call
  serial    : Nat := 0
  log       : List Ev := []           -- ghost: every event so far
deriving Repr

inductive Op
  | arrive (c : Nat) (sc : Step)
  | poll (c : Nat)
  | drop (c : Nat)
  | adv (ms : Nat)
  /-- the handle the caller wanted to call did not become ready: its inner service answered `poll_ready` with an
  error (`some kind`: the caller gets that error and discards the handle) or stayed pending until the caller gave
  up (`none`); no call future is ever created and the bulkhead's slots are not concerned -/
  | refuse (c : Nat) (kind : Option Nat)
  /-- `n` inner calls were started elsewhere (by other services over the same scripted backend, whose call
  serial numbers are global): only the serial counter moves -/
  | tick (n : Nat)
deriving Repr

/-- give one permit back: to the head of the queue if any, else to the pool -/
def release (s : State) : State :=
  match s.queue with
  | []      => { s with free := s.free + 1 }
  | h :: tl => { s with queue := tl, assigned := s.assigned ++ [h] }

def emit (s : State) (evs : List Ev) : State := { s with log := s.log ++ evs }

/-- the inner service is called: `inner_call c k` -/
def startInner (s : State) (c : Nat) : State :=
  let lat := match lookup s.script c with | some sc => sc.lat | none => 0
  emit { s with running := s.running ++ [c], doneAt := (c, s.now + lat) :: s.doneAt,
                kOf := (c, s.serial) :: s.kOf, serial := s.serial + 1 } [.innerCall c s.serial]

def known (s : State) (c : Nat) : Bool := (lookup s.script c).isSome

def pollQueued (s : State) (c : Nat) : State :=
  match lookup s.deadline c with
  | some d => if s.now ≥ d then emit { s with queue := s.queue.erase c } [.result c .timeout] else s
  | none => s

def finishRunning (s : State) (c : Nat) (evs : List Ev) : State :=
  emit (release { s with running := s.running.erase c }) evs

def outcomeEvents (c k : Nat) : Out → List Ev
  | .ok => [.innerDone c k .ok, .result c (.ok k)]
  | .err kd => [.innerDone c k (.err kd), .result c (.inner kd k)]
  | .panic => [.innerDone c k .panic, .result c .panic]
  | .never => []

def pollRunning (s : State) (c : Nat) : State :=
  match lookup s.doneAt c, lookup s.script c, lookup s.kOf c with
  | some t, some sc, some k =>
      if s.now ≥ t ∧ sc.out ≠ .never then finishRunning s c (outcomeEvents c k sc.out)
      else s
  | _, _, _ => s

/-- The async block does not yield between taking the permit and the first poll of the
inner future: admission and (for an inner call that is ready at once) completion are one step. -/
def admitCall (s : State) (c : Nat) : State := pollRunning (startInner s c) c

def pollFresh (cfg : Cfg) (s : State) (c : Nat) : State :=
  let s := { s with fresh := s.fresh.erase c, firstPoll := (c, s.now) :: s.firstPoll }
  if s.free > 0 then admitCall { s with free := s.free - 1 } c
  else match cfg.maxWait with
    | some 0 => emit s [.result c .timeout]
    | some w => { s with queue := s.queue ++ [c], deadline := (c, s.now + w) :: s.deadline }
    | none   => { s with queue := s.queue ++ [c] }

def pollAssigned (s : State) (c : Nat) : State :=
  admitCall { s with assigned := s.assigned.erase c } c

def dropRunning (s : State) (c : Nat) : State :=
  finishRunning s c [.innerDrop c ((lookup s.kOf c).getD 0)]

/-- A readiness failure of one handle is answered to that caller and touches nothing else: not the permits, not
the queue, not the calls in flight (`Bulkhead::poll_ready` only forwards the inner service's answer). -/
def refuseCall (s : State) (c : Nat) (kind : Option Nat) : State :=
  emit { s with script := (c, { lat := 0, out := .ok }) :: s.script }
    [.result c (match kind with | some k => .inner k 0 | none => .notReady)]

def stepS (cfg : Cfg) (s : State) (op : Op) : State :=
  match op with
  | .adv ms => { s with now := s.now + ms }
  | .arrive c sc =>
      if known s c then s else { s with fresh := s.fresh ++ [c], script := (c, sc) :: s.script }
  | .poll c =>
      if s.fresh.contains c then pollFresh cfg s c
      else if s.assigned.contains c then pollAssigned s c
      else if s.queue.contains c then pollQueued s c
      else if s.running.contains c then pollRunning s c
      else s
  | .drop c =>
      if s.fresh.contains c then { s with fresh := s.fresh.erase c }
      else if s.queue.contains c then { s with queue := s.queue.erase c }
      else if s.assigned.contains c then release { s with assigned := s.assigned.erase c }
      else if s.running.contains c then dropRunning s c
      else s
  | .refuse c kind =>
      if known s c then s else refuseCall s c kind
  | .tick n => { s with serial := s.serial + n }

def init (cfg : Cfg) : State := { free := cfg.max }
def run (cfg : Cfg) (ops : List Op) : State := ops.foldl (stepS cfg) (init cfg)

/-! ## several services built from one layer value

`BulkheadLayer::layer` makes a new semaphore for every service it wraps (`Bulkhead::new`); the layer value (and its
clones) only carries the configuration. Services built from one layer are therefore independent bulkheads with the
same `Cfg`. They are modelled as a family of instances, one per service index; every service exists from the start
(a service that has not been built yet cannot be told from one that has never been used). The only thing the
instances share is an artefact of the harness: the scripted inner services number their calls with one global
serial, so a call made through service `i` moves the serial of every other instance (`Op.tick`). Time is common. -/

structure MState where
  insts : Nat → State
  /-- ghost: the operations service `j` has seen so far (`insts j = run cfg (hist j)`, see `Lemmas/BulkheadMulti`) -/
  hist  : Nat → List Op

def initM (cfg : Cfg) : MState := { insts := fun _ => init cfg, hist := fun _ => [] }

/-- `op` performed on service `i` (time advances everywhere; a `tick` is not an operation of a caller) -/
def stepM (cfg : Cfg) (ms : MState) (i : Nat) (op : Op) : MState :=
  match op with
  | .adv d => { insts := fun j => stepS cfg (ms.insts j) (.adv d), hist := fun j => ms.hist j ++ [.adv d] }
  | .tick _ => ms
  | op =>
      let st' := stepS cfg (ms.insts i) op
      let n := st'.serial - (ms.insts i).serial
      { insts := fun j => if j = i then st' else stepS cfg (ms.insts j) (.tick n),
        hist := fun j => if j = i then ms.hist j ++ [op] else ms.hist j ++ [.tick n] }

def runM (cfg : Cfg) (mops : List (Nat × Op)) : MState :=
  mops.foldl (fun ms (io : Nat × Op) => stepM cfg ms io.1 io.2) (initM cfg)

/-! ## presets (`BulkheadLayer::small/medium/large`, layer.rs): documented configuration -/

/-- `BulkheadLayer::small()`: 10 concurrent calls, reject immediately when full -/
def presetSmall : Cfg := { max := 10, maxWait := some 0 }
/-- `BulkheadLayer::medium()`: 50 concurrent calls, reject immediately when full -/
def presetMedium : Cfg := { max := 50, maxWait := some 0 }
/-- `BulkheadLayer::large()`: 200 concurrent calls, reject immediately when full -/
def presetLarge : Cfg := { max := 200, maxWait := some 0 }

def presetOf (name : String) : Option Cfg :=
  if name = "small" then some presetSmall
  else if name = "medium" then some presetMedium
  else if name = "large" then some presetLarge
  else none

/-! ## waits with a sub-millisecond part

The model's clock (`State.now`, `Op.adv`) counts whole milliseconds: that is the grid of tokio's timer wheel, and every
instant the harness visits lies on it. `max_wait_duration` is an arbitrary `Duration`; the bulkhead hands it to
`tokio::time::timeout`, whose timer fires at the first millisecond boundary at or after `arrival + wait`
(`deadline_to_tick` rounds UP). For an arrival on the grid that is `arrival + timerTicks wait`. `Cfg.maxWait` is this
number of ticks; `cfgOf` computes it from the configured wait (`unit=us`: microseconds). Consequences (proved in
`TR.Props.C07`): a caller is never rejected before its configured wait has fully elapsed, less than one millisecond after
it, exactly then for whole-millisecond waits, and only a wait of exactly zero rejects without waiting. -/

/-- number of timer ticks (ms) after which a `timeout` of `us` microseconds, started on a millisecond boundary, fires -/
def timerTicks (us : Nat) : Nat := (us + 999) / 1000

/-- The configuration a case header describes: an optional preset, then the builder calls in the order the adapter
makes them — `max_concurrent_calls(max)` if given, `pre=reject` (`reject_when_full()`), `wait=` (`max_wait_duration`,
milliseconds, or microseconds with `unit=us`), `post=reject`: for the wait the last setter decides. -/
def cfgOf (kv : Kv) : Cfg :=
  let base : Option Cfg := presetOf (kv.str "preset" "")
  let max := kv.nat "max" (match base with | some b => b.max | none => 1)
  let wait0 : Option Nat := match base with | some b => b.maxWait | none => none
  let wait1 : Option Nat := if kv.str "pre" "" = "reject" then some 0 else wait0
  let wait2 : Option Nat := if kv.str "wait" "" = "max" then some (10 ^ 30)
                            else match kv.optNat "wait" with
                              | some w => some (if kv.str "unit" "" = "us" then timerTicks w else w)
                              | none => wait1
  { max := max, maxWait := if kv.str "post" "" = "reject" then some 0 else wait2 }

/-! ## line protocol -/

/-- `rdy=<script>`: the answers of the inner service to the successive `poll_ready` calls on the handle the caller is
about to call ('p' pending, 'r' ready, 'e' error); the caller polls until an answer other than pending or until the
script ends. `none`: the handle became ready (the call is made); `some none`: it never did (the caller gives up,
`notready`); `some (some 9)`: readiness failed with the scripted inner error (kind 9). -/
def readiness (kv : Kv) : Option (Option Nat) :=
  match kv.get "rdy" with
  | none => none
  | some sc =>
    match sc.toList.dropWhile (· == 'p') with
    | [] => some none
    | ch :: _ => if ch == 'e' then some (some 9) else none

def parseOp (ws : List String) : Option Op :=
  match ws with
  | "arrive" :: c :: rest =>
      let kv := parseKv rest
      match readiness kv with
      | some kind => some (.refuse (c.toNat?.getD 0) kind)
      | none =>
        let plan := planOf kv
        some (.arrive (c.toNat?.getD 0) (plan.headD { lat := 0, out := .ok }))
  | "poll" :: c :: _ => some (.poll (c.toNat?.getD 0))
  | "drop" :: c :: _ => some (.drop (c.toNat?.getD 0))
  | "adv" :: ms :: _ => some (.adv (ms.toNat?.getD 0))
  | _ => none

/-- the service an operation line concerns: `svc=<k>` on `arrive` (default 0), the caller's service otherwise -/
def svcOf (owner : List (Nat × Nat)) (ws : List String) : Nat :=
  match ws with
  | "arrive" :: _ :: rest => (parseKv rest).nat "svc" 0
  | _ :: c :: _ => (lookup owner (c.toNat?.getD 0)).getD 0
  | _ => 0

def machine : Machine where
  σ := Cfg × MState × List (Nat × Nat)
  init kv := let cfg := cfgOf kv; (cfg, initM cfg, [])
  step := fun (cfg, ms, owner) ws =>
    match parseOp ws with
    | some op =>
        let i := svcOf owner ws
        let owner' := match ws with
          | "arrive" :: c :: _ => if (lookup owner (c.toNat?.getD 0)).isSome then owner else (c.toNat?.getD 0, i) :: owner
          | _ => owner
        let ms' := stepM cfg ms i op
        ((cfg, ms', owner'), (ms'.insts i).log.drop (ms.insts i).log.length)
    | none => ((cfg, ms, owner), [])
  now := fun (_, ms, _) => (ms.insts 0).now

end TR.Bulkhead
