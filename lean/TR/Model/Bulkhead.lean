import TR.Model.Common
/-!
# Bulkhead (C01, C07) — `crates/tower-resilience-bulkhead/src/service.rs`

One `poll` of one call future is one step. The tokio semaphore is modelled as
`free` permits + a FIFO `queue` of waiters + the list `assigned` of waiters that a release
has already handed a permit to (tokio assigns permits at release time, the waiter only
notices at its next poll). `running` = callers whose inner call exists (they hold a permit).
-/
namespace TR.Bulkhead

structure Cfg where
  max     : Nat
  maxWait : Option Nat      -- none = wait forever; some 0 = reject when full
deriving Repr

structure State where
  now       : Nat := 0
  free      : Nat
  fresh     : List Nat := []          -- call future created, never polled
  queue     : List Nat := []          -- waiting for a permit (FIFO)
  assigned  : List Nat := []          -- handed a permit by a release, not polled since
  running   : List Nat := []          -- inner call exists
  deadline  : List (Nat × Nat) := []  -- wait deadline of queued callers
  firstPoll : List (Nat × Nat) := []  -- ghost: instant of the first poll ("arrival")
  doneAt    : List (Nat × Nat) := []  -- instant the inner call finishes
  script    : List (Nat × Step) := []
  kOf       : List (Nat × Nat) := []  -- serial number of the caller's inner call
  serial    : Nat := 0
  log       : List Ev := []           -- ghost: every event so far
deriving Repr

inductive Op
  | arrive (c : Nat) (sc : Step)
  | poll (c : Nat)
  | drop (c : Nat)
  | adv (ms : Nat)
deriving Repr

/-- give one permit back: to the head of the queue if any, else to the pool -/
def release (s : State) : State :=
  match s.queue with
  | []      => { s with free := s.free + 1 }
  | h :: tl => { s with queue := tl, assigned := s.assigned ++ [h] }

def emit (s : State) (evs : List Ev) : State := { s with log := s.log ++ evs }

/-- the inner service is called: `inner_call c k` -/
def startInner (s : State) (c : Nat) : State :=
  let lat := match lookup s.script c with | some sc => sc.lat | none => 0
  emit { s with running := s.running ++ [c], doneAt := (c, s.now + lat) :: s.doneAt,
                kOf := (c, s.serial) :: s.kOf, serial := s.serial + 1 } [.innerCall c s.serial]

def known (s : State) (c : Nat) : Bool := (lookup s.script c).isSome

def pollQueued (s : State) (c : Nat) : State :=
  match lookup s.deadline c with
  | some d => if s.now ≥ d then emit { s with queue := s.queue.erase c } [.result c .timeout] else s
  | none => s

def finishRunning (s : State) (c : Nat) (evs : List Ev) : State :=
  emit (release { s with running := s.running.erase c }) evs

def outcomeEvents (c k : Nat) : Out → List Ev
  | .ok => [.innerDone c k .ok, .result c (.ok k)]
  | .err kd => [.innerDone c k (.err kd), .result c (.inner kd k)]
  | .panic => [.innerDone c k .panic, .result c .panic]
  | .never => []

def pollRunning (s : State) (c : Nat) : State :=
  match lookup s.doneAt c, lookup s.script c, lookup s.kOf c with
  | some t, some sc, some k =>
      if s.now ≥ t ∧ sc.out ≠ .never then finishRunning s c (outcomeEvents c k sc.out)
      else s
  | _, _, _ => s

/-- The async block does not yield between taking the permit and the first poll of the
inner future: admission and (for an inner call that is ready at once) completion are one step. -/
def admitCall (s : State) (c : Nat) : State := pollRunning (startInner s c) c

def pollFresh (cfg : Cfg) (s : State) (c : Nat) : State :=
  let s := { s with fresh := s.fresh.erase c, firstPoll := (c, s.now) :: s.firstPoll }
  if s.free > 0 then admitCall { s with free := s.free - 1 } c
  else match cfg.maxWait with
    | some 0 => emit s [.result c .timeout]
    | some w => { s with queue := s.queue ++ [c], deadline := (c, s.now + w) :: s.deadline }
    | none   => { s with queue := s.queue ++ [c] }

def pollAssigned (s : State) (c : Nat) : State :=
  admitCall { s with assigned := s.assigned.erase c } c

def dropRunning (s : State) (c : Nat) : State :=
  finishRunning s c [.innerDrop c ((lookup s.kOf c).getD 0)]

def stepS (cfg : Cfg) (s : State) (op : Op) : State :=
  match op with
  | .adv ms => { s with now := s.now + ms }
  | .arrive c sc =>
      if known s c then s else { s with fresh := s.fresh ++ [c], script := (c, sc) :: s.script }
  | .poll c =>
      if s.fresh.contains c then pollFresh cfg s c
      else if s.assigned.contains c then pollAssigned s c
      else if s.queue.contains c then pollQueued s c
      else if s.running.contains c then pollRunning s c
      else s
  | .drop c =>
      if s.fresh.contains c then { s with fresh := s.fresh.erase c }
      else if s.queue.contains c then { s with queue := s.queue.erase c }
      else if s.assigned.contains c then release { s with assigned := s.assigned.erase c }
      else if s.running.contains c then dropRunning s c
      else s

def init (cfg : Cfg) : State := { free := cfg.max }
def run (cfg : Cfg) (ops : List Op) : State := ops.foldl (stepS cfg) (init cfg)

/-! ## line protocol -/

def parseOp (ws : List String) : Option Op :=
  match ws with
  | "arrive" :: c :: rest =>
      let plan := planOf (parseKv rest)
      some (.arrive (c.toNat?.getD 0) (plan.headD { lat := 0, out := .ok }))
  | "poll" :: c :: _ => some (.poll (c.toNat?.getD 0))
  | "drop" :: c :: _ => some (.drop (c.toNat?.getD 0))
  | "adv" :: ms :: _ => some (.adv (ms.toNat?.getD 0))
  | _ => none

def machine : Machine where
  σ := Cfg × State
  init kv :=
    let cfg : Cfg := { max := kv.nat "max" 1, maxWait := (if kv.str "post" "" = "reject" then some 0
                  else if kv.str "wait" "" = "max" then some (10 ^ 30)
                  else if kv.str "pre" "" = "reject" && (kv.optNat "wait").isNone then some 0
                  else kv.optNat "wait") }
    (cfg, init cfg)
  step := fun (cfg, s) ws =>
    match parseOp ws with
    | some op => let s' := stepS cfg s op; ((cfg, s'), s'.log.drop s.log.length)
    | none => ((cfg, s), [])
  now := fun (_, s) => s.now

end TR.Bulkhead
