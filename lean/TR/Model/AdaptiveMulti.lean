import TR.Model.Adaptive
import TR.Model.LimitTrace
/-!
# Several adaptive services built from one layer value (C13) — `crates/tower-resilience-adaptive/src/layer.rs`

`AdaptiveLimiterLayer` holds the algorithm in an `Arc`; `Clone` of the layer clones that `Arc`; every `layer.layer(inner)`
(and every `into_layer()` / builder path, which all end in `AdaptiveLimiterLayer::new`) calls `AdaptiveService::new(inner,
Arc::clone(&algorithm))`, which creates a NEW `in_flight` counter, a new `current_limit` mirror (initialised from
`algorithm.limit()` at that moment) and a new semaphore. So the services built from one layer value — or from clones of
it, before or after other services were built — **share the algorithm and nothing else**: the limit they compare with
is common (feedback from any of them moves it for all), the in-flight count, the handles and the callers are per
service.

`Multi` is that: one algorithm (and the clock and the scripted inner service's serial numbers, which the harness
shares between the services), and one `TR.Adaptive.State` per service built so far; an operation on service `k` is the
single-service step `stepS` on `k`'s state seen with the shared parts (`view`), written back (`put`).
`svc=<k>` on an operation line selects the service (default 0); a service exists from its first use.

The machine `machineM` also appends the protocol-level verdict (`TR.Limit.traceVerdict`) on the value-level trace that
the harness records on every round of threads and every sequential warm-up (`@tr=`).
-/
namespace TR.Adaptive
open TR.Limit (Cfg Cells)

structure Multi where
  alg    : Cells                        -- the algorithm all services of the layer share
  now    : Nat := 0
  serial : Nat := 0                     -- serial numbers of the scripted inner service (one service, cloned)
  svcs   : List (Nat × State) := []     -- the services built so far (their `alg` / `now` / `serial` fields are stale copies)
  home   : List (Nat × Nat) := []       -- caller → the service it uses
deriving Repr

/-- `AdaptiveService::new`: nothing in flight, the mirror starts at the algorithm's current limit -/
def fresh (m : Multi) : State := { alg := m.alg, now := m.now, serial := m.serial, cur := m.alg.limit }

/-- service `k` as it is now: its own state with the shared algorithm, clock and serial counter -/
def view (m : Multi) (k : Nat) : State :=
  match lookup m.svcs k with
  | some s => { s with alg := m.alg, now := m.now, serial := m.serial }
  | none => fresh m

def setKey (l : List (Nat × State)) (k : Nat) (s : State) : List (Nat × State) :=
  (k, s) :: l.filter fun p => p.1 != k

/-- write service `k` back; what it did to the shared parts is seen by every service -/
def put (m : Multi) (k : Nat) (s : State) : Multi :=
  { m with alg := s.alg, now := s.now, serial := s.serial, svcs := setKey m.svcs k s }

/-- one operation on service `k` -/
def stepM (cfg : Cfg) (m : Multi) (k : Nat) (op : Op) : Multi := put m k (stepS cfg (view m k) op)

def initM (cfg : Cfg) : Multi := { alg := Limit.initCells cfg, svcs := [(0, init cfg)] }

def runM (cfg : Cfg) (ops : List (Nat × Op)) : Multi := ops.foldl (fun m p => stepM cfg m p.1 p.2) (initM cfg)

/-! ## line protocol -/

/-- the caller an operation line is about, if it is about one -/
def callerOf (ws : List String) : Option Nat :=
  match ws with
  | "arrive" :: c :: _ => c.toNat?
  | "poll" :: c :: _ => c.toNat?
  | "drop" :: c :: _ => c.toNat?
  | "release" :: c :: _ => c.toNat?
  | "manual" :: "check" :: rest => (parseKv rest).optNat "c"
  | _ => none

/-- probes of a service other than 0 say which -/
def tagSvc (k : Nat) (e : Ev) : Ev :=
  if k = 0 then e else
  match e with
  | .probe s => .probe s!"{s} svc={k}"
  | e => e

def stepLine (cfg : Cfg) (m : Multi) (ws : List String) : Multi × List Ev :=
  let want := (parseKv ws).nat "svc" 0
  -- a caller stays with the service it first used (ahead-of-time check or arrival)
  let k := match callerOf ws with
    | some c => (lookup m.home c).getD want
    | none => want
  -- … and is bound to it by the operation that first names a service for it (`arrive`, `manual check`)
  let binds := match ws with
    | "arrive" :: _ => true
    | "manual" :: "check" :: _ => true
    | _ => false
  let m1 : Multi := match callerOf ws with
    | some c => if (lookup m.home c).isSome ∨ binds = false then m else { m with home := (c, k) :: m.home }
    | none => m
  match ws with
  | "probe" :: "bounds" :: _ => (m1, [tagSvc k (.probe s!"bounds = {cfg.min},{cfg.max}")])
  | _ =>
    match parseOp ws with
    | some op =>
      let s := view m1 k
      let s' := stepS cfg s op
      (put m1 k s', (s'.log.drop s.log.length).map (tagSvc k))
    | none => (m1, [])

/-- the services of one layer with the protocol verdict on every observed value-level trace -/
def machineM : Machine where
  σ := Cfg × Multi
  init kv := let cfg := Limit.parseCfg kv; (cfg, initM cfg)
  step := fun (cfg, m) ws =>
    let r := stepLine cfg m ws
    match ws with
    | "manual" :: what :: rest =>
        if (what = "sched" ∨ what = "warm") ∧ cfg.min ≤ cfg.max then
          let nth := if what = "warm" then 1 else (view m ((parseKv ws).nat "svc" 0)).progs.length
          ((cfg, r.1), r.2 ++ (Limit.traceReport cfg none nth ((parseKv rest).str "@tr" "-")).1.map Ev.raw)
        else ((cfg, r.1), r.2)
    | _ => ((cfg, r.1), r.2)
  now := fun (_, m) => m.now

end TR.Adaptive
