import TR.Model.Common
/-!
# Back-off intervals (C14) — `crates/tower-resilience-retry/src/backoff.rs`,
`crates/tower-resilience-reconnect/src/policy.rs`

The code is IEEE-754 arithmetic, so there are two models (DESIGN §8 C14):

(A) `ideal` — the value the code is meant to compute, in exact arithmetic: nanoseconds as `Nat`,
    the multiplier a rational `num/den ≥ 1`, `⌊initial · (num/den)^e⌋` saturating at the cap
    (`max_interval`, or `Duration::MAX` when absent), `e` the `usize → i32` clamp of the attempt.
    `idealExec` computes the same value with an early exit (it is what the driver runs;
    `TR/Lemmas/Backoff.lean` proves `idealExec = ideal`). The implementation's float result is an
    observed choice: it must EQUAL `ideal` on the exact region of the float computation (`exactRegion`),
    and elsewhere lie in a small envelope around `ideal`, below the cap, and in order with the values
    accepted before for the same configuration (`allowedExp`, `obsOk`, `allowedRand`).

(B) `nextInterval` — the repaired `capped_exponential` (and `randomize`) written against an
    abstract arithmetic `FloatLike` whose laws are fields of the structure (hypotheses, not axioms);
    `natArith` is a concrete instance (exact naturals with ∞), so the laws are consistent.
    `TR/Model/BackoffFloat.lean` continues (B): what is assumed of binary64 beyond these four laws
    (`F64Laws`, `JitterLaws`), the jitter range handed to `random_range`, `delay_for_attempt`, the loop.
-/
namespace TR.Backoff

def i32Max : Nat := 2147483647
/-- `Duration::MAX` in ns: `u64::MAX` s + 999 999 999 ns -/
def durMax : Nat := 18446744073709551615999999999

structure Cfg where
  initial : Nat            -- ns
  num : Nat                -- multiplier = num / den
  den : Nat
  cap : Option Nat         -- max_interval in ns; none = absent
deriving Repr, DecidableEq

/-- a valid configuration: multiplier ≥ 1 -/
structure Cfg.Valid (cfg : Cfg) : Prop where
  den_pos : 0 < cfg.den
  ge_one : cfg.den ≤ cfg.num

def Cfg.capNs (cfg : Cfg) : Nat := cfg.cap.getD durMax

/-! ## the builder

`ExponentialBackoff::new(initial)` (and `ExponentialRandomBackoff::new(initial, factor)`) start from
multiplier 2.0 and no maximum; the two public setters `multiplier` and `max_interval` each overwrite
their own field and nothing else. A configuration is what a *chain* of setters, in any order and with
any repetition, leaves behind: a left fold. (The initial interval and the randomization factor are
constructor arguments, there is no setter for them.) -/

inductive Setter
  | mult (num den : Nat)   -- `.multiplier(num/den)`
  | cap (ns : Nat)         -- `.max_interval(ns)`
deriving Repr, DecidableEq

/-- `ExponentialBackoff::new(initial)` -/
def newCfg (initial : Nat) : Cfg := { initial := initial, num := 2, den := 1, cap := none }

def applySetter (cfg : Cfg) : Setter → Cfg
  | .mult p q => { cfg with num := p, den := q }
  | .cap c => { cfg with cap := some c }

/-- the configuration `new(initial).s₁.s₂.…` ends up with -/
def build (initial : Nat) (chain : List Setter) : Cfg := chain.foldl applySetter (newCfg initial)

/-- `attempt.min(i32::MAX as usize) as i32` -/
def expo (a : Nat) : Nat := min a i32Max

/-- `⌊initial · (num/den)^e⌋`, uncapped -/
def raw (cfg : Cfg) (a : Nat) : Nat := cfg.initial * cfg.num ^ expo a / cfg.den ^ expo a

/-- (A) the delay for attempt `a` in exact arithmetic -/
def ideal (cfg : Cfg) (a : Nat) : Nat := min (raw cfg a) cfg.capNs

/-- early-exit evaluation: `(n, d) = (initial·num^k, den^k)`, stop as soon as the cap is reached -/
def go (cap p q : Nat) : Nat → Nat → Nat → Nat
  | 0, n, d => min (n / d) cap
  | f + 1, n, d => if cap ≤ n / d then cap else go cap p q f (n * p) (d * q)

def idealExec (cfg : Cfg) (a : Nat) : Nat :=
  if cfg.num = cfg.den ∨ cfg.initial = 0 then min cfg.initial cfg.capNs
  else go cfg.capNs cfg.num cfg.den (expo a) cfg.initial 1

/-- the same loop, also counting the multiplications actually needed: `(value, k)` with `k` the first exponent at
which the cap is reached, or the whole exponent if it never is -/
def goP (cap p q : Nat) : Nat → Nat → Nat → Nat → Nat × Nat
  | 0, n, d, k => (min (n / d) cap, k)
  | f + 1, n, d, k => if cap ≤ n / d then (cap, k) else goP cap p q f (n * p) (d * q) (k + 1)

/-- `(ideal, effective exponent)`: the effective exponent is `min (expo a) (first exponent at which
`⌊initial·m^e⌋` reaches the cap)`; 0 for multiplier 1 / initial interval 0 (`powi(1.0, e)` is exactly 1) -/
def idealExecP (cfg : Cfg) (a : Nat) : Nat × Nat :=
  if cfg.num = cfg.den ∨ cfg.initial = 0 then (min cfg.initial cfg.capNs, 0)
  else goP cfg.capNs cfg.num cfg.den (expo a) cfg.initial 1 0

/-- the number of factors `m` in the product that decides the answer -/
def effExp (cfg : Cfg) (a : Nat) : Nat := (idealExecP cfg a).2

/-! ## jitter (`ExponentialRandomBackoff::randomize`), factor `pct`/100 ∈ [0,1] -/

def jitterLo (x pct : Nat) : Nat := x * (100 - pct) / 100
def jitterHi (x pct : Nat) : Nat := x * (100 + pct) / 100
/-- `random_range(min..=max)` with the random point `r/s ∈ [0,1]` -/
def jittered (x pct r s : Nat) : Nat := jitterLo x pct + (jitterHi x pct - jitterLo x pct) * r / s

/-! ### any factor `fn/fd ∈ [0,1]` (the constructor takes an arbitrary `f64` and clamps it) -/

def jitterLoQ (x fn fd : Nat) : Nat := x * (fd - fn) / fd
def jitterHiQ (x fn fd : Nat) : Nat := x * (fd + fn) / fd
/-- `random_range(min..=max)` with the random point `r/s ∈ [0,1]` -/
def jitteredQ (x fn fd r s : Nat) : Nat := jitterLoQ x fn fd + (jitterHiQ x fn fd - jitterLoQ x fn fd) * r / s

/-- `randomization_factor.clamp(0.0, 1.0)` in `ExponentialRandomBackoff::new`: everything above 1 (`n/0` with `n > 0`
is `+∞`) becomes 1. (`0/0` is NaN, which `clamp` keeps: outside the property's quantifier, never generated.) -/
def clampFactor (fn fd : Nat) : Nat × Nat := if fd < fn then (1, 1) else (fn, fd)

/-! ## the exact region of the float computation

Every `f64` operation of `capped_exponential` is exact — no rounding at all — when the initial interval and the
maximum are numbers of seconds binary64 represents exactly and the multiplier is a power of two (hypothesis structure
`F64Laws`, `TR/Model/BackoffFloat.lean`; theorem `TR.Props.C14.float_exact_in_exact_region`). There the
implementation's value is not a choice: it must equal `ideal`. `repB` is a sufficient, executable test for "S ns is
exactly representable in seconds": `S = q·5^9` with `q < 2^53`, i.e. `S/10^9 = q/2^9`. -/

def five9 : Nat := 1953125
def repB (S : Nat) : Bool := S % five9 == 0 && decide (S / five9 < 2 ^ 53)
/-- the maximum is absent (`Duration::MAX`, whose `as_secs_f64` is `2^64`), `Duration::MAX` itself, or exactly representable -/
def capExactB (c : Option Nat) : Bool :=
  match c with
  | none => true
  | some c => c == durMax || repB c
/-- `j` with `num/den = 2^j`, if there is one below 64 -/
def pow2Of (num den : Nat) : Option Nat := (List.range 64).find? (fun j => num == 2 ^ j * den)
def exactRegion (cfg : Cfg) : Bool :=
  decide (0 < cfg.den) && decide (cfg.num < 2 ^ 53) && repB cfg.initial && capExactB cfg.cap && (pow2Of cfg.num cfg.den).isSome

/-! ## the envelope the float-valued implementation must stay in -/

/-- relative `2^-40` plus one nanosecond -/
def tol (x : Nat) : Nat := x / 2 ^ 40 + 1
def near (v x : Nat) : Bool := decide (v ≤ x + tol x) && decide (x ≤ v + tol x)

/-- The tolerance as a function of the exponent `e`. With `u = 2^-53`: the `f64` multiplier is `m(1+δ)`, `|δ| ≤ u`, so
`powi` is handed a number whose `e`-th power is off by `e·δ` (systematic, linear in `e`: for `m = 1.01` it is what
dominates); `__powidf2` (square-and-multiply) rounds at most `e − 1` times in first-order units (a square doubles the
relative error and adds `u`); `as_secs_f64`, the product and `from_secs_f64` round once each. Relative error
`≤ (2e + 2)·u` to first order; `(2e + 8)·u` with slack for the higher-order terms, plus one nanosecond. For
`e ≤ 4092` that is within the `2^-40` the envelope had before (`8192·u = 2^-40`), so nothing changes there
(`tolE_eq_tol`); beyond, it grows linearly. `e` is the EFFECTIVE exponent (`effExp`): once the exact value has
reached the cap, further factors do not matter (`powi_mono`). -/
def tolE (x e : Nat) : Nat := x * max 8192 (2 * e + 8) / 2 ^ 53 + 1
def nearE (v x e : Nat) : Bool := decide (v ≤ x + tolE x e) && decide (x ≤ v + tolE x e)

/-- un-jittered kinds. Inside the exact region: exactly `ideal`. Outside: never above the cap, and within the
tolerance of `ideal` (which equals the cap from the attempt at which the exact value reaches it); monotonicity in the
attempt number is checked against the history of accepted values (`obsOk`). -/
def allowedExp (cfg : Cfg) (a v : Nat) : Bool :=
  if exactRegion cfg then v == idealExec cfg a
  else decide (v ≤ cfg.capNs) && nearE v (idealExecP cfg a).1 (idealExecP cfg a).2

/-- jittered kinds: within the randomization factor `fn/fd` of the capped value (± tolerance), ≤ `Duration::MAX`.
The value `d` the code jitters is itself float-computed and rounded to the nearest nanosecond (`|d − x| ≤ tol x`, the
envelope of the un-jittered kinds), so `d(1+f) ≤ x(1+f) + 2·tol x`, and the conversion of the draw rounds once more
(the same slack as the python monitor: it matters for delays of a few nanoseconds only). -/
def allowedRand (cfg : Cfg) (fn fd a v : Nat) : Bool :=
  let x := (idealExecP cfg a).1
  let t := tolE x (idealExecP cfg a).2
  decide (jitterLoQ x fn fd ≤ v + t + 1) && decide (v ≤ jitterHiQ x fn fd + 2 * t + 1) && decide (v ≤ durMax)

/-! ## the observed values are monotone in the attempt number

`powi` is not promised to be monotone in the exponent by IEEE 754; `F64Laws.powi_mono` assumes it for multipliers ≥ 1,
and under that assumption the code is monotone (`TR.Props.C14.float_monotone`). The checker holds every observed value
against the assumption: per configuration it keeps the accepted (attempt, value) pairs and accepts a new pair only if
it is ordered consistently with all of them (the same attempt asked twice must give the same value). -/

def obsOk (a v : Nat) (l : List (Nat × Nat)) : Bool :=
  l.all fun p => (!decide (p.1 ≤ a) || decide (p.2 ≤ v)) && (!decide (a ≤ p.1) || decide (v ≤ p.2))

abbrev Hist := List (Cfg × List (Nat × Nat))

def histGet (h : Hist) (cfg : Cfg) : List (Nat × Nat) :=
  match h with
  | [] => []
  | (c, l) :: tl => if c = cfg then l else histGet tl cfg

def histSet (h : Hist) (cfg : Cfg) (l : List (Nat × Nat)) : Hist :=
  match h with
  | [] => [(cfg, l)]
  | (c, l0) :: tl => if c = cfg then (c, l) :: tl else (c, l0) :: histSet tl cfg l

/-! ## the interval functions and `ReconnectPolicy` -/

inductive Kind
  | none                          -- ReconnectPolicy::None
  | fixed (ns : Nat)              -- FixedInterval / ReconnectPolicy::Fixed
  | exp (cfg : Cfg)               -- ExponentialBackoff / ReconnectPolicy::Exponential / RetryPolicy over it
  | rand (cfg : Cfg) (fn fd : Nat)  -- ExponentialRandomBackoff / ReconnectPolicy::ExponentialRandom, factor fn/fd (as stored: clamped)
deriving Repr, DecidableEq

/-- the un-jittered delay of every kind -/
def Kind.base : Kind → Nat → Option Nat
  | .none, _ => Option.none
  | .fixed d, _ => some d
  | .exp cfg, a => some (ideal cfg a)
  | .rand cfg _ _, a => some (ideal cfg a)

/-- the largest value a kind may return before jitter -/
def Kind.bound : Kind → Nat
  | .none => 0
  | .fixed d => d
  | .exp cfg => cfg.capNs
  | .rand cfg _ _ => cfg.capNs

/-- observed value of the implementation: nanoseconds, `None`, or a panic -/
inductive Obs
  | ns (v : Nat)
  | none
  | panic
deriving Repr, DecidableEq

def Kind.allowed : Kind → Nat → Obs → Bool
  | .none, _, .none => true
  | .fixed d, _, .ns v => v == d
  | .exp cfg, a, .ns v => allowedExp cfg a v
  | .rand cfg fn fd, a, .ns v => allowedRand cfg fn fd a v
  | _, _, _ => false

/-! ## (B) the repaired code over an abstract arithmetic -/

/-- what the code needs of `f64` and `Duration`; the last four fields are the laws -/
structure FloatLike where
  F : Type
  lt : F → F → Bool                  -- `<` (false if either side is NaN)
  le : F → F → Bool                  -- `<=`
  mul : F → F → F
  powi : F → Nat → F                 -- `powi` with a non-negative `i32` exponent
  max : F → F → F                    -- `f64::max`
  zero : F
  top : F                            -- `Duration::MAX.as_secs_f64()` = 2^64
  ofDur : Nat → F                    -- `Duration::as_secs_f64` (argument in ns)
  toDur? : F → Option Nat            -- `Duration::from_secs_f64`; `none` = it panics
  /-- `from_secs_f64` is defined on `0 ≤ x < 2^64` -/
  toDur_defined : ∀ x, lt x top = true → lt x zero = false → (toDur? x).isSome = true
  /-- `x < c.as_secs_f64()` for a real `Duration` `c` implies `x < 2^64` -/
  lt_ofDur_top : ∀ x c, c ≤ durMax → lt x (ofDur c) = true → lt x top = true
  lt_le : ∀ x y, lt x y = true → le x y = true
  max_zero_nonneg : ∀ x, lt (max x zero) zero = false

inductive Ans
  | dur (ns : Nat)
  | panic
deriving Repr, DecidableEq

/-- `capped_exponential` (backoff.rs), line by line -/
def nextInterval (fl : FloatLike) (initial : Nat) (mult : fl.F) (attempt : Nat) (max : Option Nat) : Ans :=
  let cap := max.getD durMax
  if initial = 0 then .dur 0
  else
    let secs := fl.mul (fl.ofDur initial) (fl.powi mult (expo attempt))
    if fl.lt secs (fl.ofDur cap) = false then .dur cap
    else if fl.le secs fl.zero = true then .dur 0
    else match fl.toDur? secs with
      | some d => .dur (min d cap)
      | none => .panic

/-- `ExponentialRandomBackoff::randomize` applied to `duration`, `r` being the value drawn by
`random_range(min..=max)` (any value at all: the clamp does not depend on it being in range) -/
def randomize (fl : FloatLike) (r : fl.F) : Ans :=
  let x := fl.max r fl.zero
  if fl.lt x fl.top = true then
    match fl.toDur? x with
    | some d => .dur d
    | none => .panic
  else .dur durMax

/-- the pinned (pre-repair) code: convert the product to a `Duration` first, cap afterwards -/
def nextIntervalCapAfter (fl : FloatLike) (initial : Nat) (mult : fl.F) (attempt : Nat) (max : Option Nat) : Ans :=
  match fl.toDur? (fl.mul (fl.ofDur initial) (fl.powi mult attempt)) with
  | some d => .dur (match max with | some c => min d c | none => d)
  | none => .panic

def top64 : Nat := 18446744073709551616000000000   -- 2^64 s in ns

/-- a concrete arithmetic: exact naturals (ns) with `none` for NaN / ∞ -/
def natArith : FloatLike where
  F := Option Nat
  lt a b := match a, b with | some x, some y => decide (x < y) | _, _ => false
  le a b := match a, b with | some x, some y => decide (x ≤ y) | _, _ => false
  mul a b := match a, b with | some x, some y => some (x * y) | _, _ => none
  powi a e := match a with | some x => some (x ^ e) | none => none
  max a b := match a, b with | some x, some y => some (Nat.max x y) | none, b => b | a, none => a
  zero := some 0
  top := some top64
  ofDur c := some c
  toDur? a := match a with | some x => if x < top64 then some x else none | none => none
  toDur_defined := by
    intro x h1 _
    cases x with
    | none => simp at h1
    | some v => simp at h1; simp [h1]
  lt_ofDur_top := by
    intro x c hc h
    cases x with
    | none => simp at h
    | some v => simp at h ⊢; simp [durMax, top64] at *; omega
  lt_le := by
    intro x y h
    cases x <;> cases y <;> simp at h ⊢; omega
  max_zero_nonneg := by
    intro x
    cases x <;> simp

/-! ## line protocol: `probe backoff kind=… initial_ns=… mult_num=… mult_den=… cap_ns=…|none rf_pct=… attempt=… @v=…` -/

def kvMerge (hdr op : Kv) : Kv := op ++ hdr

/-- `m<p>:<q>` = `.multiplier(p/q)`, `c<ns>` = `.max_interval(ns)`; anything else is skipped (as the harness does) -/
def parseSetter (w : String) : Option Setter :=
  let body := (w.drop 1).toString
  if w.startsWith "m" then
    match body.splitOn ":" with
    | [p, q] =>
        match p.toNat?, q.toNat? with
        | some p, some q => some (.mult p q)
        | _, _ => none
    | _ => none
  else if w.startsWith "c" then body.toNat?.map .cap
  else none

/-- word `chain=s1,s2,…`: the builder chain, left to right -/
def parseChain (s : String) : List Setter := (s.splitOn ",").filterMap parseSetter

/-- with `chain=`: the fold of the chain; without: the old keys, i.e. `.multiplier(m)` then `.max_interval(cap)` -/
def parseCfg (kv : Kv) : Cfg :=
  match kv.get "chain" with
  | some ch => build (kv.nat "initial_ns" 0) (parseChain ch)
  | none =>
    { initial := kv.nat "initial_ns" 0, num := kv.nat "mult_num" 2, den := kv.nat "mult_den" 1,
      cap := kv.optNat "cap_ns" }

/-- `ReconnectPolicy::exponential(initial, max)` / `exponential_random(initial, max, f)`: their own fixed chain
`.multiplier(2.0).max_interval(max)` (the harness passes `Duration::MAX` when `cap_ns` is absent) -/
def policyCfg (kv : Kv) : Cfg :=
  build (kv.nat "initial_ns" 0) [.mult 2 1, .cap ((kv.optNat "cap_ns").getD durMax)]

/-- the randomization factor as the constructor stores it: `rf_num=`/`rf_den=` (any rational; above 1 it is clamped
to 1), else `rf_pct=`/100 (old op files) -/
def parseFactor (kv : Kv) : Nat × Nat :=
  match kv.get "rf_num" with
  | some _ => clampFactor (kv.nat "rf_num" 1) (kv.nat "rf_den" 2)
  | none => clampFactor (kv.nat "rf_pct" 50) 100

def parseKind (kv : Kv) : Kind :=
  let f := parseFactor kv
  match kv.str "kind" "exp" with
  | "policy_none" => .none
  | "fixed" => .fixed (kv.nat "initial_ns" 0)
  | "policy_fixed" => .fixed (kv.nat "initial_ns" 0)
  | "rand" => .rand (parseCfg kv) f.1 f.2
  | "retry_policy_rand" => .rand (parseCfg kv) f.1 f.2
  | "policy_rand_of" => .rand (parseCfg kv) f.1 f.2
  | "policy_rand" => .rand (policyCfg kv) f.1 f.2
  | "policy_exp" => .exp (policyCfg kv)
  | _ => .exp (parseCfg kv)      -- exp, retry_policy, policy_exp_of, policy_custom

def parseObs (ws : List String) : Obs :=
  match ws.find? (·.startsWith "@v=") with
  | some w =>
      let s := (w.drop 3).toString
      if s = "none" then .none else match s.toNat? with | some v => .ns v | none => .panic
  | none => .panic

def Obs.render : Obs → String
  | .ns v => toString v
  | .none => "none"
  | .panic => "panic"

/-- the driver's state: the case header and, per configuration, the accepted observations of the un-jittered kinds -/
structure St where
  hdr : Kv
  hist : Hist := []

/-- the history after an allowed observation; `none` if it contradicts monotonicity in the attempt number (only the
un-jittered exponential kinds are recorded: a jittered value is a fresh random sample per call) -/
def record (h : Hist) : Kind → Nat → Obs → Option Hist
  | .exp cfg, a, .ns v => if obsOk a v (histGet h cfg) then some (histSet h cfg ((a, v) :: histGet h cfg)) else none
  | _, _, _ => some h

/-- one `probe backoff` line: the observed value is accepted iff it is allowed for the kind (`Kind.allowed`) and, for
an exponential kind, ordered consistently with every value accepted before for the same configuration -/
def probe (st : St) (ws : List String) : St × List Ev :=
  let kv := kvMerge st.hdr (parseKv ws)
  let a := kv.nat "attempt" 0
  let o := parseObs ws
  let k := parseKind kv
  if k.allowed a o then
    match record st.hist k a o with
    | some h => ({ st with hist := h }, [Ev.probe s!"backoff attempt={a} = {o.render}"])
    | none => (st, [.raw "choice-not-allowed"])
  else (st, [.raw "choice-not-allowed"])

def machine : Machine where
  σ := St
  init kv := { hdr := kv }
  step := fun st ws =>
    match ws with
    | "probe" :: "backoff" :: rest => probe st rest
    | _ => (st, [])
  now := fun _ => 0

end TR.Backoff
