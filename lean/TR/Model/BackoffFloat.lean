import TR.Model.Backoff
/-!
# Back-off (C14), float side: what is assumed of binary64, the jitter range, `ReconnectPolicy`, the loop

`TR.Model.Backoff` transcribes `capped_exponential` over an abstract arithmetic `FloatLike` with four laws — enough for
totality and the cap. This file adds

* `FloatOps` — the further `f64` operations the code uses (`-`, `+`, `is_finite`, `clamp(0,1)`, the constants `1.0`
  and `2^t`) and two **named hypothesis structures** over them:
  `F64Laws` (order; `powi` monotone in the exponent for a multiplier ≥ 1; multiplication and
  `Duration::from_secs_f64` monotone; *exactness*: `powi` of a power of two, the product of an exactly representable
  number of seconds with a power of two, comparisons and conversions of exactly representable values), under which the
  transcribed code is monotone in the attempt number and equal to `ideal` on the exact region, and
  `JitterLaws` (what `randomize` needs of `*`, `-`, `+` on `0 ≤ δ ≤ x ≤ 2^64`), under which the range handed to
  `rand::Rng::random_range` is well-formed. Nothing here is an axiom: the laws are hypotheses of the theorems;
  `ovfArith` (integers with overflow to +∞ and NaN) satisfies all of them (`TR/Lemmas/BackoffFloat.lean`), so they
  are consistent; that binary64 satisfies them is what the correspondence check samples.
* `jitterRange`, `rangeOk`, `randomizeFull` — `ExponentialRandomBackoff::randomize` **including** the range
  computation and the conditions under which `random_range` panics (rand 0.9.5 `UniformFloat::sample_single_inclusive`:
  a non-finite bound, `!(low <= high)`, a non-finite `high - low`).
* `IntervalFn`, `Policy`, `Policy.delayForAttempt` — `ReconnectPolicy::delay_for_attempt` (and `RetryPolicy::next_backoff`)
  over the built-in interval functions; `outage` — a reconnect / retry loop that asks for one delay per failed attempt.
* `ratArith` — exact non-negative rationals with +∞ and NaN (fractional multipliers and factors, no overflow, the only
  rounding is the floor in `from_secs_f64`): on it the transcribed code *is* `ideal`.
-/
namespace TR.Backoff

/-! ## further operations and the two hypothesis structures -/

structure FloatOps (fl : FloatLike) where
  one : fl.F
  pow2 : Nat → fl.F                  -- the float `2^t` (`+∞` from `t = 1024` on)
  sub : fl.F → fl.F → fl.F
  add : fl.F → fl.F → fl.F
  finite : fl.F → Bool               -- `f64::is_finite`
  clamp01 : fl.F → fl.F              -- `f.clamp(0.0, 1.0)` (keeps NaN)

/-- "`S` ns is a number of seconds binary64 represents exactly": `S/10^9 = n·2^j / 2^k` with `n < 2^53` -/
def Rep (S : Nat) : Prop := ∃ n j k, n < 2 ^ 53 ∧ S * 2 ^ k = n * 2 ^ j * 1000000000

/-- a maximum whose `as_secs_f64` compares exactly: exactly representable, or `Duration::MAX` (which becomes `2^64`,
above every exactly representable `Duration`) -/
def CapExact (c : Nat) : Prop := c = durMax ∨ Rep c

/-- **What is assumed of binary64 for monotonicity and exactness.** -/
structure F64Laws (fl : FloatLike) (O : FloatOps fl) : Prop where
  /-- `<=` is transitive (both sides non-NaN whenever it holds) -/
  le_trans : ∀ x y z, fl.le x y = true → fl.le y z = true → fl.le x z = true
  le_lt_trans : ∀ x y z, fl.le x y = true → fl.lt y z = true → fl.lt x z = true
  /-- **`powi` is monotone in the exponent for a multiplier ≥ 1** (not promised by IEEE 754: `powi` multiplies in a
  different order for different exponents; true of compiler-rt's `__powidf2` as long as `m − 1` exceeds a few ulps) -/
  powi_mono : ∀ m e e', fl.le O.one m = true → e ≤ e' → fl.le (fl.powi m e) (fl.powi m e') = true
  /-- rounding is monotone: multiplying a positive finite number by `y ≤ z` -/
  mul_mono : ∀ i y z, 0 < i → i ≤ durMax → fl.le y z = true →
    fl.le (fl.mul (fl.ofDur i) y) (fl.mul (fl.ofDur i) z) = true
  /-- `Duration::from_secs_f64` is monotone -/
  toDur_mono : ∀ x y a b, fl.le x y = true → fl.toDur? x = some a → fl.toDur? y = some b → a ≤ b
  /-- **`powi` is exact for powers of two** (every partial product is a power of two; `+∞` on overflow) -/
  powi_pow2 : ∀ j e, fl.powi (O.pow2 j) e = O.pow2 (j * e)
  /-- multiplying an exactly representable number of seconds by a power of two is exact … -/
  mul_pow2_exact : ∀ S t, Rep S → 0 < S → S * 2 ^ t < top64 →
    fl.mul (fl.ofDur S) (O.pow2 t) = fl.ofDur (S * 2 ^ t)
  /-- … and at or beyond `2^64` s (finite or `+∞`) it is not below `2^64` -/
  mul_pow2_overflow : ∀ S t, Rep S → 0 < S → top64 ≤ S * 2 ^ t →
    fl.lt (fl.mul (fl.ofDur S) (O.pow2 t)) fl.top = false
  /-- exactly representable values compare as the numbers they are -/
  lt_exact : ∀ S c, Rep S → CapExact c → fl.lt (fl.ofDur S) (fl.ofDur c) = decide (S < c)
  le_zero_exact : ∀ S, Rep S → fl.le (fl.ofDur S) fl.zero = decide (S = 0)
  /-- `from_secs_f64(d.as_secs_f64()) = d` for an exactly representable `d` -/
  toDur_exact : ∀ S, Rep S → S < top64 → fl.toDur? (fl.ofDur S) = some S

/-- **What is assumed of binary64 for the jitter range** (`0 ≤ δ ≤ x ≤ 2^64` throughout). -/
structure JitterLaws (fl : FloatLike) (O : FloatOps fl) : Prop where
  le_trans : ∀ x y z, fl.le x y = true → fl.le y z = true → fl.le x z = true
  le_lt_trans : ∀ x y z, fl.le x y = true → fl.lt y z = true → fl.lt x z = true
  /-- `clamp(0.0, 1.0)` of anything but NaN lies in `[0, 1]` -/
  clamp01_range : ∀ f, fl.le f f = true → fl.le fl.zero (O.clamp01 f) = true ∧ fl.le (O.clamp01 f) O.one = true
  /-- a `Duration` in seconds lies in `[0, 2^64]` -/
  ofDur_range : ∀ d, d ≤ durMax → fl.le fl.zero (fl.ofDur d) = true ∧ fl.le (fl.ofDur d) fl.top = true
  /-- `x · f ∈ [0, x]` for `f ∈ [0, 1]` -/
  mul_factor : ∀ x f, fl.le fl.zero x = true → fl.le x fl.top = true → fl.le fl.zero f = true → fl.le f O.one = true →
    fl.le fl.zero (fl.mul x f) = true ∧ fl.le (fl.mul x f) x = true
  /-- `x − δ ∈ [0, x]` -/
  sub_range : ∀ x δ, fl.le fl.zero δ = true → fl.le δ x = true → fl.le x fl.top = true →
    fl.le fl.zero (O.sub x δ) = true ∧ fl.le (O.sub x δ) x = true
  /-- `x + δ ≥ x`, and finite (at most `2^65`) -/
  add_range : ∀ x δ, fl.le fl.zero δ = true → fl.le δ x = true → fl.le x fl.top = true →
    fl.le x (O.add x δ) = true ∧ O.finite (O.add x δ) = true
  finite_between : ∀ y, fl.le fl.zero y = true → fl.le y fl.top = true → O.finite y = true
  /-- `hi − lo` of finite `0 ≤ lo ≤ hi` is finite -/
  sub_finite : ∀ lo hi, fl.le fl.zero lo = true → fl.le lo hi = true → O.finite hi = true → O.finite (O.sub hi lo) = true
  /-- `r.max(0.0)` of a non-negative `r` is (as a number) `r` -/
  max_zero_of_nonneg : ∀ r, fl.le fl.zero r = true → fl.le (fl.max r fl.zero) r = true ∧ fl.le r (fl.max r fl.zero) = true
  toDur_mono : ∀ x y a b, fl.le x y = true → fl.toDur? x = some a → fl.toDur? y = some b → a ≤ b
  /-- `from_secs_f64` succeeds only below `2^64`, and what it returns is a `Duration` -/
  toDur_some : ∀ x a, fl.toDur? x = some a → fl.lt x fl.top = true ∧ a ≤ durMax

/-! ## `ExponentialRandomBackoff::randomize`, range computation included -/

/-- `delta = d·f; (min, max) = (d − delta, d + delta)` for `d = duration.as_secs_f64()` -/
def jitterRange (fl : FloatLike) (O : FloatOps fl) (d : Nat) (factor : fl.F) : fl.F × fl.F :=
  let x := fl.ofDur d
  let delta := fl.mul x factor
  (O.sub x delta, O.add x delta)

/-- `rng.random_range(lo..=hi)` does **not** panic iff: both bounds finite, `lo <= hi` (false on NaN), `hi − lo` finite
(rand 0.9.5, `Rng::random_range` + `UniformFloat::sample_single_inclusive`) -/
def rangeOk (fl : FloatLike) (O : FloatOps fl) (lo hi : fl.F) : Bool :=
  O.finite lo && O.finite hi && fl.le lo hi && O.finite (O.sub hi lo)

/-- `randomize(duration)`, `r` the value `random_range` returns when it does not panic -/
def randomizeFull (fl : FloatLike) (O : FloatOps fl) (d : Nat) (factor r : fl.F) : Ans :=
  let rg := jitterRange fl O d factor
  if rangeOk fl O rg.1 rg.2 then randomize fl r else .panic

/-- the draw is inside the range it was asked for -/
def InRange (fl : FloatLike) (O : FloatOps fl) (d : Nat) (factor r : fl.F) : Prop :=
  fl.le (jitterRange fl O d factor).1 r = true ∧ fl.le r (jitterRange fl O d factor).2 = true

/-! ## interval functions, `ReconnectPolicy::delay_for_attempt`, the loop -/

/-- the built-in interval functions as constructed (`factor`: as stored, i.e. after the constructor's clamp) -/
inductive IntervalFn (fl : FloatLike)
  | fixed (d : Nat)
  | exp (initial : Nat) (mult : fl.F) (max : Option Nat)
  | rand (initial : Nat) (mult : fl.F) (factor : fl.F) (max : Option Nat)

/-- `IntervalFunction::next_interval(attempt)`; `draw` is what `random_range` returns for this call -/
def IntervalFn.next {fl : FloatLike} (O : FloatOps fl) : IntervalFn fl → Nat → fl.F → Ans
  | .fixed d, _, _ => .dur d
  | .exp i m mx, a, _ => nextInterval fl i m a mx
  | .rand i m f mx, a, r =>
      match nextInterval fl i m a mx with
      | .dur d => randomizeFull fl O d f r
      | .panic => .panic

/-- what the public constructors can produce: every `Duration` is at most `Duration::MAX`, the stored factor is in `[0,1]` -/
def IntervalFn.WF {fl : FloatLike} (O : FloatOps fl) : IntervalFn fl → Prop
  | .fixed d => d ≤ durMax
  | .exp i _ mx => i ≤ durMax ∧ ∀ c, mx = some c → c ≤ durMax
  | .rand i _ f mx => i ≤ durMax ∧ (∀ c, mx = some c → c ≤ durMax) ∧ fl.le fl.zero f = true ∧ fl.le f O.one = true

/-- `ReconnectPolicy` (`Custom` over a built-in interval function; an arbitrary user function is outside C14) -/
inductive Policy (fl : FloatLike)
  | none
  | fn (f : IntervalFn fl)       -- Fixed / Exponential / ExponentialRandom / Custom

/-- `ReconnectPolicy::delay_for_attempt`: `None` for `ReconnectPolicy::None`, else `Some(next_interval(attempt))` —
the value as it is, with no floor, whatever its size (zero and sub-millisecond delays included) -/
def Policy.delayForAttempt {fl : FloatLike} (O : FloatOps fl) : Policy fl → Nat → fl.F → Option Ans
  | .none, _, _ => Option.none
  | .fn f, a, r => some (f.next O a r)

/-- `ReconnectPolicy::fixed(delay)` -/
def Policy.fixed {fl : FloatLike} (d : Nat) : Policy fl := .fn (.fixed d)
/-- `ReconnectPolicy::exponential(initial, max)` = `new(initial).multiplier(2.0).max_interval(max)` -/
def Policy.exponential {fl : FloatLike} (O : FloatOps fl) (initial max : Nat) : Policy fl :=
  .fn (.exp initial (O.pow2 1) (some max))
/-- `ReconnectPolicy::exponential_random(initial, max, f)` = `new(initial, f)` (which clamps `f`) `.multiplier(2.0).max_interval(max)` -/
def Policy.exponentialRandom {fl : FloatLike} (O : FloatOps fl) (initial max : Nat) (f : fl.F) : Policy fl :=
  .fn (.rand initial (O.pow2 1) (O.clamp01 f) (some max))
/-- `ExponentialRandomBackoff::new(initial, f)` followed by setters -/
def IntervalFn.newRand {fl : FloatLike} (O : FloatOps fl) (initial : Nat) (f mult : fl.F) (max : Option Nat) : IntervalFn fl :=
  .rand initial mult (O.clamp01 f) max

def Policy.WF {fl : FloatLike} (O : FloatOps fl) : Policy fl → Prop
  | .none => True
  | .fn f => f.WF O

/-- a loop that asks the policy for a delay after every failed attempt (reconnect: attempts 1, 2, 3, … without end;
retry: 0 … max_attempts − 1) and sleeps for it -/
inductive Loop
  | running (slept : List Nat)     -- the delays slept so far, latest first
  | stopped (slept : List Nat)     -- the policy said "no reconnection"
  | crashed                        -- `next_interval` panicked
deriving Repr, DecidableEq

def loopStep {fl : FloatLike} (O : FloatOps fl) (p : Policy fl) (st : Loop) (attempt : Nat) (draw : fl.F) : Loop :=
  match st with
  | .running s =>
      match p.delayForAttempt O attempt draw with
      | Option.none => .stopped s
      | some (.dur d) => .running (d :: s)
      | some .panic => .crashed
  | st => st

/-- `n` consecutive failures, the first one numbered `first`; `draws k` is the random value of the `k`-th call -/
def outage {fl : FloatLike} (O : FloatOps fl) (p : Policy fl) (draws : Nat → fl.F) (first : Nat) : Nat → Loop
  | 0 => .running []
  | n + 1 => loopStep O p (outage O p draws first n) (first + n) (draws n)

/-! ## `ratArith`: exact non-negative rationals (ns) with +∞ and NaN

No overflow; the only rounding is the floor in `toDur?`. A difference that would be negative (it cannot arise for a
factor in `[0,1]`) is NaN, i.e. would make `random_range` panic. A denominator 0 behaves like NaN in every comparison. -/

inductive Q
  | q (n d : Nat)
  | inf
  | nan
deriving Repr, DecidableEq

def Q.lt : Q → Q → Bool
  | .q a b, .q c d => decide (0 < b) && decide (0 < d) && decide (a * d < c * b)
  | .q _ b, .inf => decide (0 < b)
  | _, _ => false

def Q.le : Q → Q → Bool
  | .q a b, .q c d => decide (0 < b) && decide (0 < d) && decide (a * d ≤ c * b)
  | .q _ b, .inf => decide (0 < b)
  | .inf, .inf => true
  | _, _ => false

def Q.mul : Q → Q → Q
  | .q a b, .q c d => .q (a * c) (b * d)
  | .q a b, .inf => if a = 0 ∨ b = 0 then .nan else .inf
  | .inf, .q a b => if a = 0 ∨ b = 0 then .nan else .inf
  | .inf, .inf => .inf
  | _, _ => .nan

def Q.powi : Q → Nat → Q
  | .q a b, e => .q (a ^ e) (b ^ e)
  | .inf, e => if e = 0 then .q 1 1 else .inf
  | .nan, e => if e = 0 then .q 1 1 else .nan

/-- `f64::max` (NaN is ignored) -/
def Q.max : Q → Q → Q
  | .nan, y => y
  | x, .nan => x
  | .inf, _ => .inf
  | _, .inf => .inf
  | .q a b, .q c d => if a * d ≤ c * b then .q c d else .q a b

def Q.toDur? : Q → Option Nat
  | .q a b => if 0 < b ∧ a / b < top64 then some (a / b) else none
  | _ => none

@[reducible] def ratArith : FloatLike where
  F := Q
  lt := Q.lt
  le := Q.le
  mul := Q.mul
  powi := Q.powi
  max := Q.max
  zero := .q 0 1
  top := .q top64 1
  ofDur c := .q c 1
  toDur? := Q.toDur?
  toDur_defined := by
    intro x h1 _
    cases x with
    | q a b =>
      simp [Q.lt] at h1
      have : a / b < top64 := (Nat.div_lt_iff_lt_mul h1.1).2 h1.2
      simp [Q.toDur?, h1.1, this]
    | inf => simp [Q.lt] at h1
    | nan => simp [Q.lt] at h1
  lt_ofDur_top := by
    intro x c hc h
    cases x with
    | q a b =>
      simp [Q.lt] at h ⊢
      refine ⟨h.1, ?_⟩
      have h1 : c * b ≤ durMax * b := Nat.mul_le_mul_right _ hc
      have h2 : durMax * b < top64 * b := Nat.mul_lt_mul_of_pos_right (by decide) h.1
      omega
    | inf => simp [Q.lt] at h
    | nan => simp [Q.lt] at h
  lt_le := by
    intro x y h
    cases x <;> cases y <;> simp [Q.lt, Q.le] at h ⊢
    · exact ⟨⟨h.1.1, h.1.2⟩, Nat.le_of_lt h.2⟩
    · exact h
  max_zero_nonneg := by
    intro x
    have hz : ∀ y : Q, Q.lt y (.q 0 1) = false := by
      intro y; cases y <;> simp [Q.lt]
    exact hz _

def Q.sub : Q → Q → Q
  | .q a b, .q c d => if 0 < b ∧ 0 < d ∧ c * b ≤ a * d then .q (a * d - c * b) (b * d) else .nan
  | .inf, .q _ d => if 0 < d then .inf else .nan
  | _, _ => .nan            -- ∞ − ∞ = NaN; x − ∞ = −∞ (not represented)

def Q.add : Q → Q → Q
  | .q a b, .q c d => .q (a * d + c * b) (b * d)
  | .q _ b, .inf => if 0 < b then .inf else .nan
  | .inf, .q _ d => if 0 < d then .inf else .nan
  | .inf, .inf => .inf
  | _, _ => .nan

def Q.finite : Q → Bool
  | .q _ b => decide (0 < b)
  | _ => false

def Q.clamp01 : Q → Q
  | .q a b => if b = 0 then .q a b else if b < a then .q 1 1 else .q a b
  | .inf => .q 1 1
  | .nan => .nan

@[reducible] def ratOps : FloatOps ratArith where
  one := .q 1 1
  pow2 t := .q (2 ^ t) 1
  sub := Q.sub
  add := Q.add
  finite := Q.finite
  clamp01 := Q.clamp01

/-! ## `ovfArith`: integers (ns, or plain numbers) with overflow to +∞ at `2^200`, and NaN

The carrier on which *all* laws (`FloatLike`, `F64Laws`, `JitterLaws`) are proved, so that they are consistent in the
presence of overflow and of `∞ − ∞ = NaN`, `0·∞ = NaN`: the phenomena the seeded changes rely on. -/

inductive X
  | fin (n : Nat)
  | inf
  | nan
deriving Repr, DecidableEq

/-- the overflow threshold, `2^200` (binary64 overflows at `2^1024`; any bound above `2^65` s in ns satisfies the laws) -/
def ovfB : Nat := 1606938044258990275541962092341162602522202993782792835301376

def X.norm (n : Nat) : X := if n < ovfB then .fin n else .inf

def X.lt : X → X → Bool
  | .fin a, .fin b => decide (a < b)
  | .fin _, .inf => true
  | _, _ => false

def X.le : X → X → Bool
  | .fin a, .fin b => decide (a ≤ b)
  | .fin _, .inf => true
  | .inf, .inf => true
  | _, _ => false

def X.mul : X → X → X
  | .fin a, .fin b => X.norm (a * b)
  | .fin a, .inf => if a = 0 then .nan else .inf
  | .inf, .fin a => if a = 0 then .nan else .inf
  | .inf, .inf => .inf
  | _, _ => .nan

def X.powi : X → Nat → X
  | .fin a, e => X.norm (a ^ e)
  | .inf, e => if e = 0 then .fin 1 else .inf
  | .nan, e => if e = 0 then .fin 1 else .nan

def X.max : X → X → X
  | .nan, y => y
  | x, .nan => x
  | .inf, _ => .inf
  | _, .inf => .inf
  | .fin a, .fin b => .fin (Nat.max a b)

def X.toDur? : X → Option Nat
  | .fin a => if a < top64 then some a else none
  | _ => none

@[reducible] def ovfArith : FloatLike where
  F := X
  lt := X.lt
  le := X.le
  mul := X.mul
  powi := X.powi
  max := X.max
  zero := .fin 0
  top := .fin top64
  ofDur c := .fin c
  toDur? := X.toDur?
  toDur_defined := by
    intro x h1 _
    cases x with
    | fin a => simp [X.lt] at h1; simp [X.toDur?, h1]
    | inf => simp [X.lt] at h1
    | nan => simp [X.lt] at h1
  lt_ofDur_top := by
    intro x c hc h
    cases x with
    | fin a => simp [X.lt] at h ⊢; simp [durMax, top64] at *; omega
    | inf => simp [X.lt] at h
    | nan => simp [X.lt] at h
  lt_le := by
    intro x y h
    cases x <;> cases y <;> simp [X.lt, X.le] at h ⊢
    omega
  max_zero_nonneg := by
    intro x
    cases x <;> simp [X.max, X.lt]

def X.sub : X → X → X
  | .fin a, .fin b => if b ≤ a then .fin (a - b) else .nan     -- a negative difference is not represented
  | .inf, .fin _ => .inf
  | _, _ => .nan            -- ∞ − ∞ = NaN

def X.add : X → X → X
  | .fin a, .fin b => X.norm (a + b)
  | .fin _, .inf => .inf
  | .inf, .fin _ => .inf
  | .inf, .inf => .inf
  | _, _ => .nan

def X.finite : X → Bool
  | .fin _ => true
  | _ => false

def X.clamp01 : X → X
  | .fin a => if 1 < a then .fin 1 else .fin a
  | .inf => .fin 1
  | .nan => .nan

@[reducible] def ovfOps : FloatOps ovfArith where
  one := .fin 1
  pow2 t := X.norm (2 ^ t)
  sub := X.sub
  add := X.add
  finite := X.finite
  clamp01 := X.clamp01

end TR.Backoff
