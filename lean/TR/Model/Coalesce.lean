import TR.Model.Common
/-!
# Coalesce (C11) — `crates/tower-resilience-coalesce/src/service.rs`

`Service::call` (the `arrive` operation) does, synchronously and under the map lock,
`try_join(key)`: if the key is registered the request becomes a *waiter* holding a
`broadcast::Receiver` of the registered leader's channel; otherwise it registers the key with
a fresh channel, calls the inner service at once (`inner_call`) and becomes the *leader*.

One `poll` of one call future is one step.

* leader: polls the inner future; when that is ready, `complete` removes the key from the map
  and sends a clone of the result into the channel, then the sender is dropped (the value
  stays buffered for the receivers): channel `sent r`;
* dropping an unfinished leader (`Registration::drop`, a field of `CoalesceFuture::Leading`; also
  when the future is destroyed by, or after, the unwinding of a panic of the inner future — the
  model has one step for both, see `TR.Lemmas.CoalesceUnwind` —, or of a panic raised by the
  `Clone` of the result the leader is about to publish, `clonePanic`) removes the key and drops
  the sender without a value: channel `closed`; the inner future is dropped with it (`inner_drop`);
* waiter: `try_recv` — a buffered value is returned (`Service` errors are passed on with the
  leader's serial number), a closed empty channel gives `err:leader_cancelled`, an open empty
  one gives `Pending` after `cx.waker().wake_by_ref()` (a busy-poll: the waiter re-arms itself).

`arrive … callpanic=1` scripts an inner service whose `call()` itself panics (not its future):
see `leadPanic` — the key is unregistered again in the same step (repaired code; on the pinned
tree it stayed registered for ever, see `TR/Mutants/CoalesceCallPanicWedges.lean` and the notes).

The role of a caller (`leader key serial` / `waiter key leader`) is fixed at arrival and kept
for ever (ghost history); `gone` lists the callers whose future no longer exists (resolved or
dropped). All maps are association lists updated by consing in front (`TR.lookup` finds the
latest entry).
-/
namespace TR.Coalesce

/-- role of a call future, fixed by `try_join` at `call()` time -/
inductive Role
  | leader (key k : Nat)       -- registered `key`, owns inner call number `k`
  | waiter (key ldr : Nat)     -- found `key` registered by caller `ldr`, subscribed to its channel
  | panicked (key : Nat)       -- led `key`, but `inner.call()` itself unwound: no future was ever built
deriving DecidableEq, Repr, Inhabited

/-- the broadcast channel created by a leader, as its receivers see it -/
inductive Chan
  | opened                     -- sender alive in the map, nothing sent
  | sent (r : Res)             -- value buffered, sender gone
  | closed                     -- sender gone, nothing was sent
deriving DecidableEq, Repr, Inhabited

/-- events of the model; unlike the common `Ev` they carry the key, so that the per-key
statements of C11 can be made over the log alone. Rendered exactly like `Ev`. -/
inductive CEv
  | innerCall (c key k : Nat)
  | innerDone (c key k : Nat) (o : Out)
  | innerDrop (c key k : Nat)
  | result (c : Nat) (r : Res)
deriving DecidableEq, Repr, Inhabited

def CEv.toEv : CEv → Ev
  | .innerCall c _ k => .innerCall c k
  | .innerDone c _ k o => .innerDone c k o
  | .innerDrop c _ k => .innerDrop c k
  | .result c r => .result c r

structure State where
  now      : Nat := 0
  inflight : List (Nat × Option Nat) := []  -- the `requests` map: key ↦ leader owning the sender
  role     : List (Nat × Role) := []        -- every caller that ever arrived
  gone     : List Nat := []                 -- callers whose future is resolved or dropped
  chan     : List (Nat × Chan) := []        -- channel created by leader `c`
  awake    : List (Nat × Bool) := []        -- waiter's waker has fired since its last poll / never polled
  script   : List (Nat × Step) := []        -- scripted inner call of a leader
  doneAt   : List (Nat × Nat) := []         -- instant the leader's inner call finishes
  serial   : Nat := 0
  log      : List CEv := []                 -- ghost: every event so far
  svcGone  : Bool := false                  -- every service handle has been dropped: no further `call`
  bomb     : List Nat := []                 -- requests whose inner call yields a value that panics when it is cloned
deriving Repr

inductive Op
  | arrive (c key : Nat) (sc : Step) (callPanics : Bool)
  | poll (c : Nat)
  | drop (c : Nat)
  | adv (ms : Nat)
  | dropsvc                                 -- the last `CoalesceService` handle (and the layer) is dropped
  | bomb (c : Nat)                          -- the value the inner call of request `c` yields cannot be cloned (its `Clone` panics)
deriving Repr

/-- the leader registered for `key` in the map, if any -/
def regOf (m : List (Nat × Option Nat)) (key : Nat) : Option Nat :=
  match lookup m key with
  | some (some l) => some l
  | _ => none

def reg (s : State) (key : Nat) : Option Nat := regOf s.inflight key

def emit (s : State) (evs : List CEv) : State := { s with log := s.log ++ evs }

/-- `try_join` found the key: subscribe to the leader's channel; no inner call -/
def joinWaiter (s : State) (c key ldr : Nat) : State :=
  { s with role := (c, .waiter key ldr) :: s.role, awake := (c, true) :: s.awake }

/-- `try_join` registered the key: call the inner service now -/
def lead (s : State) (c key : Nat) (sc : Step) : State :=
  emit { s with role := (c, .leader key s.serial) :: s.role,
                inflight := (key, some c) :: s.inflight,
                chan := (c, .opened) :: s.chan,
                script := (c, sc) :: s.script,
                doneAt := (c, s.now + sc.lat) :: s.doneAt,
                serial := s.serial + 1 } [.innerCall c key s.serial]

/-- `try_join` registered the key, then `self.inner.call(request)` panicked. The `Unregister`
guard around that call (`fix: coalesce unregisters the key when the inner call() panics`) removes
the key again while the panic unwinds out of `Service::call`, dropping the sender: the map is as
before, nobody can have subscribed in between (one `call` is one step), the caller sees the
panic and has no future. No inner call was logged and no serial number consumed. -/
def leadPanic (s : State) (c key : Nat) : State :=
  emit { s with role := (c, .panicked key) :: s.role, gone := c :: s.gone } [.result c .panic]

def arrive (s : State) (c key : Nat) (sc : Step) (callPanics : Bool) : State :=
  match reg s key with
  | some ldr => joinWaiter s c key ldr          -- a waiter never reaches `inner.call()`
  | none => if callPanics then leadPanic s c key else lead s c key sc

/-- the leader's future ceases to exist: key removed, channel left in state `ch` -/
def retire (s : State) (c key : Nat) (ch : Chan) : State :=
  { s with gone := c :: s.gone, inflight := (key, none) :: s.inflight, chan := (c, ch) :: s.chan }

/-- the leader's inner future is ready with `o` (not `never`) -/
def finishLeader (s : State) (c key k : Nat) (o : Out) : State :=
  match o with
  | .ok => emit (retire s c key (.sent (.ok k))) [.innerDone c key k .ok, .result c (.ok k)]
  | .err kd => emit (retire s c key (.sent (.inner kd k))) [.innerDone c key k (.err kd), .result c (.inner kd k)]
  | .panic => emit (retire s c key .closed) [.innerDone c key k .panic, .result c .panic]
  | .never => s

/-- The leader's inner future is ready with a value (`o` = ok or an error) whose `Clone` panics
(`arrive … clonepanic=1`, `Op.bomb`). The leader clones its result in order to publish it; that clone unwinds out
of the leader's poll: the leading request PANICS — after its inner call has finished —, so, by the property, the
key is free at once and the waiters fail with `leader_cancelled`: the channel is closed without a value, exactly
as when the inner future itself panics. (`S::Response: Clone` / `S::Error: Clone` are the wrapped service's own
types; the code must not leave the key registered when they unwind. On the tree this was written against it does:
`registration.key.take()` precedes the clone, see notes/strengthen-coalesce-w5.md.) -/
def clonePanic (s : State) (c key k : Nat) (o : Out) : State :=
  emit (retire s c key .closed) [.innerDone c key k o, .result c .panic]

def pollLeader (s : State) (c key k : Nat) : State :=
  match lookup s.doneAt c, lookup s.script c with
  | some t, some sc =>
      if s.now ≥ t ∧ sc.out ≠ .never then
        if s.bomb.contains c ∧ sc.out ≠ .panic then clonePanic s c key k sc.out
        else finishLeader s c key k sc.out
      else s
  | _, _ => s

def dropLeader (s : State) (c key k : Nat) : State :=
  emit (retire s c key .closed) [.innerDrop c key k]

def resolveWaiter (s : State) (c : Nat) (r : Res) : State :=
  emit { s with gone := c :: s.gone } [.result c r]

/-- the poller consumes the wake-up flag of `c` -/
def takeWake (s : State) (c : Nat) : State := { s with awake := (c, false) :: s.awake }

/-- `Pending`, after `cx.waker().wake_by_ref()` -/
def selfWake (s : State) (c : Nat) : State := { s with awake := (c, true) :: s.awake }

def pollWaiter (s : State) (c ldr : Nat) : State :=
  match lookup s.chan ldr with
  | some (.sent r) => resolveWaiter (takeWake s c) c r
  | some .closed => resolveWaiter (takeWake s c) c .cancelled
  | _ => selfWake (takeWake s c) c

def dropWaiter (s : State) (c : Nat) : State := { s with gone := c :: s.gone }

def stepS (s : State) (op : Op) : State :=
  match op with
  | .adv ms => { s with now := s.now + ms }
  | .dropsvc => { s with svcGone := true }
  | .bomb c => { s with bomb := c :: s.bomb }
  | .arrive c key sc cp =>
      if s.svcGone then s else           -- nobody holds a handle to call through
      match lookup s.role c with
      | some _ => s
      | none => arrive s c key sc cp
  | .poll c =>
      if s.gone.contains c then s else
      match lookup s.role c with
      | some (.leader key k) => pollLeader s c key k
      | some (.waiter _ ldr) => pollWaiter s c ldr
      | _ => s
  | .drop c =>
      if s.gone.contains c then s else
      match lookup s.role c with
      | some (.leader key k) => dropLeader s c key k
      | some (.waiter _ _) => dropWaiter s c
      | _ => s

def init : State := {}
def run (ops : List Op) : State := ops.foldl stepS init

/-! ## line protocol -/

/-! ### several services built from one layer value (`arrive … svc=<i>`)

`Layer::layer` hands every service it builds an in-flight table of its own (`CoalesceService::new`:
`Arc::new(InFlight::new())`); a `CoalesceService` shares its table with its own clones and with nothing else — not
with another service built from the same `CoalesceLayer` value, nor with one built from a clone of that layer (the
layer only carries the key extractor and the name). "The wrapped service" of the property is the service given to
that one `layer(..)` call: a request to service `j` must never be answered with the result of a call made through
service `i` (they may wrap different back-ends). So a family of services is a family of independent instances of
this model that have the caller ids and the source of the serial numbers (the harness gives them clones of one
back-end) in common. Because the model's key space is all of `Nat` and every theorem is for every key, that family
IS this model over the key space (service, key): `svcKey i key` is an injective pairing
(`TR.Coalesce.svcKey_inj`), the table of instance `i` is `fun key => reg s (svcKey i key)`, and an operation on a
request of instance `i` leaves every entry of every other instance untouched
(`TR.Props.C11.services_do_not_share`, `TR.Coalesce.step_other_key`). -/

/-- triangular numbers -/
def tri : Nat → Nat
  | 0 => 0
  | n + 1 => tri n + n + 1

/-- the model's key for `key` on service number `svc` (Cantor pairing) -/
def svcKey (svc key : Nat) : Nat := tri (svc + key) + key

/-- The request an `arrive c …` line stands for. Only `key=`, `svc=`, `inner=` and `callpanic=` are looked at. In
particular the word `via=clone|template|swap|readyclone` — HOW the caller got hold of the `CoalesceService` handle
it calls: a clone made for this request, the one handle everybody shares (a `&mut svc` used for several
overlapping requests, never cloned), the `mem::replace` idiom, a clone of a handle that was polled ready — does
not exist for the model: coalescing is a matter of the key and of what is in flight, not of the handle
(`TR.Props.C11.caller_mode_irrelevant`). Nor do `unwind=1` (the call future is owned by the frame that polls it: a
panic raised by its own poll destroys it DURING the unwinding instead of after the panic was caught), `eclone=1`
(the caller looks at a clone of what it received), `keep=1` (`TR.Props.C11.caller_behaviour_irrelevant`). -/
def arriveOp (c : Nat) (kv : Kv) : Op :=
  .arrive c (svcKey (kv.nat "svc" 0) (kv.nat "key" 0)) ((planOf kv).headD { lat := 0, out := .ok }) (kv.nat "callpanic" 0 == 1)

/-- the operations an `arrive c …` line stands for: with `clonepanic=1` it first says that the value this request's
inner call produces (if the request leads one) panics when it is cloned -/
def arriveOps (c : Nat) (kv : Kv) : List Op :=
  (if kv.nat "clonepanic" 0 == 1 then [Op.bomb c] else []) ++ [arriveOp c kv]

/-! ### a handle whose readiness fails (`arrive … rdy=<script>`)

`CoalesceService::poll_ready` is the readiness of THAT HANDLE's copy of the wrapped service (`Clone for
CoalesceService` clones `inner` and shares `in_flight`). `rdy=<script>` are the answers of the wrapped service to the
successive `poll_ready` calls on the handle this caller is about to call ('p' pending, 'r' ready, 'e' error); the
caller polls until an answer other than pending or until the script ends. If the handle does not become ready the
caller is answered — with the readiness error (`err:inner9:0`, passed on as `CoalesceError::Service`) or `notready` —
and `Service::call` is never reached. A readiness failure says something about one handle's connection and nothing
about the calls that were led through other handles: NOTHING else happens. The line is therefore answered by the
machine without any `Op`: the state — the in-flight table, every role, every channel, the log of the coalescing
machinery — is what it was (`TR.Props.C11.readiness_failure_changes_nothing`, `…_leaves_table`,
`refused_arrivals_invisible`: a history with such lines ends in the state of the history without them). -/

/-- what the readiness script of an `arrive` line comes to: `none` the handle became ready (the call is made);
`some r` it did not, and the caller is answered `r` -/
def readiness (kv : Kv) : Option Res :=
  match kv.get "rdy" with
  | none => none
  | some sc =>
    match sc.toList.dropWhile (· == 'p') with
    | [] => some .notReady
    | ch :: _ => if ch == 'e' then some (.inner 9 0) else none

/-- the answer to a line that is an arrival through a handle that does not become ready (`none`: any other line).
With no service handle left the arrival is invalid (`noop`) like every other one. -/
def refusal (s : State) (ws : List String) : Option (List Ev) :=
  match ws with
  | "arrive" :: c :: rest =>
      (readiness (parseKv rest)).map fun r => if s.svcGone then [.raw "noop"] else [.result (c.toNat?.getD 0) r]
  | _ => none

def parseOp (ws : List String) : Option Op :=
  match ws with
  | "arrive" :: c :: rest => some (arriveOp (c.toNat?.getD 0) (parseKv rest))
  | "poll" :: c :: _ => some (.poll (c.toNat?.getD 0))
  | "drop" :: c :: _ => some (.drop (c.toNat?.getD 0))
  | "adv" :: ms :: _ => some (.adv (ms.toNat?.getD 0))
  | "manual" :: "dropsvc" :: _ => some .dropsvc
  | _ => none

/-- operations the harness answers `noop`: an arrival when no service handle is left, and a
poll / drop of a caller that never got a future for that reason (the driver answers duplicate
arrivals and polls of callers it knows to be dead by itself) -/
def refused (s : State) : Op → Bool
  | .arrive _ _ _ _ => s.svcGone
  | .poll c => s.svcGone && (lookup s.role c).isNone
  | .drop c => s.svcGone && (lookup s.role c).isNone
  | _ => false

/-! ### a request arriving while a dropped leader's inner future is being destroyed

`manual ondrop c=<c> by=<c2> inner=…` arms the harness's hook: when the inner future of leader `c` is
destroyed unfinished, request `c2` for the same key arrives from inside (or, on a second thread, during)
that destructor. At that moment the call of `c` is still in flight — its future has not been destroyed
yet — so, by "at most one call in flight per key" and "a request arriving while it is in flight causes no
inner call of its own", the request has to coalesce onto `c`: in the model it is an ordinary arrival that
takes place *before* the drop of `c` (it becomes a waiter of `c` and is then failed with
`leader_cancelled`). `dropOps` expands the `drop c` line accordingly; the pure model (`Op`, `stepS`,
`run`) is not extended, so every theorem of `TR.Props.C11` applies to the expanded sequence
(`TR.Props.C11.request_during_leader_teardown`). The hook table lives in the driver state only.

The code as it is (service.rs, `Drop for CoalesceFuture`: `cancel` first, the `future` field is destroyed
afterwards) lets such a request *lead* a second inner call before the first one is gone; the harness shows
that and the monitors `c11-drop-overlap` / `c11-one-inflight-per-key` report it (notes/strengthen-C11.md). -/

/-- the operations a `drop c` line stands for, given the armed hooks `c ↦ (c2, script of c2)` -/
def dropOps (s : State) (hooks : List (Nat × (Nat × Step))) (c : Nat) : List Op :=
  match lookup hooks c, lookup s.role c with
  | some (c2, sc), some (.leader key _) =>
      if !s.svcGone && !s.gone.contains c && (lookup s.role c2).isNone then
        [.arrive c2 key sc false, .drop c]
      else [.drop c]
  | _, _ => [.drop c]

/-! ### simultaneous arrivals on real OS threads (`manual herd threads=N rounds=R keys=M out=ok|err|mix`)

The harness builds a separate instance (its own layer and inner service, so the state of the case proper is not
touched) and, per round, releases N threads from a common start line; thread `i` does `svc.clone().call(req)` for
key `1 + i % M`; no inner call can finish before ALL threads have returned from `call()`; then the inner calls
finish (ok, or the inner error) and every thread polls its own future to completion. `gate=` / `ballast=` only
decide where inside `call()` the threads are made to meet; they do not exist for the model.

**What the model assumes.** One `Service::call` is ONE step (`stepS s (.arrive …)`): the look-up of the key and its
registration are atomic — in the code one critical section under the map's lock. Under that assumption a parallel
execution of the N `call()`s is some *sequence* of N arrivals, and for every such sequence
`TR.Props.C11.simultaneous_arrivals_one_leader` says: exactly one inner call per key, everybody else is a waiter of
it. So the model predicts the tallies of a round whatever the schedule was (`herdRound` uses the order of the
thread numbers, the tallies do not depend on it), and `herdLine` is what the harness must print. The assumption
itself — election is atomic — is not proved anywhere: the herd run *searches* real schedules for an execution that
is not a sequence of whole `call()`s (seeded/C11-w3m2: look-up under a read lock, insertion under a write lock). -/

/-- requests `cs` (caller, scripted inner call) for one key, in the order in which their `call()`s take effect -/
def arrivals (key : Nat) (cs : List (Nat × Step)) : List Op := cs.map fun p => .arrive p.1 key p.2 false

def herdKey (m i : Nat) : Nat := 1 + i % m

/-- one round: thread `i` is caller `i+1`; all arrive, then (the inner calls being released) all poll -/
def herdOps (n m : Nat) (o : Out) : List Op :=
  ((List.range n).map fun i => Op.arrive (i + 1) (herdKey m i) ⟨0, o⟩ false) ++
  ((List.range n).map fun i => Op.poll (i + 1))

def herdRes (k : Nat) : Out → Res
  | .ok => .ok k
  | .err kd => .inner kd k
  | _ => .panic

/-- serial number of the first inner call for `key` in the log -/
def firstCall (log : List CEv) (key : Nat) : Option Nat :=
  log.findSome? fun e => match e with
    | .innerCall _ key' k => if key' = key then some k else none
    | _ => none

/-- (inner calls started, requests that received the result of the first call of their key) of one round -/
def herdTally (n m : Nat) (o : Out) : Nat × Nat :=
  let log := (run (herdOps n m o)).log
  ((log.filter fun e => match e with | .innerCall _ _ _ => true | _ => false).length,
   (List.range n).countP fun i =>
     match firstCall log (herdKey m i) with
     | some k => log.contains (.result (i + 1) (herdRes k o))
     | none => false)

/-- (inner calls, requests served with their key's call) of `r` rounds of which `rErr` fail -/
def herdTotals (n m r rErr : Nat) : Nat × Nat :=
  let tOk := herdTally n m .ok
  let tErr := herdTally n m (.err 1)
  ((r - rErr) * tOk.1 + rErr * tErr.1, (r - rErr) * tOk.2 + rErr * tErr.2)

/-- the line `manual herd …` must produce (same clamping of the arguments as in the harness) -/
def herdLine (kv : Kv) : String :=
  let n := min (max (kv.nat "threads" 4) 2) 32
  let r := min (max (kv.nat "rounds" 100) 1) 5000000
  let m := min (max (kv.nat "keys" 1) 1) n
  let out := kv.str "out" "ok"
  let rErr := if out == "err" then r else if out == "mix" then (r + 1) / 2 else 0
  let t := herdTotals n m r rErr
  s!"herd rounds={r} calls={r * n} inner={t.1} shared={t.2} anomalies=0"

/-! ### arrivals racing with a completion on real OS threads (`manual finish threads=N rounds=R …`)

A separate instance again. N threads make R requests each (`gate=none`: back to back, completions and arrivals
interleave as the machine schedules them; `gate=drop`: per round one request leads and completes while the other
N-1 threads are made to arrive INSIDE its completion, through the destructor of the response value). No call future
is ever dropped unfinished and no inner call panics. Under the model's assumption — one poll of a leader (inner
result, publication, unregistration) is ONE step, as is one `call()` — every such execution is a sequence of
`arrive` / `poll` operations without any `drop`, in which every script ends `ok` or `err`; then no `inner_drop` and no
`inner_done … panic` is ever logged, and by `TR.Props.C11.no_cancellation_without_cause` nobody receives
`leader_cancelled`; by `waiter_gets_leader_result` every coalesced request receives the value of the one call it
joined, by `fresh_call_when_free` every other one leads a fresh call; by `one_inflight_per_key_trace` no two calls
of a key overlap. Which requests coalesce depends on the schedule, so the line only carries what does not:
the number of requests, and that none of them violated any of this. The harness run *searches* real schedules for
an execution that is not such a sequence (seeded/C11-w4m2: the result is published before, and outside the
critical section in which, the key is unregistered). -/

/-- the line `manual finish …` must produce (same clamping of the arguments as in the harness) -/
def finishLine (kv : Kv) : String :=
  let n := min (max (kv.nat "threads" 2) 2) 32
  let r := min (max (kv.nat "rounds" 100) 1) 1000000
  s!"finish rounds={r} calls={r * n} anomalies=0"

def machine : Machine where
  σ := State × List (Nat × (Nat × Step))
  init _ := (init, [])
  step := fun (s, hooks) ws =>
    match refusal s ws with
    | some evs => ((s, hooks), evs)       -- the handle did not become ready: the caller is answered, nothing else happens
    | none =>
    match ws with
    | "manual" :: "ondrop" :: rest =>
        let kv := parseKv rest
        match kv.optNat "c", kv.optNat "by" with
        | some c, some c2 => ((s, (c, (c2, (planOf kv).headD { lat := 0, out := .ok })) :: hooks), [])
        | _, _ => ((s, hooks), [])
    | "manual" :: "herd" :: rest => ((s, hooks), [.raw (herdLine (parseKv rest))])
    | "manual" :: "finish" :: rest => ((s, hooks), [.raw (finishLine (parseKv rest))])
    | _ =>
    match ws with
    | "arrive" :: c :: rest =>
        let c := c.toNat?.getD 0
        let s' := (arriveOps c (parseKv rest)).foldl stepS s
        ((s', hooks), if s.svcGone then [.raw "noop"] else (s'.log.drop s.log.length).map CEv.toEv)
    | _ =>
    match parseOp ws with
    | some (.drop c) =>
        let s' := (dropOps s hooks c).foldl stepS s
        ((s', hooks), if refused s (.drop c) then [.raw "noop"] else (s'.log.drop s.log.length).map CEv.toEv)
    | some op =>
        let s' := stepS s op
        ((s', hooks), if refused s op then [.raw "noop"] else (s'.log.drop s.log.length).map CEv.toEv)
    | none => ((s, hooks), [])
  now := fun (s, _) => s.now

end TR.Coalesce
