import TR.Model.Common
/-!
# Adaptive limit algorithms at atomic-step granularity (C13, part A)

`crates/tower-resilience-core/src/aimd.rs` (`AimdController`, as used by
`tower_resilience_adaptive::algorithm::Aimd` and by the retry `AimdBudget`) and
`crates/tower-resilience-adaptive/src/algorithm.rs` (`Vegas`).

A *thread* executes a program of feedback operations (`record_success(latency)`,
`record_failure()`, `limit()`); **one model step = one atomic operation of the code, in the
order the code performs them** (the thread-local computation between two atomics belongs to
the step of the atomic that follows it). A schedule is a list of thread ids; a turn given to a
finished (or non-existent) thread is a `skip`.

| code | steps |
|---|---|
| `AimdController::record_success` | load limit; store `min(r + increase_by, max)` |
| `AimdController::record_failure` | load limit; store `max(d r, min)`, `d r = (r as f64 * decrease_factor) as usize` (`Cfg.dec`) |
| `Aimd::record_success(l)` | `l > threshold` → `record_failure` else `record_success` (no atomics of its own) |
| `Vegas::update_rtt` | load min_rtt; `while rtt < cm` { CAS-weak(min_rtt, cm, rtt): ok → break, else cm := seen — the compare-exchange is the WEAK one: it may fail although the cell holds `cm` (`Turn.weak`) }; load smoothed; store smoothed; fetch_add count |
| `Vegas::adjust_limit` | load count (`< min_samples` → return); load min_rtt; load smoothed (`min = MAX ∨ min = 0 ∨ smoothed = 0` → return); load limit; store limit |
| `Vegas::record_failure` | load limit; store `max(r/2, min)` |
| `limit()` | load limit |
| `record_dropped()`, `min_limit()`, `max_limit()` | no atomic operation: one turn at the explicit yield point the harness puts in front of them |
| `AimdController::record_successes(n)` (`ctl`) | load limit; store `min(r + n·increase_by, max)` |
| `AimdController::reset()` (`ctl`) | store `initial.clamp(min, max)` |
| `AimdController::clone()` (`ctl`) | load limit (the clone is a new controller with that limit and the same configuration); the harness then reads the clone's limit, records one success on it and reads it again: four more turns on the clone's own cell, which nobody else can see |

`kind=ctl` in a case header: the `AimdController` used directly (`AimdConfig::new().with_…`), as the retry AIMD budget uses
it; it is the `.aimd` model with `ctl := true` and no latency threshold (`record_success()` takes no latency).

Numbers: `usize`/`u64` are unbounded `Nat`. The AIMD additive step is `saturating_add` (and `saturating_mul` for
`record_successes(n)`) followed by `.min(max_limit)`; it DOES saturate for legal configurations (`increase_by` / `n` near
`usize::MAX`: header `inc=18446744073709551615`, op `N<a..e>`), and because the clamp comes last the result is the
unbounded `min (r + inc) max` whenever `max_limit ≤ usize::MAX` (`aimdSuccNewSat_eq`, `aimdSuccsNewSat_eq`).
The AIMD decrease `(r as f64 * factor) as usize` is a FUNCTION of the configuration (`Cfg.dec : Nat → Nat`): the
theorems hold for every function with `dec r ≤ r` on the values within the bounds (`TR.Limit.DecOk`). The line
protocol instantiates it with `f64Dec p q` — the exact transcription, in `Nat` arithmetic, of
`(r as f64 * (p as f64 / q as f64)) as usize` for `p, q, r < 2^53` (two IEEE-754 roundings to nearest, ties to
even, then truncation), whatever the factor `p/q` (for a dyadic factor and a product below 2^53 it is `⌊r·p/q⌋`).
Vegas: the EMA with smoothing 0.5, `(0.5·a + 0.5·b) as u64`, is exact for `a, b < 2^52`:
`⌊(a+b)/2⌋`. The queue estimate `((s−m) as f64 / m as f64 * l as f64) as usize` is computed by
`queueEst`, an exact transcription of the two IEEE-754 binary64 roundings (round to nearest,
ties to even) in `Nat` arithmetic, valid for operands below 2^53; when `m` is a power of two
(the latencies 2^20 … 2^23 ns of the generated limit cases) it is simply `⌊(s−m)·l/m⌋`.
No theorem depends on `queueEst`: the bounds hold for an arbitrary estimate.
-/
namespace TR.Limit

/-- (only so that `Cfg` can derive `Repr`) -/
local instance : Repr (Nat → Nat) := ⟨fun _ _ => "<fun>"⟩

inductive Kind
  | aimd
  | vegas
deriving DecidableEq, Repr, Inhabited

structure Cfg where
  kind       : Kind := .aimd
  min        : Nat := 1
  max        : Nat := 100
  initial    : Nat := 10
  inc        : Nat := 1            -- AIMD `increase_by`
  dec        : Nat → Nat := fun r => r / 2   -- AIMD decrease `(r as f64 * decrease_factor) as usize` (default: factor 0.5)
  thrNs      : Nat := 100000000    -- AIMD `latency_threshold` in ns
  alpha      : Nat := 3
  beta       : Nat := 6
  minSamples : Nat := 10           -- Vegas `min_samples` (fixed to 10 by `Vegas::new`)
  ctl        : Bool := false       -- the bare `AimdController` (offers `record_successes`, `reset`, `Clone`)
deriving Repr

def u64Max : Nat := 18446744073709551615

/-- the shared atomics; `stores` is ghost: every value ever stored in the limit cell -/
structure Cells where
  limit    : Nat
  minRtt   : Nat := u64Max
  smoothed : Nat := 0
  count    : Nat := 0
  stores   : List Nat := []
deriving Repr

/-- `initial.clamp(min, max)` (Rust's `clamp`; it panics for `min > max`, outside the property) -/
def clampInit (cfg : Cfg) : Nat :=
  if cfg.initial < cfg.min then cfg.min else if cfg.initial > cfg.max then cfg.max else cfg.initial

def initCells (cfg : Cfg) : Cells := { limit := clampInit cfg, stores := [clampInit cfg] }

def storeLimit (c : Cells) (v : Nat) : Cells := { c with limit := v, stores := c.stores ++ [v] }

/-! ## binary64 arithmetic of the queue estimate, in `Nat` -/

/-- `a / b` rounded to the nearest integer, ties to even -/
def rne (a b : Nat) : Nat :=
  let q := a / b
  let r := a % b
  if 2 * r < b then q else if 2 * r > b then q + 1 else if q % 2 = 0 then q else q + 1

/-- `fl(n / d)` for `0 < n, d < 2^53`: mantissa `M ∈ [2^52, 2^53]` and scale `s`, value `M / 2^s` -/
def fdiv (n d : Nat) : Nat × Nat :=
  let s0 := 53 + d.log2 - n.log2
  let s := if n * 2 ^ s0 ≥ d * 2 ^ 53 then s0 - 1 else s0
  (rne (n * 2 ^ s) d, s)

/-- `fl(M/2^s · l) as usize` (truncation) -/
def mulTrunc (ms : Nat × Nat) (l : Nat) : Nat :=
  let p := ms.1 * l
  if p < 2 ^ 53 then p / 2 ^ ms.2
  else
    let k := p.log2 - 52
    rne p (2 ^ k) * 2 ^ k / 2 ^ ms.2

/-- `((smoothed − min) as f64 / min as f64 * limit as f64) as usize`, `0` unless `smoothed > min` -/
def queueEst (minRtt smoothed limit : Nat) : Nat :=
  if smoothed > minRtt ∧ minRtt > 0 then mulTrunc (fdiv (smoothed - minRtt) minRtt) limit else 0

/-- `fl(n / d)` as mantissa and scale, also for `n = 0` (the value 0) -/
def fdiv0 (n d : Nat) : Nat × Nat := if n = 0 then (0, 0) else fdiv n d

/-- `(r as f64 * (p as f64 / q as f64)) as usize` for `p, q, r < 2^53`, `q ≠ 0`: the quotient rounded to binary64, the
product rounded to binary64, truncated. (`q = 0` — an infinite or NaN factor — is outside the property: `0`.) -/
def f64Dec (p q r : Nat) : Nat := if q = 0 then 0 else mulTrunc (fdiv0 p q) r

/-- the exact rational decrease `⌊r·p/q⌋` (what `f64Dec p q` is for dyadic factors and small products) -/
def ratioDec (p q r : Nat) : Nat := r * p / q

/-! ## the values stored -/

def aimdSuccNew (cfg : Cfg) (r : Nat) : Nat := min (r + cfg.inc) cfg.max
def aimdFailNew (cfg : Cfg) (r : Nat) : Nat := max (cfg.dec r) cfg.min
/-- `record_successes(n)`: the SUM is clamped -/
def aimdSuccsNew (cfg : Cfg) (n r : Nat) : Nat := min (r + cfg.inc * n) cfg.max
def vegasFailNew (cfg : Cfg) (r : Nat) : Nat := max (r / 2) cfg.min
/-- `usize::saturating_add` / `usize::saturating_mul` (64-bit target): the exact result capped at `usize::MAX` -/
def sat64 (x : Nat) : Nat := min x u64Max
/-- `current.saturating_add(increase_by).min(max_limit)` as the code computes it in `usize`. The additive step DOES
saturate for a legal configuration (`increase_by(usize::MAX)`: "straight to the ceiling on the first good response"); the
clamp comes after the saturation, so the result is `aimdSuccNew` for every `max_limit` a `usize` can hold
(`TR.Limit.aimdSuccNewSat_eq`) — which is why the model may compute in unbounded `Nat`. -/
def aimdSuccNewSat (cfg : Cfg) (r : Nat) : Nat := min (sat64 (r + cfg.inc)) cfg.max
/-- `current.saturating_add(increase_by.saturating_mul(n)).min(max_limit)`: both saturations, then the clamp
(`TR.Limit.aimdSuccsNewSat_eq`) -/
def aimdSuccsNewSat (cfg : Cfg) (n r : Nat) : Nat := min (sat64 (r + sat64 (cfg.inc * n))) cfg.max
/-- the three-way choice of `adjust_limit` for queue estimate `q` -/
def vegasNew (cfg : Cfg) (cl q : Nat) : Nat :=
  if q < cfg.alpha then min (cl + 1) cfg.max
  else if q > cfg.beta then max (cl - 1) cfg.min
  else cl
def emaNew (rtt cs : Nat) : Nat := if cs = 0 then rtt else (rtt + cs) / 2

/-! ## threads -/

inductive FOp
  | succ (rttNs : Nat)
  | fail
  | read
  | dropped               -- `record_dropped()`: no atomic operation, no effect
  | minL                  -- `min_limit()`
  | maxL                  -- `max_limit()`
  | succs (n : Nat)       -- `AimdController::record_successes(n)`
  | reset                 -- `AimdController::reset()`
  | clone                 -- `AimdController::clone()`; the clone then records one success and both of its limits are read
deriving DecidableEq, Repr, Inhabited

/-- where a thread stands inside the current operation; the constructor arguments are its
registers. The phase names the **next** atomic operation the thread will perform. -/
inductive Phase
  | idle                       -- between operations
  | aSucc (r : Nat)            -- AIMD success: limit loaded into `r`; next: store
  | aFail (r : Nat)            -- AIMD failure: limit loaded; next: store
  | vMin (rtt cm : Nat)        -- next: CAS(min_rtt, cm, rtt)      (inside `while rtt < cm`)
  | vLdSm (rtt : Nat)          -- next: load smoothed
  | vStSm (rtt cs : Nat)       -- next: store smoothed
  | vAdd                       -- next: fetch_add count
  | vLdCnt                     -- next: load count
  | vLdMin                     -- next: load min_rtt
  | vLdSm2 (mr : Nat)          -- next: load smoothed
  | vLdLim (mr sr : Nat)       -- next: load limit
  | vStLim (mr sr cl : Nat)    -- limit loaded into `cl`; next: store limit
  | vFail (r : Nat)            -- Vegas failure: limit loaded; next: store
  | aSuccs (n r : Nat)         -- controller `record_successes(n)`: limit loaded; next: store
  | cloned (n r : Nat)         -- controller cloned with limit `r`; `n` more atomic operations on the clone's own cell
deriving DecidableEq, Repr, Inhabited

/-- the register of the phase that holds a value loaded from the limit cell, if any -/
def Phase.limitReg : Phase → Option Nat
  | .aSucc r => some r
  | .aFail r => some r
  | .vFail r => some r
  | .vStLim _ _ cl => some cl
  | .aSuccs _ r => some r
  | .cloned _ r => some r
  | _ => none

structure Thread where
  prog : List FOp := []
  ph   : Phase := .idle
  out  : List Nat := []        -- values returned by `limit()`
deriving Repr, Inhabited, DecidableEq

def finish (th : Thread) : Thread := { th with prog := th.prog.tail, ph := .idle }

def afterMinLoad (rtt cm : Nat) : Phase := if rtt < cm then .vMin rtt cm else .vLdSm rtt

/-- first atomic operation of `op` -/
def beginOp (cfg : Cfg) (c : Cells) (th : Thread) (op : FOp) : Cells × Thread :=
  match op, cfg.kind with
  | .read, _ => (c, { finish th with out := th.out ++ [c.limit] })
  | .fail, .aimd => (c, { th with ph := .aFail c.limit })
  | .succ rtt, .aimd => (c, { th with ph := if rtt > cfg.thrNs then .aFail c.limit else .aSucc c.limit })
  | .fail, .vegas => (c, { th with ph := .vFail c.limit })
  | .succ rtt, .vegas => (c, { th with ph := afterMinLoad rtt c.minRtt })
  -- no atomic operation (the turn is the harness's explicit yield point in front of the call)
  | .dropped, _ => (c, finish th)
  | .minL, _ => (c, { finish th with out := th.out ++ [cfg.min] })
  | .maxL, _ => (c, { finish th with out := th.out ++ [cfg.max] })
  -- the bare controller; the `Algorithm` types do not offer these (the harness only yields)
  | .succs n, _ => if cfg.ctl then (c, { th with ph := .aSuccs n c.limit }) else (c, finish th)
  | .reset, _ => if cfg.ctl then (storeLimit c (clampInit cfg), finish th) else (c, finish th)
  | .clone, _ => if cfg.ctl then (c, { th with ph := .cloned 4 c.limit }) else (c, finish th)

/-- next atomic operation of the operation in progress -/
def contOp (cfg : Cfg) (c : Cells) (th : Thread) : Cells × Thread :=
  match th.ph with
  | .idle => (c, th)
  | .aSucc r => (storeLimit c (aimdSuccNew cfg r), finish th)
  | .aFail r => (storeLimit c (aimdFailNew cfg r), finish th)
  | .vFail r => (storeLimit c (vegasFailNew cfg r), finish th)
  | .aSuccs n r => (storeLimit c (aimdSuccsNew cfg n r), finish th)
  -- the clone's own `limit()`, `record_success()` (load, store), `limit()`: thread-local in effect
  | .cloned n r =>
      if n ≤ 1 then (c, { finish th with out := th.out ++ [r, aimdSuccNew cfg r] }) else (c, { th with ph := .cloned (n - 1) r })
  | .vMin rtt cm =>
      if c.minRtt = cm then ({ c with minRtt := rtt }, { th with ph := .vLdSm rtt })
      else (c, { th with ph := afterMinLoad rtt c.minRtt })
  | .vLdSm rtt => (c, { th with ph := .vStSm rtt c.smoothed })
  | .vStSm rtt cs => ({ c with smoothed := emaNew rtt cs }, { th with ph := .vAdd })
  | .vAdd => ({ c with count := c.count + 1 }, { th with ph := .vLdCnt })
  | .vLdCnt => if c.count < cfg.minSamples then (c, finish th) else (c, { th with ph := .vLdMin })
  | .vLdMin => (c, { th with ph := .vLdSm2 c.minRtt })
  | .vLdSm2 mr =>
      if mr = u64Max ∨ mr = 0 ∨ c.smoothed = 0 then (c, finish th)
      else (c, { th with ph := .vLdLim mr c.smoothed })
  | .vLdLim mr sr => (c, { th with ph := .vStLim mr sr c.limit })
  | .vStLim mr sr cl => (storeLimit c (vegasNew cfg cl (queueEst mr sr cl)), finish th)

/-- one atomic operation of a thread that is not finished -/
def tstep (cfg : Cfg) (c : Cells) (th : Thread) : Cells × Thread :=
  match th.ph with
  | .idle =>
      match th.prog with
      | [] => (c, th)
      | op :: _ => beginOp cfg c th op
  | _ => contOp cfg c th

/-- a spurious failure of the `compare_exchange_weak` of `update_rtt` (algorithm.rs:233): the exchange does not
happen although the cell may hold the expected value; `Err(actual)` — the thread takes the ACTUAL value of the cell as
its new `current_min` and goes round the `while` again. `none`: the thread's next atomic operation is not a weak
compare-exchange (nothing can fail spuriously there). -/
def weakFail (c : Cells) (th : Thread) : Option Thread :=
  match th.ph with
  | .vMin rtt _ => some { th with ph := afterMinLoad rtt c.minRtt }
  | _ => none

/-- one turn of a thread that is not finished; `weak`: if its next atomic operation is a `compare_exchange_weak`, it
fails spuriously (no effect on any cell) — otherwise the turn is an ordinary one -/
def tstepW (cfg : Cfg) (c : Cells) (th : Thread) (weak : Bool) : Cells × Thread :=
  if weak then
    match weakFail c th with
    | some th' => (c, th')
    | none => tstep cfg c th
  else tstep cfg c th

/-! ## schedules -/

/-- one turn of a schedule: thread `tid` performs its next atomic operation; `weak`: the same, except that a
`compare_exchange_weak` fails spuriously. A numeral `n` is the ordinary turn of thread `n`. -/
inductive Turn
  | run (tid : Nat)
  | weak (tid : Nat)
deriving DecidableEq, Repr, Inhabited

instance : OfNat Turn n := ⟨.run n⟩

def Turn.tid : Turn → Nat
  | .run t => t
  | .weak t => t

def Turn.isWeak : Turn → Bool
  | .run _ => false
  | .weak _ => true

/-- as the turn is named in the logs: `0` / `0 weak` -/
def Turn.render : Turn → String
  | .run t => toString t
  | .weak t => s!"{t} weak"

structure State where
  cells   : Cells
  threads : List Thread := []
  log     : List Ev := []
deriving Repr

def say (s : State) (l : String) : State := { s with log := s.log ++ [.raw l] }

/-- one turn of the schedule -/
def stepT (cfg : Cfg) (s : State) (t : Turn) : State :=
  match s.threads[t.tid]? with
  | none => say s s!"skip {t.render}"
  | some th =>
      if th.prog.isEmpty then say s s!"skip {t.render}"
      else
        let r := tstepW cfg s.cells th t.isWeak
        say { s with cells := r.1, threads := s.threads.set t.tid r.2 } s!"step {t.render}"

def runSched (cfg : Cfg) (s : State) (sched : List Turn) : State := sched.foldl (stepT cfg) s

def firstLive (ths : List Thread) : Option Nat := ths.findIdx? (fun th => !th.prog.isEmpty)

/-- after the schedule: the remaining threads run to completion, lowest id first -/
def drain (cfg : Cfg) : Nat → State → State
  | 0, s => s
  | n + 1, s =>
      match firstLive s.threads with
      | none => s
      | some t => drain cfg n (stepT cfg s (.run t))

def drainFuel (s : State) : Nat := 16 * (s.threads.map (fun th => th.prog.length)).sum + 16

def exec (cfg : Cfg) (s : State) (sched : List Turn) : State :=
  let s' := runSched cfg s sched
  drain cfg (drainFuel s') s'

def init (cfg : Cfg) (progs : List (List FOp)) : State :=
  { cells := initCells cfg, threads := progs.map fun p => { prog := p } }

/-! ## sequential semantics (one thread alone): used for warm-up and by the service model -/

def alone (cfg : Cfg) : Nat → Cells → Thread → Cells × Thread
  | 0, c, th => (c, th)
  | n + 1, c, th => if th.prog.isEmpty then (c, th) else
      let r := tstep cfg c th
      alone cfg n r.1 r.2

/-- run `prog` to completion on the calling thread: new cells and the values read -/
def seqOps (cfg : Cfg) (c : Cells) (prog : List FOp) : Cells × List Nat :=
  let r := alone cfg (16 * prog.length) c { prog := prog }
  (r.1, r.2.out)

def seqOp (cfg : Cfg) (c : Cells) (op : FOp) : Cells := (seqOps cfg c [op]).1

/-! ## line protocol -/

/-- latency table of the op language `S<d>` -/
def latNs (d : Nat) : Nat :=
  if d ≤ 3 then 2 ^ (20 + d)
  else if d = 4 then 3000000
  else if d = 5 then 5000000
  else if d = 6 then 7000000
  else if d = 7 then 1000000
  else if d = 8 then 1
  else 0

/-- the count of the op `N<c>` (`record_successes(n)`): a digit is itself; `a` … `e` are the counts at which the `usize`
arithmetic of the code saturates (`usize::MAX`, `usize::MAX − 1`, `2^63`, `2^32`, `usize::MAX / 2`) -/
def succsCount (d : Char) : Nat :=
  if d = 'a' then u64Max
  else if d = 'b' then u64Max - 1
  else if d = 'c' then 2 ^ 63
  else if d = 'd' then 2 ^ 32
  else if d = 'e' then u64Max / 2
  else d.toNat - 48

def parseProg : List Char → List FOp
  | [] => []
  | 'S' :: d :: tl => .succ (latNs (d.toNat - 48)) :: parseProg tl
  | 'F' :: tl => .fail :: parseProg tl
  | 'L' :: tl => .read :: parseProg tl
  | 'X' :: tl => .dropped :: parseProg tl
  | 'm' :: tl => .minL :: parseProg tl
  | 'M' :: tl => .maxL :: parseProg tl
  | 'N' :: d :: tl => .succs (succsCount d) :: parseProg tl
  | 'R' :: tl => .reset :: parseProg tl
  | 'K' :: tl => .clone :: parseProg tl
  | _ :: tl => parseProg tl

def parseCfg (kv : Kv) : Cfg :=
  { kind := if kv.str "kind" "aimd" = "vegas" then .vegas else .aimd
    min := kv.nat "min" 1, max := kv.nat "max" 100, initial := kv.nat "initial" 10
    inc := kv.nat "inc" 1, dec := f64Dec (kv.nat "fnum" 1) (kv.nat "fden" 2)
    -- the bare controller's `record_success()` takes no latency: no threshold is ever exceeded
    thrNs := if kv.str "kind" "aimd" = "ctl" then u64Max * 1000000 else kv.nat "thr_ms" 100 * 1000000
    alpha := kv.nat "alpha" 3, beta := kv.nat "beta" 6, minSamples := kv.nat "minsamples" 10
    ctl := kv.str "kind" "aimd" = "ctl" }

/-- `0,1,f0,2`: thread ids; `f<tid>` is the turn of thread `tid` in which a `compare_exchange_weak` fails spuriously -/
def parseSched (s : String) : List Turn :=
  (s.splitOn ",").filterMap fun w =>
    match w.toList with
    | 'f' :: d => (String.ofList d).toNat?.map Turn.weak
    | _ => w.toNat?.map Turn.run

def renderOuts (l : List Nat) : String :=
  if l.isEmpty then "none" else ",".intercalate (l.map toString)

structure MState where
  cells : Cells
  progs : List (List FOp) := []
deriving Repr

def setProg (l : List (List FOp)) (t : Nat) (p : List FOp) : List (List FOp) :=
  (l ++ List.replicate (t + 1 - l.length) []).set t p

def threadLines : Nat → List Thread → List Ev
  | _, [] => []
  | i, th :: tl => .raw s!"th {i} {renderOuts th.out}" :: threadLines (i + 1) tl

def mstep (cfg : Cfg) (m : MState) (ws : List String) : MState × List Ev :=
  match ws with
  | "manual" :: "thread" :: rest =>
      let kv := parseKv rest
      ({ m with progs := setProg m.progs (kv.nat "t" 0) (parseProg (kv.str "prog" "").toList) }, [])
  | "manual" :: "warm" :: rest =>
      let kv := parseKv rest
      let r := seqOps cfg m.cells (parseProg (kv.str "prog" "").toList)
      ({ m with cells := r.1 }, [.raw s!"warm {renderOuts r.2}", .raw s!"limit {r.1.limit}"])
  | "manual" :: "sched" :: rest =>
      let kv := parseKv rest
      let s0 : State := { cells := m.cells, threads := m.progs.map fun p => { prog := p } }
      let s := exec cfg s0 (parseSched (kv.str "s" ""))
      ({ cells := s.cells, progs := [] }, s.log ++ threadLines 0 s.threads ++ [.raw s!"limit {s.cells.limit}"])
  | _ => (m, [])

def machine : Machine where
  σ := Cfg × MState
  init kv := let cfg := parseCfg kv; (cfg, { cells := initCells cfg })
  step := fun (cfg, m) ws => let r := mstep cfg m ws; ((cfg, r.1), r.2)
  now := fun _ => 0

end TR.Limit
