import TR.Model.Common
/-!
# Retry budgets at atomic-step granularity (C08) — `crates/tower-resilience-retry/src/budget.rs`

Each thread runs a program of `try_withdraw` (W) / `deposit` (D) calls. One model step is one
atomic operation of one thread, in the order the code performs them:

* token bucket — W: `load`; (`< SCALE` ⇒ return false) ; `compare_exchange` (fail ⇒ reload).
  D: one `fetch_update` (a single atomic read-modify-write).
* AIMD budget — W: `load`; if exhausted: `limit.load`, `limit.store` (record_failure), return false;
  else `compare_exchange`. D: `limit.load` (current max); `fetch_update` on the tokens;
  `limit.load`, `limit.store` (record_success).

A schedule is a list of thread ids; a turn given to a finished thread is a `skip`.
-/
namespace TR.Budget

inductive BOp
  | W
  | D
deriving DecidableEq, Repr

structure Cfg where
  aimd      : Bool := false
  cost      : Nat := 1000     -- token bucket: SCALE; AIMD: withdraw_amount
  amount    : Nat := 1000     -- token bucket: SCALE; AIMD: deposit_amount
  maxTokens : Nat := 10000    -- token bucket: max_tokens * SCALE; AIMD: max_budget
  initial   : Nat := 0        -- token bucket: initial_tokens * SCALE; AIMD: max_budget
  minLimit  : Nat := 1
  maxLimit  : Nat := 10       -- AIMD: max_budget (the controller's max_limit)
  fnum      : Nat := 1        -- decrease factor fnum / fden
  fden      : Nat := 2
deriving Repr

/-- where a thread is inside the operation at the head of its program -/
inductive Pc
  | start                      -- before the first atomic operation of the call
  | cas (reg : Nat)            -- W: the balance `reg ≥ cost` was loaded, `compare_exchange` is next
  | failLoad                   -- AIMD W refused: `record_failure`'s `limit.load` is next
  | failStore (r : Nat)        -- AIMD W refused: `limit.store` is next
  | depRmw (cap : Nat)         -- AIMD D: the limit was read, the `fetch_update` on the tokens is next
  | succLoad                   -- AIMD D: `record_success`'s `limit.load` is next
  | succStore (r : Nat)        -- AIMD D: `limit.store` is next
deriving DecidableEq, Repr

structure Thread where
  prog : List BOp := []               -- remaining operations, head = the one in progress
  pc   : Pc := .start
  out  : List (Option Bool) := []     -- results so far: `some b` for W, `none` for D
deriving Repr

/-- one linearised operation: thread, operation, result, and (for a deposit) the cap it used -/
structure LinOp where
  tid : Nat
  op  : BOp
  res : Bool
  cap : Nat
deriving Repr, DecidableEq

structure State where
  tokens   : Nat
  limit    : Nat
  threads  : List Thread
  granted  : Nat := 0                 -- ghost: successful withdrawals
  deposits : Nat := 0                 -- ghost: deposit read-modify-writes performed
  lin      : List LinOp := []         -- ghost: operations in the order of their linearisation points
  trace    : List (Bool × Nat) := []  -- ghost: turns (`true` = a step was taken)
deriving Repr

def Thread.finish (t : Thread) (r : Option Bool) : Thread :=
  { prog := t.prog.tail, pc := .start, out := t.out ++ [r] }

def State.linW (s : State) (tid : Nat) (res : Bool) : State :=
  { s with lin := s.lin ++ [{ tid := tid, op := .W, res := res, cap := 0 }] }

/-- W, first atomic operation: `tokens.load` -/
def wLoad (cfg : Cfg) (s : State) (tid : Nat) (t : Thread) : State × Thread :=
  if s.tokens < cfg.cost then
    -- exhausted: this load is the linearisation point of the refusal
    if cfg.aimd then (s.linW tid false, { t with pc := .failLoad })
    else (s.linW tid false, t.finish (some false))
  else (s, { t with pc := .cas s.tokens })

/-- W: `compare_exchange(reg, reg - cost)` -/
def wCas (cfg : Cfg) (s : State) (tid : Nat) (t : Thread) (reg : Nat) : State × Thread :=
  if s.tokens = reg then
    ({ (s.linW tid true) with tokens := reg - cfg.cost, granted := s.granted + 1 }, t.finish (some true))
  else (s, { t with pc := .start })

/-- D on the token bucket: one `fetch_update` -/
def dRmwToken (cfg : Cfg) (s : State) (tid : Nat) (t : Thread) : State × Thread :=
  ({ s with tokens := min (s.tokens + cfg.amount) cfg.maxTokens, deposits := s.deposits + 1,
            lin := s.lin ++ [{ tid := tid, op := .D, res := true, cap := cfg.maxTokens }] },
   t.finish none)

/-- D on the AIMD budget: the `fetch_update` on the tokens, capped at the limit read before -/
def dRmwAimd (cfg : Cfg) (s : State) (tid : Nat) (t : Thread) (cap : Nat) : State × Thread :=
  ({ s with tokens := min (s.tokens + cfg.amount) cap, deposits := s.deposits + 1,
            lin := s.lin ++ [{ tid := tid, op := .D, res := true, cap := cap }] },
   { t with pc := .succLoad })

/-- effect of one atomic step of thread `t` (id `tid`) -/
def stepThread (cfg : Cfg) (s : State) (tid : Nat) (t : Thread) : State × Thread :=
  match t.prog, t.pc with
  | [], _ => (s, t)
  | .W :: _, .start => wLoad cfg s tid t
  | .W :: _, .cas reg => wCas cfg s tid t reg
  | .W :: _, .failLoad => (s, { t with pc := .failStore s.limit })
  | .W :: _, .failStore r =>
      ({ s with limit := max (r * cfg.fnum / cfg.fden) cfg.minLimit }, t.finish (some false))
  | .D :: _, .start =>
      if cfg.aimd then (s, { t with pc := .depRmw s.limit }) else dRmwToken cfg s tid t
  | .D :: _, .depRmw cap => dRmwAimd cfg s tid t cap
  | .D :: _, .succLoad => (s, { t with pc := .succStore s.limit })
  | .D :: _, .succStore r => ({ s with limit := min (r + 1) cfg.maxLimit }, t.finish none)
  -- combinations the code cannot be in
  | _ :: _, _ => (s, { t with pc := .start })

/-- a turn for thread `tid` -/
def step (cfg : Cfg) (s : State) (tid : Nat) : State :=
  match s.threads[tid]? with
  | none => { s with trace := s.trace ++ [(false, tid)] }
  | some t =>
    if t.prog = [] then { s with trace := s.trace ++ [(false, tid)] }
    else
      let r := stepThread cfg s tid t
      { r.1 with threads := r.1.threads.set tid r.2, trace := r.1.trace ++ [(true, tid)] }

def firstUnfinished (ts : List Thread) (i : Nat) : Option Nat :=
  match ts with
  | [] => none
  | t :: tl => if t.prog ≠ [] then some i else firstUnfinished tl (i + 1)

/-- after the schedule: the remaining threads run to completion, lowest id first -/
def drain (cfg : Cfg) (fuel : Nat) (s : State) : State :=
  match fuel with
  | 0 => s
  | fuel + 1 =>
    match firstUnfinished s.threads 0 with
    | none => s
    | some tid => drain cfg fuel (step cfg s tid)

def init (cfg : Cfg) (progs : List (List BOp)) : State :=
  { tokens := cfg.initial, limit := cfg.maxLimit, threads := progs.map fun p => { prog := p } }

def totalOps (progs : List (List BOp)) : Nat := (progs.map List.length).sum

/-- the run determined by a schedule -/
def run (cfg : Cfg) (progs : List (List BOp)) (sched : List Nat) : State :=
  sched.foldl (step cfg) (init cfg progs)

def runAll (cfg : Cfg) (progs : List (List BOp)) (sched : List Nat) : State :=
  drain cfg (4 * totalOps progs + 4) (run cfg progs sched)

/-! ## the sequential budget (specification) -/

/-- one operation executed alone -/
def seqStep (cfg : Cfg) (tokens : Nat) (o : LinOp) : Nat × Bool :=
  match o.op with
  | .W => if tokens < cfg.cost then (tokens, false) else (tokens - cfg.cost, true)
  | .D => (min (tokens + cfg.amount) o.cap, true)

/-- replay a linearisation one operation at a time, checking every recorded result -/
def replay (cfg : Cfg) (tokens : Nat) : List LinOp → Option Nat
  | [] => some tokens
  | o :: tl =>
    let r := seqStep cfg tokens o
    if r.2 = o.res then replay cfg r.1 tl else none

/-! ## line protocol -/

def parseProg (s : String) : List BOp :=
  s.toList.filterMap fun ch => if ch = 'W' then some .W else if ch = 'D' then some .D else none

/-! ### budgets built through `RetryBudgetBuilder` (`chain=` in the header)

Setters apply in the order given, the last one of a kind wins, unnamed settings keep the builder's defaults
(token bucket: `max_tokens` 100, `initial_tokens` = whatever `max_tokens` is when `build()` runs; AIMD: min 10, max 1000,
deposit 1, withdraw 1, factor 1/2). -/

structure TokenB where
  max  : Nat := 100
  init : Option Nat := none
deriving Repr

structure AimdB where
  min : Nat := 10
  max : Nat := 1000
  dep : Nat := 1
  wd  : Nat := 1
  fnum : Nat := 1
  fden : Nat := 2
deriving Repr

inductive TSet
  | init (n : Nat)
  | max (n : Nat)
  | other
deriving Repr, DecidableEq

inductive ASet
  | min (n : Nat)
  | max (n : Nat)
  | dep (n : Nat)
  | wd (n : Nat)
  | factor (p q : Nat)
  | other
deriving Repr, DecidableEq

def itemNat (s : String) : Nat := ((s.drop 1).toString.toNat?).getD 0

def parseTSet (it : String) : TSet :=
  if it.startsWith "i" then .init (itemNat it)
  else if it.startsWith "m" then .max (itemNat it)
  else .other

def parseASet (it : String) : ASet :=
  if it.startsWith "n" then .min (itemNat it)
  else if it.startsWith "x" then .max (itemNat it)
  else if it.startsWith "d" then .dep (itemNat it)
  else if it.startsWith "w" then .wd (itemNat it)
  else if it.startsWith "f" then
    match ((it.drop 1).toString.splitOn "_") with
    | [p, q] => .factor (p.toNat?.getD 1) (q.toNat?.getD 2)
    | _ => .other
  else .other

def tokenSet (b : TokenB) : TSet → TokenB
  | .init n => { b with init := some n }
  | .max n => { b with max := n }
  | .other => b

def aimdSet (b : AimdB) : ASet → AimdB
  | .min n => { b with min := n }
  | .max n => { b with max := n }
  | .dep n => { b with dep := n }
  | .wd n => { b with wd := n }
  | .factor p q => { b with fnum := p, fden := q }
  | .other => b

def chainItems (s : String) : List String := (s.splitOn ".").filter fun x => !x.isEmpty && x != "-"

/-- `TokenBucketBuilder::build`: `initial_tokens.unwrap_or(max_tokens)`, then the constructor's clamp -/
def tokenCfg (b : TokenB) : Cfg :=
  { aimd := false, cost := 1000, amount := 1000, maxTokens := b.max * 1000,
    initial := min (b.init.getD b.max) b.max * 1000, minLimit := 0, maxLimit := 0 }

def aimdCfg (b : AimdB) : Cfg :=
  { aimd := true, cost := b.wd, amount := b.dep, maxTokens := b.max, initial := b.max,
    minLimit := b.min, maxLimit := b.max, fnum := b.fnum, fden := b.fden }

def parseCfg (kv : Kv) : Cfg :=
  match kv.get "chain" with
  | some ch =>
    if kv.str "kind" "token" = "aimd" then aimdCfg (((chainItems ch).map parseASet).foldl aimdSet {})
    else tokenCfg (((chainItems ch).map parseTSet).foldl tokenSet {})
  | none =>
  if kv.str "kind" "token" = "aimd" then
    let mx := kv.nat "max" 10
    { aimd := true, cost := kv.nat "wd" 1, amount := kv.nat "dep" 1, maxTokens := mx, initial := mx,
      minLimit := kv.nat "min" 1, maxLimit := mx, fnum := kv.nat "fnum" 1, fden := kv.nat "fden" 2 }
  else
    -- `TokenBucketBudget::new` clamps the initial balance to the burst capacity
    { aimd := false, cost := 1000, amount := 1000, maxTokens := kv.nat "max" 10 * 1000,
      initial := min (kv.nat "initial" 0) (kv.nat "max" 10) * 1000, minLimit := 0, maxLimit := 0 }

def renderOut (o : List (Option Bool)) : String :=
  ",".intercalate (o.map fun r => match r with | some true => "1" | some false => "0" | none => "-")

structure DState where
  cfg   : Cfg
  progs : List (List BOp) := []
  built : Bool := false      -- built through the builder: only the `RetryBudget` trait object exists, no `current_max()`

def setAt {α : Type} (l : List α) (i : Nat) (d x : α) : List α :=
  if i < l.length then l.set i x else l ++ List.replicate (i - l.length) d ++ [x]

def enumFrom {α : Type} (i : Nat) : List α → List (Nat × α)
  | [] => []
  | x :: tl => (i, x) :: enumFrom (i + 1) tl

def machine : Machine where
  σ := DState
  init kv := { cfg := parseCfg kv, built := (kv.get "chain").isSome }
  step := fun d ws =>
    match ws with
    | "manual" :: "thread" :: rest =>
        let kv := parseKv rest
        ({ d with progs := setAt d.progs (kv.nat "t" 0) [] (parseProg (kv.str "prog" "")) }, [])
    | "manual" :: "sched" :: rest =>
        -- an inverted range (min_budget > max_budget) is rejected at construction (`Ord::clamp` panics): no budget
        -- exists, nothing runs. The theorems assume `minLimit ≤ maxLimit` (`wf_aimd`); this is the other case.
        if d.cfg.aimd && d.cfg.minLimit > d.cfg.maxLimit then (d, [Ev.raw "construct panic"]) else
        let kv := parseKv rest
        let sched := ((kv.str "s" "").splitOn ",").filterMap (·.toNat?)
        let s := runAll d.cfg d.progs sched
        let tr := s.trace.map fun p => Ev.raw (if p.1 then s!"step {p.2}" else s!"skip {p.2}")
        let th := (enumFrom 0 s.threads).map fun p => Ev.raw s!"th {p.1} {renderOut p.2.out}"
        let bal := if d.cfg.aimd then s.tokens else s.tokens / 1000
        let lim := if d.cfg.aimd && !d.built then [Ev.raw s!"limit {s.limit}"] else []
        (d, tr ++ th ++ [Ev.raw s!"balance {bal}"] ++ lim)
    | _ => (d, [])
  now := fun _ => 0

end TR.Budget
