import TR.Model.Common
/-!
# Hedge (C12) — `crates/tower-resilience-hedge/src/lib.rs` (`execute_with_hedging`), `config.rs`

One `poll` of one call future is one step; an `adv` lets the spawned attempts whose inner call
has become ready complete (in the order the runtime delivered them, an observed choice).

What the code does, and the model follows:

* every attempt is a detached `tokio::spawn`ed task that calls the inner service and sends
  `(attempt number, result)` on an mpsc channel of capacity `max_hedged_attempts`; the tasks
  spawned by a poll run right after that poll, in spawn order, so `inner_call` of attempt `i`
  is observed in the step that starts it (and the whole attempt, if its latency is 0);
* the first poll starts the primary and chooses the mode **once**, from `delay(1)`:
  `max > 1 ∧ delay(1) > 0` ⇒ latency mode, otherwise all remaining attempts are started at once
  and the call only drains the channel (`drain` phase; also the shape of `max = 1`);
* latency mode is a `biased` select: first every queued result is received (an `Ok` resolves the
  call; an error is counted, the call fails with all-attempts-failed when `max` errors have been
  received, carrying the primary's error), then, if the hedge timer has elapsed and fewer than
  `max` attempts exist, the next attempt is started and the timer is re-armed **from now** with
  `delay(n)` for attempt number `n` (a zero delay fires in the same poll; a delay that cannot be
  added to an `Instant` — `Duration::MAX` — never fires: `sleep` saturates its deadline). A failed primary does
  not bring the hedge forward. The `else` arm and the code after the loop are unreachable in
  latency mode (the function itself holds a sender, so `recv` never yields `None` there);
* drain phase: `Ok` resolves; errors are remembered (first one received); when the channel is
  empty **and closed** (every attempt's task has ended) the call fails with all-attempts-failed
  carrying the first error received — or panics on `expect` if no error was ever received (all
  attempts panicked);
* a panicking attempt ends its task without sending; in latency mode nothing notices;
* attempts survive the result and the drop of the call future (their `inner_done` still appears);
  nothing is ever started after either;
* delays are `Duration`s: the model keeps them in **microseconds** (`Cfg.delay`), instants in
  milliseconds (the harness moves time in whole milliseconds). The mode test is `delay(1) > ZERO` on
  the duration itself; tokio's timer has millisecond resolution and rounds a deadline **up**, so the
  hedge timer armed at instant `t` with `delay n` fires at `t + ⌈delay n / 1000⌉` (`timerMs`);
* a hedge (not the primary, which runs on the instance the caller polled ready) is a task that first
  drives its **fresh clone** of the inner service to readiness and only then calls it. A request may
  carry a readiness plan (`warm=`): the clone of attempt `i ≥ 1` is ready `warm[i-1]` ms after its
  first readiness poll (or never). Such an attempt is *started* (it counts, the timer is re-armed
  from that instant) when its task is spawned and *waits* (`Wait.till`/`Wait.forever`); the inner
  call — serial, script step (the scripted inner service hands out steps in **call** order) and
  `inner_call` event — happens in the `adv` step in which the clone has become ready, in the order
  the runtime delivered it (`@rdy=c:i`, an observed choice like `@done=k`). The select loop never
  waits for that readiness: results keep being received while a clone is warming up. A clone whose first readiness
  poll answers with an **error** (`Ready.fail`) ends its attempt at once: the task sends that error (kind 9, serial 0)
  as the attempt's result without ever calling the inner service — the attempt was started (it counts, the timer is
  re-armed), it has failed, and it never makes an inner call (`failAttempt`).

* construction paths (`layer.rs`, `config.rs`): whatever way the service is made, the call sees one `HedgeConfig`:
  `HedgeLayer::builder()` / `HedgeConfigBuilder::default()` start from `HedgeConfig::default()` (2 attempts, fixed
  delay of one second: `defaultCfg`); `max_hedged_attempts(n)` stores `max n 1` (`clampMax`: 0 and 1 both mean "the
  original request only"); `HedgeLayer::new(d)` is `builder().delay(d).build()` (`newCfg`); `.name(..)` and
  `.on_event(..)` change nothing a caller can see; `Hedge::new(inner, HedgeConfig::default())` needs no layer at all;
* a `Hedge` service has **no state of its own** besides the shared, immutable configuration: every service built
  from one layer value (or from a clone of the layer), every clone of a service — taken before or after calls were
  made — and a handle that is used for one call after the other all behave alike, and calls never influence each
  other. The model therefore has no notion of a handle: the words `svc=`, `lc=`, `h=`, `from=` of an `arrive` line are
  not even parsed, the state is a list of independent per-request records (`pollS`/`dropS` touch one record);
* `Hedge::poll_ready` passes the readiness of the handle's inner service through; an inner readiness **error** is
  answered `HedgeError::Inner(e)` and no call is made (`Op.refused`: the request gets that result, no record exists);
* `HedgeError`'s accessors (`accessors`): `AllAttemptsFailed(e)` — `is_all_attempts_failed()`, not `is_inner()`,
  `inner()`/`into_inner()` = `e`; `Inner(e)` — `is_inner()`, not `is_all_attempts_failed()`, `inner()`/`into_inner()` = `e`.

`attempts` is kept newest-first; `chan`/`recvd` hold the (finished) attempt records themselves.
-/
namespace TR.Hedge

structure Cfg where
  max   : Nat
  /-- `delay n` = configured delay **in microseconds** before attempt number `n ≥ 1`
  (`HedgeDelay::get_delay(n)`), counted from the start of attempt `n - 1` -/
  delay : Nat → Nat
  /-- `never n`: `delay n` is a duration that cannot be added to an `Instant` (`Duration::MAX`,
  `Duration::from_secs(u64::MAX)`, anything from 2^63 s on): `tokio::time::sleep` then sleeps "for ever" (its
  deadline saturates to a far future, 30 years on), so the timer armed for attempt `n` is **never due**.
  `delay n` still carries the duration's magnitude (it is positive: the mode test sees a non-zero duration). -/
  never : Nat → Bool := fun _ => false

/-- milliseconds after which a timer armed (at a whole-millisecond instant) with `delay n` fires:
tokio rounds the deadline up to the next millisecond -/
def timerMs (cfg : Cfg) (n : Nat) : Nat := (cfg.delay n + 999) / 1000

/-- where the task of an attempt is before its inner call -/
inductive Wait
  | no                  -- the inner service has been called
  | till (t : Nat)      -- driving its fresh clone to readiness; the clone is ready at instant `t`
  | forever             -- the clone never becomes ready
deriving DecidableEq, Repr

/-- readiness plan entry of a fresh clone, counted from its first readiness poll -/
inductive Ready
  | after (d : Nat)     -- ready `d` ms later (0: at once)
  | never               -- pending for ever
  | fail                -- the first readiness poll answers `Err` (the error has kind 9 and serial 0)
deriving DecidableEq, Repr

structure Attempt where
  idx     : Nat               -- attempt number, 0 = primary
  k       : Nat               -- serial of its inner call (meaningful once `wait = .no`)
  startAt : Nat               -- instant the attempt was started (its task spawned; with a clone that is
                              -- ready at once this is also the instant of `inner.call()`)
  doneAt  : Nat               -- instant the inner future becomes ready (call instant + latency)
  out     : Out               -- scripted outcome (assigned at the call; `.never` while waiting)
  fin     : Option Nat := none   -- instant its completion was observed (`inner_done`)
  wait    : Wait := .no
deriving DecidableEq, Repr

inductive Phase
  | fresh | latency | drain | done | dropped
deriving DecidableEq, Repr

structure Call where
  plan        : List Step
  warm        : List Ready := []          -- readiness plan of the fresh clones
  phase       : Phase := .fresh
  attempts    : List Attempt := []        -- newest first
  nextHedgeAt : Nat := 0                  -- deadline of `delay_fut`
  errors      : Nat := 0                  -- `errors_received`
  firstErr    : Option (Nat × Nat) := none  -- `primary_error` (kind, serial)
  chan        : List Attempt := []        -- results sent and not yet received (FIFO)
  recvd       : List Attempt := []        -- ghost: results received so far
  result      : Option (Nat × Res) := none  -- ghost: instant and value of the result
deriving Repr

structure State where
  now    : Nat := 0
  serial : Nat := 0
  calls  : List (Nat × Call) := []
  log    : List Ev := []
deriving Repr

/-- what a timer that has elapsed during an advance sets off -/
inductive Fire
  | done (k : Nat)       -- the inner call with serial `k` completes
  | rdy (c i : Nat)      -- the clone of attempt `i` of request `c` is ready: the attempt calls
deriving DecidableEq, Repr

/-- `[1, 0]` reads as the completions of serials 1 and 0 -/
instance (n : Nat) : OfNat Fire n := ⟨.done n⟩

inductive Op
  | arrive (c : Nat) (plan : List Step) (warm : List Ready := [])
  | poll (c : Nat)
  | drop (c : Nat)
  /-- `order`: what the elapsed timers set off in this advance, in the observed order -/
  | adv (ms : Nat) (order : List Fire)
  /-- the request is made on a handle whose inner service fails its readiness poll with the error `(kind, v)`:
  `Hedge::poll_ready` answers `HedgeError::Inner`, the caller never gets as far as `call` -/
  | refused (c : Nat) (kind v : Nat)
deriving Repr

def live : Phase → Bool
  | .latency => true
  | .drain => true
  | _ => false

/-- outcomes that produce a message on the channel -/
def sendable : Out → Bool
  | .ok => true
  | .err _ => true
  | _ => false

def isErr : Out → Bool
  | .err _ => true
  | _ => false

def isFail : Out → Bool
  | .err _ => true
  | .panic => true
  | _ => false

def isCalled (a : Attempt) : Bool := decide (a.wait = .no)

/-- number of inner calls made for this request so far = index of the next script step -/
def nCalled (cl : Call) : Nat := cl.attempts.countP isCalled

def readyBy (now : Nat) : Wait → Bool
  | .till t => decide (t ≤ now)
  | _ => false

/-- the first attempt with serial `k` that is still running, is due and can complete is marked
finished at `now`; returns the marked record and the new list -/
def markFin (now k : Nat) : List Attempt → Option (Attempt × List Attempt)
  | [] => none
  | a :: tl =>
    if a.k = k ∧ a.fin = none ∧ a.doneAt ≤ now ∧ a.out ≠ .never ∧ a.wait = .no then
      some ({ a with fin := some now }, { a with fin := some now } :: tl)
    else match markFin now k tl with
      | some (a', tl') => some (a', a :: tl')
      | none => none

/-- the task of attempt `k` of this call completes: `inner_done`, and the result is sent if the
receiver still exists -/
def finishCall (now k c : Nat) (cl : Call) : Call × List Ev :=
  match markFin now k cl.attempts with
  | none => (cl, [])
  | some (a', l') =>
    (if live cl.phase && sendable a'.out then { cl with attempts := l', chan := cl.chan ++ [a'] }
     else { cl with attempts := l' },
     [.innerDone c a'.k a'.out])

/-- work state while one call is polled -/
structure W where
  cl     : Call
  serial : Nat
  evs    : List Ev := []

def pushAttempt (now : Nat) (w : W) : W :=
  let i := w.cl.attempts.length
  let st := w.cl.plan.getD (nCalled w.cl) ⟨0, .ok⟩
  let a : Attempt := { idx := i, k := w.serial, startAt := now, doneAt := now + st.lat, out := st.out }
  { w with cl := { w.cl with attempts := a :: w.cl.attempts } }

/-- spawn the next attempt on a clone that is ready at once; its task runs right after the poll:
`inner_call`, and with latency 0 the inner future is ready at its first poll -/
def callAttempt (now c : Nat) (w : W) : W :=
  let st := w.cl.plan.getD (nCalled w.cl) ⟨0, .ok⟩
  let w1 := pushAttempt now w
  let r := if st.lat = 0 then finishCall now w.serial c w1.cl else (w1.cl, [])
  { cl := r.1, serial := w.serial + 1, evs := w.evs ++ [.innerCall c w.serial] ++ r.2 }

/-- readiness plan entry of the next attempt (`none`: not listed, or the primary) -/
def warmOf (cl : Call) : Option Ready :=
  if cl.attempts.length = 0 then none else cl.warm[cl.attempts.length - 1]?

def warmText : Ready → String
  | .after d => toString d
  | .never => "never"
  | .fail => "fail"

/-- first readiness poll of the fresh clone of attempt `i` -/
def warmEv (c i : Nat) (wv : Ready) : Ev := .raw s!"inner_warm {c} {i} {warmText wv}"

/-- the attempt exists (its task is spawned) but has not called the inner service yet -/
def pushWaiting (now : Nat) (wt : Wait) (w : W) : W :=
  let a : Attempt := { idx := w.cl.attempts.length, k := 0, startAt := now, doneAt := 0, out := .never, wait := wt }
  { w with cl := { w.cl with attempts := a :: w.cl.attempts } }

/-- the attempt whose fresh clone answers its first readiness poll with an error: it is started and over in one go —
its task sends the readiness error (kind 9, serial 0) as the attempt's result and never calls the inner service
(`wait` stays `.forever`: no serial, no script step, no `inner_call`) -/
def failedAttempt (now i : Nat) : Attempt :=
  { idx := i, k := 0, startAt := now, doneAt := now, out := .err 9, wait := .forever }

def failAttempt (now : Nat) (w : W) : W :=
  let a := failedAttempt now w.cl.attempts.length
  { w with cl :=
      if live w.cl.phase && sendable a.out then
        { w.cl with attempts := { a with fin := some now } :: w.cl.attempts, chan := w.cl.chan ++ [{ a with fin := some now }] }
      else { w.cl with attempts := { a with fin := some now } :: w.cl.attempts } }

/-- spawn the next attempt: its task polls the readiness of its clone and calls if it is ready -/
def startAttempt (now c : Nat) (w : W) : W :=
  match warmOf w.cl with
  | none => callAttempt now c w
  | some (.after d) =>
    if d = 0 then callAttempt now c { w with evs := w.evs ++ [warmEv c w.cl.attempts.length (.after d)] }
    else pushWaiting now (.till (now + d)) { w with evs := w.evs ++ [warmEv c w.cl.attempts.length (.after d)] }
  | some .never => pushWaiting now .forever { w with evs := w.evs ++ [warmEv c w.cl.attempts.length .never] }
  | some .fail => failAttempt now { w with evs := w.evs ++ [warmEv c w.cl.attempts.length .fail] }

/-- the waiting attempt calls the inner service at `now`: serial `k`, script step `st` -/
def Attempt.call (a : Attempt) (now k : Nat) (st : Step) : Attempt :=
  { a with wait := .no, k := k, doneAt := now + st.lat, out := st.out }

/-- the first waiting attempt number `i` whose clone is ready by `now` becomes a called one -/
def markCall (now i k : Nat) (st : Step) : List Attempt → Option (List Attempt)
  | [] => none
  | a :: tl =>
    if a.idx = i ∧ readyBy now a.wait = true ∧ a.fin = none then
      some (a.call now k st :: tl)
    else match markCall now i k st tl with
      | some tl' => some (a :: tl')
      | none => none

/-- the clone of attempt `i` is ready: its task calls the inner service (`inner_call`, next serial,
next script step), and with latency 0 the attempt completes at once -/
def readyCall (now c i : Nat) (w : W) : W :=
  let st := w.cl.plan.getD (nCalled w.cl) ⟨0, .ok⟩
  match markCall now i w.serial st w.cl.attempts with
  | none => w
  | some l' =>
    let r := if st.lat = 0 then finishCall now w.serial c { w.cl with attempts := l' }
             else ({ w.cl with attempts := l' }, [])
    { cl := r.1, serial := w.serial + 1, evs := w.evs ++ [.innerCall c w.serial] ++ r.2 }

def resolve (now : Nat) (r : Res) (cl : Call) : Call :=
  { cl with phase := .done, result := some (now, r) }

/-- `primary_error = Some(e)` only for attempt 0 -/
def primaryErr (m : Attempt) (kd : Nat) (old : Option (Nat × Nat)) : Option (Nat × Nat) :=
  if m.idx = 0 then some (kd, m.k) else old

/-- drain loop: `if primary_error.is_none() { primary_error = Some(e) }` -/
def firstErrOf (m : Attempt) (kd : Nat) (old : Option (Nat × Nat)) : Option (Nat × Nat) :=
  match old with
  | some e => some e
  | none => some (kd, m.k)

/-- one message leaves the channel -/
def popMsg (cl : Call) (m : Attempt) (rest : List Attempt) : Call :=
  { cl with chan := rest, recvd := cl.recvd ++ [m] }

/-- latency mode, first select arm, until the channel is empty or the call resolves -/
def recvLat (cfg : Cfg) (now c : Nat) : List Attempt → Call → Call × List Ev
  | [], cl => (cl, [])
  | m :: rest, cl =>
    match m.out with
    | .ok => (resolve now (.ok m.k) (popMsg cl m rest), [.result c (.ok m.k)])
    | .err kd =>
      if cfg.max ≤ cl.errors + 1 then
        (resolve now (.allFailed ((primaryErr m kd cl.firstErr).getD (kd, m.k)).1
                                 ((primaryErr m kd cl.firstErr).getD (kd, m.k)).2)
            { popMsg cl m rest with firstErr := primaryErr m kd cl.firstErr, errors := cl.errors + 1 },
         [.result c (.allFailed ((primaryErr m kd cl.firstErr).getD (kd, m.k)).1
                                ((primaryErr m kd cl.firstErr).getD (kd, m.k)).2)])
      else recvLat cfg now c rest
        { popMsg cl m rest with firstErr := primaryErr m kd cl.firstErr, errors := cl.errors + 1 }
    | _ => recvLat cfg now c rest (popMsg cl m rest)

/-- latency mode, second select arm, repeated while the (re-armed) timer has elapsed. The timer that is running
while `n` attempts exist is the one armed with `delay n` (for attempt number `n`): it is never due when that
duration is not representable as a deadline (`cfg.never n`) — `nextHedgeAt` is then meaningless. -/
def spawnLat (cfg : Cfg) (now c : Nat) : Nat → W → W
  | 0, w => w
  | fuel + 1, w =>
    if w.cl.attempts.length < cfg.max ∧ w.cl.nextHedgeAt ≤ now ∧ cfg.never w.cl.attempts.length = false then
      let w := startAttempt now c w
      let n := w.cl.attempts.length
      spawnLat cfg now c fuel
        (if n < cfg.max then { w with cl := { w.cl with nextHedgeAt := now + timerMs cfg n } } else w)
    else w

/-- drain phase: first `Ok` wins; all-attempts-failed only when the channel is empty and closed -/
def recvDrain (now c : Nat) : List Attempt → Call → Call × List Ev
  | [], cl =>
    if cl.attempts.all (fun a => a.fin.isSome) then
      match cl.firstErr with
      | some e => (resolve now (.allFailed e.1 e.2) cl, [.result c (.allFailed e.1 e.2)])
      | none => (resolve now .panic cl, [.result c .panic])
    else (cl, [])
  | m :: rest, cl =>
    match m.out with
    | .ok => (resolve now (.ok m.k) (popMsg cl m rest), [.result c (.ok m.k)])
    | .err kd => recvDrain now c rest { popMsg cl m rest with firstErr := firstErrOf m kd cl.firstErr }
    | _ => recvDrain now c rest (popMsg cl m rest)

def startN (now c : Nat) : Nat → W → W
  | 0, w => w
  | n + 1, w => startN now c n (startAttempt now c w)

/-- first poll: primary, then the mode is chosen once from `delay 1` -/
def pollFresh (cfg : Cfg) (now c : Nat) (w : W) : W :=
  if 1 < cfg.max ∧ cfg.delay 1 ≠ 0 then
    startAttempt now c { w with cl := { w.cl with phase := .latency, nextHedgeAt := now + timerMs cfg 1 } }
  else
    startN now c (cfg.max - 1) (startAttempt now c { w with cl := { w.cl with phase := .drain } })

def pollLatency (cfg : Cfg) (now c : Nat) (w : W) : W :=
  let r := recvLat cfg now c w.cl.chan w.cl
  let w := { w with cl := r.1, evs := w.evs ++ r.2 }
  if r.1.phase = .latency then spawnLat cfg now c cfg.max w else w

def pollDrain (now c : Nat) (w : W) : W :=
  let r := recvDrain now c w.cl.chan w.cl
  { w with cl := r.1, evs := w.evs ++ r.2 }

def pollCall (cfg : Cfg) (now c : Nat) (w : W) : W :=
  match w.cl.phase with
  | .fresh => pollFresh cfg now c w
  | .latency => pollLatency cfg now c w
  | .drain => pollDrain now c w
  | _ => w

def dropCall (cl : Call) : Call :=
  match cl.phase with
  | .done => cl
  | _ => { cl with phase := .dropped }

def setCall (l : List (Nat × Call)) (c : Nat) (v : Call) : List (Nat × Call) :=
  l.map fun p => if p.1 = c then (p.1, v) else p

def pollS (cfg : Cfg) (s : State) (c : Nat) : State :=
  match lookup s.calls c with
  | none => s
  | some cl =>
    let w := pollCall cfg s.now c { cl := cl, serial := s.serial }
    { s with calls := setCall s.calls c w.cl, serial := w.serial, log := s.log ++ w.evs }

def dropS (s : State) (c : Nat) : State :=
  match lookup s.calls c with
  | none => s
  | some cl => { s with calls := setCall s.calls c (dropCall cl) }

/-- attempt `k` completes, whichever call it belongs to -/
def finishOne (s : State) (k : Nat) : State :=
  { s with calls := s.calls.map (fun p => (p.1, (finishCall s.now k p.1 p.2).1)),
           log := s.log ++ s.calls.flatMap (fun p => (finishCall s.now k p.1 p.2).2) }

/-- the clone of attempt `i` of request `c` is ready -/
def readyOne (s : State) (c i : Nat) : State :=
  match lookup s.calls c with
  | none => s
  | some cl =>
    let w := readyCall s.now c i { cl := cl, serial := s.serial }
    { s with calls := setCall s.calls c w.cl, serial := w.serial, log := s.log ++ w.evs }

def fireOne (s : State) : Fire → State
  | .done k => finishOne s k
  | .rdy c i => readyOne s c i

def isDue (now : Nat) (a : Attempt) : Bool :=
  a.fin.isNone && decide (a.doneAt ≤ now) && decide (a.out ≠ .never) && isCalled a

/-- the timer of this attempt (inner latency, or warm-up of its clone) that has elapsed, with its deadline -/
def dueOf (now c : Nat) (a : Attempt) : Option (Fire × Nat) :=
  if isDue now a then some (.done a.k, a.doneAt)
  else match a.wait with
    | .till t => if t ≤ now ∧ a.fin = none then some (.rdy c a.idx, t) else none
    | _ => none

/-- what happens when time reaches `s.now`, oldest attempt first per call -/
def due (s : State) : List (Fire × Nat) :=
  s.calls.flatMap fun p => p.2.attempts.reverse.filterMap (dueOf s.now p.1)

def nondecr : List Nat → Bool
  | a :: b :: tl => decide (a ≤ b) && nondecr (b :: tl)
  | _ => true

def deadlineOf (d : List (Fire × Nat)) (f : Fire) : Nat :=
  match d.find? (fun x => x.1 == f) with
  | some x => x.2
  | none => 0

/-- allowed orders: a permutation of what is due, in order of the deadlines
(tokio's timer wheel fires in deadline order; the order within one deadline is the runtime's) -/
def orderAllowed (d : List (Fire × Nat)) (order : List Fire) : Bool :=
  order.isPerm (d.map (·.1)) && nondecr (order.map (deadlineOf d))

def insertByDeadline (a : Fire × Nat) : List (Fire × Nat) → List (Fire × Nat)
  | [] => [a]
  | b :: tl => if a.2 < b.2 then a :: b :: tl else b :: insertByDeadline a tl

def canonicalOrder (d : List (Fire × Nat)) : List Fire :=
  (d.foldl (fun acc a => insertByDeadline a acc) []).map (·.1)

def advS (s : State) (ms : Nat) (order : List Fire) : State :=
  let s := { s with now := s.now + ms }
  let d := due s
  if orderAllowed d order then order.foldl fireOne s
  else (canonicalOrder d).foldl fireOne { s with log := s.log ++ [.raw "choice-not-allowed"] }

def arriveS (s : State) (c : Nat) (plan : List Step) (warm : List Ready := []) : State :=
  if (lookup s.calls c).isSome then s else { s with calls := s.calls ++ [(c, { plan := plan, warm := warm })] }

def stepS (cfg : Cfg) (s : State) (op : Op) : State :=
  match op with
  | .arrive c plan warm => arriveS s c plan warm
  | .poll c => pollS cfg s c
  | .drop c => dropS s c
  | .adv ms order => advS s ms order
  | .refused c kind v => { s with log := s.log ++ [.result c (.inner kind v)] }

def init : State := {}
def run (cfg : Cfg) (ops : List Op) : State := ops.foldl (stepS cfg) init

/-! ## line protocol -/

def parseOrder (ws : List String) : List Fire :=
  ws.filterMap fun w =>
    if w.startsWith "@done=" then (w.drop 6).toString.toNat?.map Fire.done
    else if w.startsWith "@rdy=" then
      match (w.drop 5).toString.splitOn ":" with
      | [c, i] => match c.toNat?, i.toNat? with
        | some c, some i => some (.rdy c i)
        | _, _ => none
      | _ => none
    else none

/-- `warm=5,0,never,fail` -/
def parseWarm (s : String) : List Ready :=
  ((s.splitOn ",").filter (fun x => !x.isEmpty)).map fun x =>
    if x = "fail" then .fail else match x.toNat? with
      | some d => .after d
      | none => .never

def parseOp (ws : List String) : Option Op :=
  match ws with
  | "arrive" :: c :: rest =>
    -- `svc=`, `lc=`, `h=`, `from=` (which service of the layer, which handle, a reused or a cloned one) make no difference
    if (parseKv rest).str "rdy" "ok" = "err" then some (.refused (c.toNat?.getD 0) 9 0)
    else some (.arrive (c.toNat?.getD 0) (planOf (parseKv rest)) (parseWarm ((parseKv rest).str "warm" "")))
  | "poll" :: c :: _ => some (.poll (c.toNat?.getD 0))
  | "drop" :: c :: _ => some (.drop (c.toNat?.getD 0))
  | "adv" :: ms :: rest => some (.adv (ms.toNat?.getD 0) (parseOrder rest))
  | _ => none

/-- one configured delay: microseconds and "not representable as a deadline". A number is in the header's unit
(`mul` µs); `max` = `Duration::MAX`, `smax` = `Duration::from_secs(u64::MAX)`, `hmax` = `Duration::from_secs(1 << 63)`
(the smallest whole number of seconds that no `Instant` can be moved by), whatever the unit; `dflt` = the documented
default delay of one second -/
def delayTok (mul : Nat) (s : String) : Option (Nat × Bool) :=
  if s = "max" then some ((2 ^ 64 - 1) * 1000000 + 999999, true)
  else if s = "smax" then some ((2 ^ 64 - 1) * 1000000, true)
  else if s = "hmax" then some (2 ^ 63 * 1000000, true)
  else if s = "dflt" then some (1000000, false)
  else s.toNat?.map fun v => (mul * v, false)

/-- `HedgeConfig::default()` — what `HedgeLayer::builder()`, `HedgeConfigBuilder::default()` start from and what
`Hedge::new(inner, HedgeConfig::default())` runs with: the original request plus one hedge, one second later -/
def defaultCfg : Cfg := { max := 2, delay := fun _ => 1000000 }

/-- `HedgeConfigBuilder::max_hedged_attempts(n)`: "including the original request" — there is always the original
request, so `0` means the same as `1` -/
def clampMax (n : Nat) : Nat := Nat.max n 1

/-- `HedgeLayer::new(delay)` = `builder().delay(delay).build()`: a single hedge, `d` µs after the original request
(`nev`: `delay` cannot be added to an `Instant`) -/
def newCfg (d : Nat) (nev : Bool := false) : Cfg := { max := 2, delay := fun _ => d, never := fun _ => nev }

/-- header `[via=builder|dflt|new|direct] max=<n|dflt> d=<ms|dflt> [ds=<ms>,…] [kind=fixed|imm|fn] [unit=ms|us] [name=…]
[listen=1]`; the builder clamps `max` to ≥ 1 (`max=0` is a legal argument); `max=dflt`/`d=dflt`: the setter is not
called; `unit=us`: `d` and `ds` are microseconds; `d` and the entries of `ds` may be `max`/`smax`/`hmax`;
`via=new`: `HedgeLayer::new(d)`; `via=direct`: no builder at all, the default configuration; `name`, `nameat`, `listen`
(and `via=dflt`, the builder made by its `Default` impl) change nothing -/
def cfgOf (kv : Kv) : Cfg :=
  let mul := if kv.str "unit" "ms" = "us" then 1 else 1000
  let d := (delayTok mul (kv.str "d" "0")).getD (0, false)
  let ds := ((kv.str "ds" "").splitOn ",").filterMap (delayTok mul)
  let kind := kv.str "kind" "fixed"
  let dl := fun (n : Nat) =>
    if kind = "imm" then (0, false)
    else if kind = "fn" then (if 1 ≤ n then ds.getD (n - 1) d else d)
    else d
  if kv.str "via" "builder" = "direct" then defaultCfg
  else if kv.str "via" "builder" = "new" then newCfg d.1 d.2
  else { max := clampMax (kv.nat "max" defaultCfg.max), delay := fun n => (dl n).1, never := fun n => (dl n).2 }

/-! ## what a caller reads off an error through `HedgeError`'s accessors -/

structure Acc where
  allFailed : Bool          -- `is_all_attempts_failed()`
  isInner   : Bool          -- `is_inner()`
  ref       : Nat × Nat     -- `inner()`: kind and serial of the inner error
  into      : Nat × Nat     -- `into_inner()` (of a clone of the error)
deriving DecidableEq, Repr

/-- the accessors' answers for each result a caller can get (`none`: not an error value of the layer) -/
def accessors : Res → Option Acc
  | .allFailed k v => some ⟨true, false, (k, v), (k, v)⟩
  | .inner k v => some ⟨false, true, (k, v), (k, v)⟩
  | _ => none

def Acc.render (a : Acc) : String :=
  s!"acc=af:{if a.allFailed then 1 else 0},in:{if a.isInner then 1 else 0},ref:inner{a.ref.1}:{a.ref.2},into:inner{a.into.1}:{a.into.2}"

/-- the result line of a caller that inspects its error (`arrive … acc=1`) carries the accessors' answers -/
def withAcc (accs : List Nat) : Ev → Ev
  | .result c r =>
    if accs.contains c then
      match accessors r with
      | some a => .result c (.custom s!"{r.render} {a.render}")
      | none => .result c r
    else .result c r
  | e => e

def machine : Machine where
  σ := Cfg × State × List Nat
  init kv := (cfgOf kv, init, [])
  step := fun (cfg, s, accs) ws =>
    let accs := match ws with
      | "arrive" :: c :: rest => if (parseKv rest).nat "acc" 0 = 1 then (c.toNat?.getD 0) :: accs else accs
      | _ => accs
    match parseOp ws with
    | some op => let s' := stepS cfg s op; ((cfg, s', accs), (s'.log.drop s.log.length).map (withAcc accs))
    | none => ((cfg, s, accs), [])
  now := fun (_, s, _) => s.now

end TR.Hedge
