import TR.Model.Common
import TR.Model.Limit
/-!
# Adaptive limiter service (C13, part B) — `crates/tower-resilience-adaptive/src/{service,layer}.rs`

`AdaptiveService` shares one `in_flight : AtomicUsize` and one algorithm between its clones.

* `poll_ready`: `limit = algorithm.limit()`, `n = in_flight.load()`; `n ≥ limit` → `wake_by_ref`
  and `Pending` (no waker is stored: the caller is told to poll again at once — a busy spin);
  otherwise the inner service's readiness (the scripted inner service is always ready).
  Nothing is reserved: readiness is a *check*, `call` does not look at the limit again.
* `call`: `start = Instant::now()`, `in_flight += 1`, an `InFlightGuard` is created and the inner
  service is called — all inside `call()`, before the returned future is ever polled.
* the future: awaits the inner future; then `latency = start.elapsed()`, the guard is dropped
  (`in_flight -= 1`), then `record_success(latency)` / `record_failure()` (sequential semantics
  of `TR.Limit`: the service runs on one thread here). An inner panic unwinds through the async
  block and drops the guard; dropping the future (polled or not) drops the guard and the inner
  future. Neither gives feedback to the algorithm (`record_dropped` is never called).

Callers: *checked* (a clone passed `poll_ready`, `call` not yet made) → *running* → gone, or
→ *held* for a caller that keeps the finished call future alive (`arrive … keep=1`: a pinned
future polled by reference, a `select!` over `&mut fut`, a stored future replaced only on the
next request) until it lets go of it (`release c`). The guard lives in the async block and is
dropped when the inner await returns, so the slot is free **at completion**: a held future is
not running, is not counted, and dropping it later changes nothing.
One `arrive` of an unchecked caller is clone + `poll_ready` + `call`; one `poll` is one poll of
the call future. `checks` is ghost: every readiness check with the number of calls really
running at that step, the limit at that step and the answer.
-/
namespace TR.Adaptive
open TR.Limit (Cfg Cells FOp)

structure Check where
  who     : Nat          -- caller id (0 for a probe)
  running : Nat          -- calls really in flight at that step (`running.length`)
  limit   : Nat
  refused : Bool
deriving DecidableEq, Repr

structure State where
  now      : Nat := 0
  alg      : Cells                    -- the algorithm's atomics
  inFlight : Nat := 0                 -- the service's `in_flight` counter
  checked  : List Nat := []           -- passed `poll_ready`, `call` not yet made
  running  : List Nat := []           -- call future alive, inner call started and not finished
  keeps    : List Nat := []           -- callers that hold on to their call future after it has resolved (`keep=1`)
  held     : List Nat := []           -- call future resolved (ok / err), the object still alive: NOT in flight
  script   : List (Nat × Step) := []  -- callers that have arrived (admitted or refused)
  startAt  : List (Nat × Nat) := []   -- instant of `call()`
  doneAt   : List (Nat × Nat) := []   -- instant the inner call is ready
  kOf      : List (Nat × Nat) := []
  serial   : Nat := 0
  checks   : List Check := []         -- ghost
  log      : List Ev := []            -- ghost: every event so far
deriving Repr

inductive Op
  | arrive (c : Nat) (sc : Step) (keep : Bool)
  | poll (c : Nat)
  | drop (c : Nat)
  | adv (ms : Nat)
  | check (c : Nat)
  | letGo (c : Nat)               -- `release c`: the caller drops a call future that has already resolved
  | warm (prog : List FOp)
  | probeInFlight
  | probeLimit
  | probeReady
deriving Repr

def emit (s : State) (evs : List Ev) : State := { s with log := s.log ++ evs }

def known (s : State) (c : Nat) : Bool := (lookup s.script c).isSome

/-- the comparison of `poll_ready`: refused iff `in_flight >= algorithm.limit()` -/
def atCapacity (s : State) : Bool := decide (s.inFlight ≥ s.alg.limit)

def recordCheck (s : State) (who : Nat) : State :=
  { s with checks := s.checks ++
      [{ who := who, running := s.running.length, limit := s.alg.limit, refused := atCapacity s }] }

/-- `call()`: counter, guard, inner call -/
def startCall (s : State) (c : Nat) (sc : Step) : State :=
  emit { s with inFlight := s.inFlight + 1, running := s.running ++ [c],
                script := (c, sc) :: s.script, startAt := (c, s.now) :: s.startAt,
                doneAt := (c, s.now + sc.lat) :: s.doneAt, kOf := (c, s.serial) :: s.kOf,
                serial := s.serial + 1 } [.innerCall c s.serial]

def refuse (s : State) (c : Nat) (sc : Step) : State :=
  emit { s with script := (c, sc) :: s.script } [.result c .notReady]

/-- clone, `poll_ready`, `call` -/
def arriveFresh (s : State) (c : Nat) (sc : Step) : State :=
  if atCapacity s then refuse (recordCheck s c) c sc else startCall (recordCheck s c) c sc

/-- a caller whose clone passed `poll_ready` earlier: `call` only -/
def arriveChecked (s : State) (c : Nat) (sc : Step) : State :=
  startCall { s with checked := s.checked.erase c } c sc

/-- the `InFlightGuard` is dropped -/
def release (s : State) (c : Nat) : State :=
  { s with inFlight := s.inFlight - 1, running := s.running.erase c }

/-- the caller said `keep=1`: it will hold on to the call future after it has resolved -/
def noteKeep (s : State) (c : Nat) (keep : Bool) : State :=
  if keep then { s with keeps := c :: s.keeps } else s

/-- the call future has resolved with a value; a caller that keeps it now holds a finished future
(the guard is already gone: this touches neither the counter nor `running`) -/
def hold (s : State) (c : Nat) : State :=
  if c ∈ s.keeps then { s with held := s.held ++ [c] } else s

/-- `release c`: a finished call future is finally dropped — nothing is left in it to release -/
def letGoOp (s : State) (c : Nat) : State := { s with held := s.held.erase c }

def feed (cfg : Cfg) (s : State) (op : FOp) : State := { s with alg := Limit.seqOp cfg s.alg op }

/-- latency measured by the service, in ns -/
def latencyNs (s : State) (c : Nat) : Nat := (s.now - (lookup s.startAt c).getD 0) * 1000000

def complete (cfg : Cfg) (s : State) (c k : Nat) (o : Out) : State :=
  match o with
  | .ok => emit (feed cfg (hold (release s c) c) (.succ (latencyNs s c))) [.innerDone c k .ok, .result c (.ok k)]
  | .err kd => emit (feed cfg (hold (release s c) c) .fail) [.innerDone c k (.err kd), .result c (.inner kd k)]
  -- a panic unwinds through the caller's poll: the future is dropped with it, kept or not
  | .panic => emit (release s c) [.innerDone c k .panic, .result c .panic]
  | .never => s

def pollRunning (cfg : Cfg) (s : State) (c : Nat) : State :=
  match lookup s.doneAt c, lookup s.script c, lookup s.kOf c with
  | some t, some sc, some k => if s.now ≥ t then complete cfg s c k sc.out else s
  | _, _, _ => s

def dropRunning (s : State) (c : Nat) : State :=
  emit (release s c) [.innerDrop c ((lookup s.kOf c).getD 0)]

/-- `manual check`: clone + `poll_ready` now, `call` later -/
def checkOp (s : State) (c : Nat) : State :=
  if known s c ∨ c ∈ s.checked then emit s [.raw "noop"]
  else if atCapacity s then emit (recordCheck s c) [.raw s!"check {c} refused"]
  else emit { recordCheck s c with checked := s.checked ++ [c] } [.raw s!"check {c} ready"]

def warmOp (cfg : Cfg) (s : State) (prog : List FOp) : State :=
  let r := Limit.seqOps cfg s.alg prog
  emit { s with alg := r.1 } [.raw s!"warm {Limit.renderOuts r.2}", .raw s!"limit {r.1.limit}"]

def probeReady (s : State) : State :=
  emit (recordCheck s 0) [.probe s!"ready = {if atCapacity s then 0 else 1}"]

def stepS (cfg : Cfg) (s : State) (op : Op) : State :=
  match op with
  | .adv ms => { s with now := s.now + ms }
  | .arrive c sc keep =>
      if known s c then s
      else if c ∈ s.checked then arriveChecked (noteKeep s c keep) c sc
      else arriveFresh (noteKeep s c keep) c sc
  | .poll c => if c ∈ s.running then pollRunning cfg s c else s
  | .drop c => if c ∈ s.running then dropRunning s c else s
  | .check c => checkOp s c
  | .letGo c => letGoOp s c
  | .warm prog => warmOp cfg s prog
  | .probeInFlight => emit s [.probe s!"in_flight = {s.inFlight}"]
  | .probeLimit => emit s [.probe s!"limit = {s.alg.limit}"]
  | .probeReady => probeReady s

def init (cfg : Cfg) : State := { alg := Limit.initCells cfg }
def run (cfg : Cfg) (ops : List Op) : State := ops.foldl (stepS cfg) (init cfg)

/-! ## line protocol -/

def parseOp (ws : List String) : Option Op :=
  match ws with
  | "arrive" :: c :: rest =>
      let plan := planOf (parseKv rest)
      some (.arrive (c.toNat?.getD 0) (plan.headD { lat := 0, out := .ok }) ((parseKv rest).nat "keep" 0 == 1))
  | "release" :: c :: _ => some (.letGo (c.toNat?.getD 0))
  | "poll" :: c :: _ => some (.poll (c.toNat?.getD 0))
  | "drop" :: c :: _ => some (.drop (c.toNat?.getD 0))
  | "adv" :: ms :: _ => some (.adv (ms.toNat?.getD 0))
  | "manual" :: "check" :: rest => some (.check ((parseKv rest).nat "c" 0))
  | "manual" :: "warm" :: rest => some (.warm (Limit.parseProg ((parseKv rest).str "prog" "").toList))
  | "probe" :: "in_flight" :: _ => some .probeInFlight
  | "probe" :: "limit" :: _ => some .probeLimit
  | "probe" :: "ready" :: _ => some .probeReady
  | _ => none

def machine : Machine where
  σ := Cfg × State
  init kv := let cfg := Limit.parseCfg kv; (cfg, init cfg)
  step := fun (cfg, s) ws =>
    match parseOp ws with
    | some op => let s' := stepS cfg s op; ((cfg, s'), s'.log.drop s.log.length)
    | none => ((cfg, s), [])
  now := fun (_, s) => s.now

end TR.Adaptive
